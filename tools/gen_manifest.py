#!/usr/bin/env python3
"""Regenerates /verif/MANIFEST.json from tools/props.py (claimed properties) — run by hand after
editing props.py."""
import json, os, sys
ROOT = os.path.dirname(os.path.dirname(os.path.abspath(__file__)))
sys.path.insert(0, os.path.join(ROOT, 'tools'))
from props import PROPS
ids = ['C%02d' % i for i in range(1, 21)]
NA = {}
if os.path.exists(os.path.join(ROOT, 'tools', 'not_applicable.json')):
    NA = json.load(open(os.path.join(ROOT, 'tools', 'not_applicable.json')))
checks = []
for pid in ids:
    if pid not in PROPS:
        continue
    P = PROPS[pid]
    checks.append({
        "property_id": pid,
        "quick_cmd": "./vcheck %s --tier quick" % pid,
        "thorough_cmd": "./vcheck %s --tier thorough" % pid,
        "evidence_file": "/verif/evidence/%s.json" % pid,
        "replay_cmd_template": "./vcheck %s --replay {path}" % pid,
        "engine": "coq-model+correspondence",
        "level_claimed": {
            "category": "proof",
            "text": P.get('level_text', "Coq theorems (closed under the global context, Print Assumptions checked on every run) about an executable Gallina model, for all inputs/histories the property quantifies over; the model is tied to the current source on every run by constants regenerated from the source and a step-by-step correspondence run against the real code (same operations, every observation and the internal state compared)") + ((" Partial: " + P['partial']) if P.get('partial') else ""),
            "design_ref": "DESIGN.md section 6, " + pid},
        "level_note": "trusted: Coq 8.16.1 kernel + vm_compute, extraction (ExtrOcamlBasic only), model/driver.ml, the Rust harness and the src/verif.rs facades; theorems are about the model; i64 overflow excluded (D10). " + "; ".join(P.get('assumptions', [])[2:]),
        "technique": P.get('technique', "machine-checked proof in Coq (invariants by induction over operations, finite sweeps lifted with forallb_forall) + differential correspondence model vs implementation"),
    })
man = {
    "version": 1,
    "setup_cmd": "./setup.sh",
    "hooks": {"guard": "transparencies_stretto_verif",
              "enable": "RUSTFLAGS=\"--cfg transparencies_stretto_verif\" cargo build (the harness crate path-depends on /repo)",
              "baseline_off_cmd": "cd /repo && CARGO_NET_OFFLINE=true cargo test --workspace --no-fail-fast --offline",
              "source_commits": ["b239f7a", "2faf300", "351b656", "52d1b36"], "add_only": False},
    "engines": [{"name": "coq-model+correspondence", "path": "/verif/vcheck", "serves_properties": [c['property_id'] for c in checks],
                 "kind_free_text": "Coq 8.16 development in /verif/theories (model + theorems), extracted to OCaml (model/), compared step by step with the real code driven by /verif/harness"}],
    "checks": checks,
    "notes": "add_only is false for one hook line only: the std::time import in src/ttl.rs is split in two cfg-gated imports so that SystemTime resolves to the virtual clock under the guard (commit 2faf300). All other hook lines are additions.",
    "not_applicable": [{"property_id": i, "reason": NA.get(i, "check still under construction in this build session (not a claim that the technique cannot apply)")} for i in ids if i not in PROPS],
}
json.dump(man, open(os.path.join(ROOT, 'MANIFEST.json'), 'w'), indent=1)
print('claimed:', [c['property_id'] for c in checks])
