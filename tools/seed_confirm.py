#!/usr/bin/env python3
"""Confirms a seeded mutation in its scratch worktree by running the commands its author listed:
the suite must pass with the mutation, the demonstration must fail with it and pass without it.
usage: seed_confirm.py <worktree> <mutdir>"""
import json, subprocess, sys, re, os
wt, mut = sys.argv[1], sys.argv[2]
meta = json.load(open(os.path.join(mut, 'meta.json')))
env = dict(os.environ, CARGO_NET_OFFLINE='true')
subprocess.run('git checkout -- . && git clean -fdq -e out -e target', shell=True, cwd=wt)
res = []
last_demo = None
for cmd in meta['commands']:
    c = cmd.split('   #')[0].strip()
    if not c:
        continue
    p = subprocess.run(c, shell=True, cwd=wt, env=env, stdout=subprocess.PIPE, stderr=subprocess.STDOUT)
    out = p.stdout.decode('utf-8', 'replace')
    tr = re.findall(r'test result: (\w+)\. (\d+) passed; (\d+) failed', out)
    res.append((c[:110], p.returncode, tr))
    print('rc=%s %s %s' % (p.returncode, tr, c[:140]))
    if 'cargo test' in c and '--workspace' not in c:
        last_demo = c
    if 'git checkout --' in c and not c.rstrip().endswith('-- .') and last_demo:
        p = subprocess.run(last_demo, shell=True, cwd=wt, env=env, stdout=subprocess.PIPE, stderr=subprocess.STDOUT)
        out = p.stdout.decode('utf-8', 'replace')
        tr = re.findall(r'test result: (\w+)\. (\d+) passed; (\d+) failed', out)
        print('RERUN-WITHOUT-MUTATION rc=%s %s %s' % (p.returncode, tr, last_demo[:120]))
subprocess.run('git checkout -- . && git clean -fdq -e out -e target', shell=True, cwd=wt)
