#!/bin/sh
# usage: seedrun.sh <patch.diff> <prop> [<prop> ...]  — applies the patch to /repo, runs the quick
# checks of the given properties, and restores /repo straight afterwards.
patch="$1"; shift
cd /repo || exit 2
git diff --quiet || { echo "/repo is dirty"; exit 2; }
git apply "$patch" || { echo "patch does not apply"; exit 2; }
for p in "$@"; do
  (cd /verif && ./vcheck "$p" --tier quick 2>&1 | grep -E "^(OK|VIOLATION|KNOWN-FINDING|  )" | cut -c1-400 | head -8)
done
git checkout -- . && git status --short | head -3
