#!/bin/sh
# usage: seed_regress.sh [<seed-dir-name> ...] — applies every seeded change in /verif/seeded to /repo in
# turn, runs the quick check of its property and reports whether it was caught (restores /repo each time).
cd /verif || exit 2
VERIF_NO_SEARCH=1; export VERIF_NO_SEARCH
if [ $# -gt 0 ]; then list="$*"; else list=$(ls seeded); fi
for s in $list; do
  prop=$(echo "$s" | cut -c1-3)
  out=$(tools/seedrun.sh /verif/seeded/$s/patch.diff $prop 2>&1)
  if echo "$out" | grep -q "^VIOLATION property=$prop"; then
    kind=$(echo "$out" | grep "^VIOLATION property=$prop" | head -1 | grep -q "no-failing-input-found" && echo "divergence-only" || echo "monitor")
    echo "CAUGHT $s $kind"
  else
    echo "MISSED $s"; echo "$out" | head -5
  fi
done
