"""Per-property configuration of vcheck: which theorem file, which correspondence suites
(suite, cases quick, cases thorough, extra harness args), what counts as non-trivial."""

AXIOM_ALLOWLIST = []   # every property theorem is expected to be closed under the global context

TRUSTED_BASE = [
    "Coq 8.16.1 kernel (coqc), vm_compute for finite sweeps and concrete witnesses; no native_compute",
    "axioms: none (Print Assumptions: Closed under the global context for every property theorem)",
    "extraction: ExtrOcamlBasic only (Extract Inductive bool/option/unit/list/prod/sumbool/sumor, Extract Inlined Constant andb/orb); N, Z, positive, nat stay extracted inductives; OCaml 4.13.1 + zarith for printing",
    "model/driver.ml, model/cachedrv.ml (trace parsing, printing, comparison)",
    "the Rust harness /verif/harness and the hook code /repo/src/verif.rs (facades are field readers)",
    "tools/gen_consts.py (regenerates theories/Consts.v from the source), vcheck",
    "modelled, not verified: atomicity of lock-protected sections (parking_lot, crossbeam-channel, async-channel, wg), SeqCst atomics, std HashMap as a finite map, f64 arithmetic in Bloom sizing and ratio(), seahash/xxh64, size_of, thread spawning/timers, unsafe blocks",
]

COMMON_ASSUMPTIONS = [
    "the theorems are about the Gallina model in /verif/theories; the tie to /repo is the correspondence run of this check (same operations, compared observation by observation and state by state)",
    "i64 arithmetic does not overflow (known finding D10): the model uses unbounded Z",
]

PROPS = {
    'C01': {
        'suites': [('policy', 600, 6000, '')],
        'rule': "policy-level histories (adds with costs clustered around the remaining room, cost-changing updates, removes, update_max_cost up/down, clears) on the real LFUPolicy through the facade; state (used, key_costs, max_cost, metrics, sketch, doorkeeper) compared with the model after every step; non-trivial = the case entered the eviction loop at least once; distinct = distinct operation/observation sequences",
        'assumptions': COMMON_ASSUMPTIONS + ["costs are non-negative (the property's quantifier)"],
        'partial': "i64 boundary (D10) excluded by hypothesis; cache-level lifting (every cache step touches the policy only through these operations) is checked by the cache-level correspondence of C06",
    },
    'C07': {
        'suites': [('policy', 600, 6000, '')],
        'rule': "same policy-level histories as C01, with popularity planted through TinyLFU increments so that ties, strict minima and 'incoming strictly less' occur; every loop iteration's sample, chosen minimum, index, cost and room as reported by the add-only observer hook are compared with the model, and the refill is checked for legality; non-trivial = at least one loop iteration",
        'assumptions': COMMON_ASSUMPTIONS + ["hash-map iteration order is an oracle reported by the implementation and checked for legality by the model; theorems hold for every legal oracle"],
        'partial': "",
    },
    'C13': {
        'suites': [('row', 300, 3000, ''), ('sketch', 300, 3000, ''), ('tlfu', 300, 3000, '')],
        'rule': "count-min rows (1-8 bytes, arbitrary byte contents, saturation), sketches for widths 0..70, 127, 129, 1000 with random and code-drawn seeds and hashes with planted collisions, TinyLFU for widths 1..40 and larger across resets and clears; raw row bytes, doorkeeper words and w compared with the model after every step; monitor: estimate >= min(count, 15) between resets; non-trivial = every case (each runs >= 10 mutating steps); distinct = distinct operation/observation sequences",
        'assumptions': COMMON_ASSUMPTIONS + ["hashes are u64 (< 2^64); seeds arbitrary; num_counters <= 2^63 (next_power_of_two overflows beyond)"],
        'partial': "",
    },
    'C14': {
        'suites': [('bloom', 400, 4000, ''), ('tlfu', 150, 1500, ''), ('bloomfp', 27, 27, '')],
        'rule': "Bloom filters for capacities 1..20000 and target rates 0.5..0.001 (and explicit probe counts), hashes random / differing only in high bits / only in low bits / near 2^64, adds, contains, contains_or_add, reset, clear; sizes, exponent, probe count, shift and the raw words compared with the model after every step; monitor: no false negative; plus a seeded false-positive measurement on the implementation (27 configurations x 20000 probes)",
        'assumptions': COMMON_ASSUMPTIONS + ["little-endian byte order (the Rust code addresses bytes inside u64 words)", "Bloom sizing goes through f64 ln/powf/ceil: the harness recomputes (entries, locs) with the same operations and the model checks get_size and the allocated words against them"],
        'partial': "the false-positive-rate clause is decided by the structural theorems (bits are addressed injectively, add sets exactly the probe positions, contains checks exactly them, the array is the smallest power of two >= the design size) plus a deterministic measurement on the implementation with well-mixed hashes (alarm threshold 10 p + 0.01); a probabilistic theorem about seahash is out of reach",
    },
}
