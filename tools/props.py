"""Per-property configuration of vcheck: which theorem file, which correspondence suites
(suite, cases quick, cases thorough, extra harness args), what counts as non-trivial."""

AXIOM_ALLOWLIST = []   # every property theorem is expected to be closed under the global context

TRUSTED_BASE = [
    "Coq 8.16.1 kernel (coqc), vm_compute for finite sweeps and concrete witnesses; no native_compute",
    "axioms: none (Print Assumptions: Closed under the global context for every property theorem)",
    "extraction: ExtrOcamlBasic only (Extract Inductive bool/option/unit/list/prod/sumbool/sumor, Extract Inlined Constant andb/orb); N, Z, positive, nat stay extracted inductives; OCaml 4.13.1 + zarith for printing",
    "model/driver.ml, model/cachedrv.ml (trace parsing, printing, comparison)",
    "the Rust harness /verif/harness and the hook code /repo/src/verif.rs (facades are field readers)",
    "tools/gen_consts.py (regenerates theories/Consts.v from the source), vcheck",
    "modelled, not verified: atomicity of lock-protected sections (parking_lot, crossbeam-channel, async-channel, wg), SeqCst atomics, std HashMap as a finite map, f64 arithmetic in Bloom sizing and ratio(), seahash/xxh64, size_of, thread spawning/timers, unsafe blocks",
]

COMMON_ASSUMPTIONS = [
    "the theorems are about the Gallina model in /verif/theories; the tie to /repo is the correspondence run of this check (same operations, compared observation by observation and state by state)",
    "i64 arithmetic does not overflow (known finding D10): the model uses unbounded Z",
]

CACHE_RULE = "cache-level histories on the real %s driven one scheduling segment at a time by the baton scheduler (virtual clock, controllable cleanup ticker, recorded callbacks): after EVERY segment the result, the callbacks and a full snapshot (store entries with deadlines, expiry buckets, charges, used, max_cost, sketch rows, doorkeeper words, get-ring, buffer and queue lengths, metrics, closed flags) are compared with the Coq model; hash-map iteration orders and select! arms are reported by the implementation and checked for legality by the model; "
SUITE_NOTES = {
    'stress': "suite stress (real parallelism, NOT compared with the model: a test of the model's atomic-step assumption and a search for failing inputs): free-running client threads through clone()d handles of caches of both flavours under Chaos hooks (every yield point costs nothing / a spin / a yield / a short sleep); conservation rounds (lookups, inserts of unique values, get_mut writes, removes, get_ttl, update_max_cost; one round in four on two hot keys with a progress watchdog; a slow only-newer validator in two rounds of three) checked at quiescence, colliding-key rounds (24 threads, values tagged with the conflict hash they were written under), TTL polling while a thread drives the virtual clock, lifecycle rounds (clear / wait / insert / remove in loops, bursts and clear storms racing close()); a case is one round, non-trivial when its threads ran",
    'cacher': "suite cacher: directed schedules around the expiry sweep (the processor stands in front of a due key while a client re-inserts it without TTL / with a new TTL, writes through get_mut or removes it)",
    'defaults': "suite defaults (not compared with the model): the all-default Cache::new / AsyncCache::new, builder setters, borrowed key forms, every handle dropped without close(), an AsyncCache whose background tasks all run on one executor thread",
    'ticker': "suite ticker (not compared with the model): the real cleanup timers of both flavours at two intervals, measured with loose bounds",
}

PROPS = {
    'C01': {
        'suites': [('policy', 600, 6000, ''), ('stress', 60, 600, ''), ('cachet', 200, 2000, '')],
        'rule': "policy-level histories (adds with costs clustered around the remaining room, cost-changing updates, removes, update_max_cost up/down, clears) on the real LFUPolicy through the facade; state (used, key_costs, max_cost, metrics, sketch, doorkeeper) compared with the model after every step; non-trivial = the case entered the eviction loop at least once; distinct = distinct operation/observation sequences",
        'assumptions': COMMON_ASSUMPTIONS + ["costs are non-negative (the property's quantifier)"],
        'partial': "i64 boundary (D10) excluded by hypothesis; cache-level lifting (every cache step touches the policy only through these operations) is checked by the cache-level correspondence of C06",
    },
    'C07': {
        'suites': [('policy', 600, 6000, ''), ('cachet', 200, 2000, ''), ('caches', 150, 1500, '')],
        'rule': "same policy-level histories as C01, with popularity planted through TinyLFU increments so that ties, strict minima and 'incoming strictly less' occur; every loop iteration's sample, chosen minimum, index, cost and room as reported by the add-only observer hook are compared with the model, and the refill is checked for legality; non-trivial = at least one loop iteration",
        'assumptions': COMMON_ASSUMPTIONS + ["hash-map iteration order is an oracle reported by the implementation and checked for legality by the model; theorems hold for every legal oracle"],
        'partial': "",
    },
    'C13': {
        'suites': [('row', 300, 3000, ''), ('sketch', 300, 3000, ''), ('tlfu', 300, 3000, ''), ('cacheqa', 150, 1500, ''), ('caches', 150, 1500, '')],
        'rule': "count-min rows (1-8 bytes, arbitrary byte contents, saturation), sketches for widths 0..70, 127, 129, 1000 with random and code-drawn seeds and hashes with planted collisions, TinyLFU for widths 1..40 and larger across resets and clears; raw row bytes, doorkeeper words and w compared with the model after every step; monitor: estimate >= min(count, 15) between resets; non-trivial = every case (each runs >= 10 mutating steps); distinct = distinct operation/observation sequences",
        'assumptions': COMMON_ASSUMPTIONS + ["hashes are u64 (< 2^64); seeds arbitrary; num_counters <= 2^63 (next_power_of_two overflows beyond)"],
        'partial': "",
    },
    'C14': {
        'suites': [('bloom', 400, 4000, ''), ('tlfu', 150, 1500, ''), ('bloomfp', 27, 27, ''), ('cacheqa', 100, 1000, '')],
        'rule': "Bloom filters for capacities 1..20000 and target rates 0.5..0.001 (and explicit probe counts), hashes random / differing only in high bits / only in low bits / near 2^64, adds, contains, contains_or_add, reset, clear; sizes, exponent, probe count, shift and the raw words compared with the model after every step; monitor: no false negative; plus a seeded false-positive measurement on the implementation (27 configurations x 20000 probes)",
        'assumptions': COMMON_ASSUMPTIONS + ["little-endian byte order (the Rust code addresses bytes inside u64 words)", "Bloom sizing goes through f64 ln/powf/ceil: the harness recomputes (entries, locs) with the same operations and the model checks get_size and the allocated words against them"],
        'partial': "the false-positive-rate clause is decided by the structural theorems (bits are addressed injectively, add sets exactly the probe positions, contains checks exactly them, the array is the smallest power of two >= the design size) plus a deterministic measurement on the implementation with well-mixed hashes (alarm threshold 10 p + 0.01); a probabilistic theorem about seahash is out of reach",
    },
    'C03': {
        'suites': [('cacheq', 300, 3000, ''), ('cachet', 150, 1500, ''), ('cacheqa', 100, 1000, ''), ('cacher', 150, 1500, ''), ('stress', 60, 600, '')],
        'rule': CACHE_RULE % "Cache and AsyncCache" + "TTLs from {1 ns, 0.5 s, 999 999 999 ns, 1 s, 1 s + 1 ns, 1.5 s, 2.3 s, 59 s, 1 h}, clock advances that land on and around second boundaries, re-inserts switching TTL <-> none, neighbours sharing expiry seconds; monitors: nothing served at or after created+ttl, get_ttl = remaining, no-TTL entries always served; non-trivial = every case (>= 20 operations with quiescence between them)",
        'assumptions': COMMON_ASSUMPTIONS + ["the clock is monotone (elapsed().unwrap() panics otherwise; modelled as StepPanic)", "created + d < 2^64 ns"],
        'partial': "",
    },
    'C05': {
        'suites': [('cacheq', 300, 3000, ''), ('cachet', 150, 1500, ''), ('cacheqa', 100, 1000, ''), ('cacher', 150, 1500, ''), ('ticker', 1, 1, ''), ('caches', 150, 1500, '')],
        'rule': CACHE_RULE % "Cache and AsyncCache" + "ticks at arbitrary (late, irregular) virtual times, expiry instants around second boundaries, neighbours in the same bucket being updated / removed / re-TTL'd; monitors: after a tick at T nothing with bucket <= T is resident, only expired entries are swept, each swept value is reported once with its charged cost",
        'assumptions': COMMON_ASSUMPTIONS + ["the real ticker (crossbeam tick / async-io Timer) firing is runtime behaviour: ticks are labels here"],
        'partial': "the real-time firing of the ticker ('plus one cleanup interval') is not modelled: ticks are labels; the listing invariant and the reclamation theorems are proved for collision-free runs (every conflict hash 0); an item written before a cleanup, already due at it and admitted only afterwards is reclaimed by the next cleanup (hypothesis no_stale_admission of C05_listings_stay_later_than_the_last_cleanup)",
    },
    'C09': {
        'suites': [('cachet', 300, 3000, ''), ('cacheq', 100, 1000, ''), ('cacheqa', 100, 1000, ''), ('defaults', 1, 1, ''), ('cachec', 400, 4000, ''), ('stress', 60, 600, '')],
        'rule': CACHE_RULE % "Cache and AsyncCache" + "validators {always, never, new > old, new mod 3 != old mod 3}, insert_if_present on absent / removed / expired-unswept / still-buffered keys; monitor: insert_if_present on a non-resident key leaves the snapshot bit-for-bit unchanged",
        'assumptions': COMMON_ASSUMPTIONS,
        'partial': "",
    },
    'C10': {
        'suites': [('caches', 400, 4000, ''), ('cachesa', 200, 2000, ''), ('cachel', 200, 2000, ''), ('stress', 60, 600, '')],
        'rule': CACHE_RULE % "Cache and AsyncCache" + "three client threads, random interleavings at every yield point (between store update and buffer send, inside the processor's item handling, around the stop handshakes), buffer sizes {1, 2, 3, 16}, wait / clear / close racing; blocked clients are diagnosed from state: a client that never comes back is a MONITOR hit; monitor: what a client sent before a wait() that returned Ok is resident or handed back",
        'assumptions': COMMON_ASSUMPTIONS + ["weak fairness of select! for 'returns in finite time' (the theorem is: never stranded + the processor can always take the next item)"],
        'partial': "finite-time return needs fairness of the randomised select!, which is an assumption about crossbeam / futures",
    },
    'C11': {
        'suites': [('caches', 400, 4000, ''), ('cachesa', 200, 2000, ''), ('cachel', 200, 2000, ''), ('cachecfg', 100, 1000, ''), ('stress', 60, 600, '')],
        'rule': CACHE_RULE % "Cache and AsyncCache" + "clear() issued with 0..buffer-size items buffered, select! arms as the implementation picks them, key re-use after clear with another TTL or none followed by ticks at the old bucket; monitors: values inserted before a completed clear() are not retrievable by lookups that began after it, empty cache at quiescence if nothing was inserted since",
        'assumptions': COMMON_ASSUMPTIONS,
        'partial': "",
    },
    'C12': {
        'suites': [('caches', 400, 4000, ''), ('cachesa', 200, 2000, ''), ('cachel', 300, 3000, ''), ('cachecfg', 100, 1000, ''), ('defaults', 1, 1, ''), ('stress', 60, 600, '')],
        'rule': CACHE_RULE % "Cache and AsyncCache" + "close() racing other operations and other close() calls; monitors: after close() returned Ok every operation that begins is inert and leaves the snapshot unchanged, both workers have left their loops, no client is stuck",
        'assumptions': COMMON_ASSUMPTIONS,
        'partial': "async flavour: close() returns once the stop message is buffered; that the processor then takes it needs fairness of select! (the theorem is: exited or the stop message is pending); OS thread exit and the exit of workers when every handle is dropped without close() are runtime behaviour (observed by the harness: suite defaults drops every handle of both flavours without close() and waits for both workers' exit notes), not theorems",
    },
    'C16': {
        'suites': [('cachet', 400, 4000, ''), ('cacheqa', 150, 1500, ''), ('defaults', 1, 1, ''), ('caches', 150, 1500, '')],
        'rule': CACHE_RULE % "Cache and AsyncCache" + "explicit costs including 0, costers {0, v mod 5 + 1, 7}, both ignore_internal_cost settings (item_size read through the facade), evictions, rejections, sweeps; monitors: charge of a resident value = cost (or coster) + overhead, callback costs equal that",
        'assumptions': COMMON_ASSUMPTIONS + ["quiescence between writes to one key (the property's quantifier); a vetoed plain insert still re-charges the key (upstream behaviour, outside the quantifier)"],
        'partial': "",
    },
    'C18': {
        'suites': [('cachec', 300, 3000, ''), ('keys', 1, 1, ''), ('defaults', 1, 1, ''), ('stress', 60, 600, '')],
        'rule': CACHE_RULE % "Cache" + "a key builder that lets histories force index collisions (same index, conflict 1 / 2 / wildcard 0); monitor: a lookup never returns a value written under the other conflict; plus the 'keys' suite: TransparentKeyBuilder on every supported integer type (boundary, negative, random values) against the model, DefaultKeyBuilder determinism and String/&str agreement (tested, not modelled)",
        'assumptions': COMMON_ASSUMPTIONS + ["DefaultKeyBuilder (seahash + seeded xxh64) and std::hash are not modelled: determinism and borrowed-form agreement are tested by the harness"],
        'partial': "determinism of DefaultKeyBuilder is a test of an unmodelled function",
    },
    'C06': {
        'suites': [('caches', 500, 5000, ''), ('cachesa', 250, 2500, ''), ('cachet', 150, 1500, ''), ('stress', 60, 600, '')],
        'rule': CACHE_RULE % "Cache and AsyncCache" + "three client threads, random interleavings at every yield point (between policy.add and store.try_insert, before each victim, between policy.remove and store.try_remove of a Delete and of a sweep, inside clear), evictions, rejections, sweeps, clears; snapshot equality after every segment checks both sides of the agreement; monitor: at every quiescent point resident keys = charged keys; the corpus replays known finding D9 (index collision)",
        'assumptions': COMMON_ASSUMPTIONS + ["keys are told apart by their index hash (all conflict hashes 0): with colliding keys the statement is false (known finding D9, machine-checked witness C06_collision_refuted)", "no remove reported an error (a Delete lost to a full insert buffer): the property's own exclusion"],
        'partial': "",
    },
    'C20': {
        'suites': [('cachecfg', 400, 4000, ''), ('sketch', 150, 1500, ''), ('bloom', 150, 1500, ''), ('keys', 1, 1, ''), ('ticker', 1, 1, ''), ('defaults', 1, 1, ''), ('stress', 60, 600, '')],
        'rule': CACHE_RULE % "Cache and AsyncCache" + "configurations drawn from num_counters {1..70, 127, 129, 1000}, max_cost {-5, 1, 2, 57, 100, 300}, insert buffer {1, 2, 3, 16}, buffer_items {0, 1, 2, 3, 64}, metrics on/off, ignore_internal_cost on/off, both flavours, followed by inserts (with TTL), lookups, removes, ticks, evictions, clear, close; any panic in a client call or in a worker is caught by the harness (catch_unwind in every actor) and reported; a worker that died shows up as a state divergence or a stuck client; plus the builder's validation (keys suite: zero num_counters / max_cost / buffer size in every combination, on both builders) and sketch/doorkeeper construction for widths 0..70, 127, 129, 1000",
        'assumptions': COMMON_ASSUMPTIONS + ["the clock is monotone (SystemTime going backwards makes Time::elapsed panic: outside the property's quantifier)", "key hashes are u64", "doorkeeper sizing: probes * 2^ceil(log2(max(entries,512))) <= 2^64, i.e. the filter fits in memory"],
        'partial': "'any positive cleanup interval': the ticker is a label in the model and a controllable channel in the cache suites; the real timers are exercised by the suite ticker for two intervals only (a measurement with loose bounds, not a theorem); memory exhaustion for huge num_counters is outside the model",
    },
    'C15': {
        'suites': [('cachet', 300, 3000, ''), ('caches', 300, 3000, ''), ('cachesa', 150, 1500, ''), ('tlfu', 100, 1000, ''), ('stress', 60, 600, '')],
        'rule': CACHE_RULE % "Cache and AsyncCache" + "buffer_items drawn from {0, 1, 2, 3, 64} so that flushes happen every lookup, every few lookups, or never; lookups of resident, absent, expired and removed keys; the policy worker scheduled late so that the bounded(3) queue fills and batches are dropped, and after close; the pending batch (get-ring), the queue length, gets_kept / gets_dropped and the sketch rows / doorkeeper words are part of every compared snapshot; monitor: gets_kept + gets_dropped + pending = lookups made (quiescent profiles)",
        'assumptions': COMMON_ASSUMPTIONS + ["one ring stripe: the sync ring is a pool of RingStripe objects (object-pool crate) and the async one a single mutex-protected stripe; the harness runs clients one segment at a time, so one stripe is in use (which pool slot a thread gets is runtime behaviour)", "key hashes are u64"],
        'partial': "which stripe of the pool a concurrent client obtains is not modelled (each stripe obeys the same theorems; the accounting theorem is per stripe)",
    },
    'C17': {
        'suites': [('cachet', 400, 4000, ''), ('caches', 300, 3000, ''), ('cachesa', 150, 1500, ''), ('cachecfg', 100, 1000, ''), ('policy', 200, 2000, ''), ('stress', 60, 600, '')],
        'rule': CACHE_RULE % "Cache and AsyncCache" + "all eleven counters and the life-expectancy histogram (count, sum, min, max, every bucket) are part of every compared snapshot; cost-decreasing updates (two's-complement CostAdd), evictions, rejections, sweeps, removes, dropped inserts (buffer sizes 1-3), clear; monitors at quiescence: hits + misses = lookups, keys_added - keys_evicted = charged entries, cost_added - cost_evicted = used (wrapping), sets_dropped = inserts of non-resident keys that returned false, histogram count = sum of buckets = evictions of tracked entries since the last clear; the corpus replays D11 (fixed)",
        'assumptions': COMMON_ASSUMPTIONS + ["counters are wrapping u64s: the conservation theorems are equalities modulo 2^64", "no single cost decrease exceeds 2^64 (DeltaOk; it cannot for i64 costs whose difference does not overflow, D10)", "fewer than num_to_keep = 100000 tracked keys (the pruning of start_ts iterates a HashMap and is not modelled)"],
        'partial': "ratio() = hits / (hits + misses) is f64 arithmetic over the two modelled counters: computed and compared by the harness (suite cachet), not a Coq statement; striping of each counter over 256 atomics is abstracted to its sum (stripe index (hash % 25) * 10 < 256)",
    },
    'C19': {
        'suites': [('cachepair', 200, 2000, ''), ('cacheqa', 200, 2000, ''), ('cachesa', 200, 2000, ''), ('cachecfg', 100, 1000, ''), ('defaults', 1, 1, ''), ('stress', 60, 600, '')],
        'rule': CACHE_RULE % "Cache and AsyncCache" + "suite cachepair: every case is one scripted quiescent history (inserts with TTL / costers / validators, updates, lookups, removes, max-cost changes, clock advances, ticks, clear, close, evictions and rejections under tight max_cost) run on Cache and on AsyncCache with the same seeds and the same deterministic internal hasher; each run is compared step by step with the model (flavour flag off / on) and the two runs are compared with each other: every return value, remaining TTL, callback multiset and the full quiescent snapshot (store, expiry buckets, charges, metrics, histogram, sketch, doorkeeper) must be identical; suites cacheqa / cachesa / cachecfg drive the async flavour alone (quiescent, scheduled, every configuration) against the same model as the sync flavour",
        'assumptions': COMMON_ASSUMPTIONS + ["executor: the harness supplies a thread-per-task spawner and steps the two background tasks in every order its scheduler draws; other executors (single-threaded pool, multi-threaded pool) change only which OS thread polls a task between yield points, which the model does not distinguish"],
        'partial': "'any executor supplied as spawner' is runtime behaviour: one spawner (thread per task, block_on) is exercised, with every polling order of the two background tasks at yield-point granularity; 'satisfies every property above' holds because the theorems of C01-C18, C20 are proved for the one transition function that serves both flavours",
    },
    'C02': {
        'suites': [('caches', 400, 4000, ''), ('cachesa', 200, 2000, ''), ('cacheq', 150, 1500, ''), ('cachet', 150, 1500, ''), ('cachec', 100, 1000, ''), ('defaults', 1, 1, ''), ('stress', 60, 600, '')],
        'rule': CACHE_RULE % "Cache and AsyncCache" + "three client threads writing, removing, clearing and looking up the same 3-7 keys with every write carrying a unique value, parked at every yield point (between the store update and the buffer send, between policy.add and store.try_insert, before each victim, inside the sweep), evictions, expiry, clear and close racing; monitors: a lookup returned a value written under another key / a value nobody wrote, a lookup returned a value handed to a callback earlier, a value inserted before a completed clear() is retrievable after it, and in quiescent profiles (cacheq, cachet) the oracle of writes: a lookup returns exactly the last value written with its remaining TTL",
        'assumptions': COMMON_ASSUMPTIONS + ["'never rolled back' is proved for collision-free runs (every conflict hash 0, as with TransparentKeyBuilder; with colliding keys see known finding D9); 'values belong to their key' is proved for every run, index = key"],
        'partial': "'never a value written before the latest remove(k) that had taken effect' is proved in two halves — remove() takes the entry out in its first step, and a resident value is only ever replaced by a later client write to that key — plus the clear() theorem of C11; the exact-last-value clause at quiescence is decided by the oracle monitor on the implementation and the state-by-state correspondence, its refinement theorem is C04's",
    },
    'C08': {
        'suites': [('caches', 400, 4000, ''), ('cachel', 400, 4000, ''), ('cachesa', 200, 2000, ''), ('cachet', 150, 1500, ''), ('stress', 60, 600, '')],
        'rule': CACHE_RULE % "Cache and AsyncCache" + "every write carries a unique value; updates racing evictions, removes racing admissions, sweeps, rejections, validator vetoes, dropped inserts; suite cachel is lifecycle-heavy (half inserts, the rest wait / clear / close / remove from three clients, both flavours) so that inserts straddle the clear and the stop handshake of close(); callbacks are recorded and compared step by step; monitors: a value handed to callbacks twice, an accepted value neither resident nor handed back nor dropped by clear / overwritten in place (at quiescence), a lookup returning a value after it was handed back; the corpus replays known finding D9 (index collision: an admitted value silently declined by the store)",
        'assumptions': COMMON_ASSUMPTIONS + ["keys are told apart by their index hash (every conflict hash 0): with colliding keys the statement is false (known finding D9, machine-checked witness C08_collision_refuted)", "a get_mut write replaces the value in place: the overwritten value is dropped by the assignment, not by the cache (counted under 'lost', like the values clear() drops)"],
        'partial': "",
    },
    'C04': {
        'suites': [('cacheq', 400, 4000, ''), ('cacheqb', 300, 3000, ''), ('cachepair', 100, 1000, ''), ('cacher', 150, 1500, '')],
        'rule': CACHE_RULE % "Cache and AsyncCache" + "suites cacheq / cacheqb (sync; either flavour): max_cost 100000 so that the total cost always fits, insert buffer 64, every operation run to quiescence; inserts with TTLs {1 ns .. 1 h} and without, re-inserts switching TTL <-> none, removes, clears, lookups, get_ttl, clock advances landing on and around second boundaries, ticks at irregular times, key re-use after clear; the harness runs an oracle map with TTLs in lockstep (monitor: every lookup and every get_ttl must equal the oracle's answer, on_evict for unexpired entries and on_reject must never fire), and the expiry buckets, charges and store are compared with the model after every segment",
        'assumptions': COMMON_ASSUMPTIONS + ["quiescence between operations (the property's own quantifier: 'at quiescent points'); with concurrent clients a Delete queued by a remove() that overlaps a later insert of the same key can take that insert out (the item protocol orders effects by buffer position, see DESIGN.md)", "fewer than num_to_keep = 100000 tracked keys when metrics are on"],
        'partial': "the refinement to a map with TTLs is proved operation by operation (insert of a new key, re-insert, remove, lookup, each from an arbitrary quiescent state to the next, plus retention / no-eviction / sweep-only-expired for every step); the induction over a whole history and the tick's end-to-end lemma (it iterates a hash map in an order reported by the implementation) are carried by the oracle monitor and the correspondence, not by one theorem",
    },
}
