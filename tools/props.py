"""Per-property configuration of vcheck: which theorem file, which correspondence suites
(suite, cases quick, cases thorough, extra harness args), what counts as non-trivial."""

AXIOM_ALLOWLIST = []   # every property theorem is expected to be closed under the global context

TRUSTED_BASE = [
    "Coq 8.16.1 kernel (coqc), vm_compute for finite sweeps and concrete witnesses; no native_compute",
    "axioms: none (Print Assumptions: Closed under the global context for every property theorem)",
    "extraction: ExtrOcamlBasic only (Extract Inductive bool/option/unit/list/prod/sumbool/sumor, Extract Inlined Constant andb/orb); N, Z, positive, nat stay extracted inductives; OCaml 4.13.1 + zarith for printing",
    "model/driver.ml, model/cachedrv.ml (trace parsing, printing, comparison)",
    "the Rust harness /verif/harness and the hook code /repo/src/verif.rs (facades are field readers)",
    "tools/gen_consts.py (regenerates theories/Consts.v from the source), vcheck",
    "modelled, not verified: atomicity of lock-protected sections (parking_lot, crossbeam-channel, async-channel, wg), SeqCst atomics, std HashMap as a finite map, f64 arithmetic in Bloom sizing and ratio(), seahash/xxh64, size_of, thread spawning/timers, unsafe blocks",
]

COMMON_ASSUMPTIONS = [
    "the theorems are about the Gallina model in /verif/theories; the tie to /repo is the correspondence run of this check (same operations, compared observation by observation and state by state)",
    "i64 arithmetic does not overflow (known finding D10): the model uses unbounded Z",
]

PROPS = {
    'C01': {
        'suites': [('policy', 600, 6000, '')],
        'rule': "policy-level histories (adds with costs clustered around the remaining room, cost-changing updates, removes, update_max_cost up/down, clears) on the real LFUPolicy through the facade; state (used, key_costs, max_cost, metrics, sketch, doorkeeper) compared with the model after every step; non-trivial = the case entered the eviction loop at least once; distinct = distinct operation/observation sequences",
        'assumptions': COMMON_ASSUMPTIONS + ["costs are non-negative (the property's quantifier)"],
        'partial': "i64 boundary (D10) excluded by hypothesis; cache-level lifting (every cache step touches the policy only through these operations) is checked by the cache-level correspondence of C06",
    },
    'C07': {
        'suites': [('policy', 600, 6000, '')],
        'rule': "same policy-level histories as C01, with popularity planted through TinyLFU increments so that ties, strict minima and 'incoming strictly less' occur; every loop iteration's sample, chosen minimum, index, cost and room as reported by the add-only observer hook are compared with the model, and the refill is checked for legality; non-trivial = at least one loop iteration",
        'assumptions': COMMON_ASSUMPTIONS + ["hash-map iteration order is an oracle reported by the implementation and checked for legality by the model; theorems hold for every legal oracle"],
        'partial': "",
    },
}
