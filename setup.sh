#!/bin/sh
# Builds the whole framework from files on disk only (offline): Consts.v from the source, the Coq
# development (full .vo build), the extracted model runner and the Rust harness with hooks on.
set -e
cd "$(dirname "$0")"
export CARGO_NET_OFFLINE=true
mkdir -p .work evidence
python3 tools/gen_consts.py /repo theories/Consts.v
(cd theories && coq_makefile -f _CoqProject -o Makefile >/dev/null && make -j16)
make -C model
[ -f harness/Cargo.lock ] || cp /repo/Cargo.lock harness/Cargo.lock
(cd harness && RUSTFLAGS="--cfg transparencies_stretto_verif" CARGO_TARGET_DIR=../.work/target cargo build --offline)
echo setup-ok
