(* Design probe (throw-away, not part of the framework): the C06 interleaving invariant on a
   reduced LTS -- key sets only, collision-free keys, clear() executed by the processor as in the
   planned D7 repair.  Shows that "store keys = charged keys at quiescence" has an inductive
   invariant of three conjuncts (resident-uncharged => processor about to remove it;
   charged-absent => being inserted, or a Delete is on its way, or the clear is draining;
   program-point consistency: victims / deleted / swept keys are already uncharged), closed under
   the global context.  The real Cache.v refines this with values, conflicts, costs and time. *)
From Coq Require Import List NArith Lia Bool.
Import ListNotations.

(* Reduced LTS: key sets only, collision-free, clear executed by the processor (post-fix design). *)
Definition key := N.
Inductive item := New (k:key) | Upd (k:key) | Del (k:key) | Wait.
Inductive pcs :=
| Idle
| AfterAdd (k:key) (vs:list key) (added:bool)
| Victims (rest:list key)
| DelAfterPolicy (k:key)
| CleanAfterPolicy (k:key)
| Draining | ClearStore.

Record st := mk { S : list key; P : list key; B : list item; Q : list item; pc : pcs; err : bool }.

Definition rem (k:key) (l:list key) := filter (fun x => negb (N.eqb x k)) l.
Definition rems (vs l:list key) := filter (fun x => negb (existsb (N.eqb x) vs)) l.
Lemma in_rem k x l : In x (rem k l) <-> In x l /\ x <> k.
Proof. unfold rem. rewrite filter_In, negb_true_iff, N.eqb_neq. tauto. Qed.
Lemma in_rems vs x l : In x (rems vs l) <-> In x l /\ ~ In x vs.
Proof. unfold rems. rewrite filter_In, negb_true_iff. split; intros [A Bb]; split; auto.
  - intros H. assert (existsb (N.eqb x) vs = true) by (apply existsb_exists; exists x; split; auto; apply N.eqb_refl). congruence.
  - destruct (existsb (N.eqb x) vs) eqn:E; auto. apply existsb_exists in E. destruct E as (y & Hy & E). apply N.eqb_eq in E. subst. tauto. Qed.

(* remove one occurrence of a pending item *)
Inductive take1 : item -> list item -> list item -> Prop :=
| take_here i l : take1 i (i::l) l
| take_later i j l l' : take1 i l l' -> take1 i (j::l) (j::l').
Lemma take1_in i l l' j : take1 i l l' -> In j l -> j = i \/ In j l'.
Proof.
  intros H; induction H as [i l|i j0 l l' H IH]; simpl; intros Hj.
  - destruct Hj as [Hj|Hj]; [left; symmetry; exact Hj | right; exact Hj].
  - destruct Hj as [Hj|Hj]; [right; left; exact Hj|].
    destruct (IH Hj) as [E|E]; [left; exact E | right; right; exact E].
Qed.

Inductive step : st -> st -> Prop :=
(* client: first half of insert; key absent -> New pending, resident -> value swapped, Upd pending *)
| c_update_absent s k : ~ In k (S s) -> step s (mk (S s) (P s) (B s) (New k :: Q s) (pc s) (err s))
| c_update_resident s k : In k (S s) -> step s (mk (S s) (P s) (B s) (Upd k :: Q s) (pc s) (err s))
(* client: second half; the buffer may be full: New/Upd silently dropped, Del reports an error *)
| c_send_ok s i q' : take1 i (Q s) q' -> step s (mk (S s) (P s) (B s ++ [i]) q' (pc s) (err s))
| c_send_full s i q' : take1 i (Q s) q' ->
    step s (mk (S s) (P s) (B s) q' (pc s) (match i with Del _ => true | _ => err s end))
(* client: remove = store delete now, Delete queued *)
| c_remove s k : step s (mk (rem k (S s)) (P s) (B s) (Del k :: Q s) (pc s) (err s))
| c_wait s : step s (mk (S s) (P s) (B s) (Wait :: Q s) (pc s) (err s))
(* processor takes an item *)
| p_new_update s k b : pc s = Idle -> B s = New k :: b -> In k (P s) ->
    step s (mk (S s) (P s) b (Q s) Idle (err s))
| p_new_add s k b vs (added:bool) : pc s = Idle -> B s = New k :: b -> ~ In k (P s) ->
    (forall v, In v vs -> v <> k) ->   (* victims come from the charged keys, possibly repeated/stale *)
    step s (mk (S s) (if added then k :: rems vs (P s) else rems vs (P s)) b (Q s) (AfterAdd k vs added) (err s))
| p_new_insert s k vs : pc s = AfterAdd k vs true ->
    step s (mk (k :: rem k (S s)) (P s) (B s) (Q s) (Victims vs) (err s))
| p_new_reject s k vs : pc s = AfterAdd k vs false ->
    step s (mk (S s) (P s) (B s) (Q s) (Victims vs) (err s))
| p_victim s v rest : pc s = Victims (v :: rest) ->
    step s (mk (rem v (S s)) (P s) (B s) (Q s) (Victims rest) (err s))
| p_victims_done s : pc s = Victims [] -> step s (mk (S s) (P s) (B s) (Q s) Idle (err s))
| p_upd s k b : pc s = Idle -> B s = Upd k :: b -> step s (mk (S s) (P s) b (Q s) Idle (err s))
| p_waititem s b : pc s = Idle -> B s = Wait :: b -> step s (mk (S s) (P s) b (Q s) Idle (err s))
| p_del s k b : pc s = Idle -> B s = Del k :: b ->
    step s (mk (S s) (rem k (P s)) b (Q s) (DelAfterPolicy k) (err s))
| p_del_store s k : pc s = DelAfterPolicy k -> step s (mk (rem k (S s)) (P s) (B s) (Q s) Idle (err s))
(* sweep of one (expired) resident key: policy.remove then store.try_remove *)
| p_clean s k : pc s = Idle -> In k (S s) -> step s (mk (S s) (rem k (P s)) (B s) (Q s) (CleanAfterPolicy k) (err s))
| p_clean_store s k : pc s = CleanAfterPolicy k -> step s (mk (rem k (S s)) (P s) (B s) (Q s) Idle (err s))
(* clear, executed by the processor: drain the buffer item by item, clear policy, clear store *)
| p_clear_start s : pc s = Idle -> step s (mk (S s) (P s) (B s) (Q s) Draining (err s))
| p_drain_one s i b : pc s = Draining -> B s = i :: b -> step s (mk (S s) (P s) b (Q s) Draining (err s))
| p_clear_policy s : pc s = Draining -> B s = [] -> step s (mk (S s) [] (B s) (Q s) ClearStore (err s))
| p_clear_store s : pc s = ClearStore -> step s (mk [] (P s) (B s) (Q s) Idle (err s)).

Definition removing (s:st) (k:key) : Prop :=
  match pc s with
  | AfterAdd _ vs _ => In k vs
  | Victims rest => In k rest
  | DelAfterPolicy k' => k' = k
  | CleanAfterPolicy k' => k' = k
  | ClearStore => True
  | _ => False end.
Definition adding (s:st) (k:key) : Prop :=
  match pc s with AfterAdd k' _ true => k' = k | Draining => True | _ => False end.



Definition pc_ok (s:st) : Prop :=
  match pc s with
  | AfterAdd k vs added => (added = true -> In k (P s)) /\ (forall v, In v vs -> v <> k) /\ (forall v, In v vs -> ~ In v (P s))
  | Victims rest => forall v, In v rest -> ~ In v (P s)
  | DelAfterPolicy k => ~ In k (P s)
  | CleanAfterPolicy k => ~ In k (P s)
  | ClearStore => P s = []
  | _ => True end.

Definition Agree (s:st) : Prop :=
  (forall k, In k (S s) -> ~ In k (P s) -> removing s k) /\
  (forall k, In k (P s) -> ~ In k (S s) -> adding s k \/ In (Del k) (Q s) \/ In (Del k) (B s) \/ err s = true) /\
  pc_ok s.

Definition init := mk [] [] [] [] Idle false.
Lemma Agree_init : Agree init. Proof. repeat split; simpl; tauto. Qed.

Ltac inv_in := repeat match goal with
  | H : In _ (rem _ _) |- _ => apply in_rem in H; destruct H
  | H : In _ (rems _ _) |- _ => apply in_rems in H; destruct H
  end.

(* S loses key x (or everything): generic preservation of A2 *)
Theorem Agree_step s s' : Agree s -> step s s' -> Agree s'.
Proof.
  intros (A1 & A2 & A3) Hs. unfold Agree, removing, adding, pc_ok in *.
  destruct Hs; simpl in *;
  repeat match goal with H : pc _ = _ |- _ => rewrite H in * end;
  repeat match goal with H : B _ = _ |- _ => rewrite H in * end; simpl in *;
  (split; [intros k0 H1' H2' | split; [intros k0 H1' H2' | ]]).
  (* c_update_absent *)
  - exact (A1 k0 H1' H2').
  - destruct (A2 k0 H1' H2') as [?|[?|[?|?]]]; auto.
  - auto.
  (* c_update_resident *)
  - exact (A1 k0 H1' H2').
  - destruct (A2 k0 H1' H2') as [?|[?|[?|?]]]; auto.
  - auto.
  (* c_send_ok *)
  - exact (A1 k0 H1' H2').
  - destruct (A2 k0 H1' H2') as [?|[Hq|[?|?]]]; auto.
    + destruct (take1_in _ _ _ _ H Hq) as [E|]; auto. subst i. right; right; left. apply in_or_app; right; left; auto.
    + right; right; left. apply in_or_app; auto.
  - auto.
  (* c_send_full *)
  - exact (A1 k0 H1' H2').
  - destruct (A2 k0 H1' H2') as [?|[Hq|[?|?]]]; auto.
    + destruct (take1_in _ _ _ _ H Hq) as [E|]; auto. subst i. right; right; right; reflexivity.
    + destruct i; auto.
  - auto.
  (* c_remove *)
  - apply in_rem in H1'; destruct H1' as [Hin Hne]. apply A1; auto.
  - destruct (N.eq_dec k0 k) as [->|Hne]; [right; left; left; auto|].
    assert (Hns : ~ In k0 (S s)) by (intros HH; apply H2'; apply in_rem; auto).
    destruct (A2 k0 H1' Hns) as [?|[?|[?|?]]]; auto.
  - auto.
  (* c_wait *)
  - exact (A1 k0 H1' H2').
  - destruct (A2 k0 H1' H2') as [?|[?|[?|?]]]; auto.
  - auto.
  (* p_new_update *)
  - destruct (A1 k0 H1' H2').
  - destruct (A2 k0 H1' H2') as [[]|[?|[[Hx|?]|?]]]; auto. discriminate.
  - auto.
  (* p_new_add *)
  - destruct (in_dec N.eq_dec k0 vs); auto. exfalso.
    assert (Hnp : ~ In k0 (P s)). { intros HH. apply H2'. destruct added; [right|]; apply in_rems; auto. }
    apply (A1 k0 H1' Hnp).
  - assert (k0 = k /\ added = true \/ In k0 (P s) /\ ~ In k0 vs) as [[-> ->]|[Hp Hv]].
    { destruct added; [destruct H1' as [<-|H1']; [left; auto|]|]; inv_in; auto. }
    + left; reflexivity.
    + destruct (A2 k0 Hp H2') as [[]|[?|[[Hx|?]|?]]]; auto. discriminate.
  - split; [intros ->; left; reflexivity|]. split; [exact H2|].
    intros v Hv HH. destruct added; [destruct HH as [<-|HH]; [apply (H2 _ Hv); reflexivity|]|]; inv_in; auto.
  (* p_new_insert *)
  - destruct A3 as (A3 & A4 & A5). destruct H1' as [<-|H1']; [exfalso; auto|]. inv_in. apply A1; auto.
  - destruct A3 as (A3 & A4 & A5). destruct (N.eq_dec k0 k) as [->|Hne]; [exfalso; apply H2'; left; auto|].
    assert (Hns : ~ In k0 (S s)). { intros HH. apply H2'. right. apply in_rem; auto. }
    destruct (A2 k0 H1' Hns) as [Hk|[?|[?|?]]]; auto; exfalso; auto.
  - destruct A3 as (A3 & A4 & A5). auto.
  (* p_new_reject *)
  - exact (A1 k0 H1' H2').
  - destruct (A2 k0 H1' H2') as [[]|[?|[?|?]]]; auto.
  - destruct A3 as (A3 & A4 & A5). auto.
  (* p_victim *)
  - apply in_rem in H1'; destruct H1' as [Hin Hne]. destruct (A1 k0 Hin H2') as [E|]; auto. congruence.
  - destruct (in_dec N.eq_dec k0 (S s)) as [i|n].
    + assert (k0 = v). { destruct (N.eq_dec k0 v); auto. exfalso. apply H2'. apply in_rem; auto. } subst.
      exfalso. apply (A3 v); [left; auto | auto].
    + destruct (A2 k0 H1' n) as [[]|[?|[?|?]]]; auto.
  - intros v0 Hv. apply A3. right; auto.
  (* p_victims_done *)
  - destruct (A1 k0 H1' H2').
  - destruct (A2 k0 H1' H2') as [[]|[?|[?|?]]]; auto.
  - auto.
  (* p_upd *)
  - destruct (A1 k0 H1' H2').
  - destruct (A2 k0 H1' H2') as [[]|[?|[[Hx|?]|?]]]; auto. discriminate.
  - auto.
  (* p_waititem *)
  - destruct (A1 k0 H1' H2').
  - destruct (A2 k0 H1' H2') as [[]|[?|[[Hx|?]|?]]]; auto. discriminate.
  - auto.
  (* p_del *)
  - destruct (N.eq_dec k k0); auto. exfalso.
    assert (Hnp : ~ In k0 (P s)). { intros HH. apply H2'. apply in_rem; auto. } destruct (A1 k0 H1' Hnp).
  - apply in_rem in H1'; destruct H1' as [Hin Hne]. destruct (A2 k0 Hin H2') as [[]|[?|[[Hx|?]|?]]]; auto. congruence.
  - intros HH. inv_in. auto.
  (* p_del_store *)
  - apply in_rem in H1'; destruct H1' as [Hin Hne]. pose proof (A1 k0 Hin H2'). congruence.
  - destruct (in_dec N.eq_dec k0 (S s)) as [i|n].
    + assert (k0 = k). { destruct (N.eq_dec k0 k); auto. exfalso. apply H2'. apply in_rem; auto. } subst. tauto.
    + destruct (A2 k0 H1' n) as [[]|[?|[?|?]]]; auto.
  - auto.
  (* p_clean *)
  - destruct (N.eq_dec k k0); auto. exfalso.
    assert (Hnp : ~ In k0 (P s)). { intros HH. apply H2'. apply in_rem; auto. } destruct (A1 k0 H1' Hnp).
  - apply in_rem in H1'; destruct H1' as [Hin Hne]. destruct (A2 k0 Hin H2') as [[]|[?|[?|?]]]; auto.
  - intros HH. inv_in. auto.
  (* p_clean_store *)
  - apply in_rem in H1'; destruct H1' as [Hin Hne]. pose proof (A1 k0 Hin H2'). congruence.
  - destruct (in_dec N.eq_dec k0 (S s)) as [i|n].
    + assert (k0 = k). { destruct (N.eq_dec k0 k); auto. exfalso. apply H2'. apply in_rem; auto. } subst. tauto.
    + destruct (A2 k0 H1' n) as [[]|[?|[?|?]]]; auto.
  - auto.
  (* p_clear_start *)
  - destruct (A1 k0 H1' H2').
  - auto.
  - auto.
  (* p_drain_one *)
  - destruct (A1 k0 H1' H2').
  - auto.
  - auto.
  (* p_clear_policy *)
  - auto.
  - destruct H1'.
  - auto.
  (* p_clear_store *)
  - destruct H1'.
  - rewrite A3 in H1'. destruct H1'.
  - auto.
Qed.
Print Assumptions Agree_step.

Definition quiescent s := B s = [] /\ Q s = [] /\ pc s = Idle /\ err s = false.
Theorem quiescent_agree s : Agree s -> quiescent s -> forall k, In k (S s) <-> In k (P s).
Proof.
  intros (A1 & A2 & _) (HB & HQ & Hpc & He) k. unfold removing, adding in *. rewrite Hpc, HB, HQ, He in *.
  split; intros H.
  - destruct (in_dec N.eq_dec k (P s)); auto. destruct (A1 k H n).
  - destruct (in_dec N.eq_dec k (S s)); auto. destruct (A2 k H n) as [[]|[[]|[[]|?]]]. discriminate.
Qed.
Inductive reach : st -> Prop := r0 : reach init | rS s s' : reach s -> step s s' -> reach s'.
Theorem reach_agree s : reach s -> Agree s.
Proof. induction 1; [apply Agree_init | eapply Agree_step; eauto]. Qed.
Print Assumptions quiescent_agree.
