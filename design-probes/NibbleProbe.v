(* Design probe (throw-away, not part of the framework): the 4-bit counter lemmas of C13 by an
   exhaustive sweep over one byte x one nibble position, lifted with forallb_forall. *)
From Coq Require Import List NArith ZArith Lia Bool.
Import ListNotations.
Open Scope N_scope.

Definition nib_get (b : N) (odd : bool) : N := N.land (N.shiftr b (if odd then 4 else 0)) 15.
Definition nib_inc (b : N) (odd : bool) : N :=
  let sh := if odd then 4 else 0 in
  let v := N.land (N.shiftr b sh) 15 in
  if v <? 15 then b + N.shiftl 1 sh else b.
Definition nib_halve (b : N) : N := N.land (N.shiftr b 1) 119.

Definition bytes := map N.of_nat (seq 0 256).
Lemma bytes_all b : b < 256 -> In b bytes.
Proof. intros H. unfold bytes. apply in_map_iff. exists (N.to_nat b). split; [lia|]. apply in_seq. lia. Qed.

Definition chk_inc (b:N) : bool :=
  forallb (fun o =>
    (nib_inc b o <? 256) &&
    (nib_get (nib_inc b o) o =? N.min 15 (nib_get b o + 1)) &&
    (nib_get (nib_inc b o) (negb o) =? nib_get b (negb o))) [true;false].
Lemma chk_inc_all : forallb chk_inc bytes = true. Proof. vm_compute. reflexivity. Qed.
Lemma nib_inc_spec b o : b < 256 ->
  nib_inc b o < 256 /\ nib_get (nib_inc b o) o = N.min 15 (nib_get b o + 1) /\
  nib_get (nib_inc b o) (negb o) = nib_get b (negb o).
Proof.
  intros H. pose proof (proj1 (forallb_forall _ _) chk_inc_all b (bytes_all b H)) as C.
  unfold chk_inc in C. rewrite forallb_forall in C. specialize (C o).
  assert (Ho : In o [true;false]) by (destruct o; simpl; auto). specialize (C Ho).
  rewrite !andb_true_iff, N.ltb_lt, !N.eqb_eq in C. tauto.
Qed.
Definition chk_halve (b:N) : bool :=
  forallb (fun o => (nib_halve b <? 256) && (nib_get (nib_halve b) o =? nib_get b o / 2)) [true;false].
Lemma chk_halve_all : forallb chk_halve bytes = true. Proof. vm_compute. reflexivity. Qed.
Print Assumptions nib_inc_spec.
