(* Design probe (throw-away, not part of the framework): association-list SampledLFU, the policy
   add loop driven by an oracle for the hash-map iteration order, the C01 core invariant, and a
   sanity run showing the repeated keys the refill produces. *)
From Coq Require Import List NArith ZArith Lia Bool.
Import ListNotations.
Open Scope Z_scope.

Definition key := N.
Definition amap (V:Type) := list (key * V).
Fixpoint aget {V} (k:key) (m:amap V) : option V :=
  match m with [] => None | (k',v)::m' => if N.eqb k k' then Some v else aget k m' end.
Fixpoint adel {V} (k:key) (m:amap V) : amap V :=
  match m with [] => [] | (k',v)::m' => if N.eqb k k' then adel k m' else (k',v)::adel k m' end.
Definition aset {V} (k:key) (v:V) (m:amap V) : amap V := (k,v) :: adel k m.
Fixpoint asum (m:amap Z) : Z := match m with [] => 0 | (_,v)::m' => v + asum m' end.

Record slfu := { max_cost : Z; used : Z; kc : amap Z }.
Definition room_left s cost := max_cost s - (used s + cost).
Definition increment s k c := {| max_cost := max_cost s; used := used s + c; kc := aset k c (kc s) |}.
Definition remove s k := match aget k (kc s) with
  | None => (s, None)
  | Some c => ({| max_cost := max_cost s; used := used s - c; kc := adel k (kc s) |}, Some c) end.
Definition update s k c := match aget k (kc s) with
  | None => (s, false)
  | Some p => ({| max_cost := max_cost s; used := used s + (c - p); kc := aset k c (kc s) |}, true) end.

Definition WF s := used s = asum (kc s) /\ NoDup (map fst (kc s)).

Lemma aget_notin k (m:amap Z) : ~ In k (map fst m) -> aget k m = None.
Proof. induction m as [|[a b] m IH]; simpl; auto. intros H. destruct (N.eqb_spec k a); [subst; tauto|]. apply IH. tauto. Qed.
Lemma asum_adel k m : NoDup (map fst m) -> asum (adel k m) = asum m - match aget k m with Some c => c | None => 0 end.
Proof.
  induction m as [|[k' v] m IH]; simpl; intros ND; [lia|].
  inversion ND as [|? ? Hn ND']; subst.
  destruct (N.eqb_spec k k') as [->|Hne].
  - rewrite IH by assumption. rewrite (aget_notin _ _ Hn). lia.
  - simpl. rewrite IH by assumption. lia.
Qed.
Lemma in_adel k k' (m:amap Z) : In k' (map fst (adel k m)) -> In k' (map fst m) /\ k' <> k.
Proof. induction m as [|[a b] m IH]; simpl; [tauto|]. destruct (N.eqb_spec k a); simpl; intros H.
  - subst. apply IH in H. tauto.
  - destruct H as [->|H]; [split; auto|]. apply IH in H. tauto. Qed.
Lemma nodup_adel k (m:amap Z) : NoDup (map fst m) -> NoDup (map fst (adel k m)).
Proof. induction m as [|[a b] m IH]; simpl; intros ND; [constructor|]. inversion ND; subst.
  destruct (N.eqb_spec k a); [auto|]. simpl. constructor; auto. intros H. apply in_adel in H. tauto. Qed.

Lemma WF_remove s k : WF s -> WF (fst (remove s k)).
Proof. unfold WF, remove. intros [Hu ND]. destruct (aget k (kc s)) eqn:E; simpl; [|tauto].
  split; [rewrite asum_adel, E by assumption; lia | apply nodup_adel; assumption]. Qed.
Lemma WF_increment s k c : WF s -> aget k (kc s) = None -> WF (increment s k c).
Proof. unfold WF, increment. intros [Hu ND] E; simpl. rewrite asum_adel, E by assumption. split; [lia|].
  constructor; [intros H; apply in_adel in H; tauto | apply nodup_adel; assumption]. Qed.
Lemma WF_update s k c : WF s -> WF (fst (update s k c)).
Proof. unfold WF, update. intros [Hu ND]. destruct (aget k (kc s)) eqn:E; simpl; [|tauto].
  rewrite asum_adel, E by assumption. split; [lia|].
  constructor; [intros H; apply in_adel in H; tauto | apply nodup_adel; assumption]. Qed.

Definition SAMPLES := 5%nat.
Definition pair := (key * Z)%type.
Fixpoint fill_sample (iter : list pair) (pairs : list pair) : list pair :=
  if (SAMPLES <=? length pairs)%nat then pairs else
  match iter with [] => pairs | p :: it => fill_sample it (pairs ++ [p]) end.
Definition I64MAX := 9223372036854775807.
Fixpoint find_min (est : key -> Z) (l : list pair) (idx : nat) (acc : key * Z * nat * Z) : key * Z * nat * Z :=
  match l with [] => acc
  | (k,c) :: l' => let '(mk, mh, mi, mc) := acc in
      let h := est k in
      find_min est l' (S idx) (if h <? mh then (k, h, idx, c) else acc) end.
Definition swap_remove (l : list pair) (i : nat) : list pair :=
  match rev l with [] => []
  | last :: _ => let n := (length l - 1)%nat in
     firstn n (firstn i l ++ [last] ++ skipn (S i) l) end.

Record iter_log := { il_sample : list pair; il_min_key : key; il_min_hits : Z; il_room : Z }.
Inductive add_result :=
| AddOutOfOracle
| AddDone (s : slfu) (victims : option (list pair)) (added : bool) (log : list iter_log).

Fixpoint evict_loop (est : key -> Z) (inc_hits : Z) (k : key) (cost : Z)
   (oracle : list (list pair)) (s : slfu) (sample victims : list pair) (log : list iter_log) : add_result :=
  if 0 <=? room_left s cost then AddDone (increment s k cost) (Some victims) true log else
  match oracle with [] => AddOutOfOracle
  | it :: oracle' =>
    let sample1 := fill_sample it sample in
    let '(mk, mh, mi, mc) := find_min est sample1 0 (0%N, I64MAX, 0%nat, 0) in
    let log1 := log ++ [{| il_sample := sample1; il_min_key := mk; il_min_hits := mh; il_room := room_left s cost |}] in
    if inc_hits <? mh then AddDone s (Some victims) false log1 else
    let s1 := fst (remove s mk) in
    evict_loop est inc_hits k cost oracle' s1 (swap_remove sample1 mi) (victims ++ [(mk, mc)]) log1
  end.

Definition pol_add (est : key -> Z) (oracle : list (list pair)) (s : slfu) (k : key) (cost : Z) : add_result :=
  if max_cost s <? cost then AddDone s None false [] else
  let '(s1, upd) := update s k cost in
  if upd then AddDone s1 None false [] else
  if 0 <=? room_left s cost then AddDone (increment s k cost) None true [] else
  evict_loop est (est k) k cost oracle s [] [] [].

Lemma aget_adel_other k mk (m:amap Z) : aget k m = None -> aget k (adel mk m) = None.
Proof. induction m as [|[a b] m IHm]; cbn; [reflexivity|].
  destruct (N.eqb_spec k a); [discriminate|]. intros H. destruct (N.eqb_spec mk a); [auto|]. cbn.
  destruct (N.eqb_spec k a); [tauto|auto]. Qed.

Lemma evict_loop_WF est ih k cost oracle : forall s sample victims log s' v a l,
  WF s -> aget k (kc s) = None ->
  evict_loop est ih k cost oracle s sample victims log = AddDone s' v a l ->
  WF s' /\ (a = true -> used s' <= max_cost s') /\ max_cost s' = max_cost s.
Proof.
  induction oracle as [|it oracle IH]; intros s sample victims log s' v a l HWF Hk; cbn [evict_loop].
  - destruct (0 <=? room_left s cost) eqn:E; [|discriminate]. intros H; inversion H; subst; clear H.
    split; [apply WF_increment; assumption|]. unfold room_left in E. cbn. split; [intros _; lia|reflexivity].
  - destruct (0 <=? room_left s cost) eqn:E.
    + intros H; inversion H; subst; clear H.
      split; [apply WF_increment; assumption|]. unfold room_left in E. cbn. split; [intros _; lia|reflexivity].
    + destruct (find_min est (fill_sample it sample) 0 (0%N, I64MAX, 0%nat, 0)) as [[[mk mh] mi] mc].
      destruct (ih <? mh) eqn:E2.
      * intros H; inversion H; subst; clear H. split; [assumption|]. split; [discriminate|reflexivity].
      * intros H. apply IH in H.
        -- destruct H as (A & B & C). split; [assumption|]. split; [assumption|].
           rewrite C. unfold remove. destruct (aget mk (kc s)); reflexivity.
        -- apply WF_remove; assumption.
        -- unfold remove. destruct (aget mk (kc s)) eqn:E3; cbn; [|assumption]. apply aget_adel_other; assumption.
Qed.
Print Assumptions evict_loop_WF.

Definition s0 := {| max_cost := 10; used := 9; kc := [(1%N,3);(2%N,3);(3%N,3)] |}.
Definition est0 (k:key) : Z := match k with 1%N => 5 | 2%N => 1 | 3%N => 2 | _ => 3 end.
(* second refill re-iterates the map: the sample becomes [(1,3);(3,3);(1,3);(3,3)] *)
Eval vm_compute in pol_add est0 [[(1%N,3);(2%N,3);(3%N,3)];[(1%N,3);(3%N,3)]] s0 9%N 5.
