(* Ttl.v — model of src/ttl.rs: Time and the expiry-bucket index (ExpirationMap).
   Times and durations are nanoseconds (N).  The virtual clock value `now` is a parameter. *)
From StrettoModel Require Export Base.
Open Scope N_scope.

Definition NS : N := 1000000000.

Record time := { t_created : N; t_d : N }.

Definition t_is_zero (t : time) : bool := t_d t =? 0.

(* created_at.elapsed().map_or(false, |e| e >= d): a clock that went backwards is "not expired" *)
Definition t_is_expired (now : N) (t : time) : bool :=
  if now <? t_created t then false else t_d t <=? now - t_created t.

Inductive ttlval := TtlInf | TtlNs (n : N).

(* Time::get_ttl; `None` = elapsed().unwrap() panics (clock went backwards) *)
Definition t_get_ttl (now : N) (t : time) : option ttlval :=
  if t_is_zero t then Some TtlInf
  else if now <? t_created t then None
  else
    let el := now - t_created t in
    if t_d t <=? el then Some (TtlNs 0) else Some (TtlNs (t_d t - el)).

(* Time::unix: whole seconds of created_at + d *)
Definition t_unix (t : time) : N := (t_created t + t_d t) / NS.
Definition storage_bucket (t : time) : N := t_unix t + 1.
(* cleanup_bucket(Time::now()) = unix(now) + 1 - 1 *)
Definition cleanup_bucket (now : N) : N := now / NS.

(* bucket number -> (index hash -> conflict hash) *)
Definition emap := amap (amap N).

Definition em_put (em : emap) (b : N) (k c : N) : emap :=
  match aget b em with
  | None => aset b [(k, c)] em
  | Some bucket => aset b (aset k c bucket) em
  end.

Definition em_unlist (em : emap) (b : N) (k : N) : emap :=
  match aget b em with
  | None => em
  | Some bucket => aset b (adel k bucket) em
  end.

(* ExpirationMap::try_insert *)
Definition em_insert (em : emap) (k c : N) (t : time) : emap :=
  if t_is_zero t then em else em_put em (storage_bucket t) k c.

(* ExpirationMap::try_update (after the repair of d7dabd2) *)
Definition em_update (em : emap) (k c : N) (old new : time) : emap :=
  if t_is_zero old && t_is_zero new then em
  else
    let em1 := if t_is_zero old then em else em_unlist em (storage_bucket old) k in
    if t_is_zero new then em1 else em_put em1 (storage_bucket new) k c.

(* ExpirationMap::try_remove *)
Definition em_remove (em : emap) (k : N) (t : time) : emap := em_unlist em (storage_bucket t) k.

(* ExpirationMap::try_cleanup (after the repair of 695c9fc): every bucket up to the cleanup bucket
   is removed; the union of their listings is returned (None when no bucket was due).  When an
   index is listed in several due buckets the survivor depends on hash-map iteration order; the
   model keeps the listing of the highest bucket (see DESIGN.md, modelled nondeterminism). *)
Definition em_due (em : emap) (now : N) : emap :=
  filter (fun p => fst p <=? cleanup_bucket now) em.
Definition em_keep (em : emap) (now : N) : emap :=
  filter (fun p => negb (fst p <=? cleanup_bucket now)) em.

Definition merge_listings (due : emap) : amap N :=
  fold_left (fun acc b => fold_left (fun a kc => aset (fst kc) (snd kc) a) (snd b) acc)
            (asort due) [].

Definition em_cleanup (em : emap) (now : N) : emap * option (amap N) :=
  match em_due em now with
  | [] => (em, None)
  | due => (em_keep em now, Some (merge_listings due))
  end.
