(* CacheMap.v — property C04: below capacity the cache is an exact map with TTLs.  (1) A resident
   entry leaves the store only through a remove of its key, a queued Delete of its key, an eviction,
   a sweep, or clear; (2) below capacity there are no evictions and no refusals; (3) a sweep takes an
   entry only if it had expired; (4) end to end, from a quiescent state: an insert of a new key, an
   update and a remove, each run to quiescence, change exactly that key of the map. *)
From StrettoModel Require Import Base BaseProofs Metrics Sketch Bloom TinyLFU TinyLFUProofs Policy PolicyProofs Ttl Store StoreProofs
  Cache CacheProofs CacheLocal CacheInv CacheAgree.
From Coq Require Import ZifyBool ZifyNat ZifyN.
Open Scope N_scope.

Lemma try_update_keeps vld s k v c t s' r k' e :
  st_try_update vld s k v c t = (s', r) -> aget k' (st_map s) = Some e -> exists e', aget k' (st_map s') = Some e'.
Proof.
  unfold st_try_update. destruct (aget k (st_map s)) as [e0|] eqn:G; [|intros H; inversion H; subst; eauto].
  destruct (negb (conflict_ok c e0)); [intros H; inversion H; subst; eauto|].
  destruct (negb (vld (e_val e0) v)); [intros H; inversion H; subst; eauto|].
  intros H; inversion H; subst; clear H. cbn [st_map]. intros A. destruct (N.eq_dec k' k) as [->|Hne].
  - rewrite aget_aset_same. eauto.
  - rewrite aget_aset_other by assumption. eauto.
Qed.

Lemma try_remove_keeps_other s k c s' prev k' e :
  st_try_remove s k c = (s', prev) -> aget k' (st_map s) = Some e -> k' <> k -> aget k' (st_map s') = Some e.
Proof.
  unfold st_try_remove. destruct (aget k (st_map s)) as [e0|]; [|intros H; inversion H; subst; auto].
  destruct (negb (conflict_ok c e0)); [intros H; inversion H; subst; auto|].
  intros H; inversion H; subst; clear H. cbn [st_map]. intros A Hne. rewrite aget_adel_other by assumption. exact A.
Qed.

Lemma try_insert_keeps vld s k v c t k' e :
  aget k' (st_map s) = Some e -> exists e', aget k' (st_map (st_try_insert vld s k v c t)) = Some e'.
Proof.
  intros A. unfold st_try_insert. destruct (aget k (st_map s)) as [e0|] eqn:G.
  - destruct (negb (conflict_ok c e0)); [eauto|]. destruct (negb (vld (e_val e0) v)); [eauto|].
    cbn [st_map]. destruct (N.eq_dec k' k) as [->|Hne]; [rewrite aget_aset_same; eauto|rewrite aget_aset_other by assumption; eauto].
  - cbn [st_map]. destruct (N.eq_dec k' k) as [->|Hne]; [rewrite aget_aset_same; eauto|rewrite aget_aset_other by assumption; eauto].
Qed.

Lemma write_keeps s k v k' e : aget k' (st_map s) = Some e -> exists e', aget k' (st_map (st_write s k v)) = Some e'.
Proof.
  intros A. unfold st_write. destruct (aget k (st_map s)) as [e0|]; [|eauto].
  cbn [st_map]. destruct (N.eq_dec k' k) as [->|Hne]; [rewrite aget_aset_same; eauto|rewrite aget_aset_other by assumption; eauto].
Qed.

Lemma ring_push_store c st k : s_store (ring_push c st k) = s_store st.
Proof.
  unfold ring_push, policy_push. repeat match goal with |- context [if ?b then _ else _] => destruct b end;
    try destruct (s_ring st ++ [k]); unemit; auto.
Qed.

Ltac unemit_all := unfold emit in *; try match goal with |- context [c_metrics ?c] => destruct (c_metrics c) | H : context [c_metrics ?c] |- _ => destruct (c_metrics c) end; sproj.

(* C04 (1): how a resident entry can leave the store — for every step of every actor *)
Inductive leave_cause (st : cstate) (l : label) (k : N) : Prop :=
| LcRemove a cf : l = LOp a (ORemove k cf) -> leave_cause st l k
| LcDelete h cf : l = LProc h -> s_pc st = PDelAfterPolicy k cf -> leave_cause st l k
| LcVictim h vc rest : l = LProc h -> s_pc st = PNewVictim (k, vc) rest -> leave_cause st l k
| LcSweep h cf cost rest acc : l = LProc h -> s_pc st = PTickAfterPolicy k cf cost rest acc -> leave_cause st l k
| LcClear h sig : l = LProc h -> s_pc st = PClearAfterPolicy sig -> leave_cause st l k.

Theorem entry_leaves_only_by c st l st' o k e :
  cstep c st l = StepOk st' o -> aget k (st_map (s_store st)) = Some e -> aget k (st_map (s_store st')) = None ->
  leave_cause st l k.
Proof.
  intros H A B.
  assert (Same : s_store st' = s_store st -> False) by (intros X; rewrite X in B; congruence).
  assert (Keep : (exists e', aget k (st_map (s_store st')) = Some e') -> False) by (intros (e' & X); congruence).
  destruct l as [a op|a|h|h|dt|].
  - destruct op; crush_step H; open_shapes; unemit_all; try (exfalso; apply Same; first [reflexivity|apply ring_push_store]).
    + exfalso. apply Keep. sproj. eapply try_update_keeps; eassumption.
    + destruct (N.eq_dec k k0) as [->|Hne]; [eapply LcRemove; reflexivity|].
      exfalso. apply Keep. sproj. exists e. eapply try_remove_keeps_other; eassumption.
  - cbn [cstep] in H. unfold continue_client in H. destruct (client_of st a) eqn:CA; crush_step H; open_shapes; unemit_all;
      try (exfalso; apply Same; reflexivity).
    all: exfalso; apply Keep; sproj; eapply write_keeps; eassumption.
  - crush_step H; open_shapes; unemit_all; try (exfalso; apply Same; reflexivity);
      first
        [ exfalso; cbn [st_map] in B; congruence
        | exfalso; apply Keep; sproj; eapply try_insert_keeps; eassumption
        | match goal with E : st_try_remove (s_store st) ?k0 _ = _ |- _ =>
            destruct (N.eq_dec k k0) as [->|Hne];
              [ first [eapply LcDelete; [reflexivity|eassumption] | eapply LcVictim; [reflexivity|eassumption] | eapply LcSweep; [reflexivity|eassumption]]
              | exfalso; apply Keep; sproj; exists e; eapply try_remove_keeps_other; eassumption ] end
        | eapply LcClear; [reflexivity|eassumption] ].
  - exfalso. crush_step H; open_shapes; unemit_all; apply Same; reflexivity.
  - exfalso. crush_step H. apply Same; reflexivity.
  - exfalso. crush_step H. apply Same; reflexivity.
Qed.

(* C04 (2): with room for the item there is no sampling, no victim, no refusal — whatever else is
   charged, whatever the estimates *)
Theorem room_means_no_victims est oracle s k cost s' v a lg m :
  (0 <= sl_room_left s cost)%Z -> pol_add est oracle s k cost = AddDone s' v a lg m -> v = None /\ lg = [].
Proof.
  intros R. unfold pol_add. destruct (sl_max s <? cost)%Z; [intros H; inversion H; auto|].
  destruct (sl_update s k cost) as [[s1 b] ev]. destruct b; [intros H; inversion H; auto|].
  apply Z.leb_le in R. rewrite R. intros H; inversion H; auto.
Qed.

Theorem below_capacity_new_key_is_admitted c st h k cf cost v exp r :
  s_pc st = PIdle -> h_arm h = Some ArmItem -> s_buf st = INew k cf cost v exp :: r ->
  aget k (sl_kc (s_slfu st)) = None ->
  (internal_cost c cost <= sl_max (s_slfu st))%Z -> (0 <= sl_room_left (s_slfu st) (internal_cost c cost))%Z ->
  exists st', proc_step c st h = StepOk st' (mk_out PtProcNewAfterAdd [] RNone) /\
    s_pc st' = PNewAfterAdd k cf v exp (internal_cost c cost) [] true /\
    s_slfu st' = sl_increment (s_slfu st) k (internal_cost c cost) /\
    s_store st' = s_store st /\ s_buf st' = r /\ s_start st' = s_start st /\ s_clients st' = s_clients st.
Proof.
  intros PC HA B G M R. unfold proc_step. rewrite PC, HA, B. cbn [proc_handle_item]. sproj.
  rewrite (room_admits_without_eviction _ _ _ _ _ M G R). eexists. split; [reflexivity|]. unemit; repeat split; reflexivity.
Qed.

(* the admitted key then enters the store with its value and deadline *)
Theorem admitted_key_becomes_resident c st h k cf v exp cost vs :
  s_pc st = PNewAfterAdd k cf v exp cost vs true -> aget k (st_map (s_store st)) = None ->
  N.of_nat (length (s_start st)) <= Consts.NUM_TO_KEEP ->
  exists st', proc_step c st h = StepOk st' (mk_out PtProcNewAfterStore [] RNone) /\
    aget k (st_map (s_store st')) = Some {| e_conflict := cf; e_val := v; e_exp := exp |} /\
    (forall k', k' <> k -> aget k' (st_map (s_store st')) = aget k' (st_map (s_store st))) /\
    s_slfu st' = s_slfu st /\ s_pc st' = PNewAfterStore vs /\ s_buf st' = s_buf st /\ s_clients st' = s_clients st.
Proof.
  intros PC G L. unfold proc_step. rewrite PC. unfold track_admission, emit.
  destruct (c_metrics c); sproj;
    [destruct (Consts.NUM_TO_KEEP <? N.of_nat (length (s_start st))) eqn:X; [lia|]|];
    (eexists; split; [reflexivity|]); sproj; unfold st_try_insert; rewrite G; cbn [st_map];
    (split; [apply aget_aset_same|]); (split; [intros k' Hne; apply aget_aset_other; exact Hne|repeat split; reflexivity]).
Qed.

(* C04 (3): the sweeper goes on to remove a key only if, when it looked, the entry had a TTL and the
   TTL had elapsed *)
Theorem sweep_takes_only_expired c st h k cf rest acc st' o cost rest' acc' :
  s_pc st = PTickKey k cf rest acc -> proc_step c st h = StepOk st' o -> s_pc st' = PTickAfterPolicy k cf cost rest' acc' ->
  exists t, st_expiration (s_store st) k = Some t /\ t_is_zero t = false /\ t_is_expired (s_now st) t = true.
Proof.
  intros PC H PC'. unfold proc_step in H. rewrite PC in H.
  destruct (st_expiration (s_store st) k) as [t|].
  - destruct (negb (t_is_zero t) && t_is_expired (s_now st) t) eqn:E.
    + exists t. apply andb_true_iff in E. destruct E as (E1 & E2). apply negb_true_iff in E1. auto.
    + exfalso. unfold tick_next in H. crush_loop H; open_shapes; sproj; discriminate PC'.
  - exfalso. unfold tick_next in H. crush_loop H; open_shapes; sproj; discriminate PC'.
Qed.

(* ---- C04 (4): end to end, from a quiescent state ---- *)
Definition item_hint : hint := {| h_arm := Some ArmItem; h_oracle := []; h_tick_key := None |}.

Lemma client_of_set_same st a k : client_of (set_client st a k) a = k.
Proof. rewrite client_of_set, N.eqb_refl. reflexivity. Qed.

(* insert of a key that is neither resident nor charged, with room for it: the insert returns true,
   the processor admits and stores it, nothing else changes, no callback fires, and the cache is
   quiescent again *)
Theorem insert_new_key_end_to_end c st a k cf v cost ttl :
  s_closed st = false -> quiescent st -> 0 < c_buf_cap c ->
  aget k (st_map (s_store st)) = None -> aget k (sl_kc (s_slfu st)) = None ->
  N.of_nat (length (s_start st)) <= Consts.NUM_TO_KEEP ->
  let cost' := internal_cost c (cost + (if (cost =? 0)%Z then c_coster c v else 0))%Z in
  (cost' <= sl_max (s_slfu st))%Z -> (0 <= sl_room_left (s_slfu st) cost')%Z ->
  exists st' os,
    crun c st [LOp a (OInsert k cf v cost ttl false); LClient a; LProc item_hint; LProc no_hint; LProc no_hint] = Some (st', os) /\
    map o_res os = [RNone; RBool true; RNone; RNone; RNone] /\ flat_map o_cbs os = [] /\
    s_buf st' = [] /\ s_pc st' = PIdle /\ (forall b, client_of st' b = KIdle) /\
    aget k (st_map (s_store st')) = Some {| e_conflict := cf; e_val := v; e_exp := {| t_created := s_now st; t_d := ttl |} |} /\
    (forall k', k' <> k -> aget k' (st_map (s_store st')) = aget k' (st_map (s_store st))) /\
    aget k (sl_kc (s_slfu st')) = Some cost' /\
    (forall k', k' <> k -> aget k' (sl_kc (s_slfu st')) = aget k' (sl_kc (s_slfu st))) /\
    sl_used (s_slfu st') = (sl_used (s_slfu st) + cost')%Z.
Proof.
  intros Hc (QB & QP & QC) Cap Ga Gc NK cost' M R.
  (* 1: the client's first segment *)
  destruct (new_item_cost c st a k cf v cost ttl Hc Ga) as (s1 & E1 & C1).
  assert (F1 : s_buf s1 = [] /\ s_pc s1 = PIdle /\ s_store s1 = s_store st /\ s_slfu s1 = s_slfu st /\ s_start s1 = s_start st /\ s_now s1 = s_now st /\
               (forall b, b <> a -> client_of s1 b = KIdle)).
  { cbn [start_op] in E1. rewrite Hc, (update_absent_is_noop _ _ _ _ _ _ Ga) in E1. inversion E1; subst s1. sproj.
    repeat split; auto. intros b Hb. rewrite client_of_set. destruct (N.eqb_spec b a); [contradiction|apply QC]. }
  destruct F1 as (B1 & P1 & S1 & L1 & T1 & N1 & O1).
  (* 2: the send *)
  set (it := INew k cf (cost + (if (cost =? 0)%Z then c_coster c v else 0))%Z v {| t_created := s_now st; t_d := ttl |}) in *.
  set (s2 := set_client (upd_buf s1 [it]) a KIdle).
  assert (E2 : cstep c s1 (LClient a) = StepOk s2 (mk_out PtFinish [] (RBool true))).
  { cbn [cstep]. unfold continue_client. rewrite C1. unfold buf_send. rewrite P1, B1. cbn [length N.of_nat app].
    destruct (0 <? c_buf_cap c) eqn:X; [reflexivity|lia]. }
  (* 3: the processor admits *)
  assert (P2 : s_pc s2 = PIdle) by exact P1.
  assert (B2 : s_buf s2 = it :: []) by reflexivity.
  assert (G2 : aget k (sl_kc (s_slfu s2)) = None) by (unfold s2; sproj; rewrite L1; exact Gc).
  assert (M2 : (internal_cost c (cost + (if (cost =? 0)%Z then c_coster c v else 0)) <= sl_max (s_slfu s2))%Z) by (unfold s2; sproj; rewrite L1; exact M).
  assert (R2 : (0 <= sl_room_left (s_slfu s2) (internal_cost c (cost + (if (cost =? 0)%Z then c_coster c v else 0))))%Z) by (unfold s2; sproj; rewrite L1; exact R).
  destruct (below_capacity_new_key_is_admitted c s2 item_hint k cf _ v _ [] P2 eq_refl B2 G2 M2 R2) as (s3 & E3 & P3 & L3 & S3 & B3 & T3 & C3).
  (* 4: the store insert *)
  assert (G3 : aget k (st_map (s_store s3)) = None) by (rewrite S3; unfold s2; sproj; rewrite S1; exact Ga).
  assert (NK3 : N.of_nat (length (s_start s3)) <= Consts.NUM_TO_KEEP) by (rewrite T3; unfold s2; sproj; rewrite T1; exact NK).
  destruct (admitted_key_becomes_resident c s3 no_hint k cf v _ _ [] P3 G3 NK3) as (s4 & E4 & A4 & O4 & L4 & P4 & B4 & C4).
  (* 5: no victims *)
  assert (E5 : proc_step c s4 no_hint = StepOk (upd_pc s4 PIdle) (mk_out PtProcLoop [] RNone)).
  { unfold proc_step. rewrite P4. reflexivity. }
  exists (upd_pc s4 PIdle). eexists. split.
  { cbn [crun]. change (cstep c st (LOp a (OInsert k cf v cost ttl false))) with
      (match client_of st a with KIdle => start_op c st a (OInsert k cf v cost ttl false) | _ => StepIllegal 50 end).
    rewrite (QC a), E1. cbn [crun]. rewrite E2. cbn [crun cstep]. rewrite E3. cbn [crun cstep]. rewrite E4. cbn [crun cstep]. rewrite E5. reflexivity. }
  cbn [map o_res mk_out flat_map o_cbs app]. sproj.
  split; [reflexivity|]. split; [reflexivity|]. split; [rewrite B4; exact B3|]. split; [reflexivity|].
  split.
  { intros b. unfold client_of. sproj. rewrite C4, C3. unfold s2, set_client. sproj. destruct (N.eq_dec b a) as [->|Hne].
    - rewrite aget_aset_same. reflexivity.
    - rewrite aget_aset_other by assumption. apply (O1 b Hne). }
  split; [exact A4|]. split.
  { intros k' Hne. rewrite (O4 k' Hne), S3. unfold s2. sproj. rewrite S1. reflexivity. }
  rewrite L4, L3. unfold s2. sproj. rewrite L1. unfold sl_increment. cbn [sl_kc sl_used].
  split; [apply aget_aset_same|]. split; [intros k' Hne; apply aget_aset_other; exact Hne|reflexivity].
Qed.

(* re-insert of a resident key (validator permitting): the value and the deadline are replaced at
   once, the old value goes to on_exit, the policy re-charges the key; nothing else changes *)
Theorem update_end_to_end c st a k cf v cost ttl only e p :
  s_closed st = false -> quiescent st -> 0 < c_buf_cap c ->
  aget k (st_map (s_store st)) = Some e -> conflict_ok cf e = true -> c_validator c (e_val e) v = true ->
  aget k (sl_kc (s_slfu st)) = Some p ->
  let cost' := (internal_cost c cost + (if (cost =? 0)%Z then c_coster c v else 0))%Z in
  exists st' os,
    crun c st [LOp a (OInsert k cf v cost ttl only); LClient a; LProc item_hint] = Some (st', os) /\
    map o_res os = [RNone; RBool true; RNone] /\ flat_map o_cbs os = [CbExit (e_val e)] /\
    s_buf st' = [] /\ s_pc st' = PIdle /\ (forall b, client_of st' b = KIdle) /\
    aget k (st_map (s_store st')) = Some {| e_conflict := e_conflict e; e_val := v; e_exp := {| t_created := s_now st; t_d := ttl |} |} /\
    (forall k', k' <> k -> aget k' (st_map (s_store st')) = aget k' (st_map (s_store st))) /\
    aget k (sl_kc (s_slfu st')) = Some cost' /\
    (forall k', k' <> k -> aget k' (sl_kc (s_slfu st')) = aget k' (sl_kc (s_slfu st))).
Proof.
  intros Hc (QB & QP & QC) Cap Ga Hk Hv Gc cost'.
  set (exp := {| t_created := s_now st; t_d := ttl |}).
  set (sto := {| st_map := aset k {| e_conflict := e_conflict e; e_val := v; e_exp := exp |} (st_map (s_store st));
                 st_em := em_update (st_em (s_store st)) k cf (e_exp e) exp |}).
  set (it := IUpdate k cost (if (cost =? 0)%Z then c_coster c v else 0%Z)).
  set (s1 := set_client (upd_store st sto) a (KInsSend it k)).
  assert (E1 : cstep c st (LOp a (OInsert k cf v cost ttl only)) = StepOk s1 (mk_out PtInsBeforeSend [CbExit (e_val e)] RNone)).
  { cbn [cstep]. rewrite (QC a). cbn [start_op]. rewrite Hc. unfold st_try_update. rewrite Ga, Hk, Hv. reflexivity. }
  set (s2 := set_client (upd_buf s1 [it]) a KIdle).
  assert (E2 : cstep c s1 (LClient a) = StepOk s2 (mk_out PtFinish [] (RBool true))).
  { cbn [cstep]. unfold continue_client. unfold s1 at 1. rewrite client_of_set_same. unfold buf_send.
    replace (s_pc s1) with PIdle by (symmetry; exact QP). replace (s_buf s1) with (@nil item) by (symmetry; exact QB).
    cbn [length N.of_nat app]. destruct (0 <? c_buf_cap c) eqn:X; [reflexivity|lia]. }
  assert (E3 : exists s3, proc_step c s2 item_hint = StepOk s3 (mk_out PtProcLoop [] RNone) /\
             s_store s3 = sto /\ s_buf s3 = [] /\ s_pc s3 = PIdle /\ s_clients s3 = s_clients s2 /\
             s_slfu s3 = {| sl_max := sl_max (s_slfu st); sl_used := (sl_used (s_slfu st) + (cost' - p))%Z; sl_kc := aset k cost' (sl_kc (s_slfu st)) |}).
  { unfold proc_step. replace (s_pc s2) with PIdle by (symmetry; exact QP). cbn [h_arm item_hint].
    replace (s_buf s2) with [it] by reflexivity. unfold it. cbn [proc_handle_item]. sproj. unfold sl_update.
    replace (s_slfu s2) with (s_slfu st) by reflexivity. rewrite Gc. eexists. split; [reflexivity|]. unemit; repeat split; try reflexivity; exact QP. }
  destruct E3 as (s3 & E3 & S3 & B3 & P3 & C3 & L3).
  exists s3. eexists. split.
  { cbn [crun]. rewrite E1. cbn [crun]. rewrite E2. cbn [crun cstep]. rewrite E3. reflexivity. }
  cbn [map o_res mk_out flat_map o_cbs app].
  split; [reflexivity|]. split; [reflexivity|]. split; [exact B3|]. split; [exact P3|]. split.
  { intros b. unfold client_of. rewrite C3. unfold s2, s1, set_client. sproj. destruct (N.eq_dec b a) as [->|Hne].
    - rewrite aget_aset_same. reflexivity.
    - rewrite !aget_aset_other by assumption. apply (QC b). }
  rewrite S3, L3. unfold sto. cbn [st_map sl_kc].
  split; [apply aget_aset_same|]. split; [intros k' Hne; apply aget_aset_other; exact Hne|].
  split; [apply aget_aset_same|intros k' Hne; apply aget_aset_other; exact Hne].
Qed.

(* remove of a resident key: the entry leaves the store at once (on_exit), the queued Delete
   un-charges it; nothing else changes *)
Theorem remove_end_to_end c st a k cf e p :
  s_closed st = false -> quiescent st -> 0 < c_buf_cap c ->
  aget k (st_map (s_store st)) = Some e -> conflict_ok cf e = true -> aget k (sl_kc (s_slfu st)) = Some p ->
  exists st' os,
    crun c st [LOp a (ORemove k cf); LClient a; LProc item_hint; LProc no_hint] = Some (st', os) /\
    map o_res os = [RNone; RUnit true; RNone; RNone] /\ flat_map o_cbs os = [CbExit (e_val e)] /\
    s_buf st' = [] /\ s_pc st' = PIdle /\ (forall b, client_of st' b = KIdle) /\
    aget k (st_map (s_store st')) = None /\
    (forall k', k' <> k -> aget k' (st_map (s_store st')) = aget k' (st_map (s_store st))) /\
    aget k (sl_kc (s_slfu st')) = None /\
    (forall k', k' <> k -> aget k' (sl_kc (s_slfu st')) = aget k' (sl_kc (s_slfu st))) /\
    sl_used (s_slfu st') = (sl_used (s_slfu st) - p)%Z.
Proof.
  intros Hc (QB & QP & QC) Cap Ga Hk Gc.
  set (sto := {| st_map := adel k (st_map (s_store st));
                 st_em := if t_is_zero (e_exp e) then st_em (s_store st) else em_remove (st_em (s_store st)) k (e_exp e) |}).
  set (s1 := set_client (upd_store st sto) a (KRemSend k cf)).
  assert (E1 : cstep c st (LOp a (ORemove k cf)) = StepOk s1 (mk_out PtRemBeforeSend [CbExit (e_val e)] RNone)).
  { cbn [cstep]. rewrite (QC a). cbn [start_op]. rewrite Hc. unfold st_try_remove. rewrite Ga, Hk. reflexivity. }
  set (s2 := set_client (upd_buf s1 [IDelete k cf]) a KIdle).
  assert (E2 : cstep c s1 (LClient a) = StepOk s2 (mk_out PtFinish [] (RUnit true))).
  { cbn [cstep]. unfold continue_client. unfold s1 at 1. rewrite client_of_set_same. unfold buf_send.
    replace (s_pc s1) with PIdle by (symmetry; exact QP). replace (s_buf s1) with (@nil item) by (symmetry; exact QB).
    cbn [length N.of_nat app]. destruct (0 <? c_buf_cap c) eqn:X; [reflexivity|lia]. }
  set (sl' := {| sl_max := sl_max (s_slfu st); sl_used := (sl_used (s_slfu st) - p)%Z; sl_kc := adel k (sl_kc (s_slfu st)) |}).
  assert (E3 : exists s3, proc_step c s2 item_hint = StepOk s3 (mk_out PtProcDelAfterPolicy [] RNone) /\
             s_store s3 = sto /\ s_buf s3 = [] /\ s_pc s3 = PDelAfterPolicy k cf /\ s_clients s3 = s_clients s2 /\ s_slfu s3 = sl').
  { unfold proc_step. replace (s_pc s2) with PIdle by (symmetry; exact QP). cbn [h_arm item_hint].
    replace (s_buf s2) with [IDelete k cf] by reflexivity. cbn [proc_handle_item]. sproj. unfold pol_remove, sl_remove.
    replace (s_slfu s2) with (s_slfu st) by reflexivity. rewrite Gc. eexists. split; [reflexivity|]. unemit; repeat split; reflexivity. }
  destruct E3 as (s3 & E3 & S3 & B3 & P3 & C3 & L3).
  assert (E4 : proc_step c s3 no_hint = StepOk (upd_pc (upd_store s3 sto) PIdle) (mk_out PtProcLoop [] RNone)).
  { unfold proc_step. rewrite P3. unfold st_try_remove. rewrite S3. unfold sto at 1. cbn [st_map]. rewrite aget_adel_same. reflexivity. }
  exists (upd_pc (upd_store s3 sto) PIdle). eexists. split.
  { cbn [crun]. rewrite E1. cbn [crun]. rewrite E2. cbn [crun cstep]. rewrite E3. cbn [crun cstep]. rewrite E4. reflexivity. }
  cbn [map o_res mk_out flat_map o_cbs app]. sproj.
  split; [reflexivity|]. split; [reflexivity|]. split; [exact B3|]. split; [reflexivity|]. split.
  { intros b. unfold client_of. sproj. rewrite C3. unfold s2, s1, set_client. sproj. destruct (N.eq_dec b a) as [->|Hne].
    - rewrite aget_aset_same. reflexivity.
    - rewrite !aget_aset_other by assumption. apply (QC b). }
  rewrite L3. unfold sto, sl'. cbn [st_map sl_kc sl_used].
  split; [apply aget_adel_same|]. split; [intros k' Hne; apply aget_adel_other; exact Hne|].
  split; [apply aget_adel_same|]. split; [intros k' Hne; apply aget_adel_other; exact Hne|reflexivity].
Qed.

(* a lookup returns exactly what the store's map says — the value and remaining TTL of a live entry
   under the asked key, nothing otherwise — and changes neither the store nor the charges *)
Theorem lookup_end_to_end c st a k cf :
  s_closed st = false -> client_of st a = KIdle ->
  (forall e, aget k (st_map (s_store st)) = Some e -> t_created (e_exp e) <= s_now st) ->
  exists st' os,
    crun c st [LOp a (OGet k cf); LClient a] = Some (st', os) /\
    s_store st' = s_store st /\ s_slfu st' = s_slfu st /\ s_buf st' = s_buf st /\ client_of st' a = KIdle /\
    map o_res os =
      [RNone;
       match st_get (s_now st) (s_store st) k cf with
       | Some e => match t_get_ttl (s_now st) (e_exp e) with Some d => RGet (Some (e_val e, d)) | None => RNone end
       | None => RGet None
       end] /\
    (forall e, st_get (s_now st) (s_store st) k cf = Some e -> exists d, t_get_ttl (s_now st) (e_exp e) = Some d).
Proof.
  intros Hc CA TO.
  set (s1 := set_client (ring_push c st k) a (KGetStore k cf None)).
  assert (E1 : cstep c st (LOp a (OGet k cf)) = StepOk s1 (mk_out PtGetAfterPush [] RNone)).
  { cbn [cstep]. rewrite CA. cbn [start_op]. rewrite Hc. reflexivity. }
  assert (F : s_store s1 = s_store st /\ s_slfu s1 = s_slfu st /\ s_buf s1 = s_buf st /\ s_now s1 = s_now st).
  { unfold s1. sproj. unfold ring_push, policy_push. repeat match goal with |- context [if ?b then _ else _] => destruct b end;
      try destruct (s_ring st ++ [k]); unemit; auto. }
  destruct F as (F1 & F2 & F3 & F4).
  assert (TT : forall e, st_get (s_now st) (s_store st) k cf = Some e -> exists d, t_get_ttl (s_now st) (e_exp e) = Some d).
  { intros e G. unfold st_get in G. destruct (aget k (st_map (s_store st))) as [e0|] eqn:A; [|discriminate].
    destruct (_ && _); [|discriminate]. inversion G; subst. specialize (TO e eq_refl).
    unfold t_get_ttl. destruct (t_is_zero (e_exp e)); [eauto|]. destruct (s_now st <? t_created (e_exp e)) eqn:X; [lia|].
    destruct (t_d (e_exp e) <=? s_now st - t_created (e_exp e)); eauto. }
  cbn [crun]. rewrite E1. cbn [crun cstep]. unfold continue_client. unfold s1 at 1. rewrite client_of_set_same.
  rewrite F1, F4. destruct (st_get (s_now st) (s_store st) k cf) as [e|] eqn:G.
  - destruct (TT e eq_refl) as (d & D). rewrite D. eexists. eexists. split; [reflexivity|]. unemit; sproj;
      (split; [exact F1|]); (split; [exact F2|]); (split; [exact F3|]); (split; [apply client_of_set_same|]); (split; [reflexivity|exact TT]).
  - eexists. eexists. split; [reflexivity|]. unemit; sproj;
      (split; [exact F1|]); (split; [exact F2|]); (split; [exact F3|]); (split; [apply client_of_set_same|]); (split; [reflexivity|exact TT]).
Qed.
