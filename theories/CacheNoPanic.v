(* CacheNoPanic.v — property C20: no step of the cache panics, for every configuration, history and
   schedule with a monotone clock: sketch and doorkeeper stay well-formed for every counter width,
   every stored deadline was taken at or before "now", the eviction loop never indexes an empty
   sample. *)
From StrettoModel Require Import Base BaseProofs Metrics Sketch SketchProofs Bloom BloomProofs TinyLFU TinyLFUProofs
  Policy PolicyProofs Ttl Store StoreProofs Cache CacheProofs CacheInv CacheAgree.
From Coq Require Import ZifyBool ZifyNat ZifyN.
Open Scope N_scope.

Definition item_time_ok (now : N) (it : item) : Prop :=
  match it with INew _ _ _ _ exp => t_created exp <= now | _ => True end.

Definition cont_time_ok (now : N) (k : ccont) : Prop :=
  match k with KInsSend it _ => item_time_ok now it | _ => True end.

Definition pc_time_ok (now : N) (p : ppc) : Prop :=
  match p with PNewAfterAdd _ _ _ exp _ _ _ => t_created exp <= now | _ => True end.

Definition store_time_ok (now : N) (s : storage) : Prop :=
  forall k e, aget k (st_map s) = Some e -> t_created (e_exp e) <= now.

Definition NP (st : cstate) : Prop :=
  tl_wf (s_tlfu st) /\
  store_time_ok (s_now st) (s_store st) /\
  Forall (item_time_ok (s_now st)) (s_buf st) /\
  (forall a, cont_time_ok (s_now st) (client_of st a)) /\
  pc_time_ok (s_now st) (s_pc st) /\
  Forall (fun k => k < two64) (s_ring st) /\
  Forall (Forall (fun k => k < two64)) (s_pqueue st).

(* keys are u64 *)
Definition label_u64 (l : label) : Prop :=
  match l with
  | LOp _ (OGet k _) => k < two64
  | LOp _ (OGetMutWrite k _ _) => k < two64
  | _ => True
  end.

Lemma store_time_update vld now s k v c t s' r :
  store_time_ok now s -> t_created t <= now -> st_try_update vld s k v c t = (s', r) -> store_time_ok now s'.
Proof.
  intros S T. unfold st_try_update. destruct (aget k (st_map s)) as [e|]; [|intros H; inversion H; subst; assumption].
  destruct (negb (conflict_ok c e)); [intros H; inversion H; subst; assumption|].
  destruct (negb (vld (e_val e) v)); [intros H; inversion H; subst; assumption|].
  intros H; inversion H; subst. intros k' e'. cbn [st_map]. destruct (N.eq_dec k' k) as [->|Hne].
  - rewrite aget_aset_same. intros X; inversion X; subst. exact T.
  - rewrite aget_aset_other by assumption. apply S.
Qed.

Lemma store_time_insert vld now s k v c t :
  store_time_ok now s -> t_created t <= now -> store_time_ok now (st_try_insert vld s k v c t).
Proof.
  intros S T. unfold st_try_insert. destruct (aget k (st_map s)) as [e|].
  - destruct (negb (conflict_ok c e)); [assumption|]. destruct (negb (vld (e_val e) v)); [assumption|].
    intros k' e'. cbn [st_map]. destruct (N.eq_dec k' k) as [->|Hne].
    + rewrite aget_aset_same. intros X; inversion X; subst. exact T.
    + rewrite aget_aset_other by assumption. apply S.
  - intros k' e'. cbn [st_map]. destruct (N.eq_dec k' k) as [->|Hne].
    + rewrite aget_aset_same. intros X; inversion X; subst. exact T.
    + rewrite aget_aset_other by assumption. apply S.
Qed.

Lemma store_time_remove now s k c s' prev :
  store_time_ok now s -> st_try_remove s k c = (s', prev) -> store_time_ok now s'.
Proof.
  intros S. unfold st_try_remove. destruct (aget k (st_map s)) as [e|]; [|intros H; inversion H; subst; assumption].
  destruct (negb (conflict_ok c e)); [intros H; inversion H; subst; assumption|].
  intros H; inversion H; subst. intros k' e'. cbn [st_map]. destruct (N.eq_dec k' k) as [->|Hne].
  - rewrite aget_adel_same. discriminate.
  - rewrite aget_adel_other by assumption. apply S.
Qed.

Lemma store_time_write now s k v : store_time_ok now s -> store_time_ok now (st_write s k v).
Proof.
  intros S. unfold st_write. destruct (aget k (st_map s)) as [e|] eqn:E; [|assumption].
  intros k' e'. cbn [st_map]. destruct (N.eq_dec k' k) as [->|Hne].
  - rewrite aget_aset_same. intros X; inversion X; subst. cbn [e_exp]. eapply S. exact E.
  - rewrite aget_aset_other by assumption. apply S.
Qed.

(* every tracked admission time was taken at or before "now" *)
Definition SO (st : cstate) : Prop := forall k ts, aget k (s_start st) = Some ts -> ts <= s_now st.

Lemma SO_frame st st1 : SO st -> s_start st1 = s_start st -> s_now st1 = s_now st -> SO st1.
Proof. intros S E1 E2 k ts. rewrite E1, E2. apply S. Qed.

Lemma prepare_evict_SO c st k : SO st -> exists st1, prepare_evict c st k = Some st1 /\ SO st1.
Proof.
  intros S. unfold prepare_evict. destruct (c_metrics c); [|eauto].
  destruct (aget k (s_start st)) as [ts|] eqn:E; [|eauto].
  specialize (S k ts E) as Hle. destruct (s_now st <? ts) eqn:X; [lia|]. eexists. split; [reflexivity|].
  intros k' ts'. sproj. destruct (N.eq_dec k' k) as [->|Hne]; [rewrite aget_adel_same; discriminate|].
  rewrite aget_adel_other by assumption. apply S.
Qed.

Lemma prepare_evicts_SO c cbs : forall st, SO st -> exists st1, prepare_evicts c st cbs = Some st1 /\ SO st1.
Proof.
  induction cbs as [|cb cbs IH]; intros st S; cbn [prepare_evicts]; [eauto|].
  destruct cb; try (apply IH; assumption).
  destruct (prepare_evict_SO c st k S) as (st1 & E & S1). rewrite E. apply IH. assumption.
Qed.

Lemma track_admission_SO c st k st1 : SO st -> track_admission c st k = Some st1 -> SO st1.
Proof.
  intros S. unfold track_admission. destruct (c_metrics c); [|intros H; inversion H; subst; assumption].
  destruct (_ <? _); [discriminate|]. intros H; inversion H; subst. intros k' ts'. sproj.
  destruct (N.eq_dec k' k) as [->|Hne]; [rewrite aget_aset_same; intros X; inversion X; subst; lia|].
  rewrite aget_aset_other by assumption. apply S.
Qed.

(* ---- no step panics ---- *)
Theorem no_step_panics c st l w : NP st -> SO st -> label_u64 l -> cstep c st l <> StepPanic w.
Proof.
  intros (TW & ST & BT & CT & PT & RH & QH) SOst L. destruct l as [a op|a|h|h|dt|]; cbn [cstep].
  - destruct (client_of st a); try discriminate. destruct op; cbn [start_op]; try discriminate.
    + destruct (s_closed st); [discriminate|]. destruct (st_try_update _ _ _ _ _ _) as [sto r].
      destruct r; destruct only_update; discriminate.
    + destruct (s_closed st); discriminate.
    + destruct (s_closed st); discriminate.
    + unfold st_get. destruct (aget k (st_map (s_store st))) as [e|] eqn:E; [|discriminate].
      destruct (conflict_ok c0 e && entry_live (s_now st) e); [|discriminate].
      unfold st_expiration. rewrite E. specialize (ST k e E).
      unfold t_get_ttl. destruct (t_is_zero (e_exp e)); [discriminate|].
      destruct (s_now st <? t_created (e_exp e)) eqn:X; [lia|].
      destruct (t_d (e_exp e) <=? s_now st - t_created (e_exp e)); discriminate.
    + destruct (s_closed st); [discriminate|]. destruct (st_try_remove _ _ _). discriminate.
    + destruct (s_closed st); discriminate.
    + destruct (s_closed st); discriminate.
    + destruct (s_closed st); discriminate.
  - unfold continue_client. destruct (client_of st a); try discriminate.
    + destruct (buf_send c st it); [discriminate|]. destruct (is_update it); discriminate.
    + unfold st_get. destruct (aget k (st_map (s_store st))) as [e|] eqn:E; [|discriminate].
      destruct (conflict_ok c0 e && entry_live (s_now st) e); [|discriminate].
      destruct write; [discriminate|]. specialize (ST k e E).
      unfold t_get_ttl. destruct (t_is_zero (e_exp e)); [discriminate|].
      destruct (s_now st <? t_created (e_exp e)) eqn:X; [lia|].
      destruct (t_d (e_exp e) <=? s_now st - t_created (e_exp e)); discriminate.
    + destruct (buf_send c st (IDelete k c0)); [discriminate|]. destruct (s_pc st); discriminate.
    + sproj. destruct (buf_send _ _ _); discriminate.
    + destruct (s_pc st); discriminate.
    + destruct (s_closed st); discriminate.
    + destruct (mem_N id (s_done st)); discriminate.
    + destruct (mem_N id (s_done st)); [destruct closing|]; discriminate.
    + destruct (s_pc st); discriminate.
    + destruct (s_pc st); try destruct (s_stop_msgs st <? stop_cap c); discriminate.
    + destruct (s_pol_closed st); discriminate.
    + destruct (s_wpc st); [destruct (s_pol_stop_msgs st <? stop_cap c)|]; discriminate.
  - unfold proc_step. destruct (s_pc st); try discriminate.
    + destruct (h_arm h) as [[| | |]|]; try discriminate.
      * destruct (s_buf st) as [|it r]; [discriminate|]. unfold proc_handle_item. destruct it.
        -- destruct (pol_add _ _ _ _ _) eqn:PA; try discriminate.
           exfalso. eapply pol_add_no_panic; [|exact PA]. apply est_of_small.
        -- destruct (sl_update _ _ _) as [[s' b] m]. discriminate.
        -- destruct (pol_remove _ _). discriminate.
        -- discriminate.
      * destruct (s_clear_sigs st); [discriminate|]. destruct (drain_buffer _). discriminate.
      * destruct (s_ticks st =? 0); [discriminate|]. destruct (em_cleanup _ _) as [em' due]. destruct due; [|discriminate].
        unfold tick_next. destruct a; [cbn [prepare_evicts]; discriminate|]. destruct (h_tick_key h); [|discriminate]. destruct (aget _ _); discriminate.
      * destruct (0 <? s_stop_msgs st); [destruct (drain_buffer _); discriminate|].
        destruct (find_offer false (s_clients st)) as [a0|]; [|discriminate].
        destruct (client_of st a0); try discriminate. destruct (drain_buffer _); discriminate.
    + destruct added; [destruct (track_admission _ _ _)|]; discriminate.
    + unfold next_victim. destruct victims; discriminate.
    + destruct v. destruct (st_try_remove _ _ _) as [sto prev].
      match goal with |- context [prepare_evicts ?c0 ?s0 ?l0] =>
        destruct (prepare_evicts_SO c0 l0 s0) as (st1 & E & _); [apply (SO_frame st); [exact SOst|reflexivity|reflexivity]|rewrite E] end.
      unfold next_victim. destruct rest; discriminate.
    + destruct (st_try_remove _ _ _). discriminate.
    + destruct (st_expiration _ _) as [t|].
      * destruct (negb (t_is_zero t) && t_is_expired (s_now st) t).
        -- destruct (pol_remove _ _). discriminate.
        -- unfold tick_next. destruct rest; [destruct (prepare_evicts_SO c acc st SOst) as (st1 & E & _); rewrite E; discriminate|]. destruct (h_tick_key h); [|discriminate]. destruct (aget _ _); discriminate.
      * unfold tick_next. destruct rest; [destruct (prepare_evicts_SO c acc st SOst) as (st1 & E & _); rewrite E; discriminate|]. destruct (h_tick_key h); [|discriminate]. destruct (aget _ _); discriminate.
    + destruct (st_try_remove _ _ _) as [sto prev]. unfold tick_next.
      destruct rest; [|destruct (h_tick_key h); [|discriminate]; destruct (aget _ _); discriminate].
      match goal with |- context [prepare_evicts ?c0 ?s0 ?l0] =>
        destruct (prepare_evicts_SO c0 l0 s0) as (st1 & E & _); [apply (SO_frame st); [exact SOst|reflexivity|reflexivity]|rewrite E] end.
      discriminate.
  - unfold worker_step. destruct (s_wpc st); [|discriminate]. destruct (h_arm h) as [[| | |]|]; try discriminate.
    + destruct (s_pqueue st) as [|batch r] eqn:Q; [discriminate|]. inversion QH as [|? ? Hb Hr]; subst.
      destruct (increments_total batch (s_tlfu st) TW Hb) as (t' & E & _). rewrite E. discriminate.
    + destruct (0 <? s_pol_stop_msgs st); [discriminate|]. destruct (find_offer true (s_clients st)) as [a0|]; [|discriminate].
      destruct (client_of st a0); discriminate.
  - discriminate.
  - discriminate.
Qed.

(* ---- NP is an invariant ---- *)
Lemma tl_clear_wf t : tl_wf t -> tl_wf (tl_clear t).
Proof.
  intros (W1 & W2). split; cbn [tl_clear tl_sk tl_bl].
  - apply (sk_clear_spec (tl_sk t) 0 W1).
  - apply (bl_reset_spec (tl_bl t) W2).
Qed.

Lemma NP_frame st st1 :
  NP st -> s_tlfu st1 = s_tlfu st -> s_now st1 = s_now st -> s_store st1 = s_store st -> s_buf st1 = s_buf st ->
  s_clients st1 = s_clients st -> s_pc st1 = s_pc st -> s_ring st1 = s_ring st -> s_pqueue st1 = s_pqueue st -> NP st1.
Proof.
  intros (A & B & C & D & E & F & G) H1 H2 H3 H4 H5 H6 H7 H8. unfold NP.
  rewrite H1, H2, H3, H4, H6, H7, H8.
  split; [assumption|]. split; [assumption|]. split; [assumption|]. split; [|split; [assumption|split; assumption]].
  intros a. unfold client_of in *. rewrite H5. apply D.
Qed.

Lemma NP_client st st1 a k :
  NP st -> s_tlfu st1 = s_tlfu st -> s_now st1 = s_now st -> s_store st1 = s_store st -> s_buf st1 = s_buf st ->
  s_clients st1 = s_clients st -> s_pc st1 = s_pc st -> s_ring st1 = s_ring st -> s_pqueue st1 = s_pqueue st ->
  cont_time_ok (s_now st) k -> NP (set_client st1 a k).
Proof.
  intros (A & B & C & D & E & F & G) H1 H2 H3 H4 H5 H6 H7 H8 Hk. unfold NP; sproj.
  rewrite H1, H2, H3, H4, H6, H7, H8.
  split; [assumption|]. split; [assumption|]. split; [assumption|]. split; [|split; [assumption|split; assumption]].
  intros b. rewrite client_of_set. destruct (N.eqb b a); [assumption|]. unfold client_of in *. rewrite H5. apply D.
Qed.

Lemma ring_push_np c st k :
  k < two64 -> Forall (fun k => k < two64) (s_ring st) -> Forall (Forall (fun k => k < two64)) (s_pqueue st) ->
  Forall (fun k => k < two64) (s_ring (ring_push c st k)) /\ Forall (Forall (fun k => k < two64)) (s_pqueue (ring_push c st k)) /\
  s_tlfu (ring_push c st k) = s_tlfu st /\ s_now (ring_push c st k) = s_now st /\ s_store (ring_push c st k) = s_store st /\
  s_buf (ring_push c st k) = s_buf st /\ s_clients (ring_push c st k) = s_clients st /\ s_pc (ring_push c st k) = s_pc st.
Proof.
  intros Hk R Q. assert (R' : Forall (fun k => k < two64) (s_ring st ++ [k])) by (apply Forall_app; split; [assumption|constructor; [assumption|constructor]]).
  unfold ring_push, policy_push.
  repeat match goal with |- context [if ?b then _ else _] => destruct b end;
    try destruct (s_ring st ++ [k]) eqn:E; unfold emit; try destruct (c_metrics c); sproj;
    repeat split; try assumption; try constructor; try (apply Forall_app; split; [assumption|constructor; [rewrite <- ?E; assumption|constructor]]).
Qed.






Lemma Forall_item_time_mono now now' its : now <= now' -> Forall (item_time_ok now) its -> Forall (item_time_ok now') its.
Proof.
  intros H F. induction F as [|it its Hi _ IH]; constructor; [|assumption].
  destruct it; cbn [item_time_ok] in *; auto; lia.
Qed.

(* NP as a predicate on the fields it reads, so that each step only has to re-establish the
   conjunct of the field it writes *)
Definition NPv (t : tinylfu) (now : N) (sto : storage) (buf : list item) (cl : amap ccont) (pc : ppc)
  (ring : list N) (pq : list (list N)) : Prop :=
  tl_wf t /\ store_time_ok now sto /\ Forall (item_time_ok now) buf /\
  (forall a, cont_time_ok now (match aget a cl with Some k => k | None => KIdle end)) /\
  pc_time_ok now pc /\ Forall (fun k => k < two64) ring /\ Forall (Forall (fun k => k < two64)) pq.

Lemma NP_NPv st : NP st <-> NPv (s_tlfu st) (s_now st) (s_store st) (s_buf st) (s_clients st) (s_pc st) (s_ring st) (s_pqueue st).
Proof. unfold NP, NPv, client_of. tauto. Qed.

Section NPv.
Variables (t : tinylfu) (now : N) (sto : storage) (buf : list item) (cl : amap ccont) (pc : ppc) (ring : list N) (pq : list (list N)).
Hypothesis H : NPv t now sto buf cl pc ring pq.
Lemma NPv_tl t' : tl_wf t' -> NPv t' now sto buf cl pc ring pq.
Proof. unfold NPv in *. tauto. Qed.
Lemma NPv_store sto' : store_time_ok now sto' -> NPv t now sto' buf cl pc ring pq.
Proof. unfold NPv in *. tauto. Qed.
Lemma NPv_buf buf' : Forall (item_time_ok now) buf' -> NPv t now sto buf' cl pc ring pq.
Proof. unfold NPv in *. tauto. Qed.
Lemma NPv_pc pc' : pc_time_ok now pc' -> NPv t now sto buf cl pc' ring pq.
Proof. unfold NPv in *. tauto. Qed.
Lemma NPv_ring ring' : Forall (fun k => k < two64) ring' -> NPv t now sto buf cl pc ring' pq.
Proof. unfold NPv in *. tauto. Qed.
Lemma NPv_pq pq' : Forall (Forall (fun k => k < two64)) pq' -> NPv t now sto buf cl pc ring pq'.
Proof. unfold NPv in *. tauto. Qed.
Lemma NPv_client a k : cont_time_ok now k -> NPv t now sto buf (aset a k cl) pc ring pq.
Proof.
  intros Hk. destruct H as (A & B & C & D & E). split; [assumption|]. split; [assumption|]. split; [assumption|]. split; [|assumption].
  intros b. destruct (N.eq_dec b a) as [->|Hne]; [rewrite aget_aset_same; assumption|rewrite aget_aset_other by assumption; apply D].
Qed.
Lemma NPv_advance dt : NPv t (now + dt) sto buf cl pc ring pq.
Proof.
  destruct H as (A & B & C & D & E & F). split; [assumption|]. split; [|split; [|split; [|split; [|assumption]]]].
  - intros k e Hk. specialize (B k e Hk). lia.
  - eapply Forall_item_time_mono; [|exact C]. lia.
  - intros a. specialize (D a). destruct (aget a cl) as [[]|]; cbn [cont_time_ok] in *; auto.
    destruct it; cbn [item_time_ok] in *; auto. lia.
  - destruct pc; cbn [pc_time_ok] in *; auto. lia.
Qed.
End NPv.

Ltac np_goal :=
  apply NP_NPv; unfold emit; repeat match goal with |- context [c_metrics ?c] => destruct (c_metrics c) end; sproj.
Ltac np_done N := first [exact N | exact (proj1 (NP_NPv _) N)].

Lemma buf_send_eq c st it st' : buf_send c st it = Some st' -> st' = upd_buf st (s_buf st ++ [it]).
Proof.
  unfold buf_send. destruct (s_pc st); try discriminate;
    (match goal with |- context [if ?b then _ else _] => destruct b end; [|discriminate]); intros H; inversion H; reflexivity.
Qed.

Lemma Forall_snoc {A} (P : A -> Prop) l x : Forall P l -> P x -> Forall P (l ++ [x]).
Proof. intros. apply Forall_app. split; [assumption|constructor; [assumption|constructor]]. Qed.

Lemma NP_start_op c st a op st' o : NP st -> label_u64 (LOp a op) -> start_op c st a op = StepOk st' o -> NP st'.
Proof.
  intros N L H. pose proof N as (TW & ST & BT & CT & PT & RH & QH). destruct op; cbn [start_op label_u64] in *.
  - destruct (s_closed st); [inversion H; subst; assumption|].
    destruct (st_try_update _ _ _ _ _ _) as [sto r] eqn:TU.
    assert (ST' : store_time_ok (s_now st) sto) by (eapply store_time_update; [exact ST| |exact TU]; cbn; lia).
    destruct r; try destruct only_update; inversion H; subst; try assumption; np_goal;
      try (eapply NPv_client; [np_done N|cbn; lia]).
    all: (eapply NPv_client; [|exact I]); (eapply NPv_store; [np_done N|exact ST']).
  - destruct (s_closed st); inversion H; subst; [assumption|].
    destruct (ring_push_np c st k L RH QH) as (R1 & R2 & R3 & R4 & R5 & R6 & R7 & R8).
    np_goal. rewrite R3, R4, R5, R6, R7, R8. eapply NPv_client; [|exact I]. eapply NPv_ring; [|exact R1]. eapply NPv_pq; [|exact R2]. np_done N.
  - destruct (s_closed st); inversion H; subst; [assumption|].
    destruct (ring_push_np c st k L RH QH) as (R1 & R2 & R3 & R4 & R5 & R6 & R7 & R8).
    np_goal. rewrite R3, R4, R5, R6, R7, R8. eapply NPv_client; [|exact I]. eapply NPv_ring; [|exact R1]. eapply NPv_pq; [|exact R2]. np_done N.
  - destruct (st_get _ _ _ _); [destruct (st_expiration _ _); [destruct (t_get_ttl _ _)|]|]; inversion H; subst; assumption.
  - destruct (s_closed st); [inversion H; subst; assumption|].
    destruct (st_try_remove _ _ _) as [sto prev] eqn:TR.
    pose proof (store_time_remove _ _ _ _ _ _ ST TR) as ST'. inversion H; subst.
    np_goal. eapply NPv_client; [|exact I]. eapply NPv_store; [np_done N|exact ST'].
  - destruct (s_closed st); inversion H; subst; [assumption|]. np_goal. eapply NPv_client; [np_done N|exact I].
  - destruct (s_closed st); inversion H; subst; [assumption|]. np_goal. eapply NPv_client; [np_done N|exact I].
  - destruct (s_closed st); inversion H; subst; [assumption|]. np_goal. eapply NPv_client; [np_done N|exact I].
  - inversion H; subst. assumption.
  - inversion H; subst. np_goal. np_done N.
  - inversion H; subst. assumption.
Qed.

Lemma NP_continue_client c st a st' o : NP st -> continue_client c st a = StepOk st' o -> NP st'.
Proof.
  intros N H. pose proof N as (TW & ST & BT & CT & PT & RH & QH). unfold continue_client in H.
  pose proof (CT a) as Ca. destruct (client_of st a) eqn:CA; try discriminate.
  - destruct (buf_send c st it) as [st1|] eqn:E.
    + apply buf_send_eq in E. inversion H; subst. np_goal.
      eapply NPv_client; [|exact I]. eapply NPv_buf; [np_done N|]. apply Forall_snoc; [assumption|exact Ca].
    + destruct (is_update it); inversion H; subst; np_goal; (eapply NPv_client; [np_done N|exact I]).
  - destruct (st_get _ _ _ _) as [e|].
    + destruct write as [v|].
      * inversion H; subst. np_goal; (eapply NPv_client; [|exact I]); (eapply NPv_store; [np_done N|]);
          apply store_time_write; exact ST.
      * destruct (t_get_ttl _ _); [|discriminate]. inversion H; subst. np_goal; (eapply NPv_client; [np_done N|exact I]).
    + inversion H; subst. np_goal; (eapply NPv_client; [np_done N|exact I]).
  - destruct (buf_send c st (IDelete k c0)) as [st1|] eqn:E.
    + apply buf_send_eq in E. inversion H; subst. np_goal.
      eapply NPv_client; [|exact I]. eapply NPv_buf; [np_done N|]. apply Forall_snoc; [assumption|exact I].
    + destruct (s_pc st); try discriminate; inversion H; subst; np_goal; (eapply NPv_client; [np_done N|exact I]).
  - sproj. destruct (buf_send _ _ _) as [st2|] eqn:E.
    + apply buf_send_eq in E. inversion H; subst. np_goal.
      eapply NPv_client; [|exact I]. eapply NPv_buf; [np_done N|]. apply Forall_snoc; [assumption|exact I].
    + inversion H; subst. np_goal. eapply NPv_client; [np_done N|exact I].
  - destruct (s_pc st) eqn:PC; inversion H; subst; np_goal; rewrite <- ?PC; (eapply NPv_client; [np_done N|exact I]).
  - destruct (s_closed st); inversion H; subst; np_goal; (eapply NPv_client; [np_done N|exact I]).
  - destruct (mem_N id (s_done st)); [|discriminate]. inversion H; subst; np_goal; (eapply NPv_client; [np_done N|exact I]).
  - destruct (mem_N id (s_done st)); [|discriminate]. destruct closing; inversion H; subst; np_goal; (eapply NPv_client; [np_done N|exact I]).
  - destruct (s_pc st) eqn:PC; inversion H; subst; np_goal; rewrite <- ?PC; (eapply NPv_client; [np_done N|exact I]).
  - destruct (s_pc st) eqn:PC; try destruct (s_stop_msgs st <? stop_cap c); inversion H; subst; np_goal; rewrite <- ?PC; (eapply NPv_client; [np_done N|exact I]).
  - inversion H; subst; np_goal; (eapply NPv_client; [np_done N|exact I]).
  - destruct (s_pol_closed st); inversion H; subst; np_goal; (eapply NPv_client; [np_done N|exact I]).
  - destruct (s_wpc st); [destruct (s_pol_stop_msgs st <? stop_cap c)|]; inversion H; subst; np_goal; (eapply NPv_client; [np_done N|exact I]).
  - inversion H; subst; np_goal; (eapply NPv_client; [np_done N|exact I]).
  - inversion H; subst; np_goal; (eapply NPv_client; [np_done N|exact I]).
Qed.

Lemma NP_tick_next c st h rest acc st' o : NP st -> tick_next c st h rest acc = StepOk st' o -> NP st'.
Proof.
  intros N. unfold tick_next. destruct rest; [|destruct (h_tick_key h); [destruct (aget _ _)|]]; try discriminate;
    intros H; try open_prep H; inversion H; subst; np_goal; (eapply NPv_pc; [np_done N|exact I]).
Qed.

Lemma NP_next_victim st vs st' p : NP st -> next_victim st vs = (st', p) -> NP st'.
Proof.
  intros N. unfold next_victim. destruct vs; intros H; inversion H; subst; np_goal; (eapply NPv_pc; [np_done N|exact I]).
Qed.

Lemma NP_drain st st' cbs : NP st -> drain_buffer st = (st', cbs) -> NP st'.
Proof.
  intros N. unfold drain_buffer. destruct (drain_items _ _ _) as [d cb]. intros H; inversion H; subst.
  np_goal. eapply NPv_buf; [np_done N|constructor].
Qed.

Lemma NP_proc_step c st h st' o : NP st -> proc_step c st h = StepOk st' o -> NP st'.
Proof.
  intros N H. pose proof N as (TW & ST & BT & CT & PT & RH & QH). unfold proc_step in H.
  destruct (s_pc st) eqn:PC; try discriminate.
  - destruct (h_arm h) as [[| | |]|]; try discriminate.
    + destruct (s_buf st) as [|it r] eqn:B; [discriminate|]. inversion BT as [|? ? Hit Hr]; subst.
      unfold proc_handle_item in H. destruct it.
      * destruct (pol_add _ _ _ _ _); try discriminate. inversion H; subst. np_goal;
          (eapply NPv_pc; [|exact Hit]); (eapply NPv_buf; [np_done N|exact Hr]).
      * destruct (sl_update _ _ _) as [[s' b] m]. inversion H; subst. np_goal; rewrite <- ?PC; (eapply NPv_buf; [np_done N|exact Hr]).
      * destruct (pol_remove _ _) as [s' m]. inversion H; subst. np_goal;
          (eapply NPv_pc; [|exact I]); (eapply NPv_buf; [np_done N|exact Hr]).
      * inversion H; subst. np_goal. rewrite <- ?PC. eapply NPv_buf; [np_done N|exact Hr].
    + destruct (s_clear_sigs st) as [|sig r]; [discriminate|].
      destruct (drain_buffer _) as [st1 cbs] eqn:D. inversion H; subst.
      assert (N1 : NP st1). { eapply NP_drain; [|exact D]. np_goal. np_done N. }
      np_goal. eapply NPv_pc; [np_done N1|exact I].
    + destruct (s_ticks st =? 0); [discriminate|]. sproj. destruct (em_cleanup _ _) as [em' due].
      match type of H with context [upd_store ?s ?x] => assert (N1 : NP (upd_store s x)) end.
      { np_goal. eapply NPv_store; [np_done N|]. intros k e. cbn [st_map]. apply ST. }
      destruct due; [eapply NP_tick_next; [exact N1|exact H]|]. inversion H; subst. exact N1.
    + match type of H with context [match ?t with Some _ => _ | None => StepIllegal 24 end] => destruct t as [st1|] eqn:T end; [|discriminate].
      assert (N1 : NP st1).
      { destruct (0 <? s_stop_msgs st).
        - inversion T; subst. np_goal. np_done N.
        - destruct (find_offer false (s_clients st)) as [a0|]; [|discriminate].
          destruct (client_of st a0); try discriminate. inversion T; subst. np_goal. eapply NPv_client; [np_done N|exact I]. }
      destruct (drain_buffer st1) as [st2 cbs] eqn:D. pose proof (NP_drain _ _ _ N1 D) as N2.
      inversion H; subst. np_goal. eapply NPv_pc; [np_done N2|exact I].
  - destruct added; [open_track H|]; inversion H; subst.
    + np_goal; (eapply NPv_pc; [|exact I]); (eapply NPv_store; [np_done N|]); (apply store_time_insert; [exact ST|]); exact PT.
    + np_goal. eapply NPv_pc; [np_done N|exact I].
  - destruct (next_victim st victims) as [st1 p] eqn:NV. inversion H; subst. eapply NP_next_victim; [exact N|exact NV].
  - destruct v as [vk vcost]. destruct (st_try_remove _ _ _) as [sto prev] eqn:TR. open_prep H.
    destruct (next_victim _ rest) as [st1 p] eqn:NV. inversion H; subst. eapply NP_next_victim; [|exact NV].
    np_goal. eapply NPv_store; [np_done N|]. eapply store_time_remove; [exact ST|exact TR].
  - destruct (st_try_remove _ _ _) as [sto prev] eqn:TR. inversion H; subst. np_goal.
    eapply NPv_pc; [|exact I]. eapply NPv_store; [np_done N|]. eapply store_time_remove; [exact ST|exact TR].
  - inversion H; subst. np_goal. eapply NPv_pc; [|exact I]. eapply NPv_tl; [np_done N|]. apply tl_clear_wf; exact TW.
  - inversion H; subst. np_goal. eapply NPv_pc; [|exact I]. eapply NPv_store; [np_done N|]. intros k e. cbn. discriminate.
  - inversion H; subst. np_goal; (eapply NPv_pc; [np_done N|exact I]).
  - destruct (st_expiration _ _) as [t|].
    + destruct (negb (t_is_zero t) && t_is_expired (s_now st) t).
      * destruct (pol_remove _ _) as [s' m]. inversion H; subst. np_goal; (eapply NPv_pc; [np_done N|exact I]).
      * eapply NP_tick_next; [exact N|exact H].
    + eapply NP_tick_next; [exact N|exact H].
  - destruct (st_try_remove _ _ _) as [sto prev] eqn:TR. eapply NP_tick_next; [|exact H].
    np_goal. eapply NPv_store; [np_done N|]. eapply store_time_remove; [exact ST|exact TR].
Qed.

Lemma NP_worker_step c st h st' o : NP st -> worker_step c st h = StepOk st' o -> NP st'.
Proof.
  intros N H. pose proof N as (TW & ST & BT & CT & PT & RH & QH). unfold worker_step in H.
  destruct (s_wpc st); [|discriminate]. destruct (h_arm h) as [[| | |]|]; try discriminate.
  - destruct (s_pqueue st) as [|batch r] eqn:Q; [discriminate|]. inversion QH as [|? ? Hb Hr]; subst.
    destruct (increments_total batch (s_tlfu st) TW Hb) as (t' & E & W'). rewrite E in H. inversion H; subst.
    np_goal. eapply NPv_tl; [|exact (proj1 W')]. eapply NPv_pq; [np_done N|exact Hr].
  - destruct (0 <? s_pol_stop_msgs st); [inversion H; subst; np_goal; np_done N|].
    destruct (find_offer true (s_clients st)) as [a0|]; [|discriminate].
    destruct (client_of st a0); try discriminate. inversion H; subst. np_goal. eapply NPv_client; [np_done N|exact I].
Qed.

Theorem NP_step c st l st' o : NP st -> label_u64 l -> cstep c st l = StepOk st' o -> NP st'.
Proof.
  intros N L H. destruct l as [a op|a|h|h|dt|]; cbn [cstep] in H.
  - destruct (client_of st a); try discriminate. eapply NP_start_op; [exact N|exact L|exact H].
  - eapply NP_continue_client; [exact N|exact H].
  - eapply NP_proc_step; [exact N|exact H].
  - eapply NP_worker_step; [exact N|exact H].
  - inversion H; subst. np_goal. apply NPv_advance. np_done N.
  - inversion H; subst. np_goal. np_done N.
Qed.

(* SO is preserved by every step *)
Theorem SO_step c st l st' o : SO st -> cstep c st l = StepOk st' o -> SO st'.
Proof.
  intros S H.
  assert (F : forall st1, s_start st1 = s_start st -> s_now st1 = s_now st -> SO st1) by (intros; eapply SO_frame; eassumption).
  destruct l as [a op|a|h|h|dt|].
  - destruct op; crush_step H; unemit; try (apply F; reflexivity).
    all: unfold ring_push, policy_push; repeat match goal with |- context [if ?b then _ else _] => destruct b end;
      try destruct (s_ring st ++ [k]); unemit; apply F; reflexivity.
  - crush_step H; unemit; apply F; reflexivity.
  - crush_step H; unemit; try (apply F; reflexivity);
      match goal with
      | PE : prepare_evicts ?c0 ?s0 ?l0 = Some ?x |- _ =>
          let S1 := fresh "S1" in
          assert (S1 : SO x) by (destruct (prepare_evicts_SO c0 l0 s0) as (y & E & Sy); [apply F; reflexivity|rewrite PE in E; inversion E; subst; exact Sy]);
          eapply SO_frame; [exact S1|reflexivity|reflexivity]
      | TA : track_admission ?c0 ?s0 ?k0 = Some ?x |- _ =>
          let S1 := fresh "S1" in
          assert (S1 : SO x) by (eapply track_admission_SO; [|exact TA]; unfold emit; try destruct (c_metrics c0); apply F; reflexivity);
          eapply SO_frame; [exact S1|reflexivity|reflexivity]
      end.
  - crush_step H; unemit; apply F; reflexivity.
  - crush_step H. intros k ts. sproj. intros X. specialize (S k ts X). lia.
  - crush_step H. apply F; reflexivity.
Qed.

(* ---- every reachable state ---- *)
Inductive reach_u64 (c : cfg) (st0 : cstate) : cstate -> Prop :=
| ru_init : reach_u64 c st0 st0
| ru_step st l st' o : reach_u64 c st0 st -> label_u64 l -> cstep c st l = StepOk st' o -> reach_u64 c st0 st'.

Lemma NP_init c mc t now : tl_wf t -> NP (cinit c mc t now).
Proof.
  intros W. unfold NP, cinit, client_of; sproj. split; [exact W|]. split; [intros k e X; discriminate X|].
  split; [constructor|]. split; [intros a; exact I|]. split; [exact I|]. split; constructor.
Qed.

Lemma SO_init c mc t now : SO (cinit c mc t now).
Proof. intros k ts X. discriminate X. Qed.

Lemma reachable_NP c mc t now st : tl_wf t -> reach_u64 c (cinit c mc t now) st -> NP st /\ SO st.
Proof.
  intros W R. induction R as [|st l st' o R IH L S]; [split; [apply NP_init; exact W|apply SO_init]|].
  destruct IH as (N & SOs). split; [eapply NP_step; eassumption|eapply SO_step; eassumption].
Qed.

(* C20: whatever configuration the builder accepted — any num_counters >= 1 (the sketch and the
   doorkeeper it dimensions are well-formed), any max_cost (negative included), any buffer sizes,
   metrics on or off, either flavour — and whatever the history and schedule, no step of a client,
   of the processor or of the policy worker panics. *)
Theorem cache_never_panics c mc ctrs seeds entries locs now :
  1 <= ctrs -> length seeds = SK_DEPTH ->
  N.log2_up (N.max entries 512) <= 64 -> locs * 2 ^ N.log2_up (N.max entries 512) <= two64 ->
  exists t, tl_new ctrs seeds entries locs = Some t /\
    forall st, reach_u64 c (cinit c mc t now) st ->
    forall l w, label_u64 l -> cstep c st l <> StepPanic w.
Proof.
  intros H1 H2 H3 H4. destruct (tl_new_spec ctrs seeds entries locs H1 H2 H3 H4) as (t & E & W & _).
  exists t. split; [exact E|]. intros st R l w L.
  destruct (reachable_NP c mc t now st W R) as (N & SOs). apply no_step_panics; assumption.
Qed.
