(* StoreProofs.v — TTL arithmetic and store-level facts (properties C03, C05, C09, C18). *)
From StrettoModel Require Import Base BaseProofs Ttl Store.
From Coq Require Import ZifyBool ZifyNat ZifyN.
Open Scope N_scope.
Ltac Zify.zify_post_hook ::= Z.div_mod_to_equations.

(* ---- Time ---- *)

(* C03: once d has elapsed the entry counts as expired, never before *)
Lemma expired_iff now t : t_created t <= now ->
  t_is_expired now t = true <-> t_created t + t_d t <= now.
Proof. intros H. unfold t_is_expired. destruct (now <? t_created t) eqn:E; lia. Qed.

Lemma zero_ttl_reports_no_expiry now t : t_d t = 0 -> t_get_ttl now t = Some TtlInf.
Proof. intros H. unfold t_get_ttl, t_is_zero. rewrite H. reflexivity. Qed.

(* C03: before the deadline get_ttl reports exactly the remaining time: at most d, decreasing *)
Lemma ttl_reports_remaining now t : 0 < t_d t -> t_created t <= now -> now < t_created t + t_d t ->
  t_get_ttl now t = Some (TtlNs (t_created t + t_d t - now)) /\ t_created t + t_d t - now <= t_d t.
Proof.
  intros Hd Hc Hn. unfold t_get_ttl, t_is_zero.
  destruct (t_d t =? 0) eqn:Z; [lia|]. destruct (now <? t_created t) eqn:E; [lia|].
  destruct (t_d t <=? now - t_created t) eqn:F; [lia|]. split; [f_equal; f_equal; lia|lia].
Qed.

Lemma ttl_antitone now now' t : 0 < t_d t -> t_created t <= now -> now <= now' -> now' < t_created t + t_d t ->
  forall r r', t_get_ttl now t = Some (TtlNs r) -> t_get_ttl now' t = Some (TtlNs r') -> r' <= r.
Proof.
  intros Hd Hc Hle Hn r r' H1 H2.
  destruct (ttl_reports_remaining now t Hd Hc ltac:(lia)) as (E1 & _).
  destruct (ttl_reports_remaining now' t Hd ltac:(lia) Hn) as (E2 & _).
  rewrite E1 in H1. rewrite E2 in H2. inversion H1; inversion H2; subst. lia.
Qed.

(* C05: an entry is filed in the second after its deadline's second: the bucket lies strictly after
   the deadline and at most one bucket width later *)
Theorem bucket_bounds t :
  t_created t + t_d t < storage_bucket t * NS /\ storage_bucket t * NS <= t_created t + t_d t + NS.
Proof. unfold storage_bucket, t_unix, NS. lia. Qed.

(* C05: a tick at time T sweeps a bucket iff the bucket's second has begun; hence nothing that is
   swept is unexpired, and an entry is swept by the first tick at or after deadline + 1 s *)
Theorem due_iff now t : storage_bucket t <=? cleanup_bucket now = true <-> storage_bucket t * NS <= now - now mod NS.
Proof. unfold cleanup_bucket, storage_bucket, t_unix, NS. rewrite N.leb_le. lia. Qed.

Theorem due_implies_elapsed now t : storage_bucket t <= cleanup_bucket now -> t_created t + t_d t < now.
Proof. unfold cleanup_bucket, storage_bucket, t_unix, NS. lia. Qed.

Theorem due_within_one_bucket now t : t_created t + t_d t + NS <= now -> storage_bucket t <= cleanup_bucket now.
Proof. unfold cleanup_bucket, storage_bucket, t_unix, NS. lia. Qed.

(* ---- lookups ---- *)

(* C03: nothing is served once its TTL has elapsed *)
Theorem expired_is_invisible now s k c e :
  aget k (st_map s) = Some e -> 0 < t_d (e_exp e) -> t_created (e_exp e) + t_d (e_exp e) <= now ->
  st_get now s k c = None.
Proof.
  intros He Hd Hn. unfold st_get. rewrite He. unfold entry_live, t_is_zero, t_is_expired.
  destruct (t_d (e_exp e) =? 0) eqn:Z; [lia|].
  destruct (now <? t_created (e_exp e)) eqn:E; [lia|].
  destruct (t_d (e_exp e) <=? now - t_created (e_exp e)) eqn:F; [|lia].
  rewrite andb_false_r. reflexivity.
Qed.

(* C03: an entry without TTL never becomes invisible because of time *)
Theorem no_ttl_never_times_out now s k c e :
  aget k (st_map s) = Some e -> t_d (e_exp e) = 0 -> conflict_ok c e = true -> st_get now s k c = Some e.
Proof.
  intros He Hd Hc. unfold st_get. rewrite He, Hc. unfold entry_live, t_is_zero. rewrite Hd. reflexivity.
Qed.

(* C03: before the deadline the entry is served *)
Theorem live_is_visible now s k c e :
  aget k (st_map s) = Some e -> t_created (e_exp e) <= now -> now < t_created (e_exp e) + t_d (e_exp e) ->
  conflict_ok c e = true -> st_get now s k c = Some e.
Proof.
  intros He Hc Hn Hk. unfold st_get. rewrite He, Hk. unfold entry_live, t_is_zero, t_is_expired.
  destruct (t_d (e_exp e) =? 0); [reflexivity|].
  destruct (now <? t_created (e_exp e)) eqn:E; [reflexivity|].
  destruct (t_d (e_exp e) <=? now - t_created (e_exp e)) eqn:F; [lia|reflexivity].
Qed.

(* C03: re-inserting a resident key replaces its deadline (and its value), keeping the stored
   conflict hash; with ttl = 0 the entry no longer expires *)
Theorem update_replaces_deadline vld s k v c t s' old :
  st_try_update vld s k v c t = (s', UUpdate old) ->
  exists e, aget k (st_map s) = Some e /\ e_val e = old /\
    aget k (st_map s') = Some {| e_conflict := e_conflict e; e_val := v; e_exp := t |} /\
    forall k', k' <> k -> aget k' (st_map s') = aget k' (st_map s).
Proof.
  unfold st_try_update. destruct (aget k (st_map s)) as [e|] eqn:E; [|intros H; inversion H].
  destruct (negb (conflict_ok c e)); [intros H; inversion H|].
  destruct (negb (vld (e_val e) v)); [intros H; inversion H|].
  intros H; inversion H; subst; clear H. exists e. split; [reflexivity|]. split; [reflexivity|].
  cbn [st_map]. split; [apply aget_aset_same|]. intros k' Hne. apply aget_aset_other. assumption.
Qed.

(* C09: when the validator vetoes, nothing at all changes (value, deadline, expiry index) *)
Theorem veto_keeps_everything vld s k v c t e :
  aget k (st_map s) = Some e -> conflict_ok c e = true -> vld (e_val e) v = false ->
  st_try_update vld s k v c t = (s, UReject) /\ st_try_insert vld s k v c t = s.
Proof.
  intros He Hc Hv. unfold st_try_update, st_try_insert. rewrite He, Hc, Hv. split; reflexivity.
Qed.

(* C09 / C18: on an absent index try_update changes nothing *)
Theorem update_absent_is_noop vld s k v c t :
  aget k (st_map s) = None -> st_try_update vld s k v c t = (s, UNotExist).
Proof. intros H. unfold st_try_update. rewrite H. reflexivity. Qed.

(* ---- C18: two keys sharing an index but differing in (non-zero) conflict stay isolated ---- *)
Section Collisions.
  Variables (s : storage) (k c1 c2 : N) (e : entry).
  Hypothesis He : aget k (st_map s) = Some e.
  Hypothesis Hc2 : e_conflict e = c2.
  Hypothesis Hne : c1 <> c2.
  Hypothesis Hnz : c1 <> 0.

  Lemma conflict_mismatch : conflict_ok c1 e = false.
  Proof.
    unfold conflict_ok. rewrite Hc2. destruct (N.eqb_spec c1 0); [tauto|].
    destruct (N.eqb_spec c1 c2); [tauto|reflexivity].
  Qed.

  Theorem colliding_get_none now : st_get now s k c1 = None.
  Proof. unfold st_get. rewrite He, conflict_mismatch. reflexivity. Qed.

  Theorem colliding_update_noop vld v t : st_try_update vld s k v c1 t = (s, UConflict).
  Proof. unfold st_try_update. rewrite He, conflict_mismatch. reflexivity. Qed.

  Theorem colliding_insert_noop vld v t : st_try_insert vld s k v c1 t = s.
  Proof. unfold st_try_insert. rewrite He, conflict_mismatch. reflexivity. Qed.

  Theorem colliding_remove_noop : st_try_remove s k c1 = (s, None).
  Proof. unfold st_try_remove. rewrite He, conflict_mismatch. reflexivity. Qed.
End Collisions.

(* ---- the expiry index ---- *)

(* every bucket whose second has begun is taken by a cleanup, and no other *)
Theorem cleanup_takes_exactly_the_due_buckets em now em' due :
  em_cleanup em now = (em', Some due) ->
  (forall b m, In (b, m) em' -> cleanup_bucket now < b) /\
  (forall b m, In (b, m) em -> b <= cleanup_bucket now -> ~ In (b, m) em') /\
  (forall b m, In (b, m) em -> cleanup_bucket now < b -> In (b, m) em').
Proof.
  unfold em_cleanup. destruct (em_due em now) eqn:D; [intros H; inversion H|].
  intros H; inversion H; subst; clear H. unfold em_keep. repeat split.
  - intros b m Hin. apply filter_In in Hin. destruct Hin as (_ & Hf). cbn [fst] in Hf.
    destruct (b <=? cleanup_bucket now) eqn:E; [discriminate|lia].
  - intros b m Hin Hle Hin'. apply filter_In in Hin'. destruct Hin' as (_ & Hf). cbn [fst] in Hf.
    destruct (b <=? cleanup_bucket now) eqn:E; [discriminate|lia].
  - intros b m Hin Hlt. apply filter_In. split; [assumption|]. cbn [fst].
    destruct (b <=? cleanup_bucket now) eqn:E; [lia|reflexivity].
Qed.

Theorem cleanup_nothing_due em now em' : em_cleanup em now = (em', None) ->
  em' = em /\ forall b m, In (b, m) em -> cleanup_bucket now < b.
Proof.
  unfold em_cleanup. destruct (em_due em now) eqn:D; [|intros H; inversion H].
  intros H; inversion H; subst. split; [reflexivity|]. intros b m Hin.
  destruct (b <=? cleanup_bucket now) eqn:E; [|lia].
  assert (In (b, m) (em_due em' now)) by (apply filter_In; split; [assumption|exact E]).
  rewrite D in H0. destruct H0.
Qed.
