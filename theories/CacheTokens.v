(* CacheTokens.v — property C08: values are conserved.  Every step of every actor moves values
   between "held by the cache" (resident, buffered, in the processor's hands), "handed to a callback"
   and the two silent exits (clear() dropping the store, a get_mut write overwriting in place); nothing
   is duplicated and nothing vanishes. *)
From StrettoModel Require Import Base BaseProofs Metrics Sketch Bloom TinyLFU TinyLFUProofs Policy PolicyProofs Ttl Store StoreProofs
  Cache CacheProofs CacheLocal CacheInv CacheAgree CacheMetrics CacheCharge.
From Coq Require Import ZifyBool ZifyNat ZifyN.
Open Scope N_scope.

Definition cnt (l : list N) (x : N) : nat := count_occ N.eq_dec l x.

Lemma cnt_app l1 l2 x : cnt (l1 ++ l2) x = (cnt l1 x + cnt l2 x)%nat.
Proof. apply count_occ_app. Qed.
Lemma cnt_nil x : cnt [] x = 0%nat.
Proof. reflexivity. Qed.

Definition vals (m : amap entry) : list N := map (fun p => e_val (snd p)) m.
Definition item_vals (it : item) : list N := match it with INew _ _ _ v _ => [v] | _ => [] end.
Definition buf_vals (b : list item) : list N := flat_map item_vals b.
Definition cb_val (cb : cbk) : N := match cb with CbExit v => v | CbEvict _ _ v _ => v | CbReject _ _ v _ => v end.
Definition cb_vals (cbs : list cbk) : list N := map cb_val cbs.
Definition pc_vals (p : ppc) : list N :=
  match p with
  | PNewAfterAdd _ _ v _ _ _ _ => [v]
  | PTickKey _ _ _ acc => cb_vals acc
  | PTickAfterPolicy _ _ _ _ acc => cb_vals acc
  | _ => []
  end.

(* the values the cache holds: resident, buffered New items, and what the processor has in hand *)
Definition held (st : cstate) : list N :=
  vals (st_map (s_store st)) ++ buf_vals (s_buf st) ++ pc_vals (s_pc st).

(* ---- counting through the store operations ---- *)
Lemma vals_adel_present k (m : amap entry) e x :
  NoDup (akeys m) -> aget k m = Some e -> (cnt (vals (adel k m)) x + cnt [e_val e] x = cnt (vals m) x)%nat.
Proof.
  induction m as [|[a b] m IH]; cbn [aget adel akeys map fst]; [discriminate|]. intros ND G.
  inversion ND as [|? ? Hn ND']; subst. destruct (N.eqb_spec k a) as [->|Hne].
  - inversion G; subst. rewrite (adel_absent a m (aget_notin a m Hn)). unfold vals. cbn [map snd]. unfold cnt. cbn [count_occ].
    destruct (N.eq_dec (e_val e) x); lia.
  - specialize (IH ND' G). unfold vals in *. cbn [map snd]. unfold cnt in *. cbn [count_occ] in *.
    destruct (N.eq_dec (e_val b) x); destruct (N.eq_dec (e_val e) x); lia.
Qed.

Lemma vals_aset_present k (m : amap entry) e e' x :
  NoDup (akeys m) -> aget k m = Some e ->
  (cnt (vals (aset k e' m)) x + cnt [e_val e] x = cnt (vals m) x + cnt [e_val e'] x)%nat.
Proof.
  intros ND G. pose proof (vals_adel_present k m e x ND G) as H. unfold aset, vals in *. cbn [map snd]. unfold cnt in *. cbn [count_occ] in *.
  destruct (N.eq_dec (e_val e') x); destruct (N.eq_dec (e_val e) x); lia.
Qed.

Lemma vals_aset_absent k (m : amap entry) e' x :
  aget k m = None -> cnt (vals (aset k e' m)) x = (cnt (vals m) x + cnt [e_val e'] x)%nat.
Proof.
  intros G. unfold aset. rewrite (adel_absent k m G). unfold vals. cbn [map snd]. unfold cnt. cbn [count_occ].
  destruct (N.eq_dec (e_val e') x); lia.
Qed.

(* store operations in counting form *)
Lemma cnt_try_update vld s k v c t s' r x :
  NoDup (akeys (st_map s)) -> st_try_update vld s k v c t = (s', r) ->
  match r with
  | UUpdate old => (cnt (vals (st_map s')) x + cnt [old] x = cnt (vals (st_map s)) x + cnt [v] x)%nat
  | _ => s' = s
  end.
Proof.
  intros ND. unfold st_try_update. destruct (aget k (st_map s)) as [e|] eqn:G; [|intros H; inversion H; subst; reflexivity].
  destruct (negb (conflict_ok c e)); [intros H; inversion H; subst; reflexivity|].
  destruct (negb (vld (e_val e) v)); [intros H; inversion H; subst; reflexivity|].
  intros H; inversion H; subst. cbn [st_map].
  exact (vals_aset_present k (st_map s) e {| e_conflict := e_conflict e; e_val := v; e_exp := t |} x ND G).
Qed.

Lemma cnt_try_remove s k c s' prev x :
  NoDup (akeys (st_map s)) -> st_try_remove s k c = (s', prev) ->
  match prev with
  | Some e => (cnt (vals (st_map s')) x + cnt [e_val e] x = cnt (vals (st_map s)) x)%nat
  | None => s' = s
  end.
Proof.
  intros ND. unfold st_try_remove. destruct (aget k (st_map s)) as [e|] eqn:G; [|intros H; inversion H; subst; reflexivity].
  destruct (negb (conflict_ok c e)); [intros H; inversion H; subst; reflexivity|].
  intros H; inversion H; subst. cbn [st_map]. exact (vals_adel_present k (st_map s) e x ND G).
Qed.

Lemma cnt_try_insert_absent vld s k v c t x :
  aget k (st_map s) = None -> cnt (vals (st_map (st_try_insert vld s k v c t))) x = (cnt (vals (st_map s)) x + cnt [v] x)%nat.
Proof.
  intros G. unfold st_try_insert. rewrite G. cbn [st_map].
  exact (vals_aset_absent k (st_map s) {| e_conflict := c; e_val := v; e_exp := t |} x G).
Qed.

Lemma cnt_write s k v x e :
  NoDup (akeys (st_map s)) -> aget k (st_map s) = Some e ->
  (cnt (vals (st_map (st_write s k v))) x + cnt [e_val e] x = cnt (vals (st_map s)) x + cnt [v] x)%nat.
Proof.
  intros ND G. unfold st_write. rewrite G. cbn [st_map].
  exact (vals_aset_present k (st_map s) e {| e_conflict := e_conflict e; e_val := v; e_exp := e_exp e |} x ND G).
Qed.

Lemma buf_vals_cons it its : buf_vals (it :: its) = item_vals it ++ buf_vals its.
Proof. reflexivity. Qed.

Lemma cb_vals_app a b : cb_vals (a ++ b) = cb_vals a ++ cb_vals b.
Proof. apply map_app. Qed.

Lemma cnt_drain_items its : forall d cbs d' cbs' x,
  drain_items its d cbs = (d', cbs') -> cnt (cb_vals cbs') x = (cnt (cb_vals cbs) x + cnt (buf_vals its) x)%nat.
Proof.
  induction its as [|it its IH]; intros d cbs d' cbs' x; cbn [drain_items].
  - intros H; inversion H; subst. cbn [buf_vals flat_map]. rewrite cnt_nil. lia.
  - rewrite buf_vals_cons, cnt_app. destruct it; cbn [item_vals]; intros H; apply IH with (x := x) in H; rewrite H; rewrite ?cnt_nil; try lia.
    rewrite cb_vals_app, cnt_app. cbn [cb_vals map cb_val]. lia.
Qed.

(* ---- what enters and what leaves silently at a step ---- *)
Definition incoming (c : cfg) (st : cstate) (l : label) : list N :=
  match l with
  | LOp a (OInsert k cf v cost ttl only) =>
      if s_closed st then [] else
      match snd (st_try_update (c_validator c) (s_store st) k v cf {| t_created := s_now st; t_d := ttl |}) with
      | UUpdate _ => [v]
      | _ => []
      end
  | LClient a =>
      match client_of st a with
      | KInsSend it _ => match buf_send c st it with Some _ => item_vals it | None => [] end
      | KGetStore k cf (Some v) => match st_get (s_now st) (s_store st) k cf with Some _ => [v] | None => [] end
      | _ => []
      end
  | _ => []
  end.

Definition lost (c : cfg) (st : cstate) (l : label) : list N :=
  match l with
  | LClient a =>
      match client_of st a with
      | KGetStore k cf (Some v) => match st_get (s_now st) (s_store st) k cf with Some e => [e_val e] | None => [] end
      | _ => []
      end
  | LProc _ => match s_pc st with PClearAfterPolicy _ => vals (st_map (s_store st)) | _ => [] end
  | _ => []
  end.

(* an admitted New item finds its key absent (true in every reachable state of a collision-free run:
   Agree's PcOk clause) *)
Definition admit_absent (st : cstate) : Prop :=
  forall k cf v exp cost vs, s_pc st = PNewAfterAdd k cf v exp cost vs true -> aget k (st_map (s_store st)) = None.

Lemma buf_vals_app a b : buf_vals (a ++ b) = buf_vals a ++ buf_vals b.
Proof. apply flat_map_app. Qed.

Lemma ring_push_frame c st k :
  s_store (ring_push c st k) = s_store st /\ s_buf (ring_push c st k) = s_buf st /\ s_pc (ring_push c st k) = s_pc st.
Proof.
  unfold ring_push, policy_push. repeat match goal with |- context [if ?b then _ else _] => destruct b end;
    try destruct (s_ring st ++ [k]); unemit; auto.
Qed.

Lemma st_get_aget now s k c e : st_get now s k c = Some e -> aget k (st_map s) = Some e.
Proof. unfold st_get. destruct (aget k (st_map s)) as [e0|]; [|discriminate]. destruct (_ && _); [congruence|discriminate]. Qed.

Lemma cnt_cons a l x : cnt (a :: l) x = (cnt [a] x + cnt l x)%nat.
Proof. change (a :: l) with ([a] ++ l). apply cnt_app. Qed.
Lemma buf_vals_nil : buf_vals [] = [].
Proof. reflexivity. Qed.
Lemma cb_vals_nil : cb_vals [] = [].
Proof. reflexivity. Qed.
Lemma cb_vals_cons a l : cb_vals (a :: l) = cb_val a :: cb_vals l.
Proof. reflexivity. Qed.
Lemma vals_nil : vals [] = [].
Proof. reflexivity. Qed.

Ltac tok_norm :=
  unfold held; sproj;
  repeat match goal with
  | E : s_pc ?s = _ |- context [s_pc ?s] => rewrite E
  | E : s_buf ?s = _ |- context [s_buf ?s] => rewrite E
  end;
  cbn [snd fst o_cbs mk_out st_map st_empty pc_vals];
  rewrite ?buf_vals_app, ?buf_vals_cons, ?buf_vals_nil, ?cb_vals_app, ?cb_vals_cons, ?cb_vals_nil, ?vals_nil, ?app_nil_r;
  cbn [item_vals cb_val app];
  rewrite ?cnt_app, ?app_nil_r;
  repeat match goal with |- context [cnt (?a :: ?l) ?x] => lazymatch l with [] => fail | _ => rewrite (cnt_cons a l x) end end;
  rewrite ?cnt_nil.

Ltac tok_facts x ND :=
  repeat match goal with
  | E : st_try_update _ _ _ _ _ _ = (_, _) |- _ => let F := fresh "F" in pose proof (cnt_try_update _ _ _ _ _ _ _ _ x ND E) as F; cbn beta iota in F; revert E
  | E : st_try_remove _ _ _ = (_, ?p) |- _ => let F := fresh "F" in pose proof (cnt_try_remove _ _ _ _ _ x ND E) as F; revert E; (tryif is_var p then destruct p else idtac); cbn beta iota in F
  | E : drain_items _ _ _ = (_, _) |- _ => let F := fresh "F" in pose proof (cnt_drain_items _ _ _ _ _ x E) as F; rewrite ?cb_vals_nil, ?cnt_nil in F; revert E
  end; intros.

Theorem token_step c st l st' o x :
  StoreND st -> admit_absent st -> cstep c st l = StepOk st' o ->
  cnt (held st ++ incoming c st l) x = cnt (held st' ++ cb_vals (o_cbs o) ++ lost c st l) x.
Proof.
  intros ND AA H. unfold StoreND in ND.
  destruct l as [a op|a|h|h|dt|].
  - destruct op; unfold incoming, lost; crush_step H; open_shapes; unemit;
      tok_facts x ND; subst; tok_norm;
      try (destruct (ring_push_frame c st k) as (R1 & R2 & R3); rewrite ?R1, ?R2, ?R3); lia.
  - unfold incoming, lost. cbn [cstep] in H. unfold continue_client in H.
    destruct (client_of st a) eqn:CA; unfold buf_send in *; crush_step H; open_shapes; unemit; tok_facts x ND; subst; tok_norm; try lia.
    all: match goal with G : st_get _ _ _ _ = Some ?e |- _ => pose proof (cnt_write (s_store st) k n x e ND (st_get_aget _ _ _ _ _ G)) end; lia.
  - unfold incoming, lost, held. crush_step H; open_shapes; unemit; tok_facts x ND; subst; tok_norm; try lia;
      try (rewrite cnt_try_insert_absent by (eapply AA; eassumption); lia).
  - unfold incoming, lost; crush_step H; open_shapes; unemit; tok_norm; lia.
  - unfold incoming, lost; crush_step H; tok_norm; lia.
  - unfold incoming, lost; crush_step H; tok_norm; lia.
Qed.

Lemma Agree_admit_absent st : Agree st -> admit_absent st.
Proof.
  intros (_ & _ & PK) k cf v exp cost vs PC. unfold PcOk in PK. rewrite PC in PK. destruct PK as (PK1 & _).
  destruct (PK1 eq_refl) as (_ & NS). unfold inS, amem in NS. destruct (aget k (st_map (s_store st))); [discriminate NS|reflexivity].
Qed.

(* ---- whole runs: what went in, what came back, what was dropped silently ---- *)
Inductive trace (c : cfg) (st0 : cstate) : cstate -> list N -> list N -> list N -> Prop :=
| tr_init : trace c st0 st0 [] [] []
| tr_step st ins cbs ls l st' o :
    trace c st0 st ins cbs ls -> label_cf0 l -> cstep c st l = StepOk st' o ->
    trace c st0 st' (ins ++ incoming c st l) (cbs ++ cb_vals (o_cbs o)) (ls ++ lost c st l).

Lemma trace_reach c st0 st ins cbs ls : trace c st0 st ins cbs ls -> reach_cf c st0 st.
Proof. induction 1; [constructor|econstructor; eassumption]. Qed.

Lemma reach_cf_StoreND c mc t now st : reach_cf c (cinit c mc t now) st -> StoreND st.
Proof.
  induction 1 as [|st l st' o R IH L S]; [unfold StoreND, cinit; sproj; constructor|].
  eapply StoreND_step; eassumption.
Qed.

(* C08, conservation: in every collision-free run — any history, any number of clients, any schedule —
   the values that entered the cache (accepted inserts and in-place writes) are, counted with
   multiplicity, exactly: those it still holds (resident, buffered, in the processor's hands), those
   handed to callbacks, and those dropped silently by clear() or overwritten in place through
   get_mut. *)
Theorem values_are_conserved c mc t now st ins cbs ls x :
  trace c (cinit c mc t now) st ins cbs ls ->
  cnt ins x = cnt (held st ++ cbs ++ ls) x.
Proof.
  intros T. induction T as [|st ins cbs ls l st' o T IH L S].
  - reflexivity.
  - pose proof (trace_reach _ _ _ _ _ _ T) as R. destruct (reach_cf_inv _ _ _ _ _ R) as (A & _).
    pose proof (token_step c st l st' o x (reach_cf_StoreND _ _ _ _ _ R) (Agree_admit_absent st A) S) as TS.
    rewrite !cnt_app in *. lia.
Qed.

(* exactly one place: if every value written during the run is distinct, no value is at once held and
   handed back, none is handed back twice, none is both handed back and dropped *)
Theorem each_value_is_in_exactly_one_place c mc t now st ins cbs ls :
  trace c (cinit c mc t now) st ins cbs ls -> NoDup ins -> NoDup (held st ++ cbs ++ ls).
Proof.
  intros T ND. apply (NoDup_count_occ N.eq_dec). intros x.
  pose proof (values_are_conserved c mc t now st ins cbs ls x T) as E. unfold cnt in E. rewrite <- E.
  apply (NoDup_count_occ N.eq_dec). exact ND.
Qed.

(* a value handed to a callback is not held any more, so no later lookup can return it (a lookup
   returns a resident value) *)
Theorem handed_back_is_gone c mc t now st ins cbs ls v :
  trace c (cinit c mc t now) st ins cbs ls -> NoDup ins -> In v cbs -> ~ In v (held st).
Proof.
  intros T ND Hc Hh. pose proof (values_are_conserved c mc t now st ins cbs ls v T) as E.
  assert (P1 : (cnt ins v <= 1)%nat) by (apply (NoDup_count_occ N.eq_dec); exact ND).
  assert (P2 : (0 < cnt (held st) v)%nat) by (apply (count_occ_In N.eq_dec); exact Hh).
  assert (P3 : (0 < cnt cbs v)%nat) by (apply (count_occ_In N.eq_dec); exact Hc).
  rewrite !cnt_app in E. lia.
Qed.

(* and nothing accepted is lost: whatever entered is still held, was handed back, or was dropped by
   clear()/an in-place write *)
Theorem nothing_vanishes c mc t now st ins cbs ls v :
  trace c (cinit c mc t now) st ins cbs ls -> In v ins -> In v (held st) \/ In v cbs \/ In v ls.
Proof.
  intros T Hi. pose proof (values_are_conserved c mc t now st ins cbs ls v T) as E.
  assert (P : (0 < cnt ins v)%nat) by (apply (count_occ_In N.eq_dec); exact Hi).
  rewrite E in P. apply (count_occ_In N.eq_dec) in P. apply in_app_or in P. destruct P as [P|P]; [auto|].
  apply in_app_or in P. tauto.
Qed.
