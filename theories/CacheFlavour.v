(* CacheFlavour.v — property C19: where, exactly, the two flavours differ.  The model has one
   transition function for both; the flavour is consulted at three points only. *)
From StrettoModel Require Import Base BaseProofs Metrics Sketch Bloom TinyLFU Policy PolicyProofs Ttl Store StoreProofs
  Cache CacheProofs CacheLocal CacheInv CacheMetrics.
From Coq Require Import ZifyBool ZifyNat ZifyN.
Open Scope N_scope.

Definition with_flavour (c : cfg) (b : bool) : cfg :=
  {| c_ignore_internal := c_ignore_internal c; c_item_size := c_item_size c; c_buf_cap := c_buf_cap c;
     c_buffer_items := c_buffer_items c; c_metrics := c_metrics c; c_validator := c_validator c;
     c_coster := c_coster c; c_async := b |}.

(* the steps whose outcome may depend on the flavour: a get-ring flush when the policy's queue
   already holds SYNC_POLICY_QUEUE_CAP batches (sync drops, async queues), and the two stop
   handshakes of close() (sync rendezvous, async buffered message) *)
Definition flavour_insensitive (c : cfg) (st : cstate) (l : label) : Prop :=
  match l with
  | LOp _ op =>
      if is_lookup op && negb (s_closed st) then N.of_nat (length (s_pqueue st)) < Consts.SYNC_POLICY_QUEUE_CAP else True
  | LClient a =>
      match client_of st a with
      | KCloseBeforeStop => s_pc st = PExited
      | KPolCloseBeforeStop => s_wpc st = WExited
      | _ => True
      end
  | _ => True
  end.

Lemma buf_send_flavour c b st it : buf_send (with_flavour c b) st it = buf_send c st it.
Proof. reflexivity. Qed.

Lemma emit_flavour c b st evs : emit (with_flavour c b) st evs = emit c st evs.
Proof. reflexivity. Qed.

Lemma policy_push_flavour c st ks :
  N.of_nat (length (s_pqueue st)) < Consts.SYNC_POLICY_QUEUE_CAP ->
  policy_push (with_flavour c true) st ks = policy_push (with_flavour c false) st ks.
Proof.
  intros H. unfold policy_push. destruct (s_pol_closed st); [reflexivity|]. destruct ks; [reflexivity|].
  destruct (s_wpc st); [|reflexivity]. unfold pol_queue_cap. cbn [c_async with_flavour].
  destruct (N.of_nat (length (s_pqueue st)) <? Consts.SYNC_POLICY_QUEUE_CAP) eqn:E; [reflexivity|lia].
Qed.

Lemma ring_push_flavour c st k :
  N.of_nat (length (s_pqueue st)) < Consts.SYNC_POLICY_QUEUE_CAP ->
  ring_push (with_flavour c true) st k = ring_push (with_flavour c false) st k.
Proof.
  intros H. unfold ring_push. cbn [c_buffer_items with_flavour].
  destruct (c_buffer_items c <=? _); [|reflexivity]. apply policy_push_flavour. sproj. exact H.
Qed.

Lemma prepare_evicts_flavour c b cbs : forall st, prepare_evicts (with_flavour c b) st cbs = prepare_evicts c st cbs.
Proof.
  induction cbs as [|cb cbs IH]; intros st; cbn [prepare_evicts]; [reflexivity|].
  destruct cb; try apply IH. change (prepare_evict (with_flavour c b) st k) with (prepare_evict c st k).
  destruct (prepare_evict c st k); [apply IH|reflexivity].
Qed.

Lemma tick_next_flavour c b st h rest acc : tick_next (with_flavour c b) st h rest acc = tick_next c st h rest acc.
Proof. unfold tick_next. destruct rest; [rewrite prepare_evicts_flavour|]; reflexivity. Qed.

(* the processor and the policy worker (the shared macros impl_cache_processor / impl_policy) never
   consult the flavour *)
Ltac fl c b :=
  change (c_validator (with_flavour c b)) with (c_validator c);
  change (c_coster (with_flavour c b)) with (c_coster c);
  change (c_metrics (with_flavour c b)) with (c_metrics c);
  change (internal_cost (with_flavour c b)) with (internal_cost c);
  change (emit (with_flavour c b)) with (emit c);
  change (track_admission (with_flavour c b)) with (track_admission c);
  change (prepare_evict (with_flavour c b)) with (prepare_evict c);
  change (buf_send (with_flavour c b)) with (buf_send c);
  change (c_buf_cap (with_flavour c b)) with (c_buf_cap c);
  change (c_buffer_items (with_flavour c b)) with (c_buffer_items c);
  rewrite ?prepare_evicts_flavour, ?tick_next_flavour.

Lemma proc_handle_item_flavour c b st h it : proc_handle_item (with_flavour c b) st h it = proc_handle_item c st h it.
Proof. destruct it; unfold proc_handle_item; fl c b; reflexivity. Qed.

Theorem proc_step_flavour c b st h : proc_step (with_flavour c b) st h = proc_step c st h.
Proof.
  unfold proc_step. destruct (s_pc st).
  - destruct (h_arm h) as [[| | |]|].
    + destruct (s_buf st); [reflexivity|]. apply proc_handle_item_flavour.
    + reflexivity.
    + destruct (s_ticks st =? 0); [reflexivity|]. destruct (em_cleanup _ _) as [em' due]. destruct due; [|reflexivity].
      apply tick_next_flavour.
    + reflexivity.
    + reflexivity.
  - fl c b. reflexivity.
  - reflexivity.
  - destruct v. destruct (st_try_remove _ _ _) as [sto prev]. fl c b. reflexivity.
  - reflexivity.
  - reflexivity.
  - reflexivity.
  - fl c b. reflexivity.
  - destruct (st_expiration _ _); [|apply tick_next_flavour].
    destruct (negb _ && _); [fl c b; reflexivity|apply tick_next_flavour].
  - destruct (st_try_remove _ _ _) as [sto prev]. apply tick_next_flavour.
  - reflexivity.
Qed.

Theorem worker_step_flavour c b st h : worker_step (with_flavour c b) st h = worker_step c st h.
Proof. unfold worker_step. reflexivity. Qed.

(* C19: every step of every actor has the same outcome — same next state, same callbacks, same
   result — in both flavours, except at the points listed above. *)
Theorem flavours_agree c st l :
  flavour_insensitive c st l -> cstep (with_flavour c true) st l = cstep (with_flavour c false) st l.
Proof.
  intros FI. destruct l as [a op|a|h|h|dt|]; cbn [cstep flavour_insensitive] in *.
  - destruct (client_of st a); try (exact eq_refl). destruct op; cbn [start_op is_lookup andb] in *; fl c true; fl c false;
      try (exact eq_refl).
    + destruct (s_closed st); [exact eq_refl|]. cbn [negb] in FI. rewrite (ring_push_flavour c st k FI). exact eq_refl.
    + destruct (s_closed st); [exact eq_refl|]. cbn [negb] in FI. rewrite (ring_push_flavour c st k FI). exact eq_refl.
  - unfold continue_client. destruct (client_of st a); fl c true; fl c false; try (exact eq_refl).
    + rewrite FI. exact eq_refl.
    + rewrite FI. exact eq_refl.
  - rewrite !proc_step_flavour. exact eq_refl.
  - rewrite !worker_step_flavour. exact eq_refl.
  - exact eq_refl.
  - exact eq_refl.
Qed.

(* ---- the stop handshake of close(): rendezvous (sync) and buffered message (async) end in the
   same state with the same callbacks ---- *)
Lemma adel_adel {V} k (m : amap V) : adel k (adel k m) = adel k m.
Proof.
  induction m as [|[a b] m IH]; cbn [adel]; [reflexivity|]. destruct (N.eqb k a) eqn:E; [exact IH|].
  cbn [adel]. rewrite E, IH. reflexivity.
Qed.

Lemma aset_aset {V} a (x y : V) m : aset a x (aset a y m) = aset a x m.
Proof. unfold aset. f_equal. cbn [adel]. rewrite N.eqb_refl. apply adel_adel. Qed.

Lemma cstate_ext st1 st2 :
  s_store st1 = s_store st2 ->
  s_slfu st1 = s_slfu st2 ->
  s_tlfu st1 = s_tlfu st2 ->
  s_ring st1 = s_ring st2 ->
  s_pqueue st1 = s_pqueue st2 ->
  s_buf st1 = s_buf st2 ->
  s_clear_sigs st1 = s_clear_sigs st2 ->
  s_done st1 = s_done st2 ->
  s_next_id st1 = s_next_id st2 ->
  s_ticks st1 = s_ticks st2 ->
  s_stop_msgs st1 = s_stop_msgs st2 ->
  s_pol_stop_msgs st1 = s_pol_stop_msgs st2 ->
  s_now st1 = s_now st2 ->
  s_mets st1 = s_mets st2 ->
  s_hist st1 = s_hist st2 ->
  s_start st1 = s_start st2 ->
  s_closed st1 = s_closed st2 ->
  s_pol_closed st1 = s_pol_closed st2 ->
  s_pc st1 = s_pc st2 ->
  s_wpc st1 = s_wpc st2 ->
  s_clients st1 = s_clients st2 -> st1 = st2.
Proof. destruct st1, st2; cbn; intros; subst; reflexivity. Qed.

Lemma client_of_aset_same st a k : client_of (set_client st a k) a = k.
Proof. rewrite client_of_set, N.eqb_refl. reflexivity. Qed.

Theorem close_handshake_agrees c st a h :
  client_of st a = KCloseBeforeStop -> s_pc st = PIdle -> s_stop_msgs st = 0 -> h_arm h = Some ArmStop ->
  exists st1 cbs,
    crun (with_flavour c false) st [LClient a; LProc h; LClient a] =
      Some (st1, [mk_out PtBlocked [] RNone; mk_out PtProcExit cbs RNone; mk_out PtCloseBeforePolicy [] RNone]) /\
    crun (with_flavour c true) st [LClient a; LProc h] =
      Some (st1, [mk_out PtCloseBeforePolicy [] RNone; mk_out PtProcExit cbs RNone]).
Proof.
  intros CA PC SM HA.
  (* sync *)
  set (s1 := set_client st a KCloseStopOffered).
  assert (E1 : cstep (with_flavour c false) st (LClient a) = StepOk s1 (mk_out PtBlocked [] RNone)).
  { cbn [cstep]. unfold continue_client. rewrite CA, PC, SM. reflexivity. }
  assert (FO : find_offer false (s_clients s1) = Some a) by reflexivity.
  destruct (drain_buffer (set_client s1 a KCloseStopTaken)) as [s2 cbs] eqn:DB.
  set (s3 := upd_pc (upd_clear_sigs (upd_done s2 (s_clear_sigs s2 ++ s_done s2)) []) PExited).
  assert (E2 : cstep (with_flavour c false) s1 (LProc h) = StepOk s3 (mk_out PtProcExit cbs RNone)).
  { cbn [cstep]. unfold proc_step. replace (s_pc s1) with PIdle by (symmetry; exact PC). rewrite HA.
    replace (s_stop_msgs s1) with 0 by (symmetry; exact SM). cbn [N.ltb N.compare]. rewrite FO.
    unfold s1 at 1. rewrite client_of_aset_same. rewrite DB. reflexivity. }
  assert (C3 : client_of s3 a = KCloseStopTaken).
  { unfold drain_buffer in DB. destruct (drain_items _ _ _) as [d cb]. inversion DB; subst s2. unfold s3, client_of. sproj.
    rewrite aget_aset_same. reflexivity. }
  assert (E3 : cstep (with_flavour c false) s3 (LClient a) = StepOk (set_client s3 a KCloseBeforePolicy) (mk_out PtCloseBeforePolicy [] RNone)).
  { cbn [cstep]. unfold continue_client. rewrite C3. reflexivity. }
  exists (set_client s3 a KCloseBeforePolicy), cbs. split.
  { cbn [crun]. rewrite E1. cbn [crun]. rewrite E2. cbn [crun]. rewrite E3. reflexivity. }
  (* async *)
  set (t1 := set_client (upd_stop_msgs st 1) a KCloseBeforePolicy).
  assert (F1 : cstep (with_flavour c true) st (LClient a) = StepOk t1 (mk_out PtCloseBeforePolicy [] RNone)).
  { cbn [cstep]. unfold continue_client. rewrite CA, PC, SM. reflexivity. }
  cbn [crun]. rewrite F1. cbn [crun cstep]. unfold proc_step.
  replace (s_pc t1) with PIdle by (symmetry; exact PC). rewrite HA.
  replace (s_stop_msgs t1) with 1 by reflexivity. cbn [N.ltb N.compare].
  unfold drain_buffer in *. unfold t1, s1 in *. sproj.
  destruct (drain_items (s_buf st) (s_done st) []) as [d cb] eqn:DI. inversion DB; subst s2 cbs. unfold s3. sproj.
  do 3 f_equal. apply cstate_ext; unfold set_client; sproj; try reflexivity.
  - rewrite SM. reflexivity.
  - rewrite !aset_aset. reflexivity.
Qed.
