(* CacheAgree.v — property C06: resident entries and policy charges agree at quiescence, for every
   schedule.  The inductive invariant says which program points excuse a key that is resident but
   not charged, or charged but not resident. *)
From StrettoModel Require Import Base BaseProofs Metrics Sketch SketchProofs Bloom TinyLFU Policy PolicyProofs Ttl Store StoreProofs Cache CacheProofs CacheInv.
From Coq Require Import ZifyBool ZifyNat ZifyN.
Open Scope N_scope.

(* ---- membership ---- *)
Lemma amem_aset {V} k k' (v : V) m : amem k (aset k' v m) = N.eqb k k' || amem k m.
Proof.
  unfold amem. destruct (N.eqb_spec k k') as [->|Hne].
  - rewrite aget_aset_same. reflexivity.
  - rewrite aget_aset_other by assumption. reflexivity.
Qed.

Lemma amem_adel {V} k k' (m : amap V) : amem k (adel k' m) = negb (N.eqb k k') && amem k m.
Proof.
  unfold amem. destruct (N.eqb_spec k k') as [->|Hne].
  - rewrite aget_adel_same. reflexivity.
  - rewrite aget_adel_other by assumption. reflexivity.
Qed.

Lemma amem_true_iff {V} k (m : amap V) : amem k m = true <-> exists v, aget k m = Some v.
Proof. unfold amem. destruct (aget k m); split; eauto; try discriminate. intros [v H]; discriminate. Qed.

Definition inS (st : cstate) (k : N) : bool := amem k (st_map (s_store st)).
Definition inC (st : cstate) (k : N) : bool := amem k (sl_kc (s_slfu st)).
Definition vkeys (vs : list pair) : list key := map fst vs.

(* store operations and key membership *)
Lemma try_update_keys vld s k v c t s' r k' :
  st_try_update vld s k v c t = (s', r) -> amem k' (st_map s') = amem k' (st_map s).
Proof.
  unfold st_try_update. destruct (aget k (st_map s)) as [e|] eqn:E; [|intros H; inversion H; reflexivity].
  destruct (negb (conflict_ok c e)); [intros H; inversion H; reflexivity|].
  destruct (negb (vld (e_val e) v)); [intros H; inversion H; reflexivity|].
  intros H; inversion H; subst; cbn [st_map]. rewrite amem_aset.
  destruct (N.eqb_spec k' k) as [->|]; [|reflexivity]. unfold amem. rewrite E. reflexivity.
Qed.

Lemma try_remove_keys s k s' prev k' :
  st_try_remove s k 0 = (s', prev) -> amem k' (st_map s') = negb (N.eqb k' k) && amem k' (st_map s).
Proof.
  unfold st_try_remove. destruct (aget k (st_map s)) as [e|] eqn:E.
  - cbn [conflict_ok N.eqb negb orb]. intros H; inversion H; subst; cbn [st_map]. apply amem_adel.
  - intros H; inversion H; subst. destruct (N.eqb_spec k' k) as [->|]; [|reflexivity].
    unfold amem. rewrite E. reflexivity.
Qed.

Lemma try_insert_keys vld s k v t k' :
  amem k' (st_map (st_try_insert vld s k v 0 t)) = N.eqb k' k || amem k' (st_map s).
Proof.
  unfold st_try_insert. destruct (aget k (st_map s)) as [e|] eqn:E.
  - cbn [conflict_ok N.eqb negb orb].
    assert (Hk : amem k (st_map s) = true) by (unfold amem; rewrite E; reflexivity).
    destruct (negb (vld (e_val e) v)); cbn [st_map]; [|rewrite amem_aset];
      destruct (N.eqb_spec k' k) as [->|]; auto.
  - cbn [st_map]. apply amem_aset.
Qed.

Lemma write_keys s k v k' : amem k' (st_map (st_write s k v)) = amem k' (st_map s).
Proof.
  unfold st_write. destruct (aget k (st_map s)) as [e|] eqn:E; [|reflexivity]. cbn [st_map].
  rewrite amem_aset. destruct (N.eqb_spec k' k) as [->|]; [|reflexivity]. unfold amem. rewrite E. reflexivity.
Qed.

(* policy operations and key membership *)
Lemma sl_update_keys s k c k' : amem k' (sl_kc (fst (fst (sl_update s k c)))) = amem k' (sl_kc s).
Proof.
  unfold sl_update. destruct (aget k (sl_kc s)) eqn:E; [|reflexivity]. cbn [fst sl_kc].
  rewrite amem_aset. destruct (N.eqb_spec k' k) as [->|]; [|reflexivity]. unfold amem. rewrite E. reflexivity.
Qed.

Lemma pol_remove_keys s k k' : amem k' (sl_kc (fst (pol_remove s k))) = negb (N.eqb k' k) && amem k' (sl_kc s).
Proof.
  rewrite pol_remove_fst. unfold sl_remove. destruct (aget k (sl_kc s)) eqn:E; cbn [fst sl_kc].
  - apply amem_adel.
  - destruct (N.eqb_spec k' k) as [->|]; [|reflexivity]. unfold amem. rewrite E. reflexivity.
Qed.

(* what the eviction loop does to membership: nothing is newly charged except k (iff admitted);
   whatever lost its charge is a victim; victims are uncharged and different from k *)
Lemma pair_in_amem p kc : pair_in p kc = true -> amem (fst p) kc = true.
Proof.
  induction kc as [|[a b] kc IH]; cbn [pair_in]; [discriminate|].
  rewrite orb_true_iff, andb_true_iff. intros [[H1 _]|H].
  - apply N.eqb_eq in H1. unfold amem. cbn [aget]. rewrite H1, N.eqb_refl. reflexivity.
  - unfold amem in *. cbn [aget]. destruct (N.eqb (fst p) a); [reflexivity|auto].
Qed.

Lemma find_min0_in est smp mk mh mi mc :
  smp <> [] -> (forall k, est k < I64MAX)%Z -> find_min0 est smp = (mk, mh, mi, mc) -> In (mk, mc) smp.
Proof.
  intros Hne Hest H. destruct (find_min0_spec est smp mk mh mi mc Hest Hne H) as (Hn & _).
  eapply nth_error_In. exact Hn.
Qed.

Lemma in_firstn {A} (x : A) n l : In x (firstn n l) -> In x l.
Proof. revert l. induction n as [|n IH]; intros [|y l]; cbn [firstn]; intros H; try contradiction.
  destruct H as [->|H]; [left; reflexivity|right; auto]. Qed.

Lemma in_list_set {A} (x y : A) l i : In x (list_set l i y) -> x = y \/ In x l.
Proof.
  revert i. induction l as [|z l IH]; intros [|i]; cbn [list_set]; intros H; try contradiction.
  - destruct H as [->|H]; [left; reflexivity|right; right; assumption].
  - destruct H as [->|H]; [right; left; reflexivity|]. destruct (IH i H); [left; assumption|right; right; assumption].
Qed.

Lemma swap_remove_incl l i x : In x (swap_remove l i) -> In x l.
Proof.
  unfold swap_remove. destruct (rev l) as [|lst r] eqn:R; [intros []|].
  assert (Hl : In lst l) by (apply in_rev; rewrite R; left; reflexivity).
  intros H. apply in_firstn in H. apply in_list_set in H. destruct H as [->|H]; assumption.
Qed.

Lemma pairs_eqb_eq a b : pairs_eqb a b = true -> a = b.
Proof.
  revert b. induction a as [|[k1 c1] a IH]; intros [|[k2 c2] b]; cbn [pairs_eqb]; try discriminate; [reflexivity|].
  rewrite !andb_true_iff. intros [[H1 H2] H3]. apply N.eqb_eq in H1. apply Z.eqb_eq in H2. subst.
  f_equal. apply IH. assumption.
Qed.

(* every element of a legal refill is an element of the old sample or a current charge *)
Lemma legal_fill_elems kc sample smp p :
  legal_fill kc sample smp = true -> In p smp -> In p sample \/ amem (fst p) kc = true.
Proof.
  unfold legal_fill. destruct (SAMPLES <=? length sample)%nat.
  - intros H Hp. apply pairs_eqb_eq in H. subst. left. assumption.
  - rewrite !andb_true_iff. intros [[[H1 _] H3] _] Hp. apply pairs_eqb_eq in H1.
    rewrite <- (firstn_skipn (length sample) smp) in Hp. apply in_app_or in Hp. destruct Hp as [Hp|Hp].
    + left. rewrite H1. assumption.
    + right. rewrite forallb_forall in H3. apply pair_in_amem. apply H3. assumption.
Qed.

Lemma evict_loop_members est ih k cost oracle :
  (forall x, est x < I64MAX)%Z ->
  forall s sample victims log mets s' v a l m,
  amem k (sl_kc s) = false ->
  (forall p, In p sample -> fst p <> k) ->
  evict_loop est ih k cost oracle s sample victims log mets = AddDone s' v a l m ->
  exists vs, v = Some (victims ++ vs) /\
    amem k (sl_kc s') = a /\
    (forall x, x <> k -> amem x (sl_kc s') = true -> amem x (sl_kc s) = true) /\
    (forall x, x <> k -> amem x (sl_kc s) = true -> amem x (sl_kc s') = false -> In x (vkeys vs)) /\
    (forall x, In x (vkeys vs) -> amem x (sl_kc s') = false /\ x <> k).
Proof.
  intros Hest. induction oracle as [|smp oracle IH]; intros s sample victims log mets s' v a l m Hk Hs; cbn [evict_loop].
  - destruct (0 <=? sl_room_left s cost)%Z; [|discriminate]. intros H; inversion H; subst.
    exists []. rewrite app_nil_r. split; [reflexivity|]. cbn [sl_increment sl_kc].
    split; [rewrite amem_aset, N.eqb_refl; reflexivity|].
    split; [intros x Hne; rewrite amem_aset; destruct (N.eqb_spec x k); [tauto|auto]|].
    split; [intros x Hne H1; rewrite amem_aset; destruct (N.eqb_spec x k); [tauto|]; simpl; congruence|].
    intros x [].
  - destruct (0 <=? sl_room_left s cost)%Z.
    + intros H; inversion H; subst.
      exists []. rewrite app_nil_r. split; [reflexivity|]. cbn [sl_increment sl_kc].
      split; [rewrite amem_aset, N.eqb_refl; reflexivity|].
      split; [intros x Hne; rewrite amem_aset; destruct (N.eqb_spec x k); [tauto|auto]|].
      split; [intros x Hne H1; rewrite amem_aset; destruct (N.eqb_spec x k); [tauto|]; simpl; congruence|].
      intros x [].
    + destruct (legal_fill (sl_kc s) sample smp) eqn:LF; cbn [negb]; [|discriminate].
      destruct (find_min0 est smp) as [[[mk mh] mi] mc] eqn:FM.
      destruct (ih <? mh)%Z.
      * intros H; inversion H; subst. exists []. rewrite app_nil_r. split; [reflexivity|].
        split; [assumption|]. split; [auto|]. split; [intros x _ H1 H2; congruence|intros x []].
      * destruct smp as [|p0 smp'] eqn:Esmp; [discriminate|]. rewrite <- Esmp in *.
        assert (Hne : smp <> []) by (rewrite Esmp; discriminate).
        pose proof (find_min0_in est smp mk mh mi mc Hne Hest FM) as Hin.
        assert (Hmk : mk <> k).
        { destruct (legal_fill_elems _ _ _ (mk, mc) LF Hin) as [H1|H1]; [apply (Hs _ H1)|].
          cbn [fst] in H1. intros ->. congruence. }
        destruct (pol_remove s mk) as [s1 ev] eqn:PR.
        assert (Hs1 : forall x, amem x (sl_kc s1) = negb (N.eqb x mk) && amem x (sl_kc s)).
        { intros x. replace s1 with (fst (pol_remove s mk)) by (rewrite PR; reflexivity). apply pol_remove_keys. }
        rewrite Esmp. rewrite <- Esmp. intros H. apply IH in H.
        -- destruct H as (vs & Hv & Ha & H1 & H2 & H3). exists ((mk, mc) :: vs).
           split; [rewrite Hv, <- app_assoc; reflexivity|]. split; [assumption|].
           split; [intros x Hx Hc; apply H1 in Hc; [|assumption]; rewrite Hs1 in Hc; apply andb_true_iff in Hc; tauto|].
           split.
           { intros x Hx Hc Hc'. cbn [vkeys map fst]. destruct (N.eq_dec x mk) as [->|Hxm]; [left; reflexivity|].
             right. apply H2; try assumption. rewrite Hs1. destruct (N.eqb_spec x mk); [tauto|]. assumption. }
           { intros x [<-|Hx].
             - cbn [fst]. split; [|assumption].
               destruct (amem mk (sl_kc s')) eqn:E; [|reflexivity].
               apply H1 in E; [|assumption]. rewrite Hs1, N.eqb_refl in E. discriminate.
             - apply H3. assumption. }
        -- rewrite Hs1. rewrite Hk. apply andb_false_r.
        -- intros p Hp. apply swap_remove_incl in Hp.
           destruct (legal_fill_elems _ _ _ p LF Hp) as [H1|H1]; [apply (Hs _ H1)|]. intros Heq. rewrite Heq in H1. congruence.
Qed.

Lemma est_of_small t k : (est_of t k < I64MAX)%Z.
Proof.
  unfold est_of, tl_estimate. destruct (sk_est (tl_sk t) k) as [e|] eqn:E; [|cbn; unfold I64MAX; lia].
  apply sk_est_le_255 in E.
  destruct (bl_contains (tl_bl t) k) as [[|]|]; unfold I64MAX; lia.
Qed.

Definition victims_of (v : option (list pair)) : list pair := match v with Some l => l | None => [] end.

Lemma pol_add_members est oracle s k cost s' v a l m :
  (forall x, est x < I64MAX)%Z ->
  pol_add est oracle s k cost = AddDone s' v a l m ->
  (forall x, x <> k -> amem x (sl_kc s') = true -> amem x (sl_kc s) = true) /\
  (forall x, x <> k -> amem x (sl_kc s) = true -> amem x (sl_kc s') = false -> In x (vkeys (victims_of v))) /\
  (forall x, In x (vkeys (victims_of v)) -> amem x (sl_kc s') = false /\ x <> k) /\
  (a = true -> amem k (sl_kc s') = true /\ amem k (sl_kc s) = false) /\
  (a = false -> amem k (sl_kc s') = amem k (sl_kc s)).
Proof.
  intros Hest. unfold pol_add. destruct (sl_max s <? cost)%Z.
  - intros H; inversion H; subst. cbn [victims_of vkeys map].
    split; [auto|]. split; [intros x _ H1 H2; congruence|]. split; [intros x []|]. split; [discriminate|reflexivity].
  - unfold sl_update. destruct (aget k (sl_kc s)) as [p|] eqn:Ek.
    + intros H; inversion H; subst. cbn [victims_of vkeys map sl_kc].
      assert (Hm : forall x, amem x (aset k cost (sl_kc s)) = amem x (sl_kc s)).
      { intros x. rewrite amem_aset. destruct (N.eqb_spec x k) as [->|]; [|reflexivity]. unfold amem. rewrite Ek. reflexivity. }
      split; [intros x _ Hx; rewrite Hm in Hx; assumption|].
      split; [intros x _ H1 H2; rewrite Hm in H2; congruence|]. split; [intros x []|].
      split; [discriminate|intros _; apply Hm].
    + assert (Hk : amem k (sl_kc s) = false) by (unfold amem; rewrite Ek; reflexivity).
      destruct (0 <=? sl_room_left s cost)%Z.
      * intros H; inversion H; subst. cbn [victims_of vkeys map sl_increment sl_kc].
        split; [intros x Hne; rewrite amem_aset; destruct (N.eqb_spec x k); [tauto|auto]|].
        split; [intros x Hne H1; rewrite amem_aset; destruct (N.eqb_spec x k); [tauto|]; simpl; congruence|].
        split; [intros x []|]. split; [intros _; rewrite amem_aset, N.eqb_refl; auto|discriminate].
      * intros H. apply (evict_loop_members est _ _ _ _ Hest) in H; [|assumption|intros p []].
        destruct H as (vs & Hv & Ha & H1 & H2 & H3). subst v. cbn [app victims_of].
        split; [assumption|]. split; [assumption|]. split; [assumption|].
        split; [intros ->; auto|intros ->; congruence].
Qed.

(* ---- all conflict hashes are zero (collision-free histories) ---- *)
Lemma in_aset {V} k (v : V) m k' v' : In (k', v') (aset k v m) -> (k' = k /\ v' = v) \/ In (k', v') m.
Proof.
  unfold aset. intros [H|H]; [inversion H; auto|]. right.
  induction m as [|[a b] m IH]; cbn [adel] in H; [contradiction|].
  destruct (N.eqb k a); [right; auto|]. destruct H as [H|H]; [left; assumption|right; auto].
Qed.

Lemma in_adel_in {V} k (m : amap V) p : In p (adel k m) -> In p m.
Proof.
  induction m as [|[a b] m IH]; cbn [adel]; [auto|]. destruct (N.eqb k a); [right; auto|].
  intros [H|H]; [left; assumption|right; auto].
Qed.

Lemma aget_In {V} k (m : amap V) v : aget k m = Some v -> In (k, v) m.
Proof. apply aget_In_pair. Qed.

Definition zero_vals (m : amap N) : Prop := forall k c, In (k, c) m -> c = 0.
Definition em_zero (em : emap) : Prop := forall b m, In (b, m) em -> zero_vals m.

Lemma em_put_zero em b k : em_zero em -> em_zero (em_put em b k 0).
Proof.
  intros Z b' m' H. unfold em_put in H. destruct (aget b em) as [bucket|] eqn:E.
  - apply in_aset in H. destruct H as [[-> ->]|H]; [|eapply Z; eassumption].
    intros k' c' Hc. apply in_aset in Hc. destruct Hc as [[_ ->]|Hc]; [reflexivity|].
    eapply (Z b bucket); [apply aget_In; assumption|exact Hc].
  - apply in_aset in H. destruct H as [[-> ->]|H]; [|eapply Z; eassumption].
    intros k' c' [Hc|[]]. inversion Hc. reflexivity.
Qed.

Lemma em_unlist_zero em b k : em_zero em -> em_zero (em_unlist em b k).
Proof.
  intros Z b' m' H. unfold em_unlist in H. destruct (aget b em) as [bucket|] eqn:E; [|eapply Z; eassumption].
  apply in_aset in H. destruct H as [[-> ->]|H]; [|eapply Z; eassumption].
  intros k' c' Hc. apply in_adel_in in Hc. eapply (Z b bucket); [apply aget_In; assumption|exact Hc].
Qed.

Lemma em_update_zero em k old new : em_zero em -> em_zero (em_update em k 0 old new).
Proof.
  intros Z. unfold em_update. destruct (t_is_zero old && t_is_zero new); [assumption|].
  destruct (t_is_zero old), (t_is_zero new); auto using em_put_zero, em_unlist_zero.
Qed.

Lemma em_insert_zero em k t : em_zero em -> em_zero (em_insert em k 0 t).
Proof. intros Z. unfold em_insert. destruct (t_is_zero t); auto using em_put_zero. Qed.

Lemma in_ins_sorted {V} (p q : key * V) l : In p (ins_sorted q l) -> p = q \/ In p l.
Proof.
  induction l as [|x l IH]; cbn [ins_sorted]; [intros [H|[]]; auto|].
  destruct (N.leb (fst q) (fst x)).
  - intros [H|H]; auto.
  - intros [H|H]; [right; left; assumption|]. destruct (IH H); [auto|right; right; assumption].
Qed.

Lemma in_asort {V} (p : key * V) l : In p (asort l) -> In p l.
Proof.
  unfold asort. induction l as [|x l IH]; cbn [fold_right]; [auto|].
  intros H. apply in_ins_sorted in H. destruct H as [->|H]; [left; reflexivity|right; auto].
Qed.

Lemma merge_listings_zero due : em_zero due -> zero_vals (merge_listings due).
Proof.
  intros Z. unfold merge_listings.
  assert (G : forall (bs : emap) (acc : amap N), (forall b m, In (b, m) bs -> zero_vals m) -> zero_vals acc ->
     zero_vals (fold_left (fun (acc : amap N) (b : N * amap N) => fold_left (fun (a : amap N) (kc : N * N) => aset (fst kc) (snd kc) a) (snd b) acc) bs acc)).
  { induction bs as [|[b m] bs IH]; intros acc Hb Ha; cbn [fold_left]; [assumption|].
    apply IH; [intros b' m' H; eapply Hb; right; eassumption|]. cbn [snd].
    assert (Hm : zero_vals m) by (eapply Hb; left; reflexivity).
    clear -Hm Ha. revert acc Ha. induction m as [|[k c] m IH]; intros acc Ha; cbn [fold_left]; [assumption|].
    apply IH; [intros k' c' H; eapply Hm; right; eassumption|]. cbn [fst snd].
    intros k' c' H. apply in_aset in H. destruct H as [[_ ->]|H]; [eapply Hm; left; reflexivity|eapply Ha; eassumption]. }
  apply G; [|intros k c []]. intros b m H. apply in_asort in H. eapply Z. eassumption.
Qed.

Lemma em_cleanup_zero em now em' due : em_zero em -> em_cleanup em now = (em', due) ->
  em_zero em' /\ (forall m, due = Some m -> zero_vals m).
Proof.
  intros Z. unfold em_cleanup. destruct (em_due em now) eqn:D.
  - intros H; inversion H; subst. split; [assumption|discriminate].
  - intros H; inversion H; subst. split.
    + intros b m Hin. unfold em_keep in Hin. apply filter_In in Hin. eapply Z. apply Hin.
    + intros m Hm. inversion Hm; subst. apply merge_listings_zero.
      intros b m Hin. rewrite <- D in Hin. unfold em_due in Hin. apply filter_In in Hin. eapply Z. apply Hin.
Qed.

Definition item_cf0 (it : item) : Prop :=
  match it with INew _ cf _ _ _ => cf = 0 | IDelete _ cf => cf = 0 | _ => True end.

Definition cont_cf0 (k : ccont) : Prop :=
  match k with KInsSend it _ => item_cf0 it | KRemSend _ cf => cf = 0 | _ => True end.

Definition pc_cf0 (p : ppc) : Prop :=
  match p with
  | PNewAfterAdd _ cf _ _ _ _ _ => cf = 0
  | PDelAfterPolicy _ cf => cf = 0
  | PTickKey _ cf rest _ => cf = 0 /\ zero_vals rest
  | PTickAfterPolicy _ cf _ rest _ => cf = 0 /\ zero_vals rest
  | _ => True
  end.

Definition ZeroConf (st : cstate) : Prop :=
  Forall item_cf0 (s_buf st) /\ (forall a, cont_cf0 (client_of st a)) /\ pc_cf0 (s_pc st) /\
  em_zero (st_em (s_store st)).

(* ---- the agreement invariant ---- *)
Definition pc_victims (p : ppc) : list key :=
  match p with
  | PNewAfterAdd _ _ _ _ _ vs _ => vkeys vs
  | PNewAfterStore vs => vkeys vs
  | PNewVictim v rest => vkeys (v :: rest)
  | _ => []
  end.

(* why a key may be resident without being charged: the processor is about to remove it *)
Definition ExcS (st : cstate) (k : N) : Prop :=
  In k (pc_victims (s_pc st)) \/
  (exists cf, s_pc st = PDelAfterPolicy k cf) \/
  (exists cf cost rest acc, s_pc st = PTickAfterPolicy k cf cost rest acc) \/
  (exists sig, s_pc st = PClearAfterPolicy sig) \/
  s_pc st = PExited.

(* why a key may be charged without being resident: its store insert is next, or a Delete for it is
   on its way, or the policy is about to be cleared *)
Definition ExcC (st : cstate) (k : N) : Prop :=
  (exists cf v exp cost vs, s_pc st = PNewAfterAdd k cf v exp cost vs true) \/
  (exists cf, In (IDelete k cf) (s_buf st)) \/
  (exists a cf, client_of st a = KRemSend k cf) \/
  (exists sig, s_pc st = PClearAfterDrain sig) \/
  s_pc st = PExited.

Definition PcOk (st : cstate) : Prop :=
  match s_pc st with
  | PNewAfterAdd k _ _ _ _ vs added =>
      (added = true -> inC st k = true /\ inS st k = false) /\ (forall x, In x (vkeys vs) -> inC st x = false)
  | PNewAfterStore vs => forall x, In x (vkeys vs) -> inC st x = false
  | PNewVictim v rest => forall x, In x (vkeys (v :: rest)) -> inC st x = false
  | PDelAfterPolicy k _ => inC st k = false
  | PTickAfterPolicy k _ _ _ _ => inC st k = false
  | PClearAfterPolicy _ => forall x, inC st x = false
  | PClearAfterStore _ => (forall x, inC st x = false) /\ (forall x, inS st x = false)
  | _ => True
  end.

Definition Agree (st : cstate) : Prop :=
  (forall k, inS st k = true -> inC st k = false -> ExcS st k) /\
  (forall k, inC st k = true -> inS st k = false -> ExcC st k) /\
  PcOk st.

(* collision-free labels: every conflict hash a client passes is 0 (e.g. TransparentKeyBuilder) *)
Definition label_cf0 (l : label) : Prop :=
  match l with
  | LOp _ (OInsert _ cf _ _ _ _) => cf = 0
  | LOp _ (OGet _ cf) => cf = 0
  | LOp _ (OGetMutWrite _ cf _) => cf = 0
  | LOp _ (OGetTtl _ cf) => cf = 0
  | LOp _ (ORemove _ cf) => cf = 0
  | _ => True
  end.

(* ---- ZeroConf is an invariant of collision-free histories ---- *)
Lemma clients_cf0_set st st1 a k :
  (forall b, cont_cf0 (client_of st b)) -> s_clients st1 = s_clients st -> cont_cf0 k ->
  forall b, cont_cf0 (client_of (set_client st1 a k) b).
Proof.
  intros H Hc Hk b. rewrite client_of_set. destruct (N.eqb b a); [assumption|].
  unfold client_of in *. rewrite Hc. apply H.
Qed.

Lemma zc_frame st st1 :
  ZeroConf st -> s_buf st1 = s_buf st -> s_clients st1 = s_clients st -> s_pc st1 = s_pc st ->
  st_em (s_store st1) = st_em (s_store st) -> ZeroConf st1.
Proof.
  intros (Z1 & Z2 & Z3 & Z4) Hb Hc Hp He. unfold ZeroConf. rewrite Hb, Hp, He.
  repeat split; try assumption. intros a. unfold client_of in *. rewrite Hc. apply Z2.
Qed.

Lemma zc_client st st1 a k :
  ZeroConf st -> s_buf st1 = s_buf st -> s_clients st1 = s_clients st -> s_pc st1 = s_pc st ->
  st_em (s_store st1) = st_em (s_store st) -> cont_cf0 k -> ZeroConf (set_client st1 a k).
Proof.
  intros (Z1 & Z2 & Z3 & Z4) Hb Hc Hp He Hk. unfold ZeroConf; sproj. rewrite Hb, Hp, He.
  split; [assumption|]. split; [|split; assumption]. apply (clients_cf0_set st); assumption.
Qed.

Lemma try_update_em_zero vld s k v t s' r :
  em_zero (st_em s) -> st_try_update vld s k v 0 t = (s', r) -> em_zero (st_em s').
Proof.
  intros Z. unfold st_try_update. destruct (aget k (st_map s)) as [e|]; [|intros H; inversion H; subst; assumption].
  destruct (negb (conflict_ok 0 e)); [intros H; inversion H; subst; assumption|].
  destruct (negb (vld (e_val e) v)); [intros H; inversion H; subst; assumption|].
  intros H; inversion H; subst; cbn [st_em]. apply em_update_zero. assumption.
Qed.

Lemma try_remove_em_zero s k c s' prev :
  em_zero (st_em s) -> st_try_remove s k c = (s', prev) -> em_zero (st_em s').
Proof.
  intros Z. unfold st_try_remove. destruct (aget k (st_map s)) as [e|]; [|intros H; inversion H; subst; assumption].
  destruct (negb (conflict_ok c e)); [intros H; inversion H; subst; assumption|].
  intros H; inversion H; subst; cbn [st_em]. destruct (t_is_zero (e_exp e)); [assumption|].
  apply em_unlist_zero. assumption.
Qed.

Lemma try_insert_em_zero vld s k v t : em_zero (st_em s) -> em_zero (st_em (st_try_insert vld s k v 0 t)).
Proof.
  intros Z. unfold st_try_insert. destruct (aget k (st_map s)) as [e|].
  - destruct (negb (conflict_ok 0 e)); [assumption|]. destruct (negb (vld (e_val e) v)); [assumption|].
    cbn [st_em]. apply em_update_zero. assumption.
  - cbn [st_em]. apply em_insert_zero. assumption.
Qed.

Lemma write_em s k v : st_em (st_write s k v) = st_em s.
Proof. unfold st_write. destruct (aget k (st_map s)); reflexivity. Qed.

Lemma ring_push_zc_fields c st k :
  s_buf (ring_push c st k) = s_buf st /\ s_clients (ring_push c st k) = s_clients st /\
  s_pc (ring_push c st k) = s_pc st /\ s_store (ring_push c st k) = s_store st.
Proof.
  unfold ring_push, policy_push.
  repeat match goal with |- context [if ?b then _ else _] => destruct b end;
    try destruct (s_ring st ++ [k]); unfold emit; try destruct (c_metrics c); sproj; auto.
Qed.

Lemma ZeroConf_start_op c st a op st' o :
  ZeroConf st -> label_cf0 (LOp a op) -> start_op c st a op = StepOk st' o -> ZeroConf st'.
Proof.
  intros ZC L H. pose proof ZC as (Z1 & Z2 & Z3 & Z4). destruct op; cbn [start_op label_cf0] in *.
  - subst c0. destruct (s_closed st); [inversion H; subst; assumption|].
    destruct (st_try_update _ _ _ _ _ _) as [sto r] eqn:TU.
    pose proof (try_update_em_zero _ _ _ _ _ _ _ Z4 TU) as Z4'.
    destruct r; destruct only_update; inversion H; subst; try assumption;
      (unfold ZeroConf; sproj; split; [assumption|]; split;
       [apply (clients_cf0_set st); [assumption|sproj; reflexivity|cbn; auto]|split; assumption]).
  - destruct (s_closed st); inversion H; subst; [assumption|].
    destruct (ring_push_zc_fields c st k) as (A & B & D & E).
    unfold ZeroConf; sproj. rewrite A, D, E. split; [assumption|]. split; [|split; assumption].
    apply (clients_cf0_set st); [assumption|sproj; assumption|cbn; auto].
  - destruct (s_closed st); inversion H; subst; [assumption|].
    destruct (ring_push_zc_fields c st k) as (A & B & D & E).
    unfold ZeroConf; sproj. rewrite A, D, E. split; [assumption|]. split; [|split; assumption].
    apply (clients_cf0_set st); [assumption|sproj; assumption|cbn; auto].
  - destruct (st_get _ _ _ _); [destruct (st_expiration _ _); [destruct (t_get_ttl _ _)|]|];
      inversion H; subst; assumption.
  - subst c0. destruct (s_closed st); [inversion H; subst; assumption|].
    destruct (st_try_remove _ _ _) as [sto prev] eqn:TR.
    pose proof (try_remove_em_zero _ _ _ _ _ Z4 TR) as Z4'. inversion H; subst.
    unfold ZeroConf; sproj. split; [assumption|]. split; [|split; assumption].
    apply (clients_cf0_set st); [assumption|sproj; reflexivity|cbn; reflexivity].
  - destruct (s_closed st); inversion H; subst; [assumption|].
    apply (zc_client st); [assumption|sproj; reflexivity..|exact I].
  - destruct (s_closed st); inversion H; subst; [assumption|].
    apply (zc_client st); [assumption|sproj; reflexivity..|exact I].
  - destruct (s_closed st); inversion H; subst; [assumption|].
    unfold ZeroConf; sproj. split; [assumption|]. split; [|split; assumption].
    apply (clients_cf0_set st); [assumption|sproj; reflexivity|exact I].
  - inversion H; subst. assumption.
  - inversion H; subst. apply (zc_frame st); sproj; auto.
  - inversion H; subst. assumption.
Qed.

Ltac zc_cl ZC st := apply (zc_client st);
  [ exact ZC
  | unfold emit; try destruct (c_metrics _); sproj; reflexivity
  | unfold emit; try destruct (c_metrics _); sproj; reflexivity
  | unfold emit; try destruct (c_metrics _); sproj; reflexivity
  | unfold emit; try destruct (c_metrics _); sproj; rewrite ?write_em; reflexivity
  | exact I ].

Lemma ZeroConf_continue_client c st a st' o :
  ZeroConf st -> continue_client c st a = StepOk st' o -> ZeroConf st'.
Proof.
  intros ZC H. pose proof ZC as (Z1 & Z2 & Z3 & Z4). unfold continue_client in H.
  pose proof (Z2 a) as Za. destruct (client_of st a) eqn:K; try discriminate.
  - destruct (buf_send c st it) as [st1|] eqn:E.
    + inversion H; subst. apply buf_send_frame in E. destruct E as (_ & Est & Eb & Ep & _ & Ec & _).
      unfold ZeroConf; sproj. rewrite Eb, Ep, Est.
      split; [apply Forall_app; split; [assumption|constructor; [exact Za|constructor]]|].
      split; [|split; assumption]. apply (clients_cf0_set st); [assumption|assumption|exact I].
    + destruct (is_update it); inversion H; subst; zc_cl ZC st.
  - destruct (st_get _ _ _ _) as [e|].
    + destruct write.
      * inversion H; subst. zc_cl ZC st.
      * destruct (t_get_ttl _ _); inversion H; subst. zc_cl ZC st.
    + inversion H; subst. zc_cl ZC st.
  - destruct (buf_send c st (IDelete k c0)) as [st1|] eqn:E.
    + inversion H; subst. apply buf_send_frame in E. destruct E as (_ & Est & Eb & Ep & _ & Ec & _).
      unfold ZeroConf; sproj. rewrite Eb, Ep, Est.
      split; [apply Forall_app; split; [assumption|constructor; [exact Za|constructor]]|].
      split; [|split; assumption]. apply (clients_cf0_set st); [assumption|assumption|exact I].
    + destruct (s_pc st) eqn:PC; try discriminate; inversion H; subst; zc_cl ZC st.
  - sproj. destruct (buf_send _ _ _) as [st2|] eqn:E.
    + inversion H; subst. apply buf_send_frame in E. sproj.
      destruct E as (_ & Est & Eb & Ep & _ & Ec & _).
      unfold ZeroConf; sproj. rewrite Eb, Ep, Est. sproj.
      split; [apply Forall_app; split; [assumption|constructor; [exact I|constructor]]|].
      split; [|split; assumption].
      apply (clients_cf0_set st); [assumption|sproj; assumption|exact I].
    + inversion H; subst. apply (zc_client st); [assumption|sproj; reflexivity..|exact I].
  - destruct (s_pc st) eqn:PC; inversion H; subst;
      (apply (zc_client st); [assumption|sproj; try rewrite PC; reflexivity..|exact I]).
  - destruct (s_closed st); inversion H; subst; zc_cl ZC st.
  - destruct (mem_N id (s_done st)); [|discriminate]. inversion H; subst. zc_cl ZC st.
  - destruct (mem_N id (s_done st)); [|discriminate]. destruct closing; inversion H; subst; zc_cl ZC st.
  - destruct (s_pc st) eqn:PC; inversion H; subst;
      (apply (zc_client st); [assumption|sproj; try rewrite PC; reflexivity..|exact I]).
  - destruct (s_pc st) eqn:PC; try (destruct (s_stop_msgs st <? stop_cap c)); inversion H; subst;
      (apply (zc_client st); [assumption|sproj; try rewrite PC; reflexivity..|exact I]).
  - inversion H; subst. zc_cl ZC st.
  - destruct (s_pol_closed st); inversion H; subst; zc_cl ZC st.
  - destruct (s_wpc st); [destruct (s_pol_stop_msgs st <? stop_cap c)|]; inversion H; subst; zc_cl ZC st.
  - inversion H; subst. zc_cl ZC st.
  - inversion H; subst. zc_cl ZC st.
Qed.

Lemma zero_vals_adel k m : zero_vals m -> zero_vals (adel k m).
Proof. intros Z k' c' H. apply in_adel_in in H. eapply Z. eassumption. Qed.

Lemma tick_next_zc c st h rest acc st' o :
  tick_next c st h rest acc = StepOk st' o -> zero_vals rest ->
  pc_cf0 (s_pc st') /\ s_buf st' = s_buf st /\ s_clients st' = s_clients st /\ s_store st' = s_store st.
Proof.
  unfold tick_next. destruct rest as [|p r].
  - intros Hs _. open_prep Hs. inversion Hs; subst; sproj. repeat split.
  - destruct (h_tick_key h) as [k|].
    + destruct (aget k (p :: r)) as [cf|] eqn:E.
      * intros Hs Z. assert (Zr : zero_vals (adel k (p :: r))) by (apply zero_vals_adel; assumption).
        assert (Zc : cf = 0) by (eapply Z; apply aget_In; exact E).
        remember (adel k (p :: r)) as rest' in *. inversion Hs; subst st'; sproj. split; [|repeat split].
        split; assumption.
      * intros Hs _. discriminate Hs.
    + intros Hs _. discriminate Hs.
Qed.

Lemma ZeroConf_proc_step c st h st' o : ZeroConf st -> proc_step c st h = StepOk st' o -> ZeroConf st'.
Proof.
  intros ZC H. pose proof ZC as (Z1 & Z2 & Z3 & Z4). unfold proc_step in H.
  assert (Same : forall st1, s_clients st1 = s_clients st -> forall b, cont_cf0 (client_of st1 b)).
  { intros st1 Hc b. unfold client_of in *. rewrite Hc. apply Z2. }
  destruct (s_pc st) eqn:PC; try discriminate.
  - destruct (h_arm h) as [[| | |]|]; try discriminate.
    + destruct (s_buf st) as [|it r] eqn:B; [discriminate|]. inversion Z1 as [|? ? Hit Hr]; subst.
      unfold proc_handle_item in H. destruct it as [k0 c0 cost0 v0 e0|k0 cost0 ext0|k0 c0|wid]; sproj.
      * destruct (pol_add _ _ _ _ _); try discriminate. inversion H; subst.
        unfold ZeroConf, emit; destruct (c_metrics c); sproj; (split; [assumption|]; split; [apply Same; sproj; reflexivity|]; split; [exact Hit|assumption]).
      * destruct (sl_update _ _ _) as [[s' bb] mets]. inversion H; subst.
        unfold ZeroConf, emit; destruct (c_metrics c); sproj; rewrite PC; (split; [assumption|]; split; [apply Same; sproj; reflexivity|]; split; [exact I|assumption]).
      * destruct (pol_remove _ _) as [s' mets]. inversion H; subst.
        unfold ZeroConf, emit; destruct (c_metrics c); sproj; (split; [assumption|]; split; [apply Same; sproj; reflexivity|]; split; [exact Hit|assumption]).
      * inversion H; subst. unfold ZeroConf; sproj; rewrite PC.
        split; [assumption|]. split; [apply Same; sproj; reflexivity|]. split; [exact I|assumption].
    + destruct (s_clear_sigs st) as [|sig r]; [discriminate|].
      destruct (drain_buffer _) as [st1 cbs] eqn:DB. inversion H; subst.
      apply drain_buffer_frame in DB. destruct DB as (_ & Est & Eb & _ & Ec & _).
      unfold ZeroConf; sproj. rewrite Eb, Est. sproj.
      split; [constructor|]. split; [apply Same; sproj; rewrite Ec; reflexivity|]. split; [exact I|assumption].
    + destruct (s_ticks st =? 0); [discriminate|].
      destruct (em_cleanup _ _) as [em' due] eqn:EC. destruct (em_cleanup_zero _ _ _ _ Z4 EC) as (Ze & Zd).
      destruct due as [m|].
      * apply tick_next_zc in H; [|apply Zd; reflexivity]. sproj. destruct H as (P & Eb & Ec & Es).
        unfold ZeroConf. rewrite Eb, Es. sproj. split; [assumption|]. split; [apply Same; assumption|]. split; assumption.
      * inversion H; subst. unfold ZeroConf; sproj. rewrite PC.
        split; [assumption|]. split; [apply Same; reflexivity|]. split; [exact I|assumption].
    + assert (G : forall st1, (forall b, cont_cf0 (client_of st1 b)) -> st_em (s_store st1) = st_em (s_store st) ->
                forall st2 cbs, drain_buffer st1 = (st2, cbs) ->
                ZeroConf (upd_pc (upd_clear_sigs (upd_done st2 (s_clear_sigs st2 ++ s_done st2)) []) PExited)).
      { intros st1 Hc He st2 cbs DB. apply drain_buffer_frame in DB. destruct DB as (_ & Est & Eb & _ & Ec & _).
        unfold ZeroConf; sproj. rewrite Eb, Est, He. split; [constructor|].
        split; [intros b; unfold client_of in *; sproj; rewrite Ec; apply Hc|]. split; [exact I|assumption]. }
      destruct (0 <? s_stop_msgs st).
      * destruct (drain_buffer _) as [st2 cbs] eqn:DB. inversion H; subst.
        eapply G; [| |exact DB]; [apply Same; reflexivity|reflexivity].
      * destruct (find_offer false (s_clients st)) as [a0|]; [|discriminate].
        destruct (client_of st a0); try discriminate.
        destruct (drain_buffer _) as [st2 cbs] eqn:DB. inversion H; subst.
        eapply G; [| |exact DB]; [apply (clients_cf0_set st); [assumption|reflexivity|exact I]|reflexivity].
  - cbn [pc_cf0] in Z3. subst c0. destruct added; [open_track H|]; inversion H; subst; unfold ZeroConf, emit; try destruct (c_metrics c); sproj;
      (split; [assumption|]; split; [apply Same; sproj; reflexivity|]; split; [exact I|]; try assumption; apply try_insert_em_zero; assumption).
  - unfold next_victim in H. destruct victims; inversion H; subst; unfold ZeroConf; sproj;
      (split; [assumption|]; split; [apply Same; sproj; reflexivity|]; split; [exact I|assumption]).
  - destruct v as [vk vcost]. destruct (st_try_remove _ _ _) as [sto prev] eqn:TR.
    pose proof (try_remove_em_zero _ _ _ _ _ Z4 TR) as Z4'. open_prep H. unfold next_victim in H.
    destruct rest; inversion H; subst; unfold ZeroConf; sproj;
      (split; [assumption|]; split; [apply Same; sproj; reflexivity|]; split; [exact I|assumption]).
  - destruct (st_try_remove _ _ _) as [sto prev] eqn:TR.
    pose proof (try_remove_em_zero _ _ _ _ _ Z4 TR) as Z4'. inversion H; subst. unfold ZeroConf; sproj.
    split; [assumption|]. split; [apply Same; sproj; reflexivity|]. split; [exact I|assumption].
  - inversion H; subst. unfold ZeroConf; sproj.
    split; [assumption|]. split; [apply Same; sproj; reflexivity|]. split; [exact I|assumption].
  - inversion H; subst. unfold ZeroConf; sproj.
    split; [assumption|]. split; [apply Same; sproj; reflexivity|]. split; [exact I|intros b m []].
  - inversion H; subst. unfold ZeroConf; destruct (c_metrics c); sproj;
      (split; [assumption|]; split; [apply Same; sproj; reflexivity|]; split; [exact I|assumption]).
  - destruct Z3 as (Zc & Zr). destruct (st_expiration _ _) as [t|].
    + destruct (negb (t_is_zero t) && t_is_expired (s_now st) t).
      * destruct (pol_remove _ _) as [s' mets]. inversion H; subst.
        unfold ZeroConf, emit; destruct (c_metrics c); sproj;
          (split; [assumption|]; split; [apply Same; sproj; reflexivity|]; split; [split; [first [reflexivity|assumption]|assumption]|assumption]).
      * apply tick_next_zc in H; [|assumption]. destruct H as (P & Eb & Ec & Es).
        unfold ZeroConf. rewrite Eb, Es. split; [assumption|]. split; [apply Same; assumption|]. split; assumption.
    + apply tick_next_zc in H; [|assumption]. destruct H as (P & Eb & Ec & Es).
      unfold ZeroConf. rewrite Eb, Es. split; [assumption|]. split; [apply Same; assumption|]. split; assumption.
  - destruct Z3 as (Zc & Zr). destruct (st_try_remove _ _ _) as [sto prev] eqn:TR.
    pose proof (try_remove_em_zero _ _ _ _ _ Z4 TR) as Z4'.
    apply tick_next_zc in H; [|assumption]. sproj. destruct H as (P & Eb & Ec & Es).
    unfold ZeroConf. rewrite Eb, Es. sproj. split; [assumption|]. split; [apply Same; assumption|]. split; assumption.
Qed.

Theorem ZeroConf_step c st l st' o :
  ZeroConf st -> label_cf0 l -> cstep c st l = StepOk st' o -> ZeroConf st'.
Proof.
  intros ZC L. destruct l as [a op|a|h|h|dt|]; cbn [cstep].
  - destruct (client_of st a); try discriminate. apply ZeroConf_start_op; assumption.
  - apply ZeroConf_continue_client. assumption.
  - apply ZeroConf_proc_step. assumption.
  - intros H. unfold worker_step in H. destruct (s_wpc st); [|discriminate].
    destruct (h_arm h) as [[| | |]|]; try discriminate.
    + destruct (s_pqueue st); [discriminate|]. destruct (tl_increments _ _); [|discriminate].
      inversion H; subst. apply (zc_frame st); sproj; auto.
    + destruct (0 <? s_pol_stop_msgs st); [inversion H; subst; apply (zc_frame st); sproj; auto|].
      destruct (find_offer true (s_clients st)) as [a0|]; [|discriminate]. destruct (client_of st a0); try discriminate.
      inversion H; subst.
      destruct ZC as (Z1 & Z2 & Z3 & Z4). unfold ZeroConf; sproj.
      split; [assumption|]. split; [|split; assumption].
      apply (clients_cf0_set st); [assumption|reflexivity|exact I].
  - intros H; inversion H; subst. apply (zc_frame st); sproj; auto.
  - intros H; inversion H; subst. apply (zc_frame st); sproj; auto.
Qed.

(* ---- the agreement invariant is inductive ---- *)
Lemma Agree_transfer st st1 :
  Agree st ->
  (forall k, inS st1 k = inS st k) -> (forall k, inC st1 k = inC st k) -> s_pc st1 = s_pc st ->
  (forall k cf, In (IDelete k cf) (s_buf st) -> In (IDelete k cf) (s_buf st1)) ->
  (forall k a cf, client_of st a = KRemSend k cf ->
     (exists a' cf', client_of st1 a' = KRemSend k cf') \/ (exists cf', In (IDelete k cf') (s_buf st1)) \/
     s_pc st1 = PExited) ->
  Agree st1.
Proof.
  intros (A1 & A2 & P) HS HC HP HB HK. split; [|split].
  - intros k H1 H2. rewrite HS in H1. rewrite HC in H2. specialize (A1 k H1 H2).
    unfold ExcS in *. rewrite HP. assumption.
  - intros k H1 H2. rewrite HC in H1. rewrite HS in H2. specialize (A2 k H1 H2).
    unfold ExcC in *. rewrite HP.
    destruct A2 as [E|[(cf & E)|[(a & cf & E)|[E|E]]]]; auto.
    + right. left. exists cf. auto.
    + destruct (HK k a cf E) as [X|[X|X]]; auto. rewrite HP in X. auto.
  - unfold PcOk in *. rewrite HP. destruct (s_pc st); auto.
    + destruct P as (P1 & P2). split; [intros X; rewrite HC, HS; auto|intros x X; rewrite HC; auto].
    + intros x X. rewrite HC. auto.
    + intros x X. rewrite HC. auto.
    + rewrite HC. assumption.
    + intros x. rewrite HC. auto.
    + destruct P as (P1 & P2). split; intros x; [rewrite HC|rewrite HS]; auto.
    + rewrite HC. assumption.
Qed.

Ltac excS_contra H PC :=
  let X := fresh in
  destruct H as [X|[(? & X)|[(? & ? & ? & ? & X)|[(? & X)|X]]]];
  rewrite PC in X; try discriminate X; try (cbn [pc_victims vkeys map] in X; contradiction).

Lemma client_same_other st st1 a k :
  s_clients st1 = s_clients st -> client_of st a = KIdle \/ (forall kk cf, client_of st a <> KRemSend kk cf) ->
  forall kk b cf, client_of st b = KRemSend kk cf ->
  (exists a' cf', client_of (set_client st1 a k) a' = KRemSend kk cf') \/
  (exists cf', In (IDelete kk cf') (s_buf (set_client st1 a k))) \/ s_pc (set_client st1 a k) = PExited.
Proof.
  intros Hc Ha kk b cf E. left. exists b, cf. rewrite client_of_set.
  destruct (N.eqb_spec b a) as [->|Hne].
  - destruct Ha as [Ha|Ha]; [rewrite Ha in E; discriminate|destruct (Ha kk cf E)].
  - unfold client_of in *. rewrite Hc. assumption.
Qed.

Lemma Agree_client_only st st1 a k :
  Agree st -> s_store st1 = s_store st -> s_slfu st1 = s_slfu st -> s_pc st1 = s_pc st ->
  (forall kk cf, In (IDelete kk cf) (s_buf st) -> In (IDelete kk cf) (s_buf st1)) ->
  s_clients st1 = s_clients st ->
  (forall kk cf, client_of st a = KRemSend kk cf ->
     (exists cf', In (IDelete kk cf') (s_buf st1)) \/ s_pc st1 = PExited) ->
  Agree (set_client st1 a k).
Proof.
  intros AG Hs Hl Hp Hb Hc Ha. apply (Agree_transfer st); try assumption.
  - intros x. unfold inS; sproj. rewrite Hs. reflexivity.
  - intros x. unfold inC; sproj. rewrite Hl. reflexivity.
  - intros kk b cf E. destruct (N.eq_dec b a) as [->|Hne].
    + destruct (Ha kk cf E) as [X|X]; [right; left; exact X|right; right; exact X].
    + left. exists b, cf. rewrite client_of_set. destruct (N.eqb_spec b a); [tauto|].
      unfold client_of in *. rewrite Hc. assumption.
Qed.

Lemma ring_push_agree_fields c st k :
  s_store (ring_push c st k) = s_store st /\ s_slfu (ring_push c st k) = s_slfu st /\
  s_pc (ring_push c st k) = s_pc st /\ s_buf (ring_push c st k) = s_buf st /\
  s_clients (ring_push c st k) = s_clients st.
Proof.
  unfold ring_push, policy_push.
  repeat match goal with |- context [if ?b then _ else _] => destruct b end;
    try destruct (s_ring st ++ [k]); unfold emit; try destruct (c_metrics c); sproj; auto.
Qed.

Lemma Agree_start_op c st a op st' o :
  Agree st -> client_of st a = KIdle -> label_cf0 (LOp a op) -> start_op c st a op = StepOk st' o -> Agree st'.
Proof.
  intros AG K L H. pose proof AG as (A1 & A2 & P).
  assert (NoRem : forall kk cf, client_of st a = KRemSend kk cf -> (exists cf' : N, In (IDelete kk cf') (s_buf st)) \/ s_pc st = PExited)
    by (intros kk cf E; rewrite K in E; discriminate).
  destruct op; cbn [start_op label_cf0] in *.
  - subst c0. destruct (s_closed st); [inversion H; subst; assumption|].
    destruct (st_try_update _ _ _ _ _ _) as [sto r] eqn:TU.
    assert (G : forall kk it, Agree (set_client (upd_store st sto) a (KInsSend it kk))).
    { intros kk it. apply (Agree_transfer st); try assumption; sproj; auto.
      - intros x. unfold inS; sproj. eapply try_update_keys. exact TU.
      - intros kk0 b cf E. left. exists b, cf. rewrite client_of_set. destruct (N.eqb_spec b a) as [->|];
          [rewrite K in E; discriminate|assumption]. }
    destruct r; destruct only_update; inversion H; subst; try assumption; try apply G;
      (apply (Agree_client_only st); sproj; auto).
  - destruct (s_closed st); inversion H; subst; [assumption|].
    destruct (ring_push_agree_fields c st k) as (F1 & F2 & F3 & F4 & F5).
    apply (Agree_client_only st); try assumption; [rewrite F4; auto|rewrite F4, F3; assumption].
  - destruct (s_closed st); inversion H; subst; [assumption|].
    destruct (ring_push_agree_fields c st k) as (F1 & F2 & F3 & F4 & F5).
    apply (Agree_client_only st); try assumption; [rewrite F4; auto|rewrite F4, F3; assumption].
  - destruct (st_get _ _ _ _); [destruct (st_expiration _ _); [destruct (t_get_ttl _ _)|]|];
      inversion H; subst; assumption.
  - subst c0. destruct (s_closed st); [inversion H; subst; assumption|].
    destruct (st_try_remove _ _ _) as [sto prev] eqn:TR. inversion H; subst; clear H.
    assert (HS : forall x, inS (set_client (upd_store st sto) a (KRemSend k 0)) x = negb (N.eqb x k) && inS st x)
      by (intros x; unfold inS; sproj; eapply try_remove_keys; exact TR).
    split; [|split].
    + intros x H1 H2. rewrite HS in H1. apply andb_true_iff in H1. destruct H1 as (_ & H1).
      unfold inC in H2; sproj. specialize (A1 x H1 H2). unfold ExcS in *; sproj. assumption.
    + intros x H1 H2. unfold inC in H1; sproj. rewrite HS in H2. unfold ExcC; sproj.
      destruct (N.eqb_spec x k) as [->|Hne].
      * right. right. left. exists a, 0. rewrite client_of_set, N.eqb_refl. reflexivity.
      * cbn [negb andb] in H2. specialize (A2 x H1 H2). unfold ExcC in A2.
        destruct A2 as [E|[E|[(b & cf & E)|[E|E]]]]; auto.
        right. right. left. exists b, cf. rewrite client_of_set. destruct (N.eqb_spec b a) as [->|];
          [rewrite K in E; discriminate|assumption].
    + unfold PcOk in *; sproj. destruct (s_pc st); auto.
      * destruct P as (P1 & P2). split; [|exact P2]. intros X. destruct (P1 X) as (Q1 & Q2). split; [exact Q1|].
        rewrite HS. rewrite Q2. apply andb_false_r.
      * destruct P as (P1 & P2). split; [assumption|]. intros x. rewrite HS. rewrite (P2 x). apply andb_false_r.
  - destruct (s_closed st); inversion H; subst; [assumption|].
    apply (Agree_client_only st); sproj; auto.
  - destruct (s_closed st); inversion H; subst; [assumption|].
    apply (Agree_client_only st); sproj; auto.
  - destruct (s_closed st); inversion H; subst; [assumption|].
    apply (Agree_client_only st); sproj; auto.
  - inversion H; subst. assumption.
  - inversion H; subst. apply (Agree_transfer st); sproj; auto. intros kk b cf X. left. eauto.
  - inversion H; subst. assumption.
Qed.

Ltac ag_cl AG st K := apply (Agree_client_only st);
  [ exact AG
  | unfold emit; try destruct (c_metrics _); sproj; reflexivity
  | unfold emit; try destruct (c_metrics _); sproj; reflexivity
  | unfold emit; try destruct (c_metrics _); sproj; reflexivity
  | intros ? ? ?; unfold emit; try destruct (c_metrics _); sproj; assumption
  | unfold emit; try destruct (c_metrics _); sproj; reflexivity
  | let kk := fresh in let cf := fresh in let X := fresh in intros kk cf X; rewrite K in X; discriminate X ].

Lemma Agree_continue_client c st a st' o :
  Agree st -> continue_client c st a = StepOk st' o -> Agree st'.
Proof.
  intros AG H. pose proof AG as (A1 & A2 & P). unfold continue_client in H.
  destruct (client_of st a) eqn:K; try discriminate.
  - destruct (buf_send c st it) as [st1|] eqn:E.
    + inversion H; subst. apply buf_send_frame in E. destruct E as (Es & Est & Eb & Ep & _ & Ec & _).
      apply (Agree_client_only st); auto.
      * intros kk cf Hi. rewrite Eb. apply in_or_app. auto.
      * intros kk cf X. rewrite K in X. discriminate.
    + destruct (is_update it); inversion H; subst; ag_cl AG st K.
  - destruct (st_get _ _ _ _) as [e|].
    + destruct write.
      * inversion H; subst. apply (Agree_transfer st); try assumption.
        -- intros x. unfold inS, emit; destruct (c_metrics c); sproj; apply write_keys.
        -- intros x. unfold inC, emit; destruct (c_metrics c); sproj; reflexivity.
        -- unfold emit; destruct (c_metrics c); sproj; reflexivity.
        -- intros kk cf X. unfold emit; destruct (c_metrics c); sproj; assumption.
        -- intros kk b cf X. left. exists b, cf. rewrite client_of_set. destruct (N.eqb_spec b a) as [->|];
             [rewrite K in X; discriminate|]. unfold client_of, emit in *; destruct (c_metrics c); sproj; assumption.
      * destruct (t_get_ttl _ _); inversion H; subst. ag_cl AG st K.
    + inversion H; subst. ag_cl AG st K.
  - (* the Delete goes from the client into the buffer *)
    destruct (buf_send c st (IDelete k c0)) as [st1|] eqn:E.
    + inversion H; subst. apply buf_send_frame in E. destruct E as (Es & Est & Eb & Ep & _ & Ec & _).
      apply (Agree_client_only st); auto.
      * intros kk cf Hi. rewrite Eb. apply in_or_app. auto.
      * intros kk cf X. rewrite K in X. inversion X; subst. left. exists cf. rewrite Eb. apply in_or_app. right. left. reflexivity.
    + destruct (s_pc st) eqn:NL; try discriminate. inversion H; subst;
        (apply (Agree_client_only st); sproj; auto; intros kk cf X; right; assumption).
  - sproj. destruct (buf_send _ _ _) as [st2|] eqn:E.
    + inversion H; subst. apply buf_send_frame in E. sproj.
      destruct E as (Es & Est & Eb & Ep & _ & Ec & _).
      apply (Agree_client_only st); sproj; auto.
      * intros kk cf Hi. rewrite Eb. apply in_or_app. auto.
      * intros kk cf X. rewrite K in X. discriminate.
    + inversion H; subst. apply (Agree_client_only st); sproj; auto. intros kk cf X; rewrite K in X; discriminate X.
  - destruct (s_pc st) eqn:PC; inversion H; subst;
      (apply (Agree_client_only st); sproj; rewrite ?PC; auto; intros kk cf X; rewrite K in X; discriminate X).
  - destruct (s_closed st); inversion H; subst; ag_cl AG st K.
  - destruct (mem_N id (s_done st)); [|discriminate]. inversion H; subst. ag_cl AG st K.
  - destruct (mem_N id (s_done st)); [|discriminate]. destruct closing; inversion H; subst; ag_cl AG st K.
  - destruct (s_pc st) eqn:PC; inversion H; subst;
      (apply (Agree_client_only st); sproj; rewrite ?PC; auto; intros kk cf X; rewrite K in X; discriminate X).
  - destruct (s_pc st) eqn:PC; try (destruct (s_stop_msgs st <? stop_cap c)); inversion H; subst;
      (apply (Agree_client_only st); sproj; rewrite ?PC; auto; intros kk cf X; rewrite K in X; discriminate X).
  - inversion H; subst. ag_cl AG st K.
  - destruct (s_pol_closed st); inversion H; subst; ag_cl AG st K.
  - destruct (s_wpc st); [destruct (s_pol_stop_msgs st <? stop_cap c)|]; inversion H; subst; ag_cl AG st K.
  - inversion H; subst. ag_cl AG st K.
  - inversion H; subst. ag_cl AG st K.
Qed.

Lemma tick_next_agree_fields c st h rest acc st' o :
  tick_next c st h rest acc = StepOk st' o ->
  s_store st' = s_store st /\ s_slfu st' = s_slfu st /\ s_buf st' = s_buf st /\ s_clients st' = s_clients st /\
  (s_pc st' = PIdle \/ exists k cf r a, s_pc st' = PTickKey k cf r a).
Proof.
  unfold tick_next. destruct rest as [|p r].
  - intros Hs. open_prep Hs. inversion Hs; subst; sproj. repeat split; auto.
  - destruct (h_tick_key h) as [k|]; [|intros Hs; discriminate Hs].
    destruct (aget k (p :: r)) as [cf|]; [|intros Hs; discriminate Hs].
    intros Hs. remember (adel k (p :: r)) as rest' in *. inversion Hs; subst st'; sproj.
    repeat split; auto. right. eauto.
Qed.

(* a state whose processor is at a point that excuses nothing and requires nothing *)
Lemma Agree_to_plain_pc st st1 :
  Agree st ->
  (forall k, inS st1 k = inS st k) -> (forall k, inC st1 k = inC st k) ->
  (forall k, inS st k = true -> inC st k = false -> ExcS st k -> False) ->
  (s_pc st1 = PIdle \/ exists k cf r a, s_pc st1 = PTickKey k cf r a) ->
  (forall k cf, In (IDelete k cf) (s_buf st) -> In (IDelete k cf) (s_buf st1)) ->
  (forall b, client_of st1 b = client_of st b) ->
  (forall k, ExcC st k -> (exists cf, In (IDelete k cf) (s_buf st)) \/ (exists a cf, client_of st a = KRemSend k cf)) ->
  Agree st1.
Proof.
  intros (A1 & A2 & P) HS HC NoS HP HB HK OnlyBC. split; [|split].
  - intros k H1 H2. rewrite HS in H1. rewrite HC in H2. exfalso. eapply NoS; eauto.
  - intros k H1 H2. rewrite HC in H1. rewrite HS in H2. specialize (A2 k H1 H2).
    destruct (OnlyBC k A2) as [(cf & X)|(a & cf & X)]; unfold ExcC.
    + right. left. exists cf. auto.
    + right. right. left. exists a, cf. rewrite HK. assumption.
  - unfold PcOk. destruct HP as [->|(k & cf & r & a & ->)]; exact I.
Qed.

Ltac case_key x k :=
  let Heq := fresh "Heq" in let Hne := fresh "Hne" in let Hb := fresh "Hneb" in
  destruct (N.eq_dec x k) as [Heq|Hne];
  [ subst x; rewrite ?N.eqb_refl in *
  | pose proof (proj2 (N.eqb_neq x k) Hne) as Hb; rewrite ?Hb in * ];
  cbn [negb andb orb] in *.

Lemma Agree_proc_step c st h st' o :
  Agree st -> ZeroConf st -> proc_step c st h = StepOk st' o -> Agree st'.
Proof.
  intros AG ZC H. pose proof AG as (A1 & A2 & P). pose proof ZC as (Z1 & Z2 & Z3 & Z4). unfold proc_step in H.
  destruct (s_pc st) eqn:PC; try discriminate.
  - (* ---- loop head ---- *)
    assert (NoS : forall k, inS st k = true -> inC st k = false -> False).
    { intros k H1 H2. specialize (A1 k H1 H2). excS_contra A1 PC. }
    assert (OnlyBC : forall k, inC st k = true -> inS st k = false ->
              (exists cf, In (IDelete k cf) (s_buf st)) \/ (exists a cf, client_of st a = KRemSend k cf)).
    { intros k H1 H2. specialize (A2 k H1 H2). destruct A2 as [(? & ? & ? & ? & ? & X)|[X|[X|[(? & X)|X]]]];
        try (rewrite PC in X; discriminate X); auto. }
    destruct (h_arm h) as [[| | |]|]; try discriminate.
    + destruct (s_buf st) as [|it r] eqn:B; [discriminate|]. inversion Z1 as [|? ? Hit Hr]; subst.
      unfold proc_handle_item in H. destruct it as [k0 c0 cost0 v0 e0|k0 cost0 ext0|k0 c0|wid]; sproj.
      * (* New *)
        cbn [item_cf0] in Hit. subst c0.
        destruct (pol_add _ _ _ _ _) as [| | |s' vv added l m] eqn:PA; try discriminate. inversion H; subst; clear H.
        destruct (pol_add_members _ _ _ _ _ _ _ _ _ _ (est_of_small (s_tlfu st)) PA) as (M1 & M2 & M3 & M4 & M5).
        assert (HS : forall x, inS (upd_pc (emit c (upd_slfu (upd_buf st r) s') m) (PNewAfterAdd k0 0 v0 e0 (internal_cost c cost0) (victims_of vv) added)) x = inS st x)
          by (intros x; unfold inS, emit; destruct (c_metrics c); sproj; reflexivity).
        assert (HC : forall x, inC (upd_pc (emit c (upd_slfu (upd_buf st r) s') m) (PNewAfterAdd k0 0 v0 e0 (internal_cost c cost0) (victims_of vv) added)) x = amem x (sl_kc s'))
          by (intros x; unfold inC, emit; destruct (c_metrics c); sproj; reflexivity).
        replace (match vv with Some l0 => l0 | None => [] end) with (victims_of vv) by reflexivity.
        split; [|split].
        -- intros x H1 H2. rewrite HS in H1. rewrite HC in H2. unfold ExcS; sproj. left. cbn [pc_victims].
           destruct (N.eq_dec x k0) as [->|Hne].
           ++ exfalso. destruct added; [destruct (M4 eq_refl); congruence|].
              rewrite (M5 eq_refl) in H2. eapply NoS; eassumption.
           ++ destruct (amem x (sl_kc (s_slfu st))) eqn:E; [apply M2; assumption|exfalso; eapply NoS; eassumption].
        -- intros x H1 H2. rewrite HC in H1. rewrite HS in H2. unfold ExcC; sproj.
           assert (Carry : inC st x = true -> (exists cf, In (IDelete x cf) (s_buf (emit c (upd_slfu (upd_buf st r) s') m))) \/
                     (exists a cf, client_of (upd_pc (emit c (upd_slfu (upd_buf st r) s') m) (PNewAfterAdd k0 0 v0 e0 (internal_cost c cost0) (victims_of vv) added)) a = KRemSend x cf)).
           { intros Hc. destruct (OnlyBC x Hc H2) as [(cf & X)|(a & cf & X)].
             - left. exists cf. unfold emit; destruct (c_metrics c); sproj; (destruct X as [X|X]; [discriminate X|exact X]).
             - right. exists a, cf. unfold client_of, emit in *; destruct (c_metrics c); sproj; exact X. }
           destruct (N.eq_dec x k0) as [->|Hne].
           ++ destruct added.
              ** left. do 5 eexists. reflexivity.
              ** rewrite (M5 eq_refl) in H1. destruct (Carry H1) as [X|X]; auto.
           ++ destruct (Carry (M1 x Hne H1)) as [X|X]; auto.
        -- unfold PcOk; sproj. split.
           ++ intros ->. rewrite HC, HS. split; [apply M4; reflexivity|].
              destruct (inS st k0) eqn:E; [|reflexivity]. exfalso. apply (NoS k0 E). apply M4. reflexivity.
           ++ intros x Hx. rewrite HC. apply M3. assumption.
      * (* Update *)
        destruct (sl_update _ _ _) as [[s' bb] mets] eqn:SU. inversion H; subst; clear H.
        apply (Agree_transfer st); try assumption.
        -- intros x. unfold inS, emit; destruct (c_metrics c); sproj; reflexivity.
        -- intros x. unfold inC, emit; destruct (c_metrics c); sproj;
             (replace s' with (fst (fst (sl_update (s_slfu st) k0 (internal_cost c cost0 + ext0)%Z))) by (rewrite SU; reflexivity);
              apply sl_update_keys).
        -- unfold emit; destruct (c_metrics c); sproj; reflexivity.
        -- intros kk cf X. rewrite B in X. unfold emit; destruct (c_metrics c); sproj; (destruct X as [X|X]; [discriminate X|exact X]).
        -- intros kk b cf X. left. exists b, cf. unfold client_of, emit in *; destruct (c_metrics c); sproj; exact X.
      * (* Delete *)
        cbn [item_cf0] in Hit. subst c0.
        destruct (pol_remove _ _) as [s' mets] eqn:PR. inversion H; subst; clear H.
        assert (HC : forall x, inC (upd_pc (emit c (upd_slfu (upd_buf st r) s') mets) (PDelAfterPolicy k0 0)) x = negb (N.eqb x k0) && inC st x).
        { intros x. unfold inC, emit; destruct (c_metrics c); sproj;
            (replace s' with (fst (pol_remove (s_slfu st) k0)) by (rewrite PR; reflexivity); apply pol_remove_keys). }
        assert (HS : forall x, inS (upd_pc (emit c (upd_slfu (upd_buf st r) s') mets) (PDelAfterPolicy k0 0)) x = inS st x)
          by (intros x; unfold inS, emit; destruct (c_metrics c); sproj; reflexivity).
        split; [|split].
        -- intros x H1 H2. rewrite HS in H1. rewrite HC in H2. unfold ExcS; sproj.
           case_key x k0; [right; left; eauto|]. exfalso. eapply NoS; eassumption.
        -- intros x H1 H2. rewrite HC in H1. rewrite HS in H2. apply andb_true_iff in H1. destruct H1 as (Hn & H1).
           destruct (N.eq_dec x k0) as [Heq|Hne]; [subst x; rewrite N.eqb_refl in Hn; discriminate Hn|]. unfold ExcC; sproj.
           destruct (OnlyBC x H1 H2) as [(cf & X)|(a & cf & X)].
           ++ right. left. exists cf. unfold emit; destruct (c_metrics c); sproj;
                (destruct X as [X|X]; [inversion X; congruence|exact X]).
           ++ right. right. left. exists a, cf. unfold client_of, emit in *; destruct (c_metrics c); sproj; exact X.
        -- unfold PcOk; sproj. rewrite HC, N.eqb_refl. reflexivity.
      * (* Wait *)
        inversion H; subst; clear H. apply (Agree_transfer st); try assumption; sproj; auto.
        -- intros kk cf X. rewrite B in X. destruct X as [X|X]; [discriminate X|exact X].
        -- intros kk b cf X. left. exists b, cf. exact X.
    + (* clear arm *)
      destruct (s_clear_sigs st) as [|sig r]; [discriminate|].
      destruct (drain_buffer _) as [st1 cbs] eqn:DB. inversion H; subst; clear H.
      apply drain_buffer_frame in DB. destruct DB as (Es & Est & Eb & _ & Ec & _).
      split; [|split].
      -- intros x H1 H2. exfalso. apply (NoS x); [unfold inS in *; sproj; rewrite Est in H1; exact H1|unfold inC in *; sproj; rewrite Es in H2; exact H2].
      -- intros x _ _. unfold ExcC; sproj. right. right. right. left. eauto.
      -- unfold PcOk; sproj. exact I.
    + (* tick arm *)
      destruct (s_ticks st =? 0); [discriminate|].
      destruct (em_cleanup _ _) as [em' due]. destruct due as [mm|].
      * apply tick_next_agree_fields in H. sproj. destruct H as (Es & El & Eb & Ec & Ep).
        apply (Agree_to_plain_pc st); try assumption.
        -- intros x. unfold inS. rewrite Es. reflexivity.
        -- intros x. unfold inC. rewrite El. reflexivity.
        -- intros x H1 H2 _. eapply NoS; eassumption.
        -- intros kk cf X. rewrite Eb. exact X.
        -- intros b. unfold client_of. rewrite Ec. reflexivity.
        -- intros x X. destruct X as [(? & ? & ? & ? & ? & X)|[X|[X|[(? & X)|X]]]]; try (rewrite PC in X; discriminate X); auto.
      * inversion H; subst; clear H. apply (Agree_transfer st); try assumption; sproj; auto.
        intros kk b cf X. left. eauto.
    + (* stop arm *)
      assert (G : forall st2, Agree (upd_pc st2 PExited)).
      { intros st2. split; [|split].
        - intros x _ _. unfold ExcS; sproj. auto 10.
        - intros x _ _. unfold ExcC; sproj. auto 10.
        - unfold PcOk; sproj. exact I. }
      destruct (0 <? s_stop_msgs st).
      * destruct (drain_buffer _) as [st2 cbs]. inversion H; subst. apply G.
      * destruct (find_offer false (s_clients st)) as [a0|]; [|discriminate].
        destruct (client_of st a0); try discriminate.
        destruct (drain_buffer _) as [st2 cbs]. inversion H; subst. apply G.
  - (* ---- after add: the store insert (or the reject) ---- *)
    cbn [pc_cf0] in Z3. subst c0. cbn [PcOk] in P. unfold PcOk in P. rewrite PC in P. destruct P as (P1 & P2).
    assert (OldS : forall x, inS st x = true -> inC st x = false -> In x (vkeys victims)).
    { intros x H1 H2. specialize (A1 x H1 H2). destruct A1 as [X|[(? & X)|[(? & ? & ? & ? & X)|[(? & X)|X]]]];
        rewrite PC in X; try discriminate X. exact X. }
    assert (OldC : forall x, inC st x = true -> inS st x = false ->
              (x = k /\ added = true) \/ (exists cf, In (IDelete x cf) (s_buf st)) \/ (exists a cf, client_of st a = KRemSend x cf)).
    { intros x H1 H2. specialize (A2 x H1 H2). destruct A2 as [(? & ? & ? & ? & ? & X)|[X|[X|[(? & X)|X]]]];
        try (rewrite PC in X; discriminate X); auto. rewrite PC in X. inversion X; subst. auto. }
    destruct added; [open_track H|]; inversion H; subst; clear H.
    + assert (HS : forall x, inS (upd_pc (upd_start (emit c (upd_store st (st_try_insert (c_validator c) (s_store st) k v 0 exp)) [(MKeyAdd, 1)]) s0) (PNewAfterStore victims)) x = N.eqb x k || inS st x)
        by (intros x; unfold inS, emit; destruct (c_metrics c); sproj; apply try_insert_keys).
      assert (HC : forall x, inC (upd_pc (upd_start (emit c (upd_store st (st_try_insert (c_validator c) (s_store st) k v 0 exp)) [(MKeyAdd, 1)]) s0) (PNewAfterStore victims)) x = inC st x)
        by (intros x; unfold inC, emit; destruct (c_metrics c); sproj; reflexivity).
      split; [|split].
      * intros x H1 H2. rewrite HS in H1. rewrite HC in H2. unfold ExcS; sproj. left. cbn [pc_victims].
        case_key x k; [rewrite (proj1 (P1 eq_refl)) in H2; discriminate|]. apply OldS; assumption.
      * intros x H1 H2. rewrite HC in H1. rewrite HS in H2. apply orb_false_iff in H2. destruct H2 as (Hn & H2).
        unfold ExcC; sproj. destruct (OldC x H1 H2) as [(-> & _)|[(cf & X)|(a & cf & X)]].
        -- rewrite N.eqb_refl in Hn. discriminate.
        -- right. left. exists cf. unfold emit; destruct (c_metrics c); sproj; exact X.
        -- right. right. left. exists a, cf. unfold client_of, emit in *; destruct (c_metrics c); sproj; exact X.
      * unfold PcOk; sproj. intros x Hx. rewrite HC. auto.
    + split; [|split].
      * intros x H1 H2. unfold ExcS; sproj. left. cbn [pc_victims]. apply OldS; assumption.
      * intros x H1 H2. unfold ExcC; sproj. unfold inC, inS in H1, H2; sproj.
        destruct (OldC x H1 H2) as [(_ & X)|[(cf & X)|(a & cf & X)]]; [discriminate X| |].
        -- right. left. exists cf. exact X.
        -- right. right. left. exists a, cf. exact X.
      * unfold PcOk; sproj. intros x Hx. unfold inC; sproj. apply P2. assumption.
  - (* ---- after store: go to the first victim ---- *)
    unfold PcOk in P. rewrite PC in P. unfold next_victim in H.
    assert (OldS : forall x, inS st x = true -> inC st x = false -> In x (vkeys victims)).
    { intros x H1 H2. specialize (A1 x H1 H2). destruct A1 as [X|[(? & X)|[(? & ? & ? & ? & X)|[(? & X)|X]]]];
        rewrite PC in X; try discriminate X. exact X. }
    assert (OldC : forall x, ExcC st x -> (exists cf, In (IDelete x cf) (s_buf st)) \/ (exists a cf, client_of st a = KRemSend x cf)).
    { intros x X. destruct X as [(? & ? & ? & ? & ? & X)|[X|[X|[(? & X)|X]]]]; try (rewrite PC in X; discriminate X); auto. }
    destruct victims as [|v0 vs]; inversion H; subst; clear H.
    + apply (Agree_to_plain_pc st); try assumption; sproj; auto.
      intros x H1 H2 _. destruct (OldS x H1 H2).
    + split; [|split].
      * intros x H1 H2. unfold ExcS; sproj. left. cbn [pc_victims]. apply (OldS x); assumption.
      * intros x H1 H2. unfold ExcC; sproj. destruct (OldC x (A2 x H1 H2)) as [(cf & X)|(a & cf & X)]; [right; left; eauto|right; right; left; eauto].
      * unfold PcOk; sproj. exact P.
  - (* ---- one victim ---- *)
    unfold PcOk in P. rewrite PC in P. destruct v as [vk vcost].
    destruct (st_try_remove _ _ _) as [sto prev] eqn:TR. open_prep H. unfold next_victim in H.
    assert (OldS : forall x, inS st x = true -> inC st x = false -> In x (vkeys ((vk, vcost) :: rest))).
    { intros x H1 H2. specialize (A1 x H1 H2). destruct A1 as [X|[(? & X)|[(? & ? & ? & ? & X)|[(? & X)|X]]]];
        rewrite PC in X; try discriminate X. exact X. }
    assert (OldC : forall x, ExcC st x -> (exists cf, In (IDelete x cf) (s_buf st)) \/ (exists a cf, client_of st a = KRemSend x cf)).
    { intros x X. destruct X as [(? & ? & ? & ? & ? & X)|[X|[X|[(? & X)|X]]]]; try (rewrite PC in X; discriminate X); auto. }
    assert (HSr : forall x, amem x (st_map sto) = negb (N.eqb x vk) && inS st x) by (intros x; eapply try_remove_keys; exact TR).
    assert (Rest : forall x, negb (N.eqb x vk) && inS st x = true -> inC st x = false -> In x (vkeys rest)).
    { intros x H1 H2. apply andb_true_iff in H1. destruct H1 as (Hn & H1). specialize (OldS x H1 H2).
      cbn [vkeys map fst] in OldS. destruct OldS as [<-|X]; [rewrite N.eqb_refl in Hn; discriminate|exact X]. }
    assert (CarryC : forall x st1, inC st x = true -> negb (N.eqb x vk) && inS st x = false ->
              s_buf st1 = s_buf st -> s_clients st1 = s_clients st ->
              (exists cf, In (IDelete x cf) (s_buf st1)) \/ (exists a cf, client_of st1 a = KRemSend x cf)).
    { intros x st1 H1 H2 Hb Hc. destruct (N.eqb_spec x vk) as [->|Hne].
      - rewrite (P vk) in H1 by (left; reflexivity). discriminate.
      - cbn [negb andb] in H2. destruct (OldC x (A2 x H1 H2)) as [(cf & X)|(a & cf & X)].
        + left. exists cf. rewrite Hb. exact X.
        + right. exists a, cf. unfold client_of in *. rewrite Hc. exact X. }
    destruct rest as [|v1 rs]; inversion H; subst; clear H.
    + split; [|split].
      * intros x H1 H2. unfold inS, inC in H1, H2; sproj. rewrite HSr in H1. destruct (Rest x H1 H2).
      * intros x H1 H2. unfold inS, inC in H1, H2; sproj. rewrite HSr in H2. unfold ExcC; sproj.
        destruct (CarryC x (upd_pc (upd_store st sto) PIdle) H1 H2 eq_refl eq_refl) as [X|X]; auto.
      * unfold PcOk; sproj. exact I.
    + split; [|split].
      * intros x H1 H2. unfold inS, inC in H1, H2; sproj. rewrite HSr in H1. unfold ExcS; sproj. left. cbn [pc_victims]. apply Rest; assumption.
      * intros x H1 H2. unfold inS, inC in H1, H2; sproj. rewrite HSr in H2. unfold ExcC; sproj.
        destruct (CarryC x (upd_pc (upd_store st sto) (PNewVictim v1 rs)) H1 H2 eq_refl eq_refl) as [X|X]; auto.
      * unfold PcOk; sproj. intros x Hx. unfold inC; sproj. apply P. right. exact Hx.
  - (* ---- Delete: the store removal ---- *)
    cbn [pc_cf0] in Z3. subst c0. unfold PcOk in P. rewrite PC in P.
    destruct (st_try_remove _ _ _) as [sto prev] eqn:TR. inversion H; subst; clear H.
    assert (HSr : forall x, amem x (st_map sto) = negb (N.eqb x k) && inS st x) by (intros x; eapply try_remove_keys; exact TR).
    split; [|split].
    + intros x H1 H2. unfold inS, inC in H1, H2; sproj. rewrite HSr in H1. apply andb_true_iff in H1. destruct H1 as (Hn & H1).
      exfalso. specialize (A1 x H1 H2). destruct A1 as [X|[(? & X)|[(? & ? & ? & ? & X)|[(? & X)|X]]]];
        rewrite PC in X; try discriminate X; [cbn in X; contradiction|]. inversion X; subst. rewrite N.eqb_refl in Hn. discriminate.
    + intros x H1 H2. unfold inS, inC in H1, H2; sproj. rewrite HSr in H2. unfold ExcC; sproj.
      case_key x k; [unfold inC in P; congruence|].
      destruct (A2 x H1 H2) as [(? & ? & ? & ? & ? & X)|[(cf & X)|[(a & cf & X)|[(? & X)|X]]]]; try (rewrite PC in X; discriminate X).
      * right. left. eauto.
      * right. right. left. exists a, cf. exact X.
    + unfold PcOk; sproj. exact I.
  - (* ---- clear: the policy ---- *)
    inversion H; subst; clear H. split; [|split].
    + intros x _ _. unfold ExcS; sproj. right. right. right. left. eauto.
    + intros x H1 _. unfold inC in H1; sproj. cbn [sl_clear sl_kc amem aget] in H1. discriminate.
    + unfold PcOk; sproj. intros x. unfold inC; sproj. reflexivity.
  - (* ---- clear: the store ---- *)
    unfold PcOk in P. rewrite PC in P. inversion H; subst; clear H. split; [|split].
    + intros x H1 _. unfold inS in H1; sproj. cbn in H1. discriminate.
    + intros x H1 _. pose proof (P x) as Px. unfold inC in H1, Px; sproj. congruence.
    + unfold PcOk; sproj. split; [intros x; unfold inC; sproj; apply P|intros x; unfold inS; sproj; reflexivity].
  - (* ---- clear: metrics and acknowledgement ---- *)
    unfold PcOk in P. rewrite PC in P. destruct P as (P1 & P2). inversion H; subst; clear H. split; [|split].
    + intros x H1 _. pose proof (P2 x) as Px. unfold inS in H1, Px; destruct (c_metrics c); sproj; congruence.
    + intros x H1 _. pose proof (P1 x) as Px. unfold inC in H1, Px; destruct (c_metrics c); sproj; congruence.
    + unfold PcOk; destruct (c_metrics c); sproj; exact I.
  - (* ---- sweep: look at one key ---- *)
    assert (NoS : forall k, inS st k = true -> inC st k = false -> False).
    { intros x H1 H2. specialize (A1 x H1 H2). excS_contra A1 PC. }
    assert (OnlyBC : forall x, ExcC st x -> (exists cf, In (IDelete x cf) (s_buf st)) \/ (exists a cf, client_of st a = KRemSend x cf)).
    { intros x X. destruct X as [(? & ? & ? & ? & ? & X)|[X|[X|[(? & X)|X]]]]; try (rewrite PC in X; discriminate X); auto. }
    assert (Skip : forall st1 o1, tick_next c st h rest acc = StepOk st1 o1 -> Agree st1).
    { intros st1 o1 T. apply tick_next_agree_fields in T. destruct T as (Es & El & Eb & Ec & Ep).
      apply (Agree_to_plain_pc st); try assumption.
      - intros x. unfold inS. rewrite Es. reflexivity.
      - intros x. unfold inC. rewrite El. reflexivity.
      - intros x H1 H2 _. eapply NoS; eassumption.
      - intros kk cf X. rewrite Eb. exact X.
      - intros b. unfold client_of. rewrite Ec. reflexivity. }
    destruct (st_expiration _ _) as [t|] eqn:SE; [|eapply Skip; exact H].
    destruct (negb (t_is_zero t) && t_is_expired (s_now st) t); [|eapply Skip; exact H].
    destruct (pol_remove _ _) as [s' mets] eqn:PR. inversion H; subst; clear H.
    assert (HC : forall x, inC (upd_pc (emit c (upd_slfu st s') mets) (PTickAfterPolicy k c0 (match aget k (sl_kc (s_slfu st)) with Some x0 => x0 | None => (-1)%Z end) rest acc)) x = negb (N.eqb x k) && inC st x).
    { intros x. unfold inC, emit; destruct (c_metrics c); sproj;
        (replace s' with (fst (pol_remove (s_slfu st) k)) by (rewrite PR; reflexivity); apply pol_remove_keys). }
    split; [|split].
    + intros x H1 H2. rewrite HC in H2. unfold inS, emit in H1; destruct (c_metrics c); sproj; unfold ExcS; sproj;
        (case_key x k; [right; right; left; do 4 eexists; reflexivity|exfalso; eapply NoS; eassumption]).
    + intros x H1 H2. rewrite HC in H1. apply andb_true_iff in H1. destruct H1 as (Hn & H1).
      assert (H2' : inS st x = false) by (unfold inS, emit in *; destruct (c_metrics c); sproj; exact H2).
      unfold ExcC; sproj. destruct (OnlyBC x (A2 x H1 H2')) as [(cf & X)|(a & cf & X)].
      * right. left. exists cf. unfold emit; destruct (c_metrics c); sproj; exact X.
      * right. right. left. exists a, cf. unfold client_of, emit in *; destruct (c_metrics c); sproj; exact X.
    + unfold PcOk; sproj. rewrite HC, N.eqb_refl. reflexivity.
  - (* ---- sweep: the store removal ---- *)
    cbn [pc_cf0] in Z3. destruct Z3 as (Zc & Zr). subst c0. unfold PcOk in P. rewrite PC in P.
    destruct (st_try_remove _ _ _) as [sto prev] eqn:TR.
    assert (HSr : forall x, amem x (st_map sto) = negb (N.eqb x k) && inS st x) by (intros x; eapply try_remove_keys; exact TR).
    apply tick_next_agree_fields in H. sproj. destruct H as (Es & El & Eb & Ec & Ep).
    split; [|split].
    + intros x H1 H2. exfalso. unfold inS in H1. rewrite Es in H1. sproj. rewrite HSr in H1.
      apply andb_true_iff in H1. destruct H1 as (Hn & H1). unfold inC in H2. rewrite El in H2.
      specialize (A1 x H1 H2). destruct A1 as [X|[(? & X)|[(? & ? & ? & ? & X)|[(? & X)|X]]]];
        rewrite PC in X; try discriminate X; [cbn in X; contradiction|]. inversion X; subst. rewrite N.eqb_refl in Hn. discriminate.
    + intros x H1 H2. unfold inC in H1. rewrite El in H1. unfold inS in H2. rewrite Es in H2. sproj. rewrite HSr in H2.
      case_key x k; [unfold inC in P; congruence|].
      unfold ExcC. destruct (A2 x H1 H2) as [(? & ? & ? & ? & ? & X)|[(cf & X)|[(a & cf & X)|[(? & X)|X]]]]; try (rewrite PC in X; discriminate X).
      * right. left. exists cf. rewrite Eb. exact X.
      * right. right. left. exists a, cf. unfold client_of in *. rewrite Ec. exact X.
    + unfold PcOk. destruct Ep as [->|(k1 & cf1 & r1 & a1 & ->)]; exact I.
Qed.

Theorem Agree_step c st l st' o :
  Agree st -> ZeroConf st -> label_cf0 l ->
  cstep c st l = StepOk st' o -> Agree st'.
Proof.
  intros AG ZC L. destruct l as [a op|a|h|h|dt|]; cbn [cstep].
  - destruct (client_of st a) eqn:K; try discriminate. apply Agree_start_op; assumption.
  - apply Agree_continue_client; assumption.
  - apply Agree_proc_step; assumption.
  - intros H. unfold worker_step in H. destruct (s_wpc st); [|discriminate].
    destruct (h_arm h) as [[| | |]|]; try discriminate.
    + destruct (s_pqueue st); [discriminate|]. destruct (tl_increments _ _); [|discriminate].
      inversion H; subst. apply (Agree_transfer st); sproj; auto. intros kk b cf X. left. eauto.
    + destruct (0 <? s_pol_stop_msgs st).
      * inversion H; subst. apply (Agree_transfer st); sproj; auto. intros kk b cf X. left. eauto.
      * destruct (find_offer true (s_clients st)) as [a0|] eqn:FO; [|discriminate].
        destruct (client_of st a0) eqn:KO; try discriminate. inversion H; subst.
        apply (Agree_transfer st); sproj; auto. intros kk b cf X. left. exists b, cf.
        change (client_of (upd_wpc (set_client st a0 KPolCloseStopTaken) WExited) b) with (client_of (set_client st a0 KPolCloseStopTaken) b).
        rewrite client_of_set. destruct (N.eqb_spec b a0) as [->|]; [congruence|exact X].
  - intros H; inversion H; subst. apply (Agree_transfer st); sproj; auto. intros kk b cf X. left. eauto.
  - intros H; inversion H; subst. apply (Agree_transfer st); sproj; auto. intros kk b cf X. left. eauto.
Qed.

(* ---- C06 ---- *)
Definition quiescent (st : cstate) : Prop :=
  s_buf st = [] /\ s_pc st = PIdle /\ (forall a, client_of st a = KIdle).

(* runs in which every conflict hash is 0 *)
Inductive reach_cf (c : cfg) (st0 : cstate) : cstate -> Prop :=
| rcf_init : reach_cf c st0 st0
| rcf_step st l st' o : reach_cf c st0 st -> label_cf0 l ->
    cstep c st l = StepOk st' o -> reach_cf c st0 st'.

Lemma init_agree c mc t now : Agree (cinit c mc t now) /\ ZeroConf (cinit c mc t now).
Proof.
  split.
  - split; [|split].
    + intros k H. cbn in H. discriminate.
    + intros k H. cbn in H. discriminate.
    + exact I.
  - split; [constructor|]. split; [intros a; exact I|]. split; [exact I|intros b m []].
Qed.

Lemma reach_cf_inv c mc t now st : reach_cf c (cinit c mc t now) st -> Agree st /\ ZeroConf st.
Proof.
  induction 1 as [|st l st' o R IH L S].
  - apply init_agree.
  - destruct IH as (AG & ZC). split; [eapply Agree_step; eassumption|eapply ZeroConf_step; eassumption].
Qed.

(* C06: whenever the cache is quiescent — after any history of inserts, updates, removes,
   expirations, evictions and clears, under any schedule of any number of client threads with the
   processor, in either flavour — a key is resident exactly when
   it is charged. *)
Theorem quiescent_agree c mc t now st :
  reach_cf c (cinit c mc t now) st -> quiescent st ->
  forall k, inS st k = inC st k.
Proof.
  intros R (QB & QP & QC) k. destruct (reach_cf_inv _ _ _ _ _ R) as ((A1 & A2 & _) & _).
  destruct (inS st k) eqn:HS, (inC st k) eqn:HC; try reflexivity; exfalso.
  - specialize (A1 k HS HC). excS_contra A1 QP.
  - specialize (A2 k HC HS). destruct A2 as [(? & ? & ? & ? & ? & X)|[(cf & X)|[(a & cf & X)|[(? & X)|X]]]];
      try (rewrite QP in X; discriminate X).
    + rewrite QB in X. destruct X.
    + rewrite QC in X. discriminate X.
Qed.

(* keys are listed once on both sides (store: map keyed by index; policy: WF), so equal membership
   means equal size: len() = number of charged entries *)
Lemma nodup_same_members_same_length (l1 l2 : list N) :
  NoDup l1 -> NoDup l2 -> (forall x, In x l1 <-> In x l2) -> length l1 = length l2.
Proof.
  intros N1 N2 H. apply Nat.le_antisymm; apply NoDup_incl_length; try assumption; intros x Hx; apply H; assumption.
Qed.

(* ---- the store lists every index once ---- *)
Definition StoreND (st : cstate) : Prop := NoDup (akeys (st_map (s_store st))).

Lemma nd_try_update vld s k v c t s' r : NoDup (akeys (st_map s)) -> st_try_update vld s k v c t = (s', r) -> NoDup (akeys (st_map s')).
Proof.
  intros ND. unfold st_try_update. destruct (aget k (st_map s)) as [e|]; [|intros H; inversion H; subst; assumption].
  destruct (negb (conflict_ok c e)); [intros H; inversion H; subst; assumption|].
  destruct (negb (vld (e_val e) v)); [intros H; inversion H; subst; assumption|].
  intros H; inversion H; subst; cbn [st_map]. apply nodup_aset. assumption.
Qed.

Lemma nd_try_remove s k c s' prev : NoDup (akeys (st_map s)) -> st_try_remove s k c = (s', prev) -> NoDup (akeys (st_map s')).
Proof.
  intros ND. unfold st_try_remove. destruct (aget k (st_map s)) as [e|]; [|intros H; inversion H; subst; assumption].
  destruct (negb (conflict_ok c e)); [intros H; inversion H; subst; assumption|].
  intros H; inversion H; subst; cbn [st_map]. apply nodup_adel. assumption.
Qed.

Lemma nd_try_insert vld s k v c t : NoDup (akeys (st_map s)) -> NoDup (akeys (st_map (st_try_insert vld s k v c t))).
Proof.
  intros ND. unfold st_try_insert. destruct (aget k (st_map s)) as [e|].
  - destruct (negb (conflict_ok c e)); [assumption|]. destruct (negb (vld (e_val e) v)); [assumption|].
    cbn [st_map]. apply nodup_aset. assumption.
  - cbn [st_map]. apply nodup_aset. assumption.
Qed.

Lemma nd_write s k v : NoDup (akeys (st_map s)) -> NoDup (akeys (st_map (st_write s k v))).
Proof. intros ND. unfold st_write. destruct (aget k (st_map s)); [cbn [st_map]; apply nodup_aset|]; assumption. Qed.

Theorem StoreND_step c st l st' o : StoreND st -> cstep c st l = StepOk st' o -> StoreND st'.
Proof.
  unfold StoreND. intros ND. destruct l as [a op|a|h|h|dt|]; cbn [cstep].
  - destruct (client_of st a); try discriminate. intros H. destruct op; cbn [start_op] in H.
    + destruct (s_closed st); [inversion H; subst; assumption|].
      destruct (st_try_update _ _ _ _ _ _) as [sto r] eqn:TU. pose proof (nd_try_update _ _ _ _ _ _ _ _ ND TU).
      destruct r; destruct only_update; inversion H; subst; sproj; assumption.
    + destruct (s_closed st); inversion H; subst; sproj; [assumption|]. rewrite (proj2 (proj2 (ring_push_frame c st k))). assumption.
    + destruct (s_closed st); inversion H; subst; sproj; [assumption|]. rewrite (proj2 (proj2 (ring_push_frame c st k))). assumption.
    + destruct (st_get _ _ _ _); [destruct (st_expiration _ _); [destruct (t_get_ttl _ _)|]|]; inversion H; subst; assumption.
    + destruct (s_closed st); [inversion H; subst; assumption|].
      destruct (st_try_remove _ _ _) as [sto prev] eqn:TR. pose proof (nd_try_remove _ _ _ _ _ ND TR). inversion H; subst; sproj; assumption.
    + destruct (s_closed st); inversion H; subst; sproj; assumption.
    + destruct (s_closed st); inversion H; subst; sproj; assumption.
    + destruct (s_closed st); inversion H; subst; sproj; assumption.
    + inversion H; subst; assumption.
    + inversion H; subst; sproj; assumption.
    + inversion H; subst; assumption.
  - intros H. unfold continue_client in H. destruct (client_of st a); try discriminate.
    + destruct (buf_send c st it) as [st1|] eqn:E.
      * inversion H; subst; sproj. apply buf_send_frame in E. destruct E as (_ & Est & _). rewrite Est. assumption.
      * destruct (is_update it); inversion H; subst; unfold emit; try destruct (c_metrics c); sproj; assumption.
    + destruct (st_get _ _ _ _) as [e|].
      * destruct write; [inversion H; subst; unfold emit; destruct (c_metrics c); sproj; apply nd_write; assumption|].
        destruct (t_get_ttl _ _); inversion H; subst; unfold emit; destruct (c_metrics c); sproj; assumption.
      * inversion H; subst; unfold emit; destruct (c_metrics c); sproj; assumption.
    + destruct (buf_send c st (IDelete k c0)) as [st1|] eqn:E.
      * inversion H; subst; sproj. apply buf_send_frame in E. destruct E as (_ & Est & _). rewrite Est. assumption.
      * destruct (s_pc st); try discriminate; inversion H; subst; sproj; assumption.
    + sproj. destruct (buf_send _ _ _) as [st2|] eqn:E; inversion H; subst; sproj; [|assumption].
      apply buf_send_frame in E. sproj. destruct E as (_ & Est & _). rewrite Est. assumption.
    + destruct (s_pc st); inversion H; subst; sproj; assumption.
    + destruct (s_closed st); inversion H; subst; sproj; assumption.
    + destruct (mem_N id (s_done st)); [|discriminate]. inversion H; subst; sproj; assumption.
    + destruct (mem_N id (s_done st)); [|discriminate]. destruct closing; inversion H; subst; sproj; assumption.
    + destruct (s_pc st); inversion H; subst; sproj; assumption.
    + destruct (s_pc st); try (destruct (s_stop_msgs st <? stop_cap c)); inversion H; subst; sproj; assumption.
    + inversion H; subst; sproj; assumption.
    + destruct (s_pol_closed st); inversion H; subst; sproj; assumption.
    + destruct (s_wpc st); [destruct (s_pol_stop_msgs st <? stop_cap c)|]; inversion H; subst; sproj; assumption.
    + inversion H; subst; sproj; assumption.
    + inversion H; subst; sproj; assumption.
  - intros H. unfold proc_step in H. destruct (s_pc st); try discriminate.
    + destruct (h_arm h) as [[| | |]|]; try discriminate.
      * destruct (s_buf st) as [|it r]; [discriminate|]. unfold proc_handle_item in H. destruct it; sproj.
        -- destruct (pol_add _ _ _ _ _); try discriminate. inversion H; subst; unfold emit; destruct (c_metrics c); sproj; assumption.
        -- destruct (sl_update _ _ _) as [[s' bb] mets]. inversion H; subst; unfold emit; destruct (c_metrics c); sproj; assumption.
        -- destruct (pol_remove _ _) as [s' mets]. inversion H; subst; unfold emit; destruct (c_metrics c); sproj; assumption.
        -- inversion H; subst; sproj; assumption.
      * destruct (s_clear_sigs st); [discriminate|]. destruct (drain_buffer _) as [st1 cbs] eqn:DB. inversion H; subst; sproj.
        apply drain_buffer_frame in DB. destruct DB as (_ & Est & _). rewrite Est. sproj. assumption.
      * destruct (s_ticks st =? 0); [discriminate|]. destruct (em_cleanup _ _) as [em' due]. destruct due.
        -- apply tick_next_agree_fields in H. destruct H as (Es & _). rewrite Es. sproj. assumption.
        -- inversion H; subst; sproj; assumption.
      * destruct (0 <? s_stop_msgs st).
        -- destruct (drain_buffer _) as [st2 cbs] eqn:DB. inversion H; subst; sproj.
           apply drain_buffer_frame in DB. destruct DB as (_ & Est & _). rewrite Est. sproj. assumption.
        -- destruct (find_offer false (s_clients st)) as [a0|]; [|discriminate]. destruct (client_of st a0); try discriminate.
           destruct (drain_buffer _) as [st2 cbs] eqn:DB. inversion H; subst; sproj.
           apply drain_buffer_frame in DB. destruct DB as (_ & Est & _). rewrite Est. sproj. assumption.
    + destruct added; [open_track H|]; inversion H; subst; unfold emit; try destruct (c_metrics c); sproj; try assumption; apply nd_try_insert; assumption.
    + unfold next_victim in H. destruct victims; inversion H; subst; sproj; assumption.
    + destruct v as [vk vcost]. destruct (st_try_remove _ _ _) as [sto prev] eqn:TR. pose proof (nd_try_remove _ _ _ _ _ ND TR).
      open_prep H. unfold next_victim in H. destruct rest; inversion H; subst; sproj; assumption.
    + destruct (st_try_remove _ _ _) as [sto prev] eqn:TR. pose proof (nd_try_remove _ _ _ _ _ ND TR). inversion H; subst; sproj; assumption.
    + inversion H; subst; sproj; assumption.
    + inversion H; subst; sproj. constructor.
    + inversion H; subst; destruct (c_metrics c); sproj; assumption.
    + destruct (st_expiration _ _) as [t|].
      * destruct (negb (t_is_zero t) && t_is_expired (s_now st) t).
        -- destruct (pol_remove _ _) as [s' mets]. inversion H; subst; unfold emit; destruct (c_metrics c); sproj; assumption.
        -- apply tick_next_agree_fields in H. destruct H as (Es & _). rewrite Es. assumption.
      * apply tick_next_agree_fields in H. destruct H as (Es & _). rewrite Es. assumption.
    + destruct (st_try_remove _ _ _) as [sto prev] eqn:TR. pose proof (nd_try_remove _ _ _ _ _ ND TR).
      apply tick_next_agree_fields in H. destruct H as (Es & _). rewrite Es. sproj. assumption.
  - intros H. unfold worker_step in H. destruct (s_wpc st); [|discriminate].
    destruct (h_arm h) as [[| | |]|]; try discriminate.
    + destruct (s_pqueue st); [discriminate|]. destruct (tl_increments _ _); [|discriminate]. inversion H; subst; sproj; assumption.
    + destruct (0 <? s_pol_stop_msgs st); [inversion H; subst; sproj; assumption|].
      destruct (find_offer true (s_clients st)) as [a0|]; [|discriminate]. destruct (client_of st a0); try discriminate.
      inversion H; subst; sproj; assumption.
  - intros H; inversion H; subst; sproj; assumption.
  - intros H; inversion H; subst; sproj; assumption.
Qed.

(* C06: ... and len() equals the number of charged entries. *)
Theorem quiescent_len c mc t now st :
  reach_cf c (cinit c mc t now) st -> quiescent st ->
  st_len (s_store st) = N.of_nat (length (sl_kc (s_slfu st))).
Proof.
  intros R Q. pose proof (quiescent_agree _ _ _ _ _ R Q) as EQ.
  assert (R' : reach c (cinit c mc t now) st).
  { clear -R. induction R; [constructor|econstructor; eassumption]. }
  assert (ND1 : StoreND st).
  { apply (reach_ind_inv c (cinit c mc t now) StoreND); [constructor| |exact R'].
    intros st0 l st1 o S X. eapply StoreND_step; eassumption. }
  assert (ND2 : NoDup (akeys (sl_kc (s_slfu st)))).
  { assert (W : WF (s_slfu st)); [|apply W].
    apply (reach_ind_inv c (cinit c mc t now) (fun s => WF (s_slfu s))); [apply WF_new| |exact R'].
    intros st0 l st1 o W S. eapply slfu_rel_WF; [eapply cstep_slfu; exact S|exact W]. }
  unfold st_len. f_equal. unfold akeys in *. rewrite <- (map_length fst (st_map (s_store st))), <- (map_length fst (sl_kc (s_slfu st))).
  apply nodup_same_members_same_length; try assumption.
  intros x. specialize (EQ x). unfold inS, inC, amem in EQ. split; intros Hx.
  - apply in_keys_aget in Hx. destruct Hx as (v & Hv). rewrite Hv in EQ.
    destruct (aget x (sl_kc (s_slfu st))) eqn:E; [eapply aget_in; exact E|discriminate].
  - apply in_keys_aget in Hx. destruct Hx as (v & Hv). rewrite Hv in EQ.
    destruct (aget x (st_map (s_store st))) eqn:E; [eapply aget_in; exact E|discriminate].
Qed.
