(* Keys.v — model of TransparentHasher / TransparentKeyBuilder (src/lib.rs:364-507): how each
   supported integer key type is turned into the 64-bit index hash (`*self as u64`), and the
   builder's validation order.  Integers are Z; `bits` is the width of the type. *)
From StrettoModel Require Export Base.
From Coq Require Import ZifyBool ZifyNat ZifyN.
Open Scope Z_scope.

Inductive ikind := KBool | KU8 | KU16 | KU32 | KU64 | KUsize | KI8 | KI16 | KI32 | KI64 | KIsize.

Definition is_signed (k : ikind) : bool :=
  match k with KI8 | KI16 | KI32 | KI64 | KIsize => true | _ => false end.

Definition bits (k : ikind) : Z :=
  match k with
  | KBool => 1 | KU8 | KI8 => 8 | KU16 | KI16 => 16 | KU32 | KI32 => 32
  | KU64 | KI64 | KUsize | KIsize => 64
  end.

(* the values of the type *)
Definition in_range (k : ikind) (x : Z) : Prop :=
  if is_signed k then - 2 ^ (bits k - 1) <= x < 2 ^ (bits k - 1) else 0 <= x < 2 ^ bits k.

(* `x as u64`: zero extension for unsigned types, sign extension (two's complement) for signed *)
Definition to_u64 (x : Z) : Z := x mod 2 ^ 64.

(* Hash::hash for an integer calls Hasher::write_<ty>(x), which stores `x as u64`; finish returns
   it; the conflict hash of TransparentKeyBuilder is 0 *)
Definition transparent_index (k : ikind) (x : Z) : Z := to_u64 x.
Definition transparent_conflict (k : ikind) (x : Z) : Z := 0.

(* C18: unsigned keys map to themselves *)
Theorem transparent_unsigned_is_identity k x :
  is_signed k = false -> in_range k x -> transparent_index k x = x.
Proof.
  unfold in_range, transparent_index, to_u64. intros Hs. rewrite Hs. intros H.
  assert (2 ^ bits k <= 2 ^ 64) by (destruct k; cbn; try discriminate; lia).
  apply Z.mod_small. lia.
Qed.

(* C18: signed keys map to their two's-complement image: x for x >= 0, 2^64 + x for x < 0 *)
Theorem transparent_signed_is_twos_complement k x :
  is_signed k = true -> in_range k x ->
  transparent_index k x = if x <? 0 then 2 ^ 64 + x else x.
Proof.
  unfold in_range, transparent_index, to_u64. intros Hs. rewrite Hs. intros H.
  assert (2 ^ (bits k - 1) <= 2 ^ 63) by (destruct k; cbn; try discriminate; lia).
  destruct (x <? 0) eqn:E.
  - rewrite <- (Z.mod_small (2 ^ 64 + x) (2 ^ 64)) by lia.
    replace (2 ^ 64 + x) with (x + 1 * 2 ^ 64) by lia. rewrite Z.mod_add by lia. reflexivity.
  - apply Z.mod_small. lia.
Qed.

(* C18: distinct keys of one integer type never share an index (boundary and negative values
   included), so they never collide *)
Theorem transparent_injective k x y :
  in_range k x -> in_range k y -> transparent_index k x = transparent_index k y -> x = y.
Proof.
  unfold in_range, transparent_index, to_u64. intros Hx Hy.
  assert (A : 2 ^ bits k <= 2 ^ 64) by (destruct k; cbn; lia).
  assert (B : is_signed k = true -> 2 ^ (bits k - 1) <= 2 ^ 63) by (destruct k; cbn; try discriminate; lia).
  destruct (is_signed k).
  - specialize (B eq_refl). intros H.
    assert (Hm : (x - y) mod 2 ^ 64 = 0).
    { rewrite Zminus_mod, H, Z.sub_diag. reflexivity. }
    apply Z.mod_divide in Hm; [|lia]. destruct Hm as [q Hq].
    assert (q = 0) by nia. lia.
  - intros H. rewrite !Z.mod_small in H by lia. assumption.
Qed.

(* ---- builder validation (src/cache/sync.rs:163-178, async.rs:185-199) ---- *)
Inductive build_error := InvalidNumCounters | InvalidMaxCost | InvalidBufferSize.

Definition validate (num_counters : N) (max_cost : Z) (buffer_size : N) : option build_error :=
  if (num_counters =? 0)%N then Some InvalidNumCounters
  else if max_cost =? 0 then Some InvalidMaxCost
  else if (buffer_size =? 0)%N then Some InvalidBufferSize
  else None.

(* C20: zero num_counters / max_cost / buffer size are rejected with that error, in that order of
   precedence; everything else (negative max_cost included) is accepted *)
Theorem builder_validation nc mc bs :
  (nc = 0%N -> validate nc mc bs = Some InvalidNumCounters) /\
  (nc <> 0%N -> mc = 0 -> validate nc mc bs = Some InvalidMaxCost) /\
  (nc <> 0%N -> mc <> 0 -> bs = 0%N -> validate nc mc bs = Some InvalidBufferSize) /\
  (nc <> 0%N -> mc <> 0 -> bs <> 0%N -> validate nc mc bs = None).
Proof.
  unfold validate. repeat split; intros;
    destruct (N.eqb_spec nc 0); destruct (Z.eqb_spec mc 0); destruct (N.eqb_spec bs 0); congruence.
Qed.
