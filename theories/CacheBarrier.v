(* CacheBarrier.v — property C10, the barrier end to end: identifiers of wait markers and clear
   signals are fresh (IdBound), so a wait marker is never released by a clear acknowledgement; hence,
   over every run, when the marker of a wait() is released, every buffer slot that was ahead of it
   has been consumed by the processor (taken at its loop head, or drained), and the processor is at
   its loop head, i.e. between two items. *)
From StrettoModel Require Import Base BaseProofs Metrics Sketch Bloom TinyLFU TinyLFUProofs Policy PolicyProofs Ttl Store StoreProofs
  Cache CacheProofs CacheLocal CacheInv CacheFifo CacheClearLive.
From Coq Require Import ZifyBool ZifyNat ZifyN.
Open Scope N_scope.

Ltac unemit_all := unfold emit in *; try match goal with |- context [c_metrics ?c] => destruct (c_metrics c) | H : context [c_metrics ?c] |- _ => destruct (c_metrics c) end; sproj.
Ltac repc := repeat match goal with E : s_pc ?s = _ |- context [s_pc ?s] => rewrite E end.

Lemma ring_push_ids c st k :
  s_next_id (ring_push c st k) = s_next_id st /\ s_clear_sigs (ring_push c st k) = s_clear_sigs st /\
  s_pc (ring_push c st k) = s_pc st /\ s_clients (ring_push c st k) = s_clients st /\ s_buf (ring_push c st k) = s_buf st.
Proof.
  unfold ring_push, policy_push. repeat match goal with |- context [if ?b then _ else _] => destruct b end;
    try destruct (s_ring st ++ [k]); unemit; auto 6.
Qed.

Ltac rp := repeat match goal with |- context [ring_push ?c0 ?s0 ?k0] =>
  let R1 := fresh in let R2 := fresh in let R3 := fresh in let R4 := fresh in let R5 := fresh in
  destruct (ring_push_ids c0 s0 k0) as (R1 & R2 & R3 & R4 & R5); unfold client_of; rewrite ?R1, ?R2, ?R3, ?R4, ?R5; clear R1 R2 R3 R4 R5 end.

(* ---- the identifier counter only grows, by one, at the three places that allocate ---- *)
Lemma next_id_step c st l st' o : cstep c st l = StepOk st' o ->
  s_next_id st' = s_next_id st \/ s_next_id st' = s_next_id st + 1.
Proof.
  intros H. destruct l as [a op|a|h|h|dt|].
  - destruct op; crush_step H; open_shapes; unemit_all; rp; auto.
  - cbn [cstep] in H. unfold continue_client in H. destruct (client_of st a) eqn:CA; crush_step H; open_shapes; unemit_all; auto.
  - crush_step H; open_shapes; unemit_all; auto.
  - crush_step H; open_shapes; unemit_all; auto.
  - crush_step H. auto.
  - crush_step H. auto.
Qed.

(* ---- new clear signals carry the current counter value ---- *)
Lemma sigs_step c st l st' o x : cstep c st l = StepOk st' o -> In x (s_clear_sigs st') ->
  In x (s_clear_sigs st) \/ (x = s_next_id st /\ s_next_id st' = s_next_id st + 1).
Proof.
  intros H. destruct l as [a op|a|h|h|dt|].
  - destruct op; crush_step H; open_shapes; unemit_all; rp; auto.
    all: intros X; apply in_app_or in X; destruct X as [X|[<-|[]]]; auto.
  - cbn [cstep] in H. unfold continue_client in H. destruct (client_of st a) eqn:CA; crush_step H; open_shapes; unemit_all; auto.
    all: intros X; apply in_app_or in X; destruct X as [X|[<-|[]]]; auto.
  - crush_step H; open_shapes; unemit_all; auto; try (intros []); try (intros X; left; right; exact X).
  - crush_step H; open_shapes; unemit_all; auto.
  - crush_step H. auto.
  - crush_step H. auto.
Qed.

Ltac pcx := let X := fresh "X" in intros X; repeat match goal with E : s_pc ?s = _ |- _ => rewrite E in X end; auto.

(* ---- the processor performs a clear only for a signal it received ---- *)
Lemma clearing_step c st l st' o x : cstep c st l = StepOk st' o -> clearing (s_pc st') x ->
  clearing (s_pc st) x \/ In x (s_clear_sigs st).
Proof.
  intros H. unfold clearing. destruct l as [a op|a|h|h|dt|].
  - destruct op; crush_step H; open_shapes; unemit_all; rp; auto; pcx.
  - cbn [cstep] in H. unfold continue_client in H. destruct (client_of st a) eqn:CA; crush_step H; open_shapes; unemit_all; auto; pcx.
  - crush_step H; open_shapes; unemit_all; repc; auto;
      try (intros [X|[X|X]]; discriminate X);
      try (intros [X|[X|X]]; inversion X; subst; auto; fail).
    all: intros [X|[X|X]]; inversion X; subst; right; left; reflexivity.
  - crush_step H; open_shapes; unemit_all; auto.
  - crush_step H. auto.
  - crush_step H. auto.
Qed.

(* ---- a client about to send holds the item it built: no step makes that item a wait marker ---- *)
Definition holds_marker (st : cstate) (x : N) : Prop := exists a k, client_of st a = KInsSend (IWait x) k.

Lemma holds_marker_step c st l st' o x : cstep c st l = StepOk st' o -> holds_marker st' x -> holds_marker st x.
Proof.
  intros H (b & kb & X). exists b, kb. revert X. destruct l as [a op|a|h|h|dt|].
  - destruct op; crush_step H; open_shapes; unemit_all; auto;
      rewrite ?client_of_set; try (destruct (N.eqb_spec b a) as [->|Hne]; [discriminate|]); unfold client_of; rp; auto.
  - cbn [cstep] in H. unfold continue_client in H. destruct (client_of st a) eqn:CA; crush_step H; open_shapes; unemit_all; auto;
      rewrite ?client_of_set; (destruct (N.eqb_spec b a) as [->|Hne]; [discriminate|]); unfold client_of; sproj; auto.
  - crush_step H; open_shapes; unemit_all; auto.
    all: unfold client_of, set_client; sproj; destruct (N.eq_dec b n) as [->|Hne];
      [rewrite aget_aset_same; discriminate|rewrite aget_aset_other by assumption; auto].
  - crush_step H; open_shapes; unemit_all; auto.
    change (client_of (upd_wpc (set_client st n KPolCloseStopTaken) WExited) b) with (client_of (set_client st n KPolCloseStopTaken) b).
    rewrite client_of_set. destruct (N.eqb_spec b n) as [->|Hne]; [discriminate|auto].
  - crush_step H. auto.
  - crush_step H. auto.
Qed.

(* ---- a wait marker enters the buffer with the current counter value ---- *)
Lemma buf_marker_step c st l st' o x : cstep c st l = StepOk st' o -> In (IWait x) (s_buf st') ->
  In (IWait x) (s_buf st) \/ holds_marker st x \/ (x = s_next_id st /\ s_next_id st' = s_next_id st + 1).
Proof.
  intros H. destruct l as [a op|a|h|h|dt|].
  - destruct op; crush_step H; open_shapes; unemit_all; rp; auto.
  - cbn [cstep] in H. unfold continue_client in H. destruct (client_of st a) eqn:CA; crush_step H; open_shapes; unemit_all; auto.
    all: intros X; apply in_app_or in X; destruct X as [X|[X|[]]]; auto; try discriminate X.
    all: try (inversion X; subst; auto; fail).
    all: subst; right; left; eexists; eexists; eassumption.
  - crush_step H; open_shapes; unemit_all; auto; try (intros []).
    all: intros X; left; right; exact X.
  - crush_step H; open_shapes; unemit_all; auto.
  - crush_step H. auto.
  - crush_step H. auto.
Qed.

(* ---- every identifier in use is below the counter ---- *)
Definition has_id (st : cstate) (x : N) : Prop :=
  In (IWait x) (s_buf st) \/ holds_marker st x \/ In x (s_clear_sigs st) \/ clearing (s_pc st) x \/ mem_N x (s_done st) = true.

Definition IdBound (st : cstate) : Prop := forall x, has_id st x -> x < s_next_id st.

Lemma has_id_step c st l st' o x : cstep c st l = StepOk st' o -> has_id st' x ->
  has_id st x \/ (x = s_next_id st /\ s_next_id st' = s_next_id st + 1).
Proof.
  intros H [X|[X|[X|[X|X]]]].
  - destruct (buf_marker_step _ _ _ _ _ _ H X) as [Y|[Y|Y]]; [left; left; exact Y|left; right; left; exact Y|right; exact Y].
  - left. right. left. eapply holds_marker_step; eassumption.
  - destruct (sigs_step _ _ _ _ _ _ H X) as [Y|Y]; [left; right; right; left; exact Y|right; exact Y].
  - destruct (clearing_step _ _ _ _ _ _ H X) as [Y|Y]; [left; right; right; right; left; exact Y|left; right; right; left; exact Y].
  - destruct (mem_N x (s_done st)) eqn:D; [left; right; right; right; right; exact D|].
    left. destruct (marker_released_only_by _ _ _ _ _ _ H D X) as [h r _ _ _ B|h _ _ _ [B|B]|h _ B].
    + left. rewrite B. left. reflexivity.
    + left. exact B.
    + right. right. left. exact B.
    + right. right. right. left. right. right. exact B.
Qed.

Theorem IdBound_step c st l st' o : IdBound st -> cstep c st l = StepOk st' o -> IdBound st'.
Proof.
  intros I H x X. destruct (has_id_step _ _ _ _ _ _ H X) as [Y|(-> & E)].
  - specialize (I x Y). destruct (next_id_step _ _ _ _ _ H) as [E|E]; rewrite E; lia.
  - rewrite E. lia.
Qed.

Theorem reachable_IdBound c mc t now st : reach c (cinit c mc t now) st -> IdBound st.
Proof.
  apply (reach_ind_inv c (cinit c mc t now) IdBound).
  - intros x [X|[(a & k & X)|[X|[[X|[X|X]]|X]]]]; try (destruct X; fail); try discriminate X.
  - intros s l s' o I S. eapply IdBound_step; eassumption.
Qed.

(* ---- an identifier below the counter that is not a clear signal never becomes one ---- *)
Definition NotClear (st : cstate) (id : N) : Prop :=
  id < s_next_id st /\ ~ In id (s_clear_sigs st) /\ ~ clearing (s_pc st) id.

Lemma NotClear_step c st l st' o id : NotClear st id -> cstep c st l = StepOk st' o -> NotClear st' id.
Proof.
  intros (B & S & P) H. split; [|split].
  - destruct (next_id_step _ _ _ _ _ H) as [E|E]; rewrite E; lia.
  - intros X. destruct (sigs_step _ _ _ _ _ _ H X) as [Y|(Y & _)]; [exact (S Y)|lia].
  - intros X. destruct (clearing_step _ _ _ _ _ _ H X) as [Y|Y]; [exact (P Y)|exact (S Y)].
Qed.

(* ---- the processor's drains leave the buffer empty; taking a marker at the head releases it ---- *)
Lemma drain_empties c st h st' o :
  cstep c st (LProc h) = StepOk st' o -> s_pc st = PIdle -> h_arm h = Some ArmClear \/ h_arm h = Some ArmStop -> s_buf st' = [].
Proof.
  intros H PC [A|A]; cbn [cstep] in H; unfold proc_step in H; rewrite PC, A in H; crush_step H; open_shapes; unemit_all; reflexivity.
Qed.

(* ---- slots ahead of a marker: n counts the buffer slots, from the head, that were ahead of the
   marker when it was sent and have not been consumed yet; the buffer shrinks only when the
   processor takes its head or drains it (buffer_is_fifo), so n goes down by the shrinkage ---- *)
Definition consumed (st st' : cstate) : nat := (length (s_buf st) - length (s_buf st'))%nat.

Inductive btrace (c : cfg) (st0 : cstate) (n0 : nat) : cstate -> nat -> Prop :=
| bt_refl : btrace c st0 n0 st0 n0
| bt_step st n l st' o : btrace c st0 n0 st n -> cstep c st l = StepOk st' o -> btrace c st0 n0 st' (n - consumed st st')%nat.

Lemma consumed_only_by_processor c st l st' o :
  cstep c st l = StepOk st' o -> (0 < consumed st st')%nat ->
  exists h, l = LProc h /\ s_pc st = PIdle /\
    ((h_arm h = Some ArmItem /\ exists it, s_buf st = it :: s_buf st') \/
     ((h_arm h = Some ArmClear \/ h_arm h = Some ArmStop) /\ s_buf st' = [])).
Proof.
  intros H C. unfold consumed in C. destruct (buffer_is_fifo _ _ _ _ _ H) as [E|a it _ E|h it L PC A E|h L PC A E].
  - rewrite E in C. lia.
  - rewrite E, app_length in C. cbn [length] in C. lia.
  - exists h. split; [exact L|split; [exact PC|left; split; [exact A|exists it; exact E]]].
  - exists h. split; [exact L|split; [exact PC|right; split; [exact A|exact E]]].
Qed.

Definition ahead (st : cstate) (id : N) (n : nat) : Prop :=
  mem_N id (s_done st) = false /\ NotClear st id /\
  exists pre post, s_buf st = pre ++ IWait id :: post /\ ~ In (IWait id) pre /\ (n <= length pre)%nat.

Lemma ahead_step c st l st' o id n :
  ahead st id n -> cstep c st l = StepOk st' o -> ahead st' id (n - consumed st st') \/ (n - consumed st st' = 0)%nat.
Proof.
  intros (D & NC & pre & post & B & NI & LE) H. unfold consumed.
  assert (NC' := NotClear_step _ _ _ _ _ _ NC H).
  destruct (mem_N id (s_done st')) eqn:D'.
  - (* released by this step *)
    right. destruct (marker_released_only_by _ _ _ _ _ _ H D D') as [h r L PC A B1|h L PC A _|h L PC].
    + rewrite B in B1. destruct pre as [|p pre]; [cbn [length] in LE; lia|].
      cbn [app] in B1. inversion B1; subst. exfalso. apply NI. left. reflexivity.
    + subst l. rewrite (drain_empties _ _ _ _ _ H PC A), B, app_length. cbn [length]. lia.
    + exfalso. destruct NC as (_ & _ & P). apply P. right. right. exact PC.
  - destruct (buffer_is_fifo _ _ _ _ _ H) as [E|a it _ E|h it L PC A E|h L PC A E].
    + left. rewrite E, Nat.sub_diag, Nat.sub_0_r. split; [exact D'|split; [exact NC'|]].
      exists pre, post. rewrite E. auto.
    + left. rewrite E, app_length. cbn [length]. replace (length (s_buf st) - (length (s_buf st) + 1))%nat with 0%nat by lia.
      rewrite Nat.sub_0_r. split; [exact D'|split; [exact NC'|]].
      exists pre, (post ++ [it]). rewrite E, B, <- app_assoc. cbn [app]. auto.
    + destruct pre as [|p pre].
      * right. cbn [length] in LE. lia.
      * left. rewrite B in E. cbn [app] in E. inversion E as [[E1 E2]]. rewrite B; try rewrite <- E2. cbn [app length].
        replace (S (length (pre ++ IWait id :: post)) - length (pre ++ IWait id :: post))%nat with 1%nat by lia.
        split; [exact D'|split; [exact NC'|]]. exists pre, post. split; [first [reflexivity|symmetry; exact E2]|split].
        -- intros X. apply NI. right. exact X.
        -- cbn [length] in LE. lia.
    + right. rewrite E, B, app_length. cbn [length]. lia.
Qed.

Lemma ahead_trace c st0 id n0 st n :
  btrace c st0 n0 st n -> ahead st0 id n0 -> ahead st id n \/ n = 0%nat.
Proof.
  intros T A0. induction T as [|st n l st' o T IH S]; [left; exact A0|].
  destruct IH as [A| ->]; [eapply ahead_step; eassumption|right; reflexivity].
Qed.

(* sending the marker: everything in the buffer at that moment is ahead of it *)
Lemma wait_send_ahead c st a st1 id :
  IdBound st -> client_of st a = KWaitStart ->
  cstep c st (LClient a) = StepOk st1 (mk_out PtWaitAfterSend [] RNone) -> client_of st1 a = KWaitAfterSend id ->
  ahead st1 id (length (s_buf st)).
Proof.
  intros I K H W. cbn [cstep] in H. unfold continue_client in H. rewrite K in H.
  cbn [fresh_id] in H. unfold buf_send in H. sproj.
  assert (F : forall x, has_id st x -> x <> s_next_id st) by (intros x X; specialize (I x X); lia).
  destruct (s_pc st) eqn:PC; try discriminate;
    (destruct (N.of_nat (length (s_buf st)) <? c_buf_cap c); [|discriminate]);
    inversion H; subst; clear H; rewrite client_of_set, N.eqb_refl in W; inversion W; subst;
    (split; [|split; [split; [|split]|]]); sproj; try rewrite PC.
  all: try (destruct (mem_N (s_next_id st) (s_done st)) eqn:M; [exfalso; apply (F (s_next_id st)); [right; right; right; right; exact M|reflexivity]|reflexivity]).
  all: try lia.
  all: try (intros X; apply (F (s_next_id st)); [right; right; left; exact X|reflexivity]).
  all: try (intros X; apply (F (s_next_id st)); [right; right; right; left; rewrite PC; exact X|reflexivity]).
  all: exists (s_buf st), []; split; [reflexivity|split; [|lia]];
    intros X; apply (F (s_next_id st)); [left; exact X|reflexivity].
Qed.

(* C10, the barrier.  A thread inside wait() (past its is_closed check) queues its marker in a reachable state st0.
   Follow any continuation of the run, counting down the slots that were in the buffer at that
   moment as the processor consumes them.  Whenever the marker has been released (wait() can
   return Ok) the count is zero: every item that was queued before the marker — in particular
   everything the same thread sent before calling wait() — has been taken by the processor at its
   loop head, or discarded by a drain for clear() / close(). *)
Theorem wait_is_a_barrier c mc t now st0 a st1 id st n :
  reach c (cinit c mc t now) st0 -> client_of st0 a = KWaitStart ->
  cstep c st0 (LClient a) = StepOk st1 (mk_out PtWaitAfterSend [] RNone) -> client_of st1 a = KWaitAfterSend id ->
  btrace c st1 (length (s_buf st0)) st n ->
  mem_N id (s_done st) = true -> n = 0%nat.
Proof.
  intros R K H W T D.
  pose proof (wait_send_ahead c st0 a st1 id (reachable_IdBound _ _ _ _ _ R) K H W) as A.
  destruct (ahead_trace _ _ _ _ _ _ T A) as [(D' & _)|E]; [congruence|exact E].
Qed.

(* ... and the marker of a wait() is released only while the processor is at its loop head, i.e.
   between two items: what it took before has been handled completely. *)
Theorem marker_released_between_items c st l st' o id n :
  ahead st id n -> cstep c st l = StepOk st' o -> mem_N id (s_done st') = true ->
  s_pc st = PIdle /\ exists h, l = LProc h.
Proof.
  intros (D & NC & _) H D'. destruct (marker_released_only_by _ _ _ _ _ _ H D D') as [h r L PC A B1|h L PC A _|h L PC].
  - split; [exact PC|exists h; exact L].
  - split; [exact PC|exists h; exact L].
  - exfalso. destruct NC as (_ & _ & P). apply P. right. right. exact PC.
Qed.

(* an executable form of the slot count, for examples *)
Fixpoint brun (c : cfg) (st : cstate) (n : nat) (ls : list label) : option (cstate * nat) :=
  match ls with
  | [] => Some (st, n)
  | l :: r => match cstep c st l with StepOk st' _ => brun c st' (n - consumed st st')%nat r | _ => None end
  end.

Lemma btrace_front c st0 n0 l st1 o st n :
  cstep c st0 l = StepOk st1 o -> btrace c st1 (n0 - consumed st0 st1)%nat st n -> btrace c st0 n0 st n.
Proof.
  intros H T. induction T as [|s m l' s' o' T IH S].
  - eapply bt_step; [apply bt_refl|exact H].
  - eapply bt_step; [exact IH|exact S].
Qed.

Lemma brun_btrace c ls : forall st0 n0 st n, brun c st0 n0 ls = Some (st, n) -> btrace c st0 n0 st n.
Proof.
  induction ls as [|l r IH]; intros st0 n0 st n; cbn [brun].
  - intros H; inversion H; subst. apply bt_refl.
  - destruct (cstep c st0 l) as [st1 o| | | ] eqn:S; try discriminate. intros H. eapply btrace_front; [exact S|apply IH; exact H].
Qed.

(* ---- remove(): the Delete marker is never lost (the repaired D12) ---- *)

(* remove() never returns without having queued its Delete marker behind everything already in the
   buffer, unless the processor has exited (the cache is closed): it reports Ok in both cases and no
   other outcome exists (the repaired D12: no error, no panic, no lost marker). *)
Theorem remove_queues_its_marker c st a k cf st' o :
  client_of st a = KRemSend k cf -> cstep c st (LClient a) = StepOk st' o ->
  o = mk_out PtFinish [] (RUnit true) /\ client_of st' a = KIdle /\
  (s_buf st' = s_buf st ++ [IDelete k cf] \/ (s_pc st = PExited /\ s_buf st' = s_buf st)).
Proof.
  intros K H. cbn [cstep] in H. unfold continue_client in H. rewrite K in H. unfold buf_send in H.
  destruct (s_pc st) eqn:PC;
    try (destruct (N.of_nat (length (s_buf st)) <? c_buf_cap c); [|discriminate]);
    inversion H; subst; (split; [reflexivity|split; [rewrite client_of_set, N.eqb_refl; reflexivity|]]); sproj; auto.
Qed.

(* a remove() waiting for room is never stranded: it can finish right now, or the buffer is full
   of items in front of a live processor (which takes them one by one, C10_buffer_is_fifo) *)
Theorem remove_never_stuck c st a k cf :
  client_of st a = KRemSend k cf ->
  (exists st', cstep c st (LClient a) = StepOk st' (mk_out PtFinish [] (RUnit true))) \/
  (s_pc st <> PExited /\ c_buf_cap c <= N.of_nat (length (s_buf st))).
Proof.
  intros K. cbn [cstep]. unfold continue_client. rewrite K. unfold buf_send.
  destruct (s_pc st) eqn:PC;
    try (destruct (N.of_nat (length (s_buf st)) <? c_buf_cap c) eqn:E;
         [left; eexists; reflexivity|right; split; [discriminate|lia]]).
  left. eexists. reflexivity.
Qed.
