(* PolicyVictims.v — property C16: the cost the policy reports for an eviction victim is the cost that
   key was charged when the add began (charges do not change during an add, they are only removed). *)
From StrettoModel Require Import Base BaseProofs Metrics Policy PolicyProofs.
From Coq Require Import ZifyBool ZifyNat ZifyN.
Open Scope Z_scope.

Definition pairs_ok (s0 : slfu) (l : list pair) : Prop := forall k c, In (k, c) l -> aget k (sl_kc s0) = Some c.
Definition kc_sub (s s0 : slfu) : Prop := forall k c, aget k (sl_kc s) = Some c -> aget k (sl_kc s0) = Some c.

Lemma pairs_eqb_eq a : forall b, pairs_eqb a b = true -> a = b.
Proof.
  induction a as [|[k1 c1] a IH]; intros [|[k2 c2] b]; cbn [pairs_eqb]; try discriminate; [reflexivity|].
  intros H. apply andb_true_iff in H. destruct H as (H1 & H2). apply andb_true_iff in H1. destruct H1 as (Hk & Hc).
  apply N.eqb_eq in Hk. apply Z.eqb_eq in Hc. subst. f_equal. apply IH. exact H2.
Qed.

Lemma pair_in_In p m : pair_in p m = true -> In (fst p, snd p) m.
Proof.
  induction m as [|[k c] m IH]; cbn [pair_in]; [discriminate|]. intros H. apply orb_true_iff in H. destruct H as [H|H].
  - apply andb_true_iff in H. destruct H as (Hk & Hc). apply N.eqb_eq in Hk. apply Z.eqb_eq in Hc. left. congruence.
  - right. apply IH. exact H.
Qed.

(* a legal refill only adds pairs (key, current charge) *)
Lemma legal_fill_pairs_ok s s0 sample smp :
  NoDup (akeys (sl_kc s)) -> kc_sub s s0 -> pairs_ok s0 sample -> legal_fill (sl_kc s) sample smp = true -> pairs_ok s0 smp.
Proof.
  intros ND SUB OK. unfold legal_fill. destruct (SAMPLES <=? length sample)%nat.
  - intros H. apply pairs_eqb_eq in H. subst. exact OK.
  - intros H. apply andb_true_iff in H. destruct H as (H & _). apply andb_true_iff in H. destruct H as (H & Hall).
    apply andb_true_iff in H. destruct H as (Hpre & _). apply pairs_eqb_eq in Hpre.
    intros k c Hin. rewrite <- (firstn_skipn (length sample) smp) in Hin. apply in_app_or in Hin. destruct Hin as [Hin|Hin].
    + rewrite <- Hpre in Hin. apply OK. exact Hin.
    + rewrite forallb_forall in Hall. specialize (Hall (k, c) Hin). apply pair_in_In in Hall. cbn [fst snd] in Hall.
      apply SUB. apply In_pair_aget; assumption.
Qed.

Lemma In_list_set {A} (l : list A) : forall i x y, In y (list_set l i x) -> y = x \/ In y l.
Proof.
  induction l as [|h t IH]; intros i x y; destruct i as [|i]; cbn [list_set In]; try tauto.
  - intros [H|H]; [left; symmetry; exact H|right; right; exact H].
  - intros [H|H]; [right; left; exact H|]. destruct (IH i x y H) as [E|E]; [left; exact E|right; right; exact E].
Qed.

Lemma In_firstn {A} (m : list A) : forall n p, In p (firstn n m) -> In p m.
Proof.
  induction m as [|x m IH]; intros [|n] p; cbn [firstn In]; try tauto. intros [H|H]; [left; exact H|right; eapply IH; exact H].
Qed.

Lemma swap_remove_In l i p : In p (swap_remove l i) -> In p l.
Proof.
  unfold swap_remove. destruct (rev l) as [|last r] eqn:R; [intros []|].
  assert (Hl : In last l) by (apply in_rev; rewrite R; left; reflexivity).
  intros H. apply In_firstn in H. destruct (In_list_set l i last p H) as [->|X]; assumption.
Qed.

Lemma pol_remove_kc_sub s mk : kc_sub (fst (pol_remove s mk)) s.
Proof.
  rewrite pol_remove_fst. intros k c. unfold sl_remove. destruct (aget mk (sl_kc s)) as [c0|] eqn:G; cbn [fst sl_kc]; [|auto].
  destruct (N.eq_dec k mk) as [->|Hne]; [rewrite aget_adel_same; discriminate|rewrite aget_adel_other by assumption; auto].
Qed.

Lemma evict_loop_victims est ih k cost s0 : forall oracle s sample victims log mets s' v a lg m,
  WF s -> kc_sub s s0 -> pairs_ok s0 sample -> pairs_ok s0 victims -> (forall x, est x < I64MAX) ->
  evict_loop est ih k cost oracle s sample victims log mets = AddDone s' v a lg m ->
  match v with Some V => pairs_ok s0 V | None => True end.
Proof.
  induction oracle as [|smp oracle IH]; intros s sample victims log mets s' v a lg m W SUB OKs OKv Hest; cbn [evict_loop].
  - destruct (0 <=? sl_room_left s cost); [|discriminate]. intros H; inversion H; subst. exact OKv.
  - destruct (0 <=? sl_room_left s cost); [intros H; inversion H; subst; exact OKv|].
    destruct (negb (legal_fill (sl_kc s) sample smp)) eqn:LF; [discriminate|]. apply negb_false_iff in LF.
    pose proof (legal_fill_pairs_ok s s0 sample smp (proj2 W) SUB OKs LF) as OKsmp.
    destruct (find_min0 est smp) as [[[mk mh] mi] mc] eqn:FM.
    destruct (ih <? mh); [intros H; inversion H; subst; exact OKv|].
    destruct smp as [|p0 smp0] eqn:SM; [discriminate|]. rewrite <- SM in *.
    destruct (pol_remove s mk) as [s1 ev] eqn:PR.
    assert (NE : smp <> []) by (rewrite SM; discriminate).
    destruct (find_min0_spec est smp mk mh mi mc Hest NE FM) as (Nth & _).
    assert (Hin : In (mk, mc) smp) by (eapply nth_error_In; exact Nth).
    apply IH.
    + pose proof (WF_pol_remove s mk W) as X. rewrite PR in X. exact X.
    + intros k0 c0 G. apply SUB. pose proof (pol_remove_kc_sub s mk k0 c0) as X. rewrite PR in X. apply X. exact G.
    + intros k0 c0 G. apply OKsmp. eapply swap_remove_In. exact G.
    + intros k0 c0 G. apply in_app_or in G. destruct G as [G|[G|[]]]; [apply OKv; exact G|]. inversion G; subst. apply OKsmp. exact Hin.
    + exact Hest.
Qed.

(* C16: every victim the policy reports carries the cost it was charged when the add began *)
Theorem victims_report_their_charge est oracle s k cost s' V a lg m :
  WF s -> (forall x, est x < I64MAX) -> pol_add est oracle s k cost = AddDone s' (Some V) a lg m ->
  forall kv c, In (kv, c) V -> aget kv (sl_kc s) = Some c.
Proof.
  intros W Hest. unfold pol_add. destruct (sl_max s <? cost); [discriminate|].
  destruct (sl_update s k cost) as [[s1 b] ev]. destruct b; [discriminate|].
  destruct (0 <=? sl_room_left s cost); [discriminate|]. intros H.
  exact (evict_loop_victims est (est k) k cost s oracle s [] [] [] [] s' (Some V) a lg m W (fun _ _ X => X)
           (fun _ _ X => match X with end) (fun _ _ X => match X with end) Hest H).
Qed.
