(* Store.v — model of src/store.rs: the sharded map as one flat map index -> entry, together with
   the expiry index.  Sharding (index mod 256) only matters for locking and is not modelled. *)
From StrettoModel Require Export Base Ttl.
Open Scope N_scope.

Record entry := { e_conflict : N; e_val : N; e_exp : time }.

Record storage := { st_map : amap entry; st_em : emap }.

Definition st_empty : storage := {| st_map := []; st_em := [] |}.

Definition conflict_ok (c : N) (e : entry) : bool := (c =? 0) || (c =? e_conflict e).

Definition entry_live (now : N) (e : entry) : bool :=
  negb (negb (t_is_zero (e_exp e)) && t_is_expired now (e_exp e)).

(* ShardedMap::get / get_mut: conflict check, then expiry check *)
Definition st_get (now : N) (s : storage) (k c : N) : option entry :=
  match aget k (st_map s) with
  | None => None
  | Some e => if conflict_ok c e && entry_live now e then Some e else None
  end.

(* ShardedMap::try_insert; the validator is should_update(prev, new) *)
Definition st_try_insert (vld : N -> N -> bool) (s : storage) (k v c : N) (t : time) : storage :=
  match aget k (st_map s) with
  | None =>
      {| st_map := aset k {| e_conflict := c; e_val := v; e_exp := t |} (st_map s);
         st_em := em_insert (st_em s) k c t |}
  | Some e =>
      if negb (conflict_ok c e) then s
      else if negb (vld (e_val e) v) then s
      else {| st_map := aset k {| e_conflict := c; e_val := v; e_exp := t |} (st_map s);
              st_em := em_update (st_em s) k c (e_exp e) t |}
  end.

Inductive upd_result := UNotExist | UConflict | UReject | UUpdate (old : N).

(* ShardedMap::try_update: swaps value and deadline, keeps the stored conflict *)
Definition st_try_update (vld : N -> N -> bool) (s : storage) (k v c : N) (t : time)
  : storage * upd_result :=
  match aget k (st_map s) with
  | None => (s, UNotExist)
  | Some e =>
      if negb (conflict_ok c e) then (s, UConflict)
      else if negb (vld (e_val e) v) then (s, UReject)
      else ({| st_map := aset k {| e_conflict := e_conflict e; e_val := v; e_exp := t |} (st_map s);
               st_em := em_update (st_em s) k c (e_exp e) t |}, UUpdate (e_val e))
  end.

(* ShardedMap::try_remove *)
Definition st_try_remove (s : storage) (k c : N) : storage * option entry :=
  match aget k (st_map s) with
  | None => (s, None)
  | Some e =>
      if negb (conflict_ok c e) then (s, None)
      else ({| st_map := adel k (st_map s);
               st_em := if t_is_zero (e_exp e) then st_em s else em_remove (st_em s) k (e_exp e) |},
            Some e)
  end.

Definition st_expiration (s : storage) (k : N) : option time :=
  match aget k (st_map s) with Some e => Some (e_exp e) | None => None end.

Definition st_len (s : storage) : N := N.of_nat (length (st_map s)).

(* get_mut(..).write(v): the value changes in place, nothing else *)
Definition st_write (s : storage) (k v : N) : storage :=
  match aget k (st_map s) with
  | None => s
  | Some e => {| st_map := aset k {| e_conflict := e_conflict e; e_val := v; e_exp := e_exp e |} (st_map s);
                 st_em := st_em s |}
  end.
