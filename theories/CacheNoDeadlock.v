(* CacheNoDeadlock.v — a client blocked inside wait(), clear() or remove() always has a processor
   that can move: in every reachable state, whenever such a call cannot return yet, the processor can
   make a step (take the head item, take the clear request, or go on with what it is doing).  The
   three blocking calls of the API are thus never part of a deadlock; with weak fairness of the
   processor's select! they return. *)
From StrettoModel Require Import Base BaseProofs Metrics Sketch Bloom TinyLFU TinyLFUProofs Policy PolicyProofs PolicyVictims PolicyLive
  Ttl Store StoreProofs Cache CacheProofs CacheLocal CacheInv CacheAgree CacheNoPanic CacheClearLive CacheBarrier CacheClose CacheCloseLive CacheProgress.
From Coq Require Import ZifyBool ZifyNat ZifyN.
Open Scope N_scope.

Lemma reach_u64_reach c st0 st : reach_u64 c st0 st -> reach c st0 st.
Proof. induction 1 as [|st l st' o R IH L S]; [constructor|econstructor; eassumption]. Qed.

Lemma pc_idle_dec (p : ppc) : p = PIdle \/ p <> PIdle.
Proof. destruct p; first [left; reflexivity|right; discriminate]. Qed.

(* the processor at its loop head takes a pending clear request *)
Lemma processor_can_take_a_clear c st sig r :
  s_pc st = PIdle -> s_clear_sigs st = sig :: r ->
  exists st' o, proc_step c st {| h_arm := Some ArmClear; h_oracle := []; h_tick_key := None |} = StepOk st' o.
Proof.
  intros PC CS. unfold proc_step. rewrite PC. cbn [h_arm]. rewrite CS.
  destruct (drain_buffer _) as [st1 cbs]. eexists; eexists; reflexivity.
Qed.

Definition blocked_call (k : ccont) : Prop :=
  (exists id, k = KWaitBlock id) \/ (exists id cl, k = KClearBlock id cl) \/ (exists key cf, k = KRemSend key cf).

Theorem blocked_call_has_a_moving_processor c mc t now st a :
  tl_wf t -> 0 < c_buf_cap c ->
  reach_u64 c (cinit c mc t now) st ->
  N.of_nat (length (s_start st)) <= Consts.NUM_TO_KEEP ->
  blocked_call (client_of st a) ->
  (exists st' o, cstep c st (LClient a) = StepOk st' o) \/
  (exists h st' o, cstep c st (LProc h) = StepOk st' o).
Proof.
  intros TW CAP RU LS BC. pose proof (reach_u64_reach _ _ _ RU) as R.
  destruct (reachable_NP c mc t now st TW RU) as (NPst & SOst).
  assert (MID : s_pc st <> PIdle -> s_pc st <> PExited -> exists h st' o, cstep c st (LProc h) = StepOk st' o).
  { intros P1 P2. destruct (processor_never_blocks_mid_item c st NPst SOst P1 P2 LS) as (st' & o & X).
    exists (mid_hint (s_pc st)), st', o. exact X. }
  assert (HEAD : s_pc st = PIdle -> s_buf st <> [] -> exists h st' o, cstep c st (LProc h) = StepOk st' o).
  { intros P B. destruct (s_buf st) as [|it r] eqn:BB; [congruence|].
    destruct (reachable_processor_can_take_the_head_item c mc t now st it r R P BB) as (h & st' & o & _ & X & _).
    exists h, st', o. exact X. }
  destruct BC as [(id & K)|[(id & cl & K)|(key & cf & K)]].
  - destruct (wait_never_stuck c mc t now st a id R K) as [(st' & X)|(IN & PE)].
    + left. exists st'. eexists. cbn [cstep]. exact X.
    + right. destruct (pc_idle_dec (s_pc st)) as [P|P].
      * apply HEAD; [exact P|]. intros E. rewrite E in IN. destruct IN.
      * apply MID; assumption.
  - destruct (clear_never_stuck c mc t now st a id cl R K) as [(st' & o & X)|[(IN & PE)|CL]].
    + left. exists st', o. exact X.
    + right. destruct (pc_idle_dec (s_pc st)) as [P|P].
      * destruct (s_clear_sigs st) as [|sig r] eqn:CS; [destruct IN|].
        destruct (processor_can_take_a_clear c st sig r P CS) as (st' & o & X). eexists; exists st', o. exact X.
      * apply MID; assumption.
    + right. apply MID; destruct CL as [E|[E|E]]; rewrite E; discriminate.
  - destruct (remove_never_stuck c st a key cf K) as [(st' & X)|(PE & FULL)].
    + left. exists st'. eexists. exact X.
    + right. destruct (pc_idle_dec (s_pc st)) as [P|P].
      * apply HEAD; [exact P|]. intros E. rewrite E in FULL. cbn [length] in FULL. lia.
      * apply MID; assumption.
Qed.

(* ---- close(): the rendezvous of the stop message ---- *)
Definition ClientsND (st : cstate) : Prop := NoDup (akeys (s_clients st)).

Lemma ring_push_clients c st k : s_clients (ring_push c st k) = s_clients st.
Proof.
  unfold ring_push, policy_push. repeat match goal with |- context [if ?b then _ else _] => destruct b end;
    try destruct (s_ring st ++ [k]); unfold emit; try destruct (c_metrics c); sproj; reflexivity.
Qed.

Lemma ClientsND_step c st l st' o : ClientsND st -> cstep c st l = StepOk st' o -> ClientsND st'.
Proof.
  unfold ClientsND. intros ND H. destruct l as [a op|a|h|h|dt|].
  - destruct op; crush_step H; open_shapes; unfold emit; try destruct (c_metrics c); sproj; rewrite ?ring_push_clients;
      first [exact ND | apply nodup_aset; exact ND].
  - cbn [cstep] in H. unfold continue_client in H. destruct (client_of st a) eqn:CA; crush_step H; open_shapes;
      unfold emit; try destruct (c_metrics c); sproj; first [exact ND | apply nodup_aset; exact ND].
  - crush_step H; open_shapes; unfold emit in *; try destruct (c_metrics c); sproj; first [exact ND | apply nodup_aset; exact ND].
  - crush_step H; open_shapes; unfold emit in *; try destruct (c_metrics c); sproj; first [exact ND | apply nodup_aset; exact ND].
  - crush_step H. exact ND.
  - crush_step H. exact ND.
Qed.

Lemma aget_in_keys {V} k (m : amap V) v : aget k m = Some v -> In k (akeys m).
Proof.
  induction m as [|[a b] m IH]; cbn [aget akeys map fst]; [discriminate|].
  destruct (N.eqb_spec k a); [left; congruence|right; apply IH; assumption].
Qed.

Lemma find_offer_finds (pol : bool) (want : ccont) (cl : amap ccont) (a : N) :
  want = (if pol then KPolCloseStopOffered else KCloseStopOffered) ->
  NoDup (akeys cl) -> aget a cl = Some want ->
  exists b, find_offer pol cl = Some b /\ aget b cl = Some want.
Proof.
  intros W. induction cl as [|[a' k'] r IH]; intros ND G; [discriminate G|].
  cbn [akeys map fst] in ND. inversion ND as [|? ? NI ND']; subst.
  cbn [aget] in G. destruct (N.eqb_spec a a') as [->|Hne].
  - inversion G; subst k'. exists a'. destruct pol; cbn [find_offer aget]; rewrite N.eqb_refl; auto.
  - destruct (IH ND' G) as (b & F & GB).
    assert (BN : b <> a') by (intros ->; apply NI; eapply aget_in_keys; exact GB).
    assert (GB' : aget b ((a', k') :: r) = Some (if pol then KPolCloseStopOffered else KCloseStopOffered)).
    { cbn [aget]. destruct (N.eqb_spec b a'); [contradiction|exact GB]. }
    destruct pol; destruct k'; cbn [find_offer]; try (exists b; split; [exact F|exact GB']);
      (exists a'; split; [reflexivity|cbn [aget]; rewrite N.eqb_refl; reflexivity]).
Qed.

(* C12, sync flavour: a closer waiting in the rendezvous of the stop message always has a partner that
   can move — the processor (it takes the stop at its loop head, or goes on with what it is doing),
   resp. the policy worker: close() is never part of a deadlock. *)
Theorem blocked_close_has_a_moving_partner c mc t now st a :
  tl_wf t -> c_async c = false ->
  reach_u64 c (cinit c mc t now) st ->
  N.of_nat (length (s_start st)) <= Consts.NUM_TO_KEEP ->
  (client_of st a = KCloseStopOffered -> exists h st' o, cstep c st (LProc h) = StepOk st' o) /\
  (client_of st a = KPolCloseStopOffered -> exists h st' o, cstep c st (LWorker h) = StepOk st' o).
Proof.
  intros TW SY RU LS. pose proof (reach_u64_reach _ _ _ RU) as R.
  destruct (reachable_NP c mc t now st TW RU) as (NPst & SOst).
  destruct (CacheCloseLive.sync_close_offer_has_a_live_partner c mc t now st a SY R) as (L1 & L2).
  assert (ND : ClientsND st).
  { apply (reach_ind_inv c (cinit c mc t now) ClientsND); [constructor| |exact R].
    intros s0 l s1 o N0 S. eapply ClientsND_step; eassumption. }
  split; intros K.
  - specialize (L1 K). destruct (pc_idle_dec (s_pc st)) as [P|P].
    + assert (G : aget a (s_clients st) = Some KCloseStopOffered).
      { unfold client_of in K. destruct (aget a (s_clients st)); [congruence|discriminate]. }
      destruct (find_offer_finds false KCloseStopOffered (s_clients st) a eq_refl ND G) as (b & F & GB).
      exists {| h_arm := Some ArmStop; h_oracle := []; h_tick_key := None |}. cbn [cstep]. unfold proc_step. rewrite P. cbn [h_arm].
      destruct (0 <? s_stop_msgs st).
      * destruct (drain_buffer _) as [st2 cbs]. eexists; eexists; reflexivity.
      * rewrite F. unfold client_of at 1. rewrite GB. destruct (drain_buffer _) as [st2 cbs]. eexists; eexists; reflexivity.
    + destruct (processor_never_blocks_mid_item c st NPst SOst P L1 LS) as (st' & o & X).
      exists (mid_hint (s_pc st)), st', o. exact X.
  - specialize (L2 K).
    assert (G : aget a (s_clients st) = Some KPolCloseStopOffered).
    { unfold client_of in K. destruct (aget a (s_clients st)); [congruence|discriminate]. }
    destruct (find_offer_finds true KPolCloseStopOffered (s_clients st) a eq_refl ND G) as (b & F & GB).
    exists {| h_arm := Some ArmStop; h_oracle := []; h_tick_key := None |}. cbn [cstep]. unfold worker_step. rewrite L2. cbn [h_arm].
    destruct (0 <? s_pol_stop_msgs st); [eexists; eexists; reflexivity|].
    rewrite F. unfold client_of. rewrite GB. eexists; eexists; reflexivity.
Qed.

(* ---- the policy worker ---- *)
(* at its loop head with a batch queued it can always apply the head batch (no panic: every queued
   key is a u64, the estimator is well-formed) *)
Theorem worker_can_take_the_head_batch c st b r :
  NP st -> SO st -> s_wpc st = WIdle -> s_pqueue st = b :: r ->
  exists st' o, worker_step c st {| h_arm := Some ArmItem; h_oracle := []; h_tick_key := None |} = StepOk st' o.
Proof.
  intros N S W Q.
  pose proof (no_step_panics c st (LWorker {| h_arm := Some ArmItem; h_oracle := []; h_tick_key := None |}) 41 N S I) as NP41.
  cbn [cstep] in NP41. unfold worker_step in *. rewrite W in *. cbn [h_arm] in *. rewrite Q in *.
  destruct (tl_increments (s_tlfu st) b); [eexists; eexists; reflexivity|congruence].
Qed.
