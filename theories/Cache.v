(* Cache.v — the cache as a labelled transition system.

   One step = one actor running from one scheduling point of the Rust code (a
   `crate::verif::yield_point`, the start of an operation, or a blocking call) to the next.  Actors
   are the client threads, the cache processor and the policy worker.  Inside one step the code
   either holds a lock or touches state no other actor can touch, so a step is atomic; which
   enabled actor steps next is arbitrary (that is the "every schedule" quantifier).

   Mirrors: src/cache.rs (impl_cache!, impl_cache_processor!, impl_cache_cleaner!),
   src/cache/sync.rs, src/cache/async.rs, src/policy/sync.rs, src/policy/async.rs, src/ring.rs. *)
From StrettoModel Require Export Base Metrics Sketch Bloom TinyLFU Policy Ttl Store.
From StrettoModel Require Consts.
Open Scope N_scope.

(* ---- configuration ---- *)
Record cfg := {
  c_ignore_internal : bool;
  c_item_size : Z;                 (* size_of::<StoreItem<V>>() *)
  c_buf_cap : N;                   (* insert buffer capacity *)
  c_buffer_items : N;              (* get-ring capacity *)
  c_metrics : bool;
  c_validator : N -> N -> bool;    (* UpdateValidator::should_update prev new *)
  c_coster : N -> Z;               (* Coster::cost *)
  c_async : bool                   (* AsyncCache flavour *)
}.

(* flavour-dependent capacities, read from the source *)
Definition pol_queue_cap (c : cfg) : option N :=
  if c_async c then None else Some Consts.SYNC_POLICY_QUEUE_CAP.
Definition stop_cap (c : cfg) : N := if c_async c then Consts.ASYNC_STOP_CAP else Consts.SYNC_STOP_CAP.

(* ---- items in the insert buffer ---- *)
Inductive item :=
| INew (k c : N) (cost : Z) (v : N) (exp : time)
| IUpdate (k : N) (cost ext : Z)
| IDelete (k c : N)
| IWait (id : N).

(* ---- callbacks, results, scheduling points ---- *)
Inductive cbk :=
| CbExit (v : N)
| CbEvict (k c v : N) (cost : Z)
| CbReject (k c v : N) (cost : Z).

Inductive res :=
| RNone                                   (* operation not finished *)
| RBool (b : bool)
| RGet (v : option (N * ttlval))           (* value and ValueRef::ttl *)
| RGetMut (v : option N)
| RTtl (t : option ttlval)
| RUnit (ok : bool)                        (* Result<(), CacheError> *)
| RZ (z : Z)
| RN (n : N).

Inductive point :=
| PtFinish | PtInsBeforeSend | PtGetAfterPush | PtRemBeforeSend | PtWaitAfterCheck | PtWaitAfterSend | PtWaitBeforeBlock
| PtClearAfterCheck
| PtClearBeforeBlock | PtCloseAfterFlag | PtCloseBeforeStop | PtCloseBeforePolicy | PtPolCloseBeforeStop
| PtPolCloseAfterStop
| PtProcLoop | PtProcNewAfterAdd | PtProcNewAfterStore | PtProcNewVictim | PtProcDelAfterPolicy
| PtProcClearAfterDrain | PtProcClearAfterPolicy | PtProcClearAfterStore
| PtProcTickKey | PtProcTickAfterPolicy | PtProcExit
| PtPolLoop | PtPolExit
| PtBlocked.                                (* the actor entered a blocking call and did not return *)

Record out := { o_at : point; o_cbs : list cbk; o_res : res }.

(* ---- client operations ---- *)
Inductive cop :=
| OInsert (k c v : N) (cost : Z) (ttl : N) (only_update : bool)
| OGet (k c : N)
| OGetMutWrite (k c v : N)                 (* get_mut, then write v if found *)
| OGetTtl (k c : N)
| ORemove (k c : N)
| OWait
| OClear
| OClose
| OMaxCost
| OUpdateMaxCost (mc : Z)
| OLen.

(* where a client is inside its current operation *)
Inductive ccont :=
| KIdle
| KInsSend (it : item) (k : N)
| KGetStore (k c : N) (write : option N)
| KRemSend (k c : N)
| KWaitStart
| KClearStart
| KWaitAfterSend (id : N)
| KWaitBlock (id : N)
| KClearBlock (id : N) (closing : bool)
| KCloseAfterFlag
| KCloseBeforeStop
| KCloseStopOffered
| KCloseStopTaken
| KCloseBeforePolicy
| KPolCloseBeforeStop
| KPolCloseStopOffered
| KPolCloseStopTaken
| KPolCloseAfterStop.

(* where the processor is inside its current loop iteration *)
Inductive ppc :=
| PIdle
| PNewAfterAdd (k c v : N) (exp : time) (cost : Z) (victims : list pair) (added : bool)
| PNewAfterStore (victims : list pair)
| PNewVictim (v : pair) (rest : list pair)
| PDelAfterPolicy (k c : N)
| PClearAfterDrain (sig : N)
| PClearAfterPolicy (sig : N)
| PClearAfterStore (sig : N)
| PTickKey (k c : N) (rest : amap N) (acc : list cbk)
| PTickAfterPolicy (k c : N) (cost : Z) (rest : amap N) (acc : list cbk)
| PExited.

Inductive wpc := WIdle | WExited.

Record cstate := {
  s_store : storage;
  s_slfu : slfu;
  s_tlfu : tinylfu;
  s_ring : list N;
  s_pqueue : list (list N);
  s_buf : list item;
  s_clear_sigs : list N;          (* clear signals sent, not yet received *)
  s_done : list N;                (* completed wait markers / acknowledged clears *)
  s_next_id : N;
  s_ticks : N;                    (* cleanup ticks pending in the ticker channel *)
  s_stop_msgs : N;                (* async: stop messages buffered *)
  s_pol_stop_msgs : N;
  s_now : N;
  s_mets : metrics;
  s_hist : hist;                  (* life-expectancy histogram *)
  s_start : amap N;               (* CacheProcessor.start_ts: admission time of tracked keys *)
  s_closed : bool;
  s_pol_closed : bool;
  s_pc : ppc;
  s_wpc : wpc;
  s_clients : amap ccont
}.

(* ---- small helpers ---- *)
Definition upd_store st x := {| s_store := x; s_slfu := s_slfu st; s_tlfu := s_tlfu st; s_ring := s_ring st; s_pqueue := s_pqueue st; s_buf := s_buf st; s_clear_sigs := s_clear_sigs st; s_done := s_done st; s_next_id := s_next_id st; s_ticks := s_ticks st; s_stop_msgs := s_stop_msgs st; s_pol_stop_msgs := s_pol_stop_msgs st; s_now := s_now st; s_mets := s_mets st; s_hist := s_hist st; s_start := s_start st; s_closed := s_closed st; s_pol_closed := s_pol_closed st; s_pc := s_pc st; s_wpc := s_wpc st; s_clients := s_clients st |}.
Definition upd_slfu st x := {| s_store := s_store st; s_slfu := x; s_tlfu := s_tlfu st; s_ring := s_ring st; s_pqueue := s_pqueue st; s_buf := s_buf st; s_clear_sigs := s_clear_sigs st; s_done := s_done st; s_next_id := s_next_id st; s_ticks := s_ticks st; s_stop_msgs := s_stop_msgs st; s_pol_stop_msgs := s_pol_stop_msgs st; s_now := s_now st; s_mets := s_mets st; s_hist := s_hist st; s_start := s_start st; s_closed := s_closed st; s_pol_closed := s_pol_closed st; s_pc := s_pc st; s_wpc := s_wpc st; s_clients := s_clients st |}.
Definition upd_tlfu st x := {| s_store := s_store st; s_slfu := s_slfu st; s_tlfu := x; s_ring := s_ring st; s_pqueue := s_pqueue st; s_buf := s_buf st; s_clear_sigs := s_clear_sigs st; s_done := s_done st; s_next_id := s_next_id st; s_ticks := s_ticks st; s_stop_msgs := s_stop_msgs st; s_pol_stop_msgs := s_pol_stop_msgs st; s_now := s_now st; s_mets := s_mets st; s_hist := s_hist st; s_start := s_start st; s_closed := s_closed st; s_pol_closed := s_pol_closed st; s_pc := s_pc st; s_wpc := s_wpc st; s_clients := s_clients st |}.
Definition upd_ring st x := {| s_store := s_store st; s_slfu := s_slfu st; s_tlfu := s_tlfu st; s_ring := x; s_pqueue := s_pqueue st; s_buf := s_buf st; s_clear_sigs := s_clear_sigs st; s_done := s_done st; s_next_id := s_next_id st; s_ticks := s_ticks st; s_stop_msgs := s_stop_msgs st; s_pol_stop_msgs := s_pol_stop_msgs st; s_now := s_now st; s_mets := s_mets st; s_hist := s_hist st; s_start := s_start st; s_closed := s_closed st; s_pol_closed := s_pol_closed st; s_pc := s_pc st; s_wpc := s_wpc st; s_clients := s_clients st |}.
Definition upd_pqueue st x := {| s_store := s_store st; s_slfu := s_slfu st; s_tlfu := s_tlfu st; s_ring := s_ring st; s_pqueue := x; s_buf := s_buf st; s_clear_sigs := s_clear_sigs st; s_done := s_done st; s_next_id := s_next_id st; s_ticks := s_ticks st; s_stop_msgs := s_stop_msgs st; s_pol_stop_msgs := s_pol_stop_msgs st; s_now := s_now st; s_mets := s_mets st; s_hist := s_hist st; s_start := s_start st; s_closed := s_closed st; s_pol_closed := s_pol_closed st; s_pc := s_pc st; s_wpc := s_wpc st; s_clients := s_clients st |}.
Definition upd_buf st x := {| s_store := s_store st; s_slfu := s_slfu st; s_tlfu := s_tlfu st; s_ring := s_ring st; s_pqueue := s_pqueue st; s_buf := x; s_clear_sigs := s_clear_sigs st; s_done := s_done st; s_next_id := s_next_id st; s_ticks := s_ticks st; s_stop_msgs := s_stop_msgs st; s_pol_stop_msgs := s_pol_stop_msgs st; s_now := s_now st; s_mets := s_mets st; s_hist := s_hist st; s_start := s_start st; s_closed := s_closed st; s_pol_closed := s_pol_closed st; s_pc := s_pc st; s_wpc := s_wpc st; s_clients := s_clients st |}.
Definition upd_clear_sigs st x := {| s_store := s_store st; s_slfu := s_slfu st; s_tlfu := s_tlfu st; s_ring := s_ring st; s_pqueue := s_pqueue st; s_buf := s_buf st; s_clear_sigs := x; s_done := s_done st; s_next_id := s_next_id st; s_ticks := s_ticks st; s_stop_msgs := s_stop_msgs st; s_pol_stop_msgs := s_pol_stop_msgs st; s_now := s_now st; s_mets := s_mets st; s_hist := s_hist st; s_start := s_start st; s_closed := s_closed st; s_pol_closed := s_pol_closed st; s_pc := s_pc st; s_wpc := s_wpc st; s_clients := s_clients st |}.
Definition upd_done st x := {| s_store := s_store st; s_slfu := s_slfu st; s_tlfu := s_tlfu st; s_ring := s_ring st; s_pqueue := s_pqueue st; s_buf := s_buf st; s_clear_sigs := s_clear_sigs st; s_done := x; s_next_id := s_next_id st; s_ticks := s_ticks st; s_stop_msgs := s_stop_msgs st; s_pol_stop_msgs := s_pol_stop_msgs st; s_now := s_now st; s_mets := s_mets st; s_hist := s_hist st; s_start := s_start st; s_closed := s_closed st; s_pol_closed := s_pol_closed st; s_pc := s_pc st; s_wpc := s_wpc st; s_clients := s_clients st |}.
Definition upd_next_id st x := {| s_store := s_store st; s_slfu := s_slfu st; s_tlfu := s_tlfu st; s_ring := s_ring st; s_pqueue := s_pqueue st; s_buf := s_buf st; s_clear_sigs := s_clear_sigs st; s_done := s_done st; s_next_id := x; s_ticks := s_ticks st; s_stop_msgs := s_stop_msgs st; s_pol_stop_msgs := s_pol_stop_msgs st; s_now := s_now st; s_mets := s_mets st; s_hist := s_hist st; s_start := s_start st; s_closed := s_closed st; s_pol_closed := s_pol_closed st; s_pc := s_pc st; s_wpc := s_wpc st; s_clients := s_clients st |}.
Definition upd_ticks st x := {| s_store := s_store st; s_slfu := s_slfu st; s_tlfu := s_tlfu st; s_ring := s_ring st; s_pqueue := s_pqueue st; s_buf := s_buf st; s_clear_sigs := s_clear_sigs st; s_done := s_done st; s_next_id := s_next_id st; s_ticks := x; s_stop_msgs := s_stop_msgs st; s_pol_stop_msgs := s_pol_stop_msgs st; s_now := s_now st; s_mets := s_mets st; s_hist := s_hist st; s_start := s_start st; s_closed := s_closed st; s_pol_closed := s_pol_closed st; s_pc := s_pc st; s_wpc := s_wpc st; s_clients := s_clients st |}.
Definition upd_stop_msgs st x := {| s_store := s_store st; s_slfu := s_slfu st; s_tlfu := s_tlfu st; s_ring := s_ring st; s_pqueue := s_pqueue st; s_buf := s_buf st; s_clear_sigs := s_clear_sigs st; s_done := s_done st; s_next_id := s_next_id st; s_ticks := s_ticks st; s_stop_msgs := x; s_pol_stop_msgs := s_pol_stop_msgs st; s_now := s_now st; s_mets := s_mets st; s_hist := s_hist st; s_start := s_start st; s_closed := s_closed st; s_pol_closed := s_pol_closed st; s_pc := s_pc st; s_wpc := s_wpc st; s_clients := s_clients st |}.
Definition upd_pol_stop_msgs st x := {| s_store := s_store st; s_slfu := s_slfu st; s_tlfu := s_tlfu st; s_ring := s_ring st; s_pqueue := s_pqueue st; s_buf := s_buf st; s_clear_sigs := s_clear_sigs st; s_done := s_done st; s_next_id := s_next_id st; s_ticks := s_ticks st; s_stop_msgs := s_stop_msgs st; s_pol_stop_msgs := x; s_now := s_now st; s_mets := s_mets st; s_hist := s_hist st; s_start := s_start st; s_closed := s_closed st; s_pol_closed := s_pol_closed st; s_pc := s_pc st; s_wpc := s_wpc st; s_clients := s_clients st |}.
Definition upd_now st x := {| s_store := s_store st; s_slfu := s_slfu st; s_tlfu := s_tlfu st; s_ring := s_ring st; s_pqueue := s_pqueue st; s_buf := s_buf st; s_clear_sigs := s_clear_sigs st; s_done := s_done st; s_next_id := s_next_id st; s_ticks := s_ticks st; s_stop_msgs := s_stop_msgs st; s_pol_stop_msgs := s_pol_stop_msgs st; s_now := x; s_mets := s_mets st; s_hist := s_hist st; s_start := s_start st; s_closed := s_closed st; s_pol_closed := s_pol_closed st; s_pc := s_pc st; s_wpc := s_wpc st; s_clients := s_clients st |}.
Definition upd_mets st x := {| s_store := s_store st; s_slfu := s_slfu st; s_tlfu := s_tlfu st; s_ring := s_ring st; s_pqueue := s_pqueue st; s_buf := s_buf st; s_clear_sigs := s_clear_sigs st; s_done := s_done st; s_next_id := s_next_id st; s_ticks := s_ticks st; s_stop_msgs := s_stop_msgs st; s_pol_stop_msgs := s_pol_stop_msgs st; s_now := s_now st; s_mets := x; s_hist := s_hist st; s_start := s_start st; s_closed := s_closed st; s_pol_closed := s_pol_closed st; s_pc := s_pc st; s_wpc := s_wpc st; s_clients := s_clients st |}.
Definition upd_hist st x := {| s_store := s_store st; s_slfu := s_slfu st; s_tlfu := s_tlfu st; s_ring := s_ring st; s_pqueue := s_pqueue st; s_buf := s_buf st; s_clear_sigs := s_clear_sigs st; s_done := s_done st; s_next_id := s_next_id st; s_ticks := s_ticks st; s_stop_msgs := s_stop_msgs st; s_pol_stop_msgs := s_pol_stop_msgs st; s_now := s_now st; s_mets := s_mets st; s_hist := x; s_start := s_start st; s_closed := s_closed st; s_pol_closed := s_pol_closed st; s_pc := s_pc st; s_wpc := s_wpc st; s_clients := s_clients st |}.
Definition upd_start st x := {| s_store := s_store st; s_slfu := s_slfu st; s_tlfu := s_tlfu st; s_ring := s_ring st; s_pqueue := s_pqueue st; s_buf := s_buf st; s_clear_sigs := s_clear_sigs st; s_done := s_done st; s_next_id := s_next_id st; s_ticks := s_ticks st; s_stop_msgs := s_stop_msgs st; s_pol_stop_msgs := s_pol_stop_msgs st; s_now := s_now st; s_mets := s_mets st; s_hist := s_hist st; s_start := x; s_closed := s_closed st; s_pol_closed := s_pol_closed st; s_pc := s_pc st; s_wpc := s_wpc st; s_clients := s_clients st |}.
Definition upd_closed st x := {| s_store := s_store st; s_slfu := s_slfu st; s_tlfu := s_tlfu st; s_ring := s_ring st; s_pqueue := s_pqueue st; s_buf := s_buf st; s_clear_sigs := s_clear_sigs st; s_done := s_done st; s_next_id := s_next_id st; s_ticks := s_ticks st; s_stop_msgs := s_stop_msgs st; s_pol_stop_msgs := s_pol_stop_msgs st; s_now := s_now st; s_mets := s_mets st; s_hist := s_hist st; s_start := s_start st; s_closed := x; s_pol_closed := s_pol_closed st; s_pc := s_pc st; s_wpc := s_wpc st; s_clients := s_clients st |}.
Definition upd_pol_closed st x := {| s_store := s_store st; s_slfu := s_slfu st; s_tlfu := s_tlfu st; s_ring := s_ring st; s_pqueue := s_pqueue st; s_buf := s_buf st; s_clear_sigs := s_clear_sigs st; s_done := s_done st; s_next_id := s_next_id st; s_ticks := s_ticks st; s_stop_msgs := s_stop_msgs st; s_pol_stop_msgs := s_pol_stop_msgs st; s_now := s_now st; s_mets := s_mets st; s_hist := s_hist st; s_start := s_start st; s_closed := s_closed st; s_pol_closed := x; s_pc := s_pc st; s_wpc := s_wpc st; s_clients := s_clients st |}.
Definition upd_pc st x := {| s_store := s_store st; s_slfu := s_slfu st; s_tlfu := s_tlfu st; s_ring := s_ring st; s_pqueue := s_pqueue st; s_buf := s_buf st; s_clear_sigs := s_clear_sigs st; s_done := s_done st; s_next_id := s_next_id st; s_ticks := s_ticks st; s_stop_msgs := s_stop_msgs st; s_pol_stop_msgs := s_pol_stop_msgs st; s_now := s_now st; s_mets := s_mets st; s_hist := s_hist st; s_start := s_start st; s_closed := s_closed st; s_pol_closed := s_pol_closed st; s_pc := x; s_wpc := s_wpc st; s_clients := s_clients st |}.
Definition upd_wpc st x := {| s_store := s_store st; s_slfu := s_slfu st; s_tlfu := s_tlfu st; s_ring := s_ring st; s_pqueue := s_pqueue st; s_buf := s_buf st; s_clear_sigs := s_clear_sigs st; s_done := s_done st; s_next_id := s_next_id st; s_ticks := s_ticks st; s_stop_msgs := s_stop_msgs st; s_pol_stop_msgs := s_pol_stop_msgs st; s_now := s_now st; s_mets := s_mets st; s_hist := s_hist st; s_start := s_start st; s_closed := s_closed st; s_pol_closed := s_pol_closed st; s_pc := s_pc st; s_wpc := x; s_clients := s_clients st |}.
Definition upd_clients st x := {| s_store := s_store st; s_slfu := s_slfu st; s_tlfu := s_tlfu st; s_ring := s_ring st; s_pqueue := s_pqueue st; s_buf := s_buf st; s_clear_sigs := s_clear_sigs st; s_done := s_done st; s_next_id := s_next_id st; s_ticks := s_ticks st; s_stop_msgs := s_stop_msgs st; s_pol_stop_msgs := s_pol_stop_msgs st; s_now := s_now st; s_mets := s_mets st; s_hist := s_hist st; s_start := s_start st; s_closed := s_closed st; s_pol_closed := s_pol_closed st; s_pc := s_pc st; s_wpc := s_wpc st; s_clients := x |}.

Definition emit (c : cfg) (st : cstate) (evs : list mevent) : cstate :=
  if c_metrics c then upd_mets st (m_adds (s_mets st) evs) else st.

Definition set_client (st : cstate) (a : N) (k : ccont) : cstate :=
  upd_clients st (aset a k (s_clients st)).

Definition client_of (st : cstate) (a : N) : ccont :=
  match aget a (s_clients st) with Some k => k | None => KIdle end.

Definition mk_out (p : point) (cbs : list cbk) (r : res) : out :=
  {| o_at := p; o_cbs := cbs; o_res := r |}.

Definition est_of (t : tinylfu) : key -> Z :=
  fun k => match tl_estimate t k with Some e => Z.of_N e | None => (-1)%Z end.

Definition internal_cost (c : cfg) (cost : Z) : Z :=
  if c_ignore_internal c then cost else (cost + c_item_size c)%Z.

(* try_send on the bounded insert buffer; after the processor exited the channel is disconnected *)
Definition buf_send (c : cfg) (st : cstate) (it : item) : option cstate :=
  match s_pc st with
  | PExited => None
  | _ => if N.of_nat (length (s_buf st)) <? c_buf_cap c then Some (upd_buf st (s_buf st ++ [it])) else None
  end.

(* LFUPolicy::push, called by the ring with its lock held *)
Definition policy_push (c : cfg) (st : cstate) (keys : list N) : cstate :=
  if s_pol_closed st then st
  else match keys with
  | [] => st
  | _ =>
      let n := N.of_nat (length keys) in
      let room := match s_wpc st with
                  | WExited => false
                  | WIdle => match pol_queue_cap c with
                             | None => true
                             | Some cap => N.of_nat (length (s_pqueue st)) <? cap
                             end
                  end in
      if room then emit c (upd_pqueue st (s_pqueue st ++ [keys])) [(MKeepGets, n)]
      else emit c st [(MDropGets, n)]
  end.

(* RingStripe::push *)
Definition ring_push (c : cfg) (st : cstate) (k : N) : cstate :=
  let data := s_ring st ++ [k] in
  if c_buffer_items c <=? N.of_nat (length data) then policy_push c (upd_ring st []) data
  else upd_ring st data.

(* CacheCleaner::handle_item over the whole buffer: New -> on_evict, Wait -> released *)
Fixpoint drain_items (its : list item) (done : list N) (cbs : list cbk) : list N * list cbk :=
  match its with
  | [] => (done, cbs)
  | INew k c cost v _ :: r => drain_items r done (cbs ++ [CbEvict k c v cost])
  | IWait id :: r => drain_items r (id :: done) cbs
  | _ :: r => drain_items r done cbs
  end.

Definition drain_buffer (st : cstate) : cstate * list cbk :=
  let '(done, cbs) := drain_items (s_buf st) (s_done st) [] in
  (upd_done (upd_buf st []) done, cbs).

(* ---- what the environment tells a step (witnessed nondeterminism) ---- *)
Inductive arm := ArmItem | ArmClear | ArmTick | ArmStop.

Record hint := {
  h_arm : option arm;                  (* processor at its loop head: the select! arm taken *)
  h_oracle : list (list pair);         (* eviction-loop samples reported by the policy *)
  h_tick_key : option N                (* next key of the cleanup iteration *)
}.

Definition no_hint : hint := {| h_arm := None; h_oracle := []; h_tick_key := None |}.

Inductive step_result :=
| StepOk (st : cstate) (o : out)
| StepBlocked                           (* the actor cannot move in this state *)
| StepIllegal (why : N)                 (* the hint is not a legal choice in this state *)
| StepPanic (why : N).

(* ---- client steps ---- *)

Definition fresh_id (st : cstate) : N * cstate := (s_next_id st, upd_next_id st (s_next_id st + 1)).

Definition start_op (c : cfg) (st : cstate) (a : N) (op : cop) : step_result :=
  match op with
  | OInsert k cf v cost ttl only =>
      if s_closed st then StepOk st (mk_out PtFinish [] (RBool false)) else
      let exp := {| t_created := s_now st; t_d := ttl |} in
      let ext := if (cost =? 0)%Z then c_coster c v else 0%Z in
      let '(sto, r) := st_try_update (c_validator c) (s_store st) k v cf exp in
      match r with
      | UUpdate old =>
          StepOk (set_client (upd_store st sto) a (KInsSend (IUpdate k cost ext) k))
                 (mk_out PtInsBeforeSend [CbExit old] RNone)
      | _ =>
          if only then StepOk st (mk_out PtFinish [] (RBool false))
          else StepOk (set_client st a (KInsSend (INew k cf (cost + ext)%Z v exp) k))
                      (mk_out PtInsBeforeSend [] RNone)
      end
  | OGet k cf =>
      if s_closed st then StepOk st (mk_out PtFinish [] (RGet None)) else
      StepOk (set_client (ring_push c st k) a (KGetStore k cf None)) (mk_out PtGetAfterPush [] RNone)
  | OGetMutWrite k cf v =>
      if s_closed st then StepOk st (mk_out PtFinish [] (RGetMut None)) else
      StepOk (set_client (ring_push c st k) a (KGetStore k cf (Some v))) (mk_out PtGetAfterPush [] RNone)
  | OGetTtl k cf =>
      match st_get (s_now st) (s_store st) k cf with
      | None => StepOk st (mk_out PtFinish [] (RTtl None))
      | Some _ =>
          match st_expiration (s_store st) k with
          | None => StepOk st (mk_out PtFinish [] (RTtl None))
          | Some t => match t_get_ttl (s_now st) t with
                      | Some d => StepOk st (mk_out PtFinish [] (RTtl (Some d)))
                      | None => StepPanic 1
                      end
          end
      end
  | ORemove k cf =>
      if s_closed st then StepOk st (mk_out PtFinish [] (RUnit true)) else
      let '(sto, prev) := st_try_remove (s_store st) k cf in
      StepOk (set_client (upd_store st sto) a (KRemSend k cf))
             (mk_out PtRemBeforeSend (match prev with Some e => [CbExit (e_val e)] | None => [] end) RNone)
  | OWait =>
      (* the is_closed check; the marker is sent by the next segment *)
      if s_closed st then StepOk st (mk_out PtFinish [] (RUnit true)) else
      StepOk (set_client st a KWaitStart) (mk_out PtWaitAfterCheck [] RNone)
  | OClear =>
      if s_closed st then StepOk st (mk_out PtFinish [] (RUnit true)) else
      StepOk (set_client st a KClearStart) (mk_out PtClearAfterCheck [] RNone)
  | OClose =>
      if s_closed st then StepOk st (mk_out PtFinish [] (RUnit true)) else
      StepOk (set_client (upd_closed st true) a KCloseAfterFlag) (mk_out PtCloseAfterFlag [] RNone)
  | OMaxCost => StepOk st (mk_out PtFinish [] (RZ (sl_max (s_slfu st))))
  | OUpdateMaxCost mc => StepOk (upd_slfu st (sl_set_max (s_slfu st) mc)) (mk_out PtFinish [] (RUnit true))
  | OLen => StepOk st (mk_out PtFinish [] (RN (st_len (s_store st))))
  end.

Definition is_update (it : item) : bool := match it with IUpdate _ _ _ => true | _ => false end.

Definition continue_client (c : cfg) (st : cstate) (a : N) : step_result :=
  match client_of st a with
  | KIdle => StepBlocked
  | KInsSend it k =>
      match buf_send c st it with
      | Some st1 => StepOk (set_client st1 a KIdle) (mk_out PtFinish [] (RBool true))
      | None =>
          if is_update it then StepOk (set_client st a KIdle) (mk_out PtFinish [] (RBool true))
          else StepOk (set_client (emit c st [(MDropSets, 1)]) a KIdle) (mk_out PtFinish [] (RBool false))
      end
  | KGetStore k cf w =>
      match st_get (s_now st) (s_store st) k cf with
      | None =>
          StepOk (set_client (emit c st [(MMiss, 1)]) a KIdle)
                 (mk_out PtFinish [] (match w with Some _ => RGetMut None | None => RGet None end))
      | Some e =>
          let st1 := emit c st [(MHit, 1)] in
          match w with
          | Some v =>
              StepOk (set_client (upd_store st1 (st_write (s_store st1) k v)) a KIdle)
                     (mk_out PtFinish [] (RGetMut (Some (e_val e))))
          | None =>
              match t_get_ttl (s_now st) (e_exp e) with
              | None => StepPanic 2
              | Some d => StepOk (set_client st1 a KIdle) (mk_out PtFinish [] (RGet (Some (e_val e, d))))
              end
          end
      end
  | KRemSend k cf =>
      match buf_send c st (IDelete k cf) with
      | Some st1 => StepOk (set_client st1 a KIdle) (mk_out PtFinish [] (RUnit true))
      | None =>
          (* remove waits for room in the buffer (both flavours); a closed channel is ignored *)
          match s_pc st with
          | PExited => StepOk (set_client st a KIdle) (mk_out PtFinish [] (RUnit true))
          | _ => StepBlocked
          end
      end
  | KWaitStart =>
      let '(id, st1) := fresh_id st in
      match buf_send c st1 (IWait id) with
      | Some st2 => StepOk (set_client st2 a (KWaitAfterSend id)) (mk_out PtWaitAfterSend [] RNone)
      | None => StepOk (set_client st1 a KIdle) (mk_out PtFinish [] (RUnit false))
      end
  | KClearStart =>
      match s_pc st with
      | PExited => StepOk (set_client st a KIdle) (mk_out PtFinish [] (RUnit false))
      | _ =>
          let '(id, st1) := fresh_id st in
          StepOk (set_client (upd_clear_sigs st1 (s_clear_sigs st1 ++ [id])) a (KClearBlock id false))
                 (mk_out PtClearBeforeBlock [] RNone)
      end
  | KWaitAfterSend id =>
      if s_closed st then StepOk (set_client st a KIdle) (mk_out PtFinish [] (RUnit true))
      else StepOk (set_client st a (KWaitBlock id)) (mk_out PtWaitBeforeBlock [] RNone)
  | KWaitBlock id =>
      if mem_N id (s_done st) then StepOk (set_client st a KIdle) (mk_out PtFinish [] (RUnit true))
      else StepBlocked
  | KClearBlock id closing =>
      if mem_N id (s_done st) then
        if closing then StepOk (set_client st a KCloseBeforeStop) (mk_out PtCloseBeforeStop [] RNone)
        else StepOk (set_client st a KIdle) (mk_out PtFinish [] (RUnit true))
      else StepBlocked
  | KCloseAfterFlag =>
      match s_pc st with
      | PExited => StepOk (set_client st a KIdle) (mk_out PtFinish [] (RUnit false))
      | _ =>
          let '(id, st1) := fresh_id st in
          StepOk (set_client (upd_clear_sigs st1 (s_clear_sigs st1 ++ [id])) a (KClearBlock id true))
                 (mk_out PtClearBeforeBlock [] RNone)
      end
  | KCloseBeforeStop =>
      match s_pc st with
      | PExited => StepOk (set_client st a KIdle) (mk_out PtFinish [] (RUnit false))
      | _ =>
          if s_stop_msgs st <? stop_cap c then
            (* buffered stop channel (async): the send completes at once *)
            StepOk (set_client (upd_stop_msgs st (s_stop_msgs st + 1)) a KCloseBeforePolicy)
                   (mk_out PtCloseBeforePolicy [] RNone)
          else
            (* rendezvous (sync) or full: the closer waits for the processor to take the stop arm *)
            StepOk (set_client st a KCloseStopOffered) (mk_out PtBlocked [] RNone)
      end
  | KCloseStopOffered => StepBlocked
  | KCloseStopTaken => StepOk (set_client st a KCloseBeforePolicy) (mk_out PtCloseBeforePolicy [] RNone)
  | KCloseBeforePolicy =>
      if s_pol_closed st then StepOk (set_client st a KIdle) (mk_out PtFinish [] (RUnit true))
      else StepOk (set_client st a KPolCloseBeforeStop) (mk_out PtPolCloseBeforeStop [] RNone)
  | KPolCloseBeforeStop =>
      match s_wpc st with
      | WExited => StepOk (set_client st a KIdle) (mk_out PtFinish [] (RUnit false))
      | WIdle =>
          if s_pol_stop_msgs st <? stop_cap c then
            StepOk (set_client (upd_pol_stop_msgs st (s_pol_stop_msgs st + 1)) a KPolCloseAfterStop)
                   (mk_out PtPolCloseAfterStop [] RNone)
          else StepOk (set_client st a KPolCloseStopOffered) (mk_out PtBlocked [] RNone)
      end
  | KPolCloseStopOffered => StepBlocked
  | KPolCloseStopTaken => StepOk (set_client st a KPolCloseAfterStop) (mk_out PtPolCloseAfterStop [] RNone)
  | KPolCloseAfterStop =>
      StepOk (set_client (upd_pol_closed st true) a KIdle) (mk_out PtFinish [] (RUnit true))
  end.

(* the first client waiting in a rendezvous send on the given channel *)
Fixpoint find_offer (want_pol : bool) (cl : amap ccont) : option N :=
  match cl with
  | [] => None
  | (a, KCloseStopOffered) :: r => if want_pol then find_offer want_pol r else Some a
  | (a, KPolCloseStopOffered) :: r => if want_pol then Some a else find_offer want_pol r
  | _ :: r => find_offer want_pol r
  end.

(* ---- processor steps ---- *)

Definition proc_handle_item (c : cfg) (st : cstate) (h : hint) (it : item) : step_result :=
  match it with
  | INew k cf cost v exp =>
      let cost' := internal_cost c cost in
      match pol_add (est_of (s_tlfu st)) (h_oracle h) (s_slfu st) k cost' with
      | AddDone s' victims added _ mets =>
          let st1 := emit c (upd_slfu st s') mets in
          StepOk (upd_pc st1 (PNewAfterAdd k cf v exp cost' (match victims with Some l => l | None => [] end) added))
                 (mk_out PtProcNewAfterAdd [] RNone)
      | AddOutOfOracle => StepIllegal 10
      | AddIllegalOracle _ _ _ => StepIllegal 11
      | AddPanic => StepPanic 12
      end
  | IUpdate k cost ext =>
      let cost' := (internal_cost c cost + ext)%Z in
      let '(s', _, mets) := sl_update (s_slfu st) k cost' in
      StepOk (emit c (upd_slfu st s') mets) (mk_out PtProcLoop [] RNone)
  | IDelete k cf =>
      let '(s', mets) := pol_remove (s_slfu st) k in
      StepOk (upd_pc (emit c (upd_slfu st s') mets) (PDelAfterPolicy k cf)) (mk_out PtProcDelAfterPolicy [] RNone)
  | IWait id =>
      StepOk (upd_done st (id :: s_done st)) (mk_out PtProcLoop [] RNone)
  end.

(* CacheProcessor::prepare_evict: a tracked key leaving through on_evict adds its age in whole
   seconds to the life-expectancy histogram; Time::elapsed panics if the clock went backwards *)
Definition prepare_evict (c : cfg) (st : cstate) (k : N) : option cstate :=
  if c_metrics c then
    match aget k (s_start st) with
    | Some ts =>
        if s_now st <? ts then None
        else Some (upd_start (upd_hist st (hist_update (s_hist st) (Z.of_N ((s_now st - ts) / 1000000000))))
                             (adel k (s_start st)))
    | None => Some st
    end
  else Some st.

Fixpoint prepare_evicts (c : cfg) (st : cstate) (cbs : list cbk) : option cstate :=
  match cbs with
  | [] => Some st
  | CbEvict k _ _ _ :: r =>
      match prepare_evict c st k with
      | Some st1 => prepare_evicts c st1 r
      | None => None
      end
  | _ :: r => prepare_evicts c st r
  end.

(* CacheProcessor::track_admission (after KeyAdd): remember when the key was admitted.  The pruning
   branch (more than num_to_keep tracked keys: keep an arbitrary num_to_keep - 2 of them) is not
   modelled: such a state is reported as outside the model *)
Definition track_admission (c : cfg) (st : cstate) (k : N) : option cstate :=
  if c_metrics c then
    if Consts.NUM_TO_KEEP <? N.of_nat (length (s_start st)) then None
    else Some (upd_start st (aset k (s_now st) (s_start st)))
  else Some st.

Definition next_victim (st : cstate) (vs : list pair) : cstate * point :=
  match vs with
  | [] => (upd_pc st PIdle, PtProcLoop)
  | v :: r => (upd_pc st (PNewVictim v r), PtProcNewVictim)
  end.

(* after one key of the cleanup iteration: go on to the next key — the implementation names it (its
   hash-map iteration order), the model checks that it is one of the keys still to be visited — or,
   when the iteration is over, fire the collected on_evict callbacks *)
Definition tick_next (c : cfg) (st : cstate) (h : hint) (rest : amap N) (acc : list cbk) : step_result :=
  match rest with
  | [] =>
      match prepare_evicts c st acc with
      | Some st1 => StepOk (upd_pc st1 PIdle) (mk_out PtProcLoop acc RNone)
      | None => StepPanic 3
      end
  | _ =>
      match h_tick_key h with
      | None => StepIllegal 30
      | Some k =>
          match aget k rest with
          | None => StepIllegal 31
          | Some cf => StepOk (upd_pc st (PTickKey k cf (adel k rest) acc)) (mk_out PtProcTickKey [] RNone)
          end
      end
  end.

Definition proc_step (c : cfg) (st : cstate) (h : hint) : step_result :=
  match s_pc st with
  | PExited => StepBlocked
  | PIdle =>
      match h_arm h with
      | None => StepIllegal 20
      | Some ArmItem =>
          match s_buf st with
          | [] => StepIllegal 21
          | it :: r => proc_handle_item c (upd_buf st r) h it
          end
      | Some ArmClear =>
          match s_clear_sigs st with
          | [] => StepIllegal 22
          | sig :: r =>
              let '(st1, cbs) := drain_buffer (upd_clear_sigs st r) in
              StepOk (upd_pc st1 (PClearAfterDrain sig)) (mk_out PtProcClearAfterDrain cbs RNone)
          end
      | Some ArmTick =>
          if s_ticks st =? 0 then StepIllegal 23 else
          let st0 := upd_ticks st (s_ticks st - 1) in
          let '(em', due) := em_cleanup (st_em (s_store st0)) (s_now st0) in
          let st1 := upd_store st0 {| st_map := st_map (s_store st0); st_em := em' |} in
          match due with
          | None => StepOk st1 (mk_out PtProcLoop [] RNone)
          | Some m => tick_next c st1 h m []
          end
      | Some ArmStop =>
          (* sync: a closer is waiting in the rendezvous; async: a stop message is buffered *)
          let take :=
            if 0 <? s_stop_msgs st then Some (upd_stop_msgs st (s_stop_msgs st - 1))
            else match find_offer false (s_clients st) with
                 | Some a =>
                     match client_of st a with
                     | KCloseStopOffered => Some (set_client st a KCloseStopTaken)
                     | _ => None
                     end
                 | None => None
                 end in
          match take with
          | None => StepIllegal 24
          | Some st1 =>
              let '(st2, cbs) := drain_buffer st1 in
              (* pending clear signals are dropped (async: drained; sync: the unbounded channel
                 discards them when its receiver goes away), which releases their senders *)
              let st3 := upd_clear_sigs (upd_done st2 (s_clear_sigs st2 ++ s_done st2)) [] in
              StepOk (upd_pc st3 PExited) (mk_out PtProcExit cbs RNone)
          end
      end
  | PNewAfterAdd k cf v exp cost victims added =>
      if added then
        let sto := st_try_insert (c_validator c) (s_store st) k v cf exp in
        let st1 := emit c (upd_store st sto) [(MKeyAdd, 1)] in
        match track_admission c st1 k with
        | Some st2 => StepOk (upd_pc st2 (PNewAfterStore victims)) (mk_out PtProcNewAfterStore [] RNone)
        | None => StepIllegal 60
        end
      else
        StepOk (upd_pc st (PNewAfterStore victims)) (mk_out PtProcNewAfterStore [CbReject k cf v cost] RNone)
  | PNewAfterStore victims =>
      let '(st1, p) := next_victim st victims in StepOk st1 (mk_out p [] RNone)
  | PNewVictim (vk, vcost) rest =>
      let '(sto, prev) := st_try_remove (s_store st) vk 0 in
      let cbs := match prev with Some e => [CbEvict vk (e_conflict e) (e_val e) vcost] | None => [] end in
      match prepare_evicts c (upd_store st sto) cbs with
      | Some st0 => let '(st1, p) := next_victim st0 rest in StepOk st1 (mk_out p cbs RNone)
      | None => StepPanic 4
      end
  | PDelAfterPolicy k cf =>
      let '(sto, prev) := st_try_remove (s_store st) k cf in
      StepOk (upd_pc (upd_store st sto) PIdle)
             (mk_out PtProcLoop (match prev with Some e => [CbExit (e_val e)] | None => [] end) RNone)
  | PClearAfterDrain sig =>
      StepOk (upd_pc (upd_tlfu (upd_slfu st (sl_clear (s_slfu st))) (tl_clear (s_tlfu st))) (PClearAfterPolicy sig))
             (mk_out PtProcClearAfterPolicy [] RNone)
  | PClearAfterPolicy sig =>
      StepOk (upd_pc (upd_store st st_empty) (PClearAfterStore sig)) (mk_out PtProcClearAfterStore [] RNone)
  | PClearAfterStore sig =>
      let st1 := if c_metrics c then upd_hist (upd_mets st metrics_zero) hist_clear else st in
      StepOk (upd_pc (upd_done st1 (sig :: s_done st1)) PIdle) (mk_out PtProcLoop [] RNone)
  | PTickKey k cf rest acc =>
      match st_expiration (s_store st) k with
      | Some t =>
          if negb (t_is_zero t) && t_is_expired (s_now st) t then
            let cost := match aget k (sl_kc (s_slfu st)) with Some x => x | None => (-1)%Z end in
            let '(s', mets) := pol_remove (s_slfu st) k in
            StepOk (upd_pc (emit c (upd_slfu st s') mets) (PTickAfterPolicy k cf cost rest acc))
                   (mk_out PtProcTickAfterPolicy [] RNone)
          else tick_next c st h rest acc
      | None => tick_next c st h rest acc
      end
  | PTickAfterPolicy k cf cost rest acc =>
      let '(sto, prev) := st_try_remove (s_store st) k cf in
      let acc' := match prev with
                  | Some e => acc ++ [CbEvict k (e_conflict e) (e_val e) cost]
                  | None => acc
                  end in
      tick_next c (upd_store st sto) h rest acc'
  end.

(* ---- policy worker ---- *)
Definition worker_step (c : cfg) (st : cstate) (h : hint) : step_result :=
  match s_wpc st with
  | WExited => StepBlocked
  | WIdle =>
      match h_arm h with
      | Some ArmItem =>
          match s_pqueue st with
          | [] => StepIllegal 40
          | batch :: r =>
              match tl_increments (s_tlfu st) batch with
              | Some t' => StepOk (upd_tlfu (upd_pqueue st r) t') (mk_out PtPolLoop [] RNone)
              | None => StepPanic 41
              end
          end
      | Some ArmStop =>
          if 0 <? s_pol_stop_msgs st then
            StepOk (upd_wpc (upd_pol_stop_msgs st (s_pol_stop_msgs st - 1)) WExited) (mk_out PtPolExit [] RNone)
          else match find_offer true (s_clients st) with
               | Some a =>
                   match client_of st a with
                   | KPolCloseStopOffered =>
                       (* the rendezvous completes: the closer's send returns; it will publish is_closed *)
                       StepOk (upd_wpc (set_client st a KPolCloseStopTaken) WExited) (mk_out PtPolExit [] RNone)
                   | _ => StepIllegal 44
                   end
               | None => StepIllegal 42
               end
      | _ => StepIllegal 43
      end
  end.

(* ---- labels ---- *)
Inductive label :=
| LOp (a : N) (op : cop)          (* client a starts an operation *)
| LClient (a : N)                 (* client a continues to its next scheduling point *)
| LProc (h : hint)
| LWorker (h : hint)
| LAdvance (dt : N)               (* the clock moves forward *)
| LTick.                          (* the cleanup ticker fires *)

Definition cstep (c : cfg) (st : cstate) (l : label) : step_result :=
  match l with
  | LOp a op =>
      match client_of st a with
      | KIdle => start_op c st a op
      | _ => StepIllegal 50
      end
  | LClient a => continue_client c st a
  | LProc h => proc_step c st h
  | LWorker h => worker_step c st h
  | LAdvance dt => StepOk (upd_now st (s_now st + dt)) (mk_out PtFinish [] RNone)
  | LTick => StepOk (upd_ticks st (s_ticks st + 1)) (mk_out PtFinish [] RNone)
  end.

Definition cinit (c : cfg) (max_cost : Z) (t : tinylfu) (now : N) : cstate :=
  {| s_store := st_empty; s_slfu := sl_new max_cost; s_tlfu := t; s_ring := []; s_pqueue := [];
     s_buf := []; s_clear_sigs := []; s_done := []; s_next_id := 0; s_ticks := 0; s_stop_msgs := 0;
     s_pol_stop_msgs := 0; s_now := now; s_mets := metrics_zero; s_hist := hist_new; s_start := [];
     s_closed := false; s_pol_closed := false; s_pc := PIdle; s_wpc := WIdle; s_clients := [] |}.

(* run a label sequence; None when a label is not enabled / illegal / panics *)
Fixpoint crun (c : cfg) (st : cstate) (ls : list label) : option (cstate * list out) :=
  match ls with
  | [] => Some (st, [])
  | l :: ls' =>
      match cstep c st l with
      | StepOk st' o =>
          match crun c st' ls' with
          | Some (st'', os) => Some (st'', o :: os)
          | None => None
          end
      | _ => None
      end
  end.
