(* PolicyLive.v — the eviction loop of LFUPolicy::add always comes to an end: for every policy
   state there is a legal sequence of sample refills (the canonical one: top the sample up with the
   first charged keys) under which the loop returns — it never runs out of refills, however many
   stale duplicates the sample accumulates.  (Termination is not obvious: a refill can re-add keys
   that are already sampled, and evicting a duplicated key leaves a stale copy that frees nothing
   when it is picked again.)  The measure: six times the number of charged keys plus the number of
   stale sample entries. *)
From StrettoModel Require Import Base BaseProofs Metrics Policy PolicyProofs PolicyVictims.
From Coq Require Import ZifyBool ZifyNat ZifyN.
Open Scope Z_scope.

Definition staleb (kc : amap Z) (p : pair) : bool := negb (amem (fst p) kc).
Definition stale (kc : amap Z) (l : list pair) : nat := length (filter (staleb kc) l).

Definition canon_fill (kc : amap Z) (sample : list pair) : list pair :=
  if (SAMPLES <=? length sample)%nat then sample else sample ++ firstn (SAMPLES - length sample) kc.

Lemma pairs_eqb_refl a : pairs_eqb a a = true.
Proof. induction a as [|[k c] a IH]; cbn [pairs_eqb]; [reflexivity|]. rewrite N.eqb_refl, Z.eqb_refl, IH. reflexivity. Qed.

Lemma In_pair_in k c (m : amap Z) : In (k, c) m -> pair_in (k, c) m = true.
Proof.
  induction m as [|[k' c'] m IH]; cbn [pair_in In]; [tauto|]. intros [H|H].
  - inversion H; subst. cbn [fst snd]. rewrite N.eqb_refl, Z.eqb_refl. reflexivity.
  - rewrite (IH H). apply orb_true_r.
Qed.

Lemma In_amem k c (m : amap Z) : In (k, c) m -> amem k m = true.
Proof.
  unfold amem. induction m as [|[k' c'] m IH]; cbn [aget In]; [tauto|]. intros [H|H].
  - inversion H; subst. rewrite N.eqb_refl. reflexivity.
  - destruct (N.eqb k k'); [reflexivity|]. apply IH. exact H.
Qed.

Lemma In_firstn {A} n (l : list A) x : In x (firstn n l) -> In x l.
Proof.
  revert n. induction l as [|y l IH]; intros [|n]; cbn [firstn In]; try tauto.
  intros [H|H]; [left; exact H|right; eapply IH; exact H].
Qed.

Lemma NoDup_firstn {A} n (l : list A) : NoDup l -> NoDup (firstn n l).
Proof.
  revert n. induction l as [|x l IH]; intros [|n] ND; cbn [firstn]; try constructor.
  - inversion ND as [|? ? Hn ND']; subst. intros H. apply Hn. eapply In_firstn. exact H.
  - inversion ND as [|? ? Hn ND']; subst. apply IH. exact ND'.
Qed.

Lemma canon_legal kc sample : NoDup (akeys kc) -> legal_fill kc sample (canon_fill kc sample) = true.
Proof.
  intros ND. unfold legal_fill, canon_fill. destruct (SAMPLES <=? length sample)%nat eqn:E; [apply pairs_eqb_refl|].
  apply Nat.leb_gt in E.
  rewrite firstn_app, Nat.sub_diag, firstn_all, firstn_O, app_nil_r, pairs_eqb_refl.
  rewrite skipn_app, Nat.sub_diag, skipn_all, skipn_O. cbn [app andb].
  rewrite !andb_true_iff. split; [split|].
  - apply nodup_N_NoDup. rewrite <- firstn_map. apply NoDup_firstn. exact ND.
  - apply forallb_forall. intros [k c] H. apply In_pair_in. eapply In_firstn. exact H.
  - apply Nat.eqb_eq. rewrite app_length, firstn_length. lia.
Qed.

Lemma stale_app kc a b : stale kc (a ++ b) = (stale kc a + stale kc b)%nat.
Proof. unfold stale. rewrite filter_app, app_length. reflexivity. Qed.

Lemma stale_le_length kc l : (stale kc l <= length l)%nat.
Proof. unfold stale. induction l as [|p l IH]; cbn [filter length]; [lia|]. destruct (staleb kc p); cbn [length]; lia. Qed.

Lemma stale_of_charged kc l : incl l kc -> stale kc l = 0%nat.
Proof.
  unfold stale. induction l as [|[k c] l IH]; intros H; cbn [filter]; [reflexivity|].
  unfold staleb at 1. cbn [fst]. rewrite (In_amem k c kc) by (apply H; left; reflexivity). cbn [negb].
  apply IH. intros x Hx. apply H. right. exact Hx.
Qed.

Lemma stale_canon kc sample : stale kc (canon_fill kc sample) = stale kc sample.
Proof.
  unfold canon_fill. destruct (SAMPLES <=? length sample)%nat; [reflexivity|].
  rewrite stale_app, (stale_of_charged kc (firstn _ kc)) by (intros x Hx; eapply In_firstn; exact Hx). lia.
Qed.

Lemma canon_length kc sample : (length sample <= SAMPLES)%nat -> (length (canon_fill kc sample) <= SAMPLES)%nat.
Proof.
  unfold canon_fill. destruct (SAMPLES <=? length sample)%nat eqn:E; [auto|]. apply Nat.leb_gt in E.
  intros _. rewrite app_length, firstn_length. lia.
Qed.

(* ---- swap_remove takes exactly the indexed element out ---- *)
Lemma list_set_mid {A} (l1 : list A) x y l2 : list_set (l1 ++ x :: l2) (length l1) y = l1 ++ y :: l2.
Proof. induction l1 as [|h t IH]; cbn [app length list_set]; [reflexivity|]. rewrite IH. reflexivity. Qed.

Lemma swap_remove_mid (l1 : list pair) x l2 :
  swap_remove (l1 ++ x :: l2) (length l1) =
  match rev l2 with [] => l1 | last :: r => l1 ++ last :: rev r end.
Proof.
  unfold swap_remove. rewrite rev_app_distr. cbn [rev]. rewrite <- app_assoc. cbn [app].
  destruct (rev l2) as [|last r] eqn:R.
  - cbn [app]. apply (f_equal (@rev pair)) in R. rewrite rev_involutive in R. cbn [rev] in R. subst l2.
    rewrite list_set_mid, app_length. cbn [length].
    replace (length l1 + 1 - 1)%nat with (length l1 + 0)%nat by lia.
    rewrite firstn_app_2. cbn [firstn]. apply app_nil_r.
  - cbn [app]. apply (f_equal (@rev pair)) in R. rewrite rev_involutive in R. cbn [rev] in R. subst l2.
    rewrite list_set_mid, !app_length. cbn [length]. rewrite app_length. cbn [length].
    replace (length l1 + S (length (rev r) + 1) - 1)%nat with (length l1 + S (length (rev r)))%nat by lia.
    rewrite firstn_app_2. f_equal. cbn [firstn]. f_equal.
    replace (length (rev r)) with (length (rev r) + 0)%nat at 1 by lia. rewrite firstn_app_2. cbn [firstn]. apply app_nil_r.
Qed.

Lemma swap_remove_stale kc l i p :
  nth_error l i = Some p -> staleb kc p = true -> S (stale kc (swap_remove l i)) = stale kc l.
Proof.
  intros H S. destruct (nth_error_split l i H) as (l1 & l2 & -> & <-).
  rewrite swap_remove_mid. destruct (rev l2) as [|last r] eqn:R.
  - apply (f_equal (@rev pair)) in R. rewrite rev_involutive in R. cbn [rev] in R. subst l2.
    unfold stale. rewrite filter_app. cbn [filter]. rewrite S, app_length. cbn [length]. lia.
  - apply (f_equal (@rev pair)) in R. rewrite rev_involutive in R. cbn [rev] in R. subst l2.
    unfold stale. rewrite !filter_app. cbn [filter]. rewrite S, filter_app. cbn [filter].
    destruct (staleb kc last); rewrite ?app_length; cbn [length]; rewrite ?app_length; cbn [length]; lia.
Qed.

Lemma swap_remove_length l i p : nth_error l i = Some p -> S (length (swap_remove l i)) = length l.
Proof.
  intros H. destruct (nth_error_split l i H) as (l1 & l2 & -> & <-).
  rewrite swap_remove_mid, app_length. cbn [length]. destruct (rev l2) as [|last r] eqn:R.
  - apply (f_equal (@rev pair)) in R. rewrite rev_involutive in R. cbn [rev] in R. subst l2. cbn [length]. lia.
  - apply (f_equal (@rev pair)) in R. rewrite rev_involutive in R. cbn [rev] in R. subst l2.
    rewrite ?app_length. cbn [length]. rewrite ?app_length. cbn [length]. rewrite ?rev_length. lia.
Qed.

(* ---- the measure ---- *)
Definition phi (s : slfu) (sample : list pair) : nat := (6 * length (sl_kc s) + stale (sl_kc s) sample)%nat.

Definition returns (r : add_result) : Prop :=
  match r with AddDone _ _ _ _ _ => True | AddPanic => True | _ => False end.

(* For every state of the loop there is a legal sequence of refills under which it returns. *)
Lemma evict_loop_returns est ih k cost : (forall x, est x < I64MAX) ->
  forall n s sample victims log mets,
  WF s -> (length sample <= SAMPLES)%nat -> (phi s sample < n)%nat ->
  exists oracle, returns (evict_loop est ih k cost oracle s sample victims log mets).
Proof.
  intros Hest. induction n as [|n IH]; intros s sample victims log mets W L P; [lia|].
  destruct (0 <=? sl_room_left s cost) eqn:R.
  - exists []. cbn [evict_loop]. rewrite R. exact I.
  - pose (smp := canon_fill (sl_kc s) sample).
    assert (LG : legal_fill (sl_kc s) sample smp = true) by (apply canon_legal; exact (proj2 W)).
    destruct (find_min0 est smp) as [[[mk mh] mi] mc] eqn:FM.
    destruct (ih <? mh) eqn:RJ.
    + exists [smp]. cbn [evict_loop]. rewrite R, LG. cbn [negb]. rewrite FM, RJ. exact I.
    + destruct smp as [|p0 smp'] eqn:SM.
      * exists [[]]. cbn [evict_loop]. rewrite R. fold smp in LG. rewrite LG. cbn [negb]. rewrite FM, RJ. exact I.
      * rewrite <- SM in *. assert (NE : smp <> []) by (rewrite SM; discriminate).
        destruct (find_min0_spec est smp mk mh mi mc Hest NE FM) as (NTH & _ & _ & _).
        destruct (pol_remove s mk) as [s' ev] eqn:PR.
        assert (W' : WF s') by (replace s' with (fst (pol_remove s mk)) by (rewrite PR; reflexivity); apply WF_pol_remove; exact W).
        assert (L' : (length (swap_remove smp mi) <= SAMPLES)%nat).
        { pose proof (swap_remove_length smp mi _ NTH). pose proof (canon_length (sl_kc s) sample L). fold smp in H0. lia. }
        assert (P' : (phi s' (swap_remove smp mi) < n)%nat).
        { unfold phi in *. pose proof (stale_canon (sl_kc s) sample) as SC. fold smp in SC.
          pose proof (swap_remove_length smp mi _ NTH) as SL. pose proof (canon_length (sl_kc s) sample L) as CL. fold smp in CL.
          unfold pol_remove, sl_remove in PR. destruct (aget mk (sl_kc s)) as [c|] eqn:G.
          - inversion PR; subst s'. cbn [sl_kc].
            assert (IN : In mk (akeys (sl_kc s))).
            { clear - G. induction (sl_kc s) as [|[a b] m IHm]; cbn [aget] in G; [discriminate|].
              cbn [akeys map fst]. destruct (N.eqb_spec mk a); [left; congruence|right; apply IHm; exact G]. }
            pose proof (length_adel_in mk (sl_kc s) (proj2 W) IN) as LA.
            pose proof (stale_le_length (adel mk (sl_kc s)) (swap_remove smp mi)). unfold SAMPLES in *.
            assert (N.to_nat Consts.DEFAULT_SAMPLES = 5)%nat by reflexivity. lia.
          - inversion PR; subst s'.
            assert (ST : staleb (sl_kc s) (mk, mc) = true) by (unfold staleb, amem; cbn [fst]; rewrite G; reflexivity).
            pose proof (swap_remove_stale (sl_kc s) smp mi _ NTH ST). lia. }
        destruct (IH s' (swap_remove smp mi) (victims ++ [(mk, mc)])
                    (log ++ [{| il_sample := smp; il_min_key := mk; il_min_hits := mh; il_min_id := mi;
                                il_min_cost := mc; il_room := sl_room_left s cost |}]) (mets ++ ev) W' L' P') as (oracle & RT).
        exists (smp :: oracle). cbn [evict_loop]. rewrite R, LG. cbn [negb]. rewrite FM, RJ.
        rewrite SM in *. rewrite PR. exact RT.
Qed.

(* LFUPolicy::add always returns, for a suitable (legal) sequence of refills: whatever the policy
   holds and whatever is added. *)
Theorem pol_add_returns est s k cost : (forall x, est x < I64MAX) -> WF s ->
  exists oracle, returns (pol_add est oracle s k cost).
Proof.
  intros Hest W. unfold pol_add. destruct (sl_max s <? cost); [exists []; exact I|].
  destruct (sl_update s k cost) as [[s' b] ev]. destruct b; [exists []; exact I|].
  destruct (0 <=? sl_room_left s cost); [exists []; exact I|].
  apply (evict_loop_returns est (est k) k cost Hest (S (phi s []))); [exact W|cbn [length]; lia|lia].
Qed.
