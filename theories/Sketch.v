(* Sketch.v — model of src/sketch.rs: 4-bit count-min rows and the 4-row sketch.
   A row is the list of its bytes (each < 256).  Out-of-range indexing is `None`
   (the Rust code panics there). *)
From StrettoModel Require Export Base.
From StrettoModel Require Consts.
Open Scope N_scope.

Definition SK_DEPTH : nat := N.to_nat Consts.DEPTH.

Definition row := list N.

Definition row_new (width : N) : row := repeat 0 (N.to_nat width).

(* CountMinRow::get:  (self[i/2] >> ((i & 1) * 4)) & 0x0f *)
Definition row_get (r : row) (i : N) : option N :=
  match nth_error r (N.to_nat (i / 2)) with
  | Some b => Some (N.land (N.shiftr b (N.land i 1 * 4)) 15)
  | None => None
  end.

(* CountMinRow::increment *)
Definition row_inc (r : row) (i : N) : option row :=
  let idx := N.to_nat (i / 2) in
  let shift := N.land i 1 * 4 in
  match nth_error r idx with
  | Some b =>
      let v := N.land (N.shiftr b shift) 15 in
      if v <? 15 then Some (list_set r idx (b + N.shiftl 1 shift)) else Some r
  | None => None
  end.

(* CountMinRow::reset: halve each counter *)
Definition row_reset (r : row) : row := map (fun b => N.land (N.shiftr b 1) 119) r.
Definition row_clear (r : row) : row := map (fun _ => 0) r.

Record sketch := { sk_rows : list row; sk_seeds : list N; sk_mask : N }.

(* u64::next_power_of_two for 1 <= n <= 2^63 *)
Definition next_pow2 (n : N) : N := N.pow 2 (N.log2_up n).

(* CountMinSketch::new (after the width >= 2 repair); `None` = InvalidCountMinWidth *)
Definition sk_width (ctrs : N) : N := N.max (next_pow2 ctrs) 2.
Definition sk_new (ctrs : N) (seeds : list N) : option sketch :=
  if ctrs <? 1 then None else
  let c := sk_width ctrs in
  let h := c / 2 in
  Some {| sk_rows := repeat (row_new h) SK_DEPTH; sk_seeds := seeds; sk_mask := c - 1 |}.

Definition sk_index (s : sketch) (seed h : N) : N := N.land (N.lxor h seed) (sk_mask s).

Fixpoint rows_inc (mask h : N) (rows : list row) (seeds : list N) : option (list row) :=
  match rows, seeds with
  | [], _ => Some []
  | r :: rs, sd :: sds =>
      match row_inc r (N.land (N.lxor h sd) mask), rows_inc mask h rs sds with
      | Some r', Some rs' => Some (r' :: rs')
      | _, _ => None
      end
  | _ :: _, [] => None
  end.

Definition sk_inc (s : sketch) (h : N) : option sketch :=
  match rows_inc (sk_mask s) h (sk_rows s) (sk_seeds s) with
  | Some rs => Some {| sk_rows := rs; sk_seeds := sk_seeds s; sk_mask := sk_mask s |}
  | None => None
  end.

Fixpoint rows_est (mask h : N) (rows : list row) (seeds : list N) (acc : N) : option N :=
  match rows, seeds with
  | [], _ => Some acc
  | r :: rs, sd :: sds =>
      match row_get r (N.land (N.lxor h sd) mask) with
      | Some v => rows_est mask h rs sds (if v <? acc then v else acc)
      | None => None
      end
  | _ :: _, [] => None
  end.

(* CountMinSketch::estimate: minimum over the rows, starting from 255 *)
Definition sk_est (s : sketch) (h : N) : option N :=
  rows_est (sk_mask s) h (sk_rows s) (sk_seeds s) 255.

Definition sk_reset (s : sketch) : sketch :=
  {| sk_rows := map row_reset (sk_rows s); sk_seeds := sk_seeds s; sk_mask := sk_mask s |}.
Definition sk_clear (s : sketch) : sketch :=
  {| sk_rows := map row_clear (sk_rows s); sk_seeds := sk_seeds s; sk_mask := sk_mask s |}.
