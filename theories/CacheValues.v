(* CacheValues.v — property C02: every value the cache holds, queues or returns for key k was written
   under k; an accepted update is visible at once; a store entry changes only by a write to its own
   key or by its removal. *)
From StrettoModel Require Import Base BaseProofs Metrics Sketch Bloom TinyLFU TinyLFUProofs Policy PolicyProofs Ttl Store StoreProofs
  Cache CacheProofs CacheLocal CacheInv CacheAgree CacheNoPanic.
From Coq Require Import ZifyBool ZifyNat ZifyN.
Open Scope N_scope.

Section Written.
(* P k v: "value v was written under key (index) k" — any predicate closed under the writes of the run *)
Variable P : N -> N -> Prop.

Definition item_ok (it : item) : Prop := match it with INew k _ _ v _ => P k v | _ => True end.
Definition cont_ok (k : ccont) : Prop :=
  match k with KInsSend it _ => item_ok it | KGetStore k _ (Some v) => P k v | _ => True end.
Definition pc_ok (p : ppc) : Prop := match p with PNewAfterAdd k _ v _ _ _ _ => P k v | _ => True end.
Definition store_ok (s : storage) : Prop := forall k e, aget k (st_map s) = Some e -> P k (e_val e).

Definition label_ok (l : label) : Prop :=
  match l with
  | LOp _ (OInsert k _ v _ _ _) => P k v
  | LOp _ (OGetMutWrite k _ v) => P k v
  | _ => True
  end.

Definition WIv (sto : storage) (buf : list item) (cl : amap ccont) (pc : ppc) : Prop :=
  store_ok sto /\ Forall item_ok buf /\
  (forall a, cont_ok (match aget a cl with Some k => k | None => KIdle end)) /\ pc_ok pc.

Definition WI (st : cstate) : Prop := WIv (s_store st) (s_buf st) (s_clients st) (s_pc st).

Lemma store_ok_update vld s k v c t s' r : store_ok s -> P k v -> st_try_update vld s k v c t = (s', r) -> store_ok s'.
Proof.
  intros S Pv. unfold st_try_update. destruct (aget k (st_map s)) as [e|]; [|intros H; inversion H; subst; assumption].
  destruct (negb (conflict_ok c e)); [intros H; inversion H; subst; assumption|].
  destruct (negb (vld (e_val e) v)); [intros H; inversion H; subst; assumption|].
  intros H; inversion H; subst. intros k' e'. cbn [st_map]. destruct (N.eq_dec k' k) as [->|Hne].
  - rewrite aget_aset_same. intros X; inversion X; subst. exact Pv.
  - rewrite aget_aset_other by assumption. apply S.
Qed.

Lemma store_ok_insert vld s k v c t : store_ok s -> P k v -> store_ok (st_try_insert vld s k v c t).
Proof.
  intros S Pv. unfold st_try_insert. destruct (aget k (st_map s)) as [e|].
  - destruct (negb (conflict_ok c e)); [assumption|]. destruct (negb (vld (e_val e) v)); [assumption|].
    intros k' e'. cbn [st_map]. destruct (N.eq_dec k' k) as [->|Hne].
    + rewrite aget_aset_same. intros X; inversion X; subst. exact Pv.
    + rewrite aget_aset_other by assumption. apply S.
  - intros k' e'. cbn [st_map]. destruct (N.eq_dec k' k) as [->|Hne].
    + rewrite aget_aset_same. intros X; inversion X; subst. exact Pv.
    + rewrite aget_aset_other by assumption. apply S.
Qed.

Lemma store_ok_remove s k c s' prev : store_ok s -> st_try_remove s k c = (s', prev) -> store_ok s'.
Proof.
  intros S. unfold st_try_remove. destruct (aget k (st_map s)) as [e|]; [|intros H; inversion H; subst; assumption].
  destruct (negb (conflict_ok c e)); [intros H; inversion H; subst; assumption|].
  intros H; inversion H; subst. intros k' e'. cbn [st_map]. destruct (N.eq_dec k' k) as [->|Hne].
  - rewrite aget_adel_same. discriminate.
  - rewrite aget_adel_other by assumption. apply S.
Qed.

Lemma store_ok_write s k v : store_ok s -> P k v -> store_ok (st_write s k v).
Proof.
  intros S Pv. unfold st_write. destruct (aget k (st_map s)) as [e|] eqn:E; [|assumption].
  intros k' e'. cbn [st_map]. destruct (N.eq_dec k' k) as [->|Hne].
  - rewrite aget_aset_same. intros X; inversion X; subst. exact Pv.
  - rewrite aget_aset_other by assumption. apply S.
Qed.

Lemma store_ok_em s em' : store_ok s -> store_ok {| st_map := st_map s; st_em := em' |}.
Proof. intros S k e. cbn [st_map]. apply S. Qed.

Lemma store_ok_empty : store_ok st_empty.
Proof. intros k e X. discriminate X. Qed.

Section V.
Variables (sto : storage) (buf : list item) (cl : amap ccont) (pc : ppc).
Hypothesis H : WIv sto buf cl pc.
Lemma WIv_store sto' : store_ok sto' -> WIv sto' buf cl pc.
Proof. unfold WIv in *. tauto. Qed.
Lemma WIv_buf buf' : Forall item_ok buf' -> WIv sto buf' cl pc.
Proof. unfold WIv in *. tauto. Qed.
Lemma WIv_pc pc' : pc_ok pc' -> WIv sto buf cl pc'.
Proof. unfold WIv in *. tauto. Qed.
Lemma WIv_client a k : cont_ok k -> WIv sto buf (aset a k cl) pc.
Proof.
  intros Hk. destruct H as (A & B & C & D). split; [assumption|]. split; [assumption|]. split; [|assumption].
  intros b. destruct (N.eq_dec b a) as [->|Hne]; [rewrite aget_aset_same; assumption|rewrite aget_aset_other by assumption; apply C].
Qed.
End V.

Lemma WI_unfold st : WI st <-> WIv (s_store st) (s_buf st) (s_clients st) (s_pc st).
Proof. reflexivity. Qed.

End Written.

Ltac wi_go P st W :=
  match goal with
  | |- WIv _ (s_store st) (s_buf st) (s_clients st) (s_pc st) => exact W
  | |- WIv _ _ _ (aset _ _ ?cl0) _ => eapply (WIv_client P _ _ cl0); [wi_go P st W | ]
  | |- WIv _ _ _ _ ?p => lazymatch p with s_pc st => fail | _ => eapply (WIv_pc P _ _ _ (s_pc st)); [wi_go P st W|] end
  | |- WIv _ _ ?b _ _ => lazymatch b with s_buf st => fail | _ => eapply (WIv_buf P _ (s_buf st)); [wi_go P st W|] end
  | |- WIv _ ?s _ _ _ => lazymatch s with s_store st => fail | _ => eapply (WIv_store P (s_store st)); [wi_go P st W|] end
  end.

Lemma Forall_snoc' {A} (Q : A -> Prop) l x : Forall Q l -> Q x -> Forall Q (l ++ [x]).
Proof. intros. apply Forall_app. split; [assumption|constructor; [assumption|constructor]]. Qed.

Ltac wi_side S :=
  cbn [cont_ok pc_ok item_ok] in *;
  first [ exact I | assumption | solve [constructor]
        | apply store_ok_empty
        | apply store_ok_em; exact S
        | apply store_ok_write; [exact S|assumption]
        | apply store_ok_insert; [exact S|assumption]
        | match goal with E : st_try_update _ _ _ _ _ _ = (?s, _) |- store_ok _ ?s => eapply store_ok_update; [exact S| |exact E]; assumption end
        | match goal with E : st_try_remove _ _ _ = (?s, _) |- store_ok _ ?s => eapply store_ok_remove; [exact S|exact E] end
        | match goal with B : Forall (item_ok _) ?b |- Forall (item_ok _) (?b ++ [_]) => apply Forall_snoc'; [exact B|cbn [item_ok]; first [exact I|assumption]] end
        | match goal with B : Forall (item_ok _) (_ :: ?l) |- Forall (item_ok _) ?l => inversion B; assumption end
        | match goal with B : Forall (item_ok _) (INew ?k _ _ ?v _ :: _) |- _ ?k ?v => inversion B; assumption end ].

Lemma ring_push_frame c st k :
  s_store (ring_push c st k) = s_store st /\ s_buf (ring_push c st k) = s_buf st /\
  s_clients (ring_push c st k) = s_clients st /\ s_pc (ring_push c st k) = s_pc st.
Proof.
  unfold ring_push, policy_push. repeat match goal with |- context [if ?b then _ else _] => destruct b end;
    try destruct (s_ring st ++ [k]); unemit; auto.
Qed.

Theorem WI_step P c st l st' o : WI P st -> label_ok P l -> cstep c st l = StepOk st' o -> WI P st'.
Proof.
  intros W L H. pose proof W as (S & B & C & Pc).
  destruct l as [a op|a|h|h|dt|].
  - destruct op; cbn [label_ok] in L; crush_step H; open_shapes; apply WI_unfold; unemit; try (wi_go P st W); try (wi_side S).
    all: destruct (ring_push_frame c st k) as (R5 & R6 & R7 & R8); rewrite R5, R6, R7, R8; wi_go P st W; wi_side S.
  - pose proof (C a) as Ca. fold (client_of st a) in Ca. cbn [cstep] in H. unfold continue_client in H.
    destruct (client_of st a) eqn:CA; crush_step H; open_shapes; apply WI_unfold; unemit; try (wi_go P st W); try (wi_side S).
  - crush_step H; open_shapes; apply WI_unfold; unemit; try (wi_go P st W); try (wi_side S).
  - crush_step H; open_shapes; apply WI_unfold; unemit; try (wi_go P st W); try (wi_side S).
  - crush_step H; exact W.
  - crush_step H; exact W.
Qed.

(* a lookup of k returns nothing or a value written under k — get and get_mut alike *)
Theorem lookup_returns_written_value P c st a k cf w st' o :
  WI P st -> client_of st a = KGetStore k cf w -> cstep c st (LClient a) = StepOk st' o ->
  match o_res o with
  | RGet (Some (v, _)) => P k v
  | RGetMut (Some v) => P k v
  | RGet None | RGetMut None => True
  | _ => False
  end.
Proof.
  intros (S & _) CA H. cbn [cstep] in H. unfold continue_client in H. rewrite CA in H.
  unfold st_get in H. destruct (aget k (st_map (s_store st))) as [e|] eqn:E.
  - destruct (conflict_ok cf e && entry_live (s_now st) e).
    + destruct w; [inversion H; subst; cbn [o_res mk_out]; exact (S k e E)|].
      destruct (t_get_ttl _ _); [|discriminate]. inversion H; subst; cbn [o_res mk_out]. exact (S k e E).
    + destruct w; inversion H; subst; exact I.
  - destruct w; inversion H; subst; exact I.
Qed.

(* every callback hands back a value written under the key it names (on_exit carries no key) *)

(* ---- in every run ---- *)
Fixpoint writes (ls : list label) : list (N * N) :=
  match ls with
  | [] => []
  | LOp _ (OInsert k _ v _ _ _) :: r => (k, v) :: writes r
  | LOp _ (OGetMutWrite k _ v) :: r => (k, v) :: writes r
  | _ :: r => writes r
  end.

Lemma WI_init P c mc t now : WI P (cinit c mc t now).
Proof.
  unfold WI, WIv, cinit; sproj. split; [intros k e X; discriminate X|]. split; [constructor|]. split; [intros a; exact I|exact I].
Qed.

Lemma WI_run P c : forall ls st st' os, WI P st -> Forall (label_ok P) ls -> crun c st ls = Some (st', os) -> WI P st'.
Proof.
  induction ls as [|l ls IH]; intros st st' os W F; cbn [crun].
  - intros H; inversion H; subst; exact W.
  - inversion F as [|? ? Hl Hr]; subst. destruct (cstep c st l) as [st1 o| | |] eqn:E; try discriminate.
    destruct (crun c st1 ls) as [[st2 os1]|] eqn:R; [|discriminate]. intros H; inversion H; subst.
    eapply IH; [eapply WI_step; eassumption|exact Hr|exact R].
Qed.

Lemma writes_label_ok ls : forall pre, Forall (label_ok (fun k v => In (k, v) (writes (pre ++ ls)))) ls.
Proof.
  induction ls as [|l ls IH]; intros pre; [constructor|]. constructor.
  - assert (G : forall k v, In (k, v) (writes (l :: ls)) -> In (k, v) (writes (pre ++ l :: ls))).
    { intros k v. induction pre as [|p pre IHp]; cbn [app]; [auto|]. intros X. specialize (IHp X).
      destruct p as [a [ | | | | | | | | | | ]| | | | | ]; cbn [writes]; auto; right; exact IHp. }
    destruct l as [a [ | | | | | | | | | | ]| | | | | ]; cbn [label_ok]; try exact I; apply G; cbn [writes]; left; reflexivity.
  - replace (pre ++ l :: ls) with ((pre ++ [l]) ++ ls) by (rewrite <- app_assoc; reflexivity). apply IH.
Qed.

(* C02: for every history and schedule, every value resident, queued or in flight after the run was
   written under its key by an insert or a get_mut write of that run *)
Theorem run_holds_only_written_values c mc t now ls st os :
  crun c (cinit c mc t now) ls = Some (st, os) -> WI (fun k v => In (k, v) (writes ls)) st.
Proof.
  intros R. eapply WI_run; [apply WI_init| |exact R]. exact (writes_label_ok ls []).
Qed.

(* ---- an accepted update is visible at once ---- *)
Theorem update_is_immediate c st a k cf v cost ttl only e :
  s_closed st = false -> aget k (st_map (s_store st)) = Some e -> conflict_ok cf e = true ->
  c_validator c (e_val e) v = true ->
  exists st', start_op c st a (OInsert k cf v cost ttl only) =
                StepOk st' (mk_out PtInsBeforeSend [CbExit (e_val e)] RNone) /\
    (exists e', aget k (st_map (s_store st')) = Some e' /\ e_val e' = v /\ e_conflict e' = e_conflict e /\
                e_exp e' = {| t_created := s_now st; t_d := ttl |}) /\
    (forall k', k' <> k -> aget k' (st_map (s_store st')) = aget k' (st_map (s_store st))).
Proof.
  intros Hc Ha Hk Hv. cbn [start_op]. rewrite Hc. unfold st_try_update. rewrite Ha, Hk, Hv. cbn [negb].
  eexists. split; [reflexivity|]. sproj. cbn [st_map]. split.
  - eexists. split; [apply aget_aset_same|]. cbn [e_val e_conflict e_exp]. auto.
  - intros k' Hne. apply aget_aset_other. exact Hne.
Qed.

(* remove takes the entry out of the store at once (when the conflict hash matches) *)
Theorem remove_is_immediate c st a k cf e :
  s_closed st = false -> aget k (st_map (s_store st)) = Some e -> conflict_ok cf e = true ->
  exists st', start_op c st a (ORemove k cf) = StepOk st' (mk_out PtRemBeforeSend [CbExit (e_val e)] RNone) /\
    aget k (st_map (s_store st')) = None /\
    (forall k', k' <> k -> aget k' (st_map (s_store st')) = aget k' (st_map (s_store st))).
Proof.
  intros Hc Ha Hk. cbn [start_op]. rewrite Hc. unfold st_try_remove. rewrite Ha, Hk. cbn [negb].
  eexists. split; [reflexivity|]. sproj. cbn [st_map]. split; [apply aget_adel_same|].
  intros k' Hne. apply aget_adel_other. exact Hne.
Qed.

(* ---- a resident value is replaced only by a later write to its own key ---- *)
Lemma try_update_values vld s k v c t s' r k' e e' :
  st_try_update vld s k v c t = (s', r) -> aget k' (st_map s) = Some e -> aget k' (st_map s') = Some e' ->
  e_val e' = e_val e \/ (k' = k /\ e_val e' = v).
Proof.
  unfold st_try_update. destruct (aget k (st_map s)) as [e0|] eqn:G; [|intros H; inversion H; subst; intros A B; left; congruence].
  destruct (negb (conflict_ok c e0)); [intros H; inversion H; subst; intros A B; left; congruence|].
  destruct (negb (vld (e_val e0) v)); [intros H; inversion H; subst; intros A B; left; congruence|].
  intros H; inversion H; subst; clear H. cbn [st_map]. destruct (N.eq_dec k' k) as [->|Hne].
  - rewrite aget_aset_same. intros A B. inversion B; subst. right. auto.
  - rewrite aget_aset_other by assumption. intros A B. left. congruence.
Qed.

Lemma try_remove_values s k c s' prev k' e e' :
  st_try_remove s k c = (s', prev) -> aget k' (st_map s) = Some e -> aget k' (st_map s') = Some e' -> e' = e.
Proof.
  unfold st_try_remove. destruct (aget k (st_map s)) as [e0|]; [|intros H; inversion H; subst; congruence].
  destruct (negb (conflict_ok c e0)); [intros H; inversion H; subst; congruence|].
  intros H; inversion H; subst; clear H. cbn [st_map]. destruct (N.eq_dec k' k) as [->|Hne].
  - rewrite aget_adel_same. discriminate.
  - rewrite aget_adel_other by assumption. congruence.
Qed.

Lemma write_values s k v k' e e' :
  aget k' (st_map s) = Some e -> aget k' (st_map (st_write s k v)) = Some e' -> e_val e' = e_val e \/ (k' = k /\ e_val e' = v).
Proof.
  unfold st_write. destruct (aget k (st_map s)) as [e0|] eqn:G; [|intros A B; left; congruence].
  cbn [st_map]. destruct (N.eq_dec k' k) as [->|Hne].
  - rewrite aget_aset_same. intros A B. inversion B; subst. right. auto.
  - rewrite aget_aset_other by assumption. intros A B. left. congruence.
Qed.

Lemma try_insert_values vld s k v c t k' e e' :
  aget k (st_map s) = None -> aget k' (st_map s) = Some e -> aget k' (st_map (st_try_insert vld s k v c t)) = Some e' -> e' = e.
Proof.
  intros G. unfold st_try_insert. rewrite G. cbn [st_map]. destruct (N.eq_dec k' k) as [->|Hne]; [congruence|].
  rewrite aget_aset_other by assumption. congruence.
Qed.

(* C02 "never rolled back": in every state satisfying the agreement invariant (every reachable state
   of a collision-free run), whatever step whichever actor takes: if key k is resident before and
   after the step with a different value, then the step is a client's own write to k — an insert of
   k carrying the new value, or the write half of a get_mut on k.  The processor never replaces a
   resident value (an admitted New item finds its key absent), nor does eviction, expiry, or the
   policy worker. *)
Ltac unemit_all := unfold emit in *; try match goal with |- context [c_metrics ?c] => destruct (c_metrics c) | H : context [c_metrics ?c] |- _ => destruct (c_metrics c) end; sproj.

Theorem value_replaced_only_by_a_write_to_its_key c st l st' o k e e' :
  Agree st -> cstep c st l = StepOk st' o ->
  aget k (st_map (s_store st)) = Some e -> aget k (st_map (s_store st')) = Some e' -> e_val e' <> e_val e ->
  (exists a cf cost ttl only, l = LOp a (OInsert k cf (e_val e') cost ttl only)) \/
  (exists a cf, l = LClient a /\ client_of st a = KGetStore k cf (Some (e_val e'))).
Proof.
  intros (_ & _ & PK) H A B NE.
  assert (Same : s_store st' = s_store st -> False) by (intros X; rewrite X in B; congruence).
  destruct l as [a op|a|h|h|dt|].
  - destruct op; crush_step H; open_shapes; unemit_all; try (exfalso; apply Same; reflexivity).
    + match goal with E : st_try_update _ _ _ _ _ _ = _ |- _ => destruct (try_update_values _ _ _ _ _ _ _ _ _ _ _ E A B) as [X|(-> & X)] end;
        [congruence|]. left. rewrite X. eauto 8.
    + exfalso. apply Same. destruct (ring_push_frame c st k0) as (R & _). exact R.
    + exfalso. apply Same. destruct (ring_push_frame c st k0) as (R & _). exact R.
    + match goal with E : st_try_remove _ _ _ = _ |- _ => pose proof (try_remove_values _ _ _ _ _ _ _ _ E A B) end. congruence.
  - cbn [cstep] in H. unfold continue_client in H. destruct (client_of st a) eqn:CA; crush_step H; open_shapes; unemit_all;
      try (exfalso; apply Same; reflexivity).
    all: destruct (write_values _ _ _ _ _ _ A B) as [X|(-> & X)]; [congruence|]; right; rewrite X; eauto.
  - unfold PcOk in PK. crush_step H; open_shapes; unemit_all; exfalso;
      first [ apply Same; reflexivity
            | cbn [st_map st_empty aget] in B; congruence
            | match goal with E : st_try_remove _ _ _ = _ |- _ => pose proof (try_remove_values _ _ _ _ _ _ _ _ E A B) end; congruence
            | destruct PK as (PK1 & _); destruct (PK1 eq_refl) as (_ & NS);
              unfold inS, amem in NS;
              match type of B with context [st_try_insert ?vld ?s ?k0 ?v0 ?c0 ?t0] =>
                destruct (aget k0 (st_map s)) eqn:G; [discriminate NS|]; pose proof (try_insert_values vld s k0 v0 c0 t0 k e e' G A B) end;
              congruence ].
  - exfalso. crush_step H; open_shapes; unemit_all; apply Same; reflexivity.
  - exfalso. crush_step H. apply Same; reflexivity.
  - exfalso. crush_step H. apply Same; reflexivity.
Qed.

Corollary reachable_value_replaced_only_by_a_write c mc t now st l st' o k e e' :
  reach_cf c (cinit c mc t now) st -> cstep c st l = StepOk st' o ->
  aget k (st_map (s_store st)) = Some e -> aget k (st_map (s_store st')) = Some e' -> e_val e' <> e_val e ->
  (exists a cf cost ttl only, l = LOp a (OInsert k cf (e_val e') cost ttl only)) \/
  (exists a cf, l = LClient a /\ client_of st a = KGetStore k cf (Some (e_val e'))).
Proof.
  intros R. destruct (reach_cf_inv _ _ _ _ _ R) as (A & _). apply value_replaced_only_by_a_write_to_its_key. exact A.
Qed.
