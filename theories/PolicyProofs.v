(* PolicyProofs.v — invariants and rule theorems for SampledLFU and the policy `add` loop
   (properties C01 and C07). *)
From StrettoModel Require Import Base BaseProofs Metrics Policy.
Open Scope Z_scope.

Ltac ssimpl := cbn [sl_kc sl_used sl_max sl_increment sl_new sl_clear sl_set_max fst snd].
Tactic Notation "ssimpl" "in" "*" := cbn [sl_kc sl_used sl_max sl_increment sl_new sl_clear sl_set_max fst snd] in *.

Definition WF (s : slfu) : Prop := sl_used s = asum (sl_kc s) /\ NoDup (akeys (sl_kc s)).
Definition NonNeg (s : slfu) : Prop := forall k c, aget k (sl_kc s) = Some c -> 0 <= c.

Lemma WF_new mc : WF (sl_new mc).
Proof. split; simpl; [reflexivity|constructor]. Qed.

Lemma WF_increment s k c : WF s -> aget k (sl_kc s) = None -> WF (sl_increment s k c).
Proof.
  unfold WF, sl_increment. intros [Hu ND] E; simpl.
  rewrite asum_adel, E by assumption. split; [lia|].
  constructor; [intros H; apply in_adel in H; tauto | apply nodup_adel; assumption].
Qed.

Lemma WF_remove s k : WF s -> WF (fst (sl_remove s k)).
Proof.
  unfold WF, sl_remove. intros [Hu ND]. destruct (aget k (sl_kc s)) eqn:E; simpl; [|tauto].
  split; [rewrite asum_adel, E by assumption; lia | apply nodup_adel; assumption].
Qed.

Lemma WF_update s k c : WF s -> WF (fst (fst (sl_update s k c))).
Proof.
  unfold WF, sl_update. intros [Hu ND]. destruct (aget k (sl_kc s)) eqn:E; simpl; [|tauto].
  rewrite asum_adel, E by assumption. split; [lia|].
  constructor; [intros H; apply in_adel in H; tauto | apply nodup_adel; assumption].
Qed.

Lemma WF_clear s : WF (sl_clear s).
Proof. split; simpl; [reflexivity|constructor]. Qed.

Lemma WF_set_max s mc : WF s -> WF (sl_set_max s mc).
Proof. unfold WF; simpl; tauto. Qed.

Lemma WF_pol_remove s k : WF s -> WF (fst (pol_remove s k)).
Proof.
  intros H. unfold pol_remove. pose proof (WF_remove s k H) as W.
  destruct (sl_remove s k) as [s' [c|]]; simpl in *; assumption.
Qed.

Lemma pol_remove_fst s k : fst (pol_remove s k) = fst (sl_remove s k).
Proof. unfold pol_remove. destruct (sl_remove s k) as [s' [c|]]; reflexivity. Qed.

Lemma sl_remove_max s k : sl_max (fst (sl_remove s k)) = sl_max s.
Proof. unfold sl_remove. destruct (aget k (sl_kc s)); reflexivity. Qed.

Lemma sl_remove_used_le s k : NonNeg s -> sl_used (fst (sl_remove s k)) <= sl_used s.
Proof.
  intros NN. unfold sl_remove. destruct (aget k (sl_kc s)) eqn:E; simpl; [|lia].
  specialize (NN _ _ E). lia.
Qed.

Lemma sl_remove_get s k k' :
  aget k' (sl_kc (fst (sl_remove s k))) = if N.eqb k' k then None else aget k' (sl_kc s).
Proof.
  unfold sl_remove. destruct (aget k (sl_kc s)) eqn:E; simpl.
  - destruct (N.eqb_spec k' k) as [->|Hne]; [apply aget_adel_same|apply aget_adel_other; assumption].
  - destruct (N.eqb_spec k' k) as [->|Hne]; [assumption|reflexivity].
Qed.

Lemma NonNeg_remove s k : NonNeg s -> NonNeg (fst (sl_remove s k)).
Proof.
  intros NN k' c. rewrite sl_remove_get. destruct (N.eqb k' k); [discriminate|]. apply NN.
Qed.

Lemma NonNeg_increment s k c : NonNeg s -> 0 <= c -> NonNeg (sl_increment s k c).
Proof.
  intros NN Hc k' c'. unfold sl_increment; ssimpl.
  destruct (N.eq_dec k' k) as [->|Hne].
  - rewrite aget_aset_same. intros H; inversion H; subst; assumption.
  - rewrite aget_aset_other by assumption. apply NN.
Qed.

(* ---- find_min ---- *)
Lemma find_min_spec est l : forall idx ak ah ai ac mk mh mi mc,
  find_min est l idx (ak, ah, ai, ac) = (mk, mh, mi, mc) ->
  mh <= ah /\ (forall p, In p l -> mh <= est (fst p)) /\
  (((mk, mh, mi, mc) = (ak, ah, ai, ac) /\ forall p, In p l -> ah <= est (fst p))
   \/ exists j, mi = (idx + j)%nat /\ nth_error l j = Some (mk, mc) /\ mh = est mk /\ mh < ah /\
        forall j' p, (j' < j)%nat -> nth_error l j' = Some p -> mh < est (fst p)).
Proof.
  induction l as [|[k c] l IH]; intros idx ak ah ai ac mk mh mi mc H; cbn [find_min] in H.
  - inversion H; subst. split; [lia|]. split; [intros p []|]. left. split; [reflexivity|intros p []].
  - destruct (est k <? ah) eqn:E.
    + apply IH in H. destruct H as (H1 & H2 & H3). apply Z.ltb_lt in E.
      split; [lia|]. split.
      * intros p [<-|Hp]; simpl; [lia|auto].
      * right. destruct H3 as [[Heq Hall]|(j & Hj & Hn & Hm & Hlt & Hbefore)].
        -- inversion Heq; subst. exists O. split; [lia|]. split; [reflexivity|]. split; [reflexivity|].
           split; [assumption|]. intros j' p Hlt; lia.
        -- exists (S j). split; [lia|]. split; [exact Hn|]. split; [assumption|]. split; [lia|].
           intros [|j'] p Hj' Hp; simpl in Hp.
           ++ inversion Hp; subst; simpl. lia.
           ++ apply (Hbefore j'); [lia|assumption].
    + apply IH in H. destruct H as (H1 & H2 & H3). apply Z.ltb_ge in E.
      split; [assumption|]. split.
      * intros p [<-|Hp]; simpl; [lia|auto].
      * destruct H3 as [[Heq Hall]|(j & Hj & Hn & Hm & Hlt & Hbefore)].
        -- left. split; [assumption|]. intros p [<-|Hp]; simpl; [lia|auto].
        -- right. exists (S j). split; [lia|]. split; [exact Hn|]. split; [assumption|]. split; [assumption|].
           intros [|j'] p Hj' Hp; simpl in Hp.
           ++ inversion Hp; subst; simpl. lia.
           ++ apply (Hbefore j'); [lia|assumption].
Qed.

(* The minimum found on a non-empty sample of estimates below i64::MAX: it is an element of the
   sample, no sampled candidate is less popular, and it is the first such position. *)
Lemma find_min0_spec est l mk mh mi mc :
  (forall k, est k < I64MAX) -> l <> [] ->
  find_min0 est l = (mk, mh, mi, mc) ->
  nth_error l mi = Some (mk, mc) /\ mh = est mk /\
  (forall p, In p l -> mh <= est (fst p)) /\
  (forall j p, (j < mi)%nat -> nth_error l j = Some p -> mh < est (fst p)).
Proof.
  intros Hest Hne H. unfold find_min0 in H. apply find_min_spec in H.
  destruct H as (_ & Hall & [[Heq Hge]|(j & Hj & Hn & Hm & _ & Hbefore)]).
  - exfalso. destruct l as [|p l]; [congruence|]. specialize (Hge p (or_introl eq_refl)).
    specialize (Hest (fst p)). lia.
  - simpl in Hj. subst mi. auto.
Qed.

Lemma find_min0_nil est : find_min0 est [] = (0%N, I64MAX, O, 0).
Proof. reflexivity. Qed.

(* ---- the eviction loop ---- *)

Definition entry_ok (est : key -> Z) (e : iter_log) : Prop :=
  il_room e < 0 /\
  find_min0 est (il_sample e) = (il_min_key e, il_min_hits e, il_min_id e, il_min_cost e).

Definition victim_of (e : iter_log) : pair := (il_min_key e, il_min_cost e).

Lemma evict_loop_spec est ih k cost oracle :
  forall s sample victims log mets s' v a l m,
  WF s -> NonNeg s -> aget k (sl_kc s) = None ->
  evict_loop est ih k cost oracle s sample victims log mets = AddDone s' v a l m ->
  WF s' /\ NonNeg (if a then s else s') /\ sl_max s' = sl_max s /\
  (forall k', k' <> k -> forall c, aget k' (sl_kc s') = Some c -> aget k' (sl_kc s) = Some c) /\
  (a = true -> sl_used s' <= sl_max s' /\ aget k (sl_kc s') = Some cost /\ sl_used s' - cost <= sl_used s) /\
  (a = false -> aget k (sl_kc s') = None /\ sl_used s' <= sl_used s) /\
  exists newl,
    l = log ++ newl /\ Forall (entry_ok est) newl /\
    (a = true ->
       v = Some (victims ++ map victim_of newl) /\ Forall (fun e => il_min_hits e <= ih) newl) /\
    (a = false ->
       exists e, newl = removelast newl ++ [e] /\ ih < il_min_hits e /\
                 v = Some (victims ++ map victim_of (removelast newl)) /\
                 Forall (fun e => il_min_hits e <= ih) (removelast newl)).
Proof.
  induction oracle as [|smp oracle IH]; intros s sample victims log mets s' v a l m HWF HNN Hk;
    cbn [evict_loop].
  - destruct (0 <=? sl_room_left s cost) eqn:E; [|discriminate].
    intros H; inversion H; subst; clear H. apply Z.leb_le in E. unfold sl_room_left in E.
    split; [apply WF_increment; assumption|]. split; [assumption|]. split; [reflexivity|].
    split; [intros k' Hne c; ssimpl; rewrite aget_aset_other by assumption; auto|].
    split; [intros _; ssimpl; rewrite aget_aset_same; repeat split; lia|].
    split; [discriminate|].
    exists []. rewrite app_nil_r. split; [reflexivity|]. split; [constructor|].
    split; [intros _; simpl; rewrite app_nil_r; split; [reflexivity|constructor]|discriminate].
  - destruct (0 <=? sl_room_left s cost) eqn:E.
    + intros H; inversion H; subst; clear H. apply Z.leb_le in E. unfold sl_room_left in E.
      split; [apply WF_increment; assumption|]. split; [assumption|]. split; [reflexivity|].
      split; [intros k' Hne c; ssimpl; rewrite aget_aset_other by assumption; auto|].
      split; [intros _; ssimpl; rewrite aget_aset_same; repeat split; lia|].
      split; [discriminate|].
      exists []. rewrite app_nil_r. split; [reflexivity|]. split; [constructor|].
      split; [intros _; simpl; rewrite app_nil_r; split; [reflexivity|constructor]|discriminate].
    + apply Z.leb_gt in E.
      destruct (negb (legal_fill (sl_kc s) sample smp)); [discriminate|].
      destruct (find_min0 est smp) as [[[mk mh] mi] mc] eqn:FM.
      set (entry := {| il_sample := smp; il_min_key := mk; il_min_hits := mh; il_min_id := mi;
                       il_min_cost := mc; il_room := sl_room_left s cost |}).
      assert (Hentry : entry_ok est entry) by (split; [exact E|exact FM]).
      destruct (ih <? mh) eqn:E2.
      * intros H; inversion H; subst; clear H. apply Z.ltb_lt in E2.
        split; [assumption|]. split; [assumption|]. split; [reflexivity|].
        split; [auto|]. split; [discriminate|]. split; [intros _; split; [assumption|lia]|].
        exists [entry]. split; [reflexivity|]. split; [constructor; [assumption|constructor]|].
        split; [discriminate|]. intros _. exists entry. simpl.
        split; [reflexivity|]. split; [assumption|]. rewrite app_nil_r. split; [reflexivity|constructor].
      * apply Z.ltb_ge in E2. destruct smp as [|p0 smp']; [discriminate|].
        destruct (pol_remove s mk) as [s1 ev] eqn:PR.
        assert (Hs1 : s1 = fst (sl_remove s mk)) by (rewrite <- pol_remove_fst, PR; reflexivity).
        intros H. apply IH in H.
        -- destruct H as (A & B & C & D & Ft & Ff & newl & Hl & Hok & Ht & Hf).
           split; [assumption|].
           split; [destruct a; [assumption|assumption]|].
           split; [rewrite C, Hs1; apply sl_remove_max|].
           split.
           { intros k' Hne c Hc. apply D in Hc; [|assumption]. rewrite Hs1, sl_remove_get in Hc.
             destruct (N.eqb k' mk); [discriminate|assumption]. }
           assert (Hle : sl_used s1 <= sl_used s) by (rewrite Hs1; apply sl_remove_used_le; assumption).
           split; [intros Ha; destruct (Ft Ha) as (F1 & F2 & F3); repeat split; [assumption|assumption|lia]|].
           split; [intros Ha; destruct (Ff Ha) as (F1 & F2); split; [assumption|lia]|].
           exists (entry :: newl). split; [rewrite Hl, <- app_assoc; reflexivity|].
           split; [constructor; assumption|].
           split.
           { intros Ha. destruct (Ht Ha) as (Hv & Hall). split.
             - rewrite Hv, <- app_assoc. reflexivity.
             - constructor; [exact E2|assumption]. }
           { intros Ha. destruct (Hf Ha) as (e & Hne & Hlt & Hv & Hall).
             exists e. assert (newl <> []) by (intros ->; simpl in Hne; discriminate Hne).
             assert (Hrl : removelast (entry :: newl) = entry :: removelast newl)
               by (destruct newl; [congruence|reflexivity]).
             rewrite Hrl. split; [simpl; f_equal; exact Hne|]. split; [assumption|].
             split; [rewrite Hv, <- app_assoc; reflexivity|constructor; [exact E2|assumption]]. }
        -- rewrite Hs1. apply WF_remove. assumption.
        -- rewrite Hs1. apply NonNeg_remove. assumption.
        -- rewrite Hs1, sl_remove_get. destruct (N.eqb k mk); [reflexivity|assumption].
Qed.

(* well-formedness alone survives the loop, whatever the sign of the costs *)
Lemma evict_loop_WF est ih k cost oracle :
  forall s sample victims log mets s' v a l m,
  WF s -> aget k (sl_kc s) = None ->
  evict_loop est ih k cost oracle s sample victims log mets = AddDone s' v a l m -> WF s'.
Proof.
  induction oracle as [|smp oracle IH]; intros s sample victims log mets s' v a l m W Ek; cbn [evict_loop].
  - destruct (0 <=? sl_room_left s cost); [|discriminate]. intros H; inversion H; subst.
    apply WF_increment; assumption.
  - destruct (0 <=? sl_room_left s cost).
    + intros H; inversion H; subst. apply WF_increment; assumption.
    + destruct (negb (legal_fill (sl_kc s) sample smp)); [discriminate|].
      destruct (find_min0 est smp) as [[[mk mh] mi] mc].
      destruct (ih <? mh); [intros H; inversion H; subst; assumption|].
      destruct smp; [discriminate|]. destruct (pol_remove s mk) as [s1 ev] eqn:PR.
      assert (Hs1 : s1 = fst (sl_remove s mk)) by (rewrite <- pol_remove_fst, PR; reflexivity).
      intros H. eapply IH; [| |exact H].
      * rewrite Hs1. apply WF_remove. assumption.
      * rewrite Hs1, sl_remove_get. destruct (N.eqb k mk); [reflexivity|assumption].
Qed.

Lemma pol_add_WF_only est oracle s k cost s' v a l m :
  WF s -> pol_add est oracle s k cost = AddDone s' v a l m -> WF s'.
Proof.
  intros W. unfold pol_add. destruct (sl_max s <? cost); [intros H; inversion H; subst; assumption|].
  pose proof (WF_update s k cost W) as WU. unfold sl_update in *.
  destruct (aget k (sl_kc s)) eqn:Ek; cbn [fst snd] in *.
  - intros H; inversion H; subst. assumption.
  - destruct (0 <=? sl_room_left s cost).
    + intros H; inversion H; subst. apply WF_increment; assumption.
    + apply evict_loop_WF; assumption.
Qed.

(* ---- pol_add as a whole ---- *)

Inductive add_case := CaseOversize | CaseUpdate | CaseRoom | CaseLoop.

Theorem pol_add_WF est oracle s k cost s' v a l m :
  WF s -> NonNeg s -> 0 <= cost ->
  pol_add est oracle s k cost = AddDone s' v a l m ->
  WF s' /\ NonNeg s' /\ sl_max s' = sl_max s.
Proof.
  intros HWF HNN Hc. unfold pol_add.
  destruct (sl_max s <? cost) eqn:E1.
  - intros H; inversion H; subst. auto.
  - pose proof (WF_update s k cost HWF) as WU. unfold sl_update in *.
    destruct (aget k (sl_kc s)) eqn:Ek; simpl in *.
    + intros H; inversion H; subst; clear H. split; [assumption|]. split; [|reflexivity].
      intros k' c'. ssimpl. destruct (N.eq_dec k' k) as [->|Hne].
      * rewrite aget_aset_same. intros H; inversion H; subst; assumption.
      * rewrite aget_aset_other by assumption. apply HNN.
    + destruct (0 <=? sl_room_left s cost) eqn:E2.
      * intros H; inversion H; subst; clear H.
        split; [apply WF_increment; assumption|]. split; [apply NonNeg_increment; assumption|reflexivity].
      * intros H. apply evict_loop_spec in H; try assumption.
        destruct H as (A & B & C & D & Ft & Ff & _). split; [assumption|]. split; [|assumption].
        destruct a; [|assumption].
        intros k' c'. destruct (N.eq_dec k' k) as [->|Hne].
        -- destruct (Ft eq_refl) as (_ & F2 & _). rewrite F2. intros H; inversion H; subst; assumption.
        -- intros Hc'. apply D in Hc'; [|assumption]. apply HNN in Hc'. assumption.
Qed.

(* C01: every admission of a new key re-establishes total <= max_cost and charges exactly cost. *)
Theorem add_admits_under_max est oracle s k cost s' v l m :
  WF s -> NonNeg s ->
  pol_add est oracle s k cost = AddDone s' v true l m ->
  sl_used s' <= sl_max s' /\ aget k (sl_kc s') = Some cost /\ cost <= sl_max s' /\
  aget k (sl_kc s) = None.
Proof.
  intros HWF HNN. unfold pol_add.
  destruct (sl_max s <? cost) eqn:E1; [discriminate|]. apply Z.ltb_ge in E1.
  unfold sl_update. destruct (aget k (sl_kc s)) eqn:Ek; [discriminate|].
  destruct (0 <=? sl_room_left s cost) eqn:E2.
  - intros H; inversion H; subst; clear H. apply Z.leb_le in E2. unfold sl_room_left in E2. ssimpl.
    rewrite aget_aset_same. repeat split; try lia.
  - intros H. apply evict_loop_spec in H; try assumption.
    destruct H as (_ & _ & C & _ & Ft & _). destruct (Ft eq_refl) as (F1 & F2 & _).
    repeat split; try assumption. lia.
Qed.

(* C01: an entry whose own cost exceeds max_cost is never admitted; the policy is left untouched. *)
Theorem oversize_never_admitted est oracle s k cost :
  sl_max s < cost -> pol_add est oracle s k cost = AddDone s None false [] [].
Proof. intros H. unfold pol_add. apply Z.ltb_lt in H. rewrite H. reflexivity. Qed.

(* C07: when there is room a new key is always admitted and nothing is evicted. *)
Theorem room_admits_without_eviction est oracle s k cost :
  cost <= sl_max s -> aget k (sl_kc s) = None -> 0 <= sl_room_left s cost ->
  pol_add est oracle s k cost =
    AddDone (sl_increment s k cost) None true [] [(MCostAdd, u64_of_i64 cost)].
Proof.
  intros H1 H2 H3. unfold pol_add. apply Z.ltb_ge in H1. rewrite H1.
  unfold sl_update. rewrite H2. apply Z.leb_le in H3. rewrite H3. reflexivity.
Qed.

(* C07: the loop's log obeys the sampled-LFU rule. *)
Theorem pol_add_rule est oracle s k cost s' v a l m :
  WF s -> NonNeg s -> cost <= sl_max s -> aget k (sl_kc s) = None -> sl_room_left s cost < 0 ->
  pol_add est oracle s k cost = AddDone s' v a l m ->
  Forall (entry_ok est) l /\
  (a = true -> v = Some (map victim_of l) /\ Forall (fun e => il_min_hits e <= est k) l /\
               0 <= sl_room_left s' 0) /\
  (a = false -> exists e, l = removelast l ++ [e] /\ est k < il_min_hits e /\
               v = Some (map victim_of (removelast l)) /\
               Forall (fun e => il_min_hits e <= est k) (removelast l)).
Proof.
  intros HWF HNN H1 H2 H3. unfold pol_add. apply Z.ltb_ge in H1. rewrite H1.
  unfold sl_update. rewrite H2. apply Z.leb_gt in H3. rewrite H3.
  intros H. apply evict_loop_spec in H; try assumption.
  destruct H as (_ & _ & _ & _ & Ft & _ & newl & Hl & Hok & Ht & Hf). simpl in Hl. subst l.
  split; [assumption|]. split.
  - intros Ha. destruct (Ht Ha) as (Hv & Hall). simpl in Hv. split; [assumption|]. split; [assumption|].
    destruct (Ft Ha) as (F1 & _). unfold sl_room_left. lia.
  - intros Ha. destruct (Hf Ha) as (e & Hne & Hlt & Hv & Hall). exists e. simpl in Hv. auto.
Qed.

(* every logged sample was a legal refill: drawn from the current charges, five or all *)
Lemma evict_loop_samples_legal est ih k cost oracle :
  forall s sample victims log mets s' v a l m,
  evict_loop est ih k cost oracle s sample victims log mets = AddDone s' v a l m ->
  exists newl, l = log ++ newl /\
    match newl with
    | [] => True
    | e :: _ => legal_fill (sl_kc s) sample (il_sample e) = true
    end.
Proof.
  induction oracle as [|smp oracle IH]; intros s sample victims log mets s' v a l m; cbn [evict_loop].
  - destruct (0 <=? sl_room_left s cost); [|discriminate]. intros H; inversion H; subst.
    exists []. rewrite app_nil_r. auto.
  - destruct (0 <=? sl_room_left s cost).
    + intros H; inversion H; subst. exists []. rewrite app_nil_r. auto.
    + destruct (legal_fill (sl_kc s) sample smp) eqn:LF; simpl; [|discriminate].
      destruct (find_min0 est smp) as [[[mk mh] mi] mc].
      destruct (ih <? mh).
      * intros H; inversion H; subst. eexists [_]. split; [reflexivity|]. simpl. exact LF.
      * destruct smp as [|p0 smp']; [discriminate|]. destruct (pol_remove s mk) as [s1 ev].
        intros H. apply IH in H. destruct H as (newl & Hl & _).
        eexists (_ :: newl). split; [rewrite Hl, <- app_assoc; reflexivity|]. simpl. exact LF.
Qed.

(* first sample: five candidates, or all of them if fewer are charged; distinct and current *)
Theorem first_sample_is_five_or_all (kc : amap Z) smp :
  legal_fill kc [] smp = true ->
  length smp = Nat.min SAMPLES (length kc) /\ NoDup (map fst smp) /\
  (forall p, In p smp -> pair_in p kc = true).
Proof.
  unfold legal_fill. cbn [length skipn firstn pairs_eqb Nat.add andb].
  destruct (SAMPLES <=? 0)%nat eqn:E.
  - apply Nat.leb_le in E. destruct smp as [|p0 smp]; [|cbn [pairs_eqb]; intros H; discriminate H].
    intros _. split; [cbn [length]; lia|]. split; [constructor|intros p []].
  - rewrite !andb_true_iff. intros [[ND All] Len]. apply Nat.eqb_eq in Len.
    split; [assumption|]. split; [apply nodup_N_NoDup; assumption|].
    intros p Hp. rewrite forallb_forall in All. auto.
Qed.

(* ---- C01 over histories: the update-slack invariant ---- *)

Inductive pop :=
| PAdd (est : key -> Z) (oracle : list (list pair)) (k : key) (cost : Z)
| PUpdate (k : key) (cost : Z)
| PRemove (k : key)
| PClear
| PSetMax (mc : Z).

Record pstate := { ps : slfu; slack : Z }.

Definition charged_cost (s : slfu) (k : key) : option Z := aget k (sl_kc s).

Definition pstep (st : pstate) (o : pop) : option pstate :=
  match o with
  | PAdd est oracle k cost =>
      match pol_add est oracle (ps st) k cost with
      | AddDone s' _ added _ _ =>
          Some {| ps := s';
                  slack := if added then 0
                           else match charged_cost (ps st) k with
                                | Some old => if sl_max (ps st) <? cost then slack st
                                              else slack st + Z.max 0 (cost - old)
                                | None => slack st
                                end |}
      | _ => None
      end
  | PUpdate k cost =>
      Some {| ps := fst (fst (sl_update (ps st) k cost));
              slack := match charged_cost (ps st) k with
                       | Some old => slack st + Z.max 0 (cost - old)
                       | None => slack st
                       end |}
  | PRemove k => Some {| ps := fst (pol_remove (ps st) k); slack := slack st |}
  | PClear => Some {| ps := sl_clear (ps st); slack := 0 |}
  | PSetMax mc => Some {| ps := sl_set_max (ps st) mc; slack := slack st + Z.max 0 (sl_max (ps st) - mc) |}
  end.

Definition op_nonneg (o : pop) : Prop :=
  match o with
  | PAdd _ _ _ cost => 0 <= cost
  | PUpdate _ cost => 0 <= cost
  | _ => True
  end.

Definition PInv (st : pstate) : Prop :=
  WF (ps st) /\ NonNeg (ps st) /\ 0 <= slack st /\
  (sl_kc (ps st) = [] \/ sl_used (ps st) <= sl_max (ps st) + slack st).

Lemma pstep_inv st o st' : PInv st -> op_nonneg o -> pstep st o = Some st' -> PInv st'.
Proof.
  intros (HWF & HNN & Hs & Hu) Hop. destruct o as [est oracle k cost|k cost|k| |mc]; cbn [pstep].
  - destruct (pol_add est oracle (ps st) k cost) as [| | |s' v a l m] eqn:PA; try discriminate.
    intros H; inversion H; subst; clear H. unfold PInv; cbn [ps slack].
    destruct (pol_add_WF _ _ _ _ _ _ _ _ _ _ HWF HNN Hop PA) as (W' & N' & M').
    split; [assumption|]. split; [assumption|].
    destruct a; cbn [ps slack].
    + destruct (add_admits_under_max _ _ _ _ _ _ _ _ _ HWF HNN PA) as (A1 & _). split; [lia|right; lia].
    + unfold pol_add in PA. unfold charged_cost.
      destruct (sl_max (ps st) <? cost) eqn:E1.
      * inversion PA; subst. destruct (aget k (sl_kc (ps st))); split; assumption.
      * unfold sl_update in PA. destruct (aget k (sl_kc (ps st))) as [old|] eqn:Ek.
        -- inversion PA; subst; clear PA. simpl in *. split; [lia|]. right.
           destruct Hu as [Hu|Hu]; [rewrite Hu in Ek; discriminate|lia].
        -- destruct (0 <=? sl_room_left (ps st) cost) eqn:E2; [discriminate|].
           apply evict_loop_spec in PA; try assumption.
           destruct PA as (_ & _ & C & _ & _ & Ff & _). destruct (Ff eq_refl) as (_ & F2).
           split; [assumption|]. right. destruct Hu as [Hu|Hu]; [|lia].
           exfalso. destruct HWF as [HU _]. rewrite Hu in HU. simpl in HU.
           apply Z.leb_gt in E2. apply Z.ltb_ge in E1. unfold sl_room_left in E2. lia.
  - intros H; inversion H; subst; clear H. unfold PInv; cbn [ps slack]. unfold charged_cost.
    pose proof (WF_update (ps st) k cost HWF) as WU. unfold sl_update in *.
    destruct (aget k (sl_kc (ps st))) as [old|] eqn:Ek; cbn [fst snd sl_kc sl_used sl_max] in *.
    + split; [assumption|]. split.
      * intros k' c'. cbn [ps sl_kc]. destruct (N.eq_dec k' k) as [->|Hne].
        -- rewrite aget_aset_same. intros H; inversion H; subst; assumption.
        -- rewrite aget_aset_other by assumption. apply HNN.
      * cbn [ps slack sl_kc sl_used sl_max]. split; [lia|]. right. destruct Hu as [Hu|Hu]; [rewrite Hu in Ek; discriminate|lia].
    + repeat split; try assumption; apply HWF.
  - intros H; inversion H; subst; clear H. unfold PInv; cbn [ps slack]. rewrite pol_remove_fst.
    split; [apply WF_remove; assumption|]. split; [apply NonNeg_remove; assumption|].
    split; [assumption|]. destruct Hu as [Hu|Hu].
    + left. unfold sl_remove. rewrite Hu. cbn. exact Hu.
    + right. rewrite sl_remove_max. pose proof (sl_remove_used_le (ps st) k HNN). lia.
  - intros H; inversion H; subst; clear H. unfold PInv; cbn [ps slack].
    split; [apply WF_clear|]. split; [intros k c; simpl; discriminate|]. simpl. split; [lia|left; reflexivity].
  - intros H; inversion H; subst; clear H. unfold PInv; cbn [ps slack sl_set_max sl_kc sl_used sl_max].
    split; [apply WF_set_max; assumption|]. split; [assumption|]. split; [lia|].
    destruct Hu as [Hu|Hu]; [left; assumption|right; lia].
Qed.

Fixpoint prun (st : pstate) (ops : list pop) : option pstate :=
  match ops with
  | [] => Some st
  | o :: ops' => match pstep st o with Some st' => prun st' ops' | None => None end
  end.

(* C01 for every history of policy operations: the charged total equals the sum of the per-entry
   charges, keys are charged at most once, and the total exceeds max_cost by no more than what
   in-place updates and a lowered max_cost have added since the last admission. *)
Theorem overshoot_is_update_slack mc ops st :
  Forall op_nonneg ops ->
  prun {| ps := sl_new mc; slack := 0 |} ops = Some st ->
  PInv st.
Proof.
  intros Hops. assert (H0 : PInv {| ps := sl_new mc; slack := 0 |}).
  { split; [apply WF_new|]. split; [intros k c; simpl; discriminate|]. simpl. split; [lia|left; reflexivity]. }
  revert H0. generalize {| ps := sl_new mc; slack := 0 |}.
  induction ops as [|o ops IH]; intros st0 H0; simpl.
  - intros H; inversion H; subst; assumption.
  - inversion Hops as [|? ? Ho Hops']; subst.
    destruct (pstep st0 o) as [st1|] eqn:E; [|discriminate].
    apply IH; [assumption|]. eapply pstep_inv; eassumption.
Qed.

(* max_cost()/update_max_cost() take effect for every later admission: pol_add reads sl_max. *)
Theorem max_cost_read_per_add est oracle s mc k cost :
  pol_add est oracle (sl_set_max s mc) k cost =
  pol_add est oracle {| sl_max := mc; sl_used := sl_used s; sl_kc := sl_kc s |} k cost.
Proof. reflexivity. Qed.

(* C20: the eviction loop never indexes an empty sample: on an empty sample the minimum is
   i64::MAX, every estimate is below it, so the newcomer is rejected first *)
Lemma evict_loop_no_panic est ih k cost oracle :
  ih < I64MAX ->
  forall s sample victims log mets, evict_loop est ih k cost oracle s sample victims log mets <> AddPanic.
Proof.
  intros Hih. induction oracle as [|smp oracle IH]; intros s sample victims log mets; cbn [evict_loop].
  - destruct (0 <=? sl_room_left s cost); discriminate.
  - destruct (0 <=? sl_room_left s cost); [discriminate|].
    destruct (negb (legal_fill (sl_kc s) sample smp)); [discriminate|].
    destruct (find_min0 est smp) as [[[mk mh] mi] mc] eqn:FM.
    destruct (ih <? mh) eqn:E; [discriminate|].
    destruct smp as [|p0 smp'].
    + exfalso. rewrite find_min0_nil in FM. inversion FM; subst. apply Z.ltb_ge in E. lia.
    + destruct (pol_remove s mk). apply IH.
Qed.

Lemma pol_add_no_panic est oracle s k cost : est k < I64MAX -> pol_add est oracle s k cost <> AddPanic.
Proof.
  intros H. unfold pol_add. destruct (sl_max s <? cost); [discriminate|].
  destruct (sl_update s k cost) as [[s' b] ev]. destruct b; [discriminate|].
  destruct (0 <=? sl_room_left s cost); [discriminate|]. apply evict_loop_no_panic. assumption.
Qed.
