(* CacheMetrics.v — which metric events each step of the cache emits (properties C15 and C17):
   every step's change to the eleven counters is characterised exactly, for every state. *)
From StrettoModel Require Import Base BaseProofs Metrics Sketch Bloom TinyLFU TinyLFUProofs Policy PolicyProofs Ttl Store StoreProofs
  Cache CacheProofs CacheLocal CacheInv.
From Coq Require Import ZifyBool ZifyNat ZifyN.
Open Scope N_scope.

(* ---- the counter array ---- *)
Lemma nth_list_set_same {A} (l : list A) i x d : (i < length l)%nat -> nth i (list_set l i x) d = x.
Proof. revert i; induction l as [|h t IH]; intros [|i]; simpl; intros H; try lia; auto. apply IH. lia. Qed.

Lemma nth_list_set_other {A} (l : list A) i j x d : i <> j -> nth j (list_set l i x) d = nth j l d.
Proof. revert i j; induction l as [|h t IH]; intros [|i] [|j]; simpl; intros H; auto; try congruence. Qed.

Lemma mtype_idx_inj t t' : mtype_idx t = mtype_idx t' -> t = t'.
Proof. destruct t, t'; cbn; intros H; try reflexivity; discriminate H. Qed.

Lemma mtype_idx_lt t : (mtype_idx t < 11)%nat.
Proof. destruct t; cbn; lia. Qed.

Lemma length_m_add m e : length (m_add m e) = length m.
Proof. destruct e as [t d]. unfold m_add. apply length_list_set. Qed.

Lemma length_m_adds evs : forall m, length (m_adds m evs) = length m.
Proof. induction evs as [|e evs IH]; intros m; cbn [m_adds fold_left]; [reflexivity|]. unfold m_adds in IH. rewrite IH. apply length_m_add. Qed.

Lemma m_get_add_same m t d : length m = 11%nat -> m_get (m_add m (t, d)) t = wrap64 (m_get m t + d).
Proof. intros L. unfold m_add, m_get at 1. apply nth_list_set_same. rewrite L. apply mtype_idx_lt. Qed.

Lemma m_get_add_other m t d t' : t <> t' -> m_get (m_add m (t, d)) t' = m_get m t'.
Proof.
  intros H. unfold m_add, m_get at 1. rewrite nth_list_set_other; [reflexivity|].
  intros E. apply H. apply mtype_idx_inj. exact E.
Qed.

Lemma m_get_adds_other evs t : forall m, Forall (fun e => fst e <> t) evs -> m_get (m_adds m evs) t = m_get m t.
Proof.
  induction evs as [|[t0 d] evs IH]; intros m F; cbn [m_adds fold_left]; [reflexivity|].
  inversion F as [|? ? H1 H2]; subst. unfold m_adds in IH. rewrite IH by assumption. apply m_get_add_other. exact H1.
Qed.

(* ---- events of the policy ---- *)
Definition pol_ev (e : mevent) : Prop :=
  match fst e with MCostAdd | MKeyUpdate | MCostEvict | MKeyEvict | MRejectSets => True | _ => False end.

Lemma update_delta_ev p c : Forall pol_ev (update_delta p c).
Proof. unfold update_delta. destruct (p <? c)%Z; [repeat constructor|]. destruct (c <? p)%Z; repeat constructor. Qed.

Lemma sl_update_ev s k c s' b evs : sl_update s k c = (s', b, evs) -> Forall pol_ev evs.
Proof.
  unfold sl_update. destruct (aget k (sl_kc s)); intros H; inversion H; subst; [|constructor].
  constructor; [exact I|apply update_delta_ev].
Qed.

Lemma pol_remove_ev s k s' evs : pol_remove s k = (s', evs) -> Forall pol_ev evs.
Proof.
  unfold pol_remove. destruct (sl_remove s k) as [s1 [c|]]; intros H; inversion H; subst; repeat constructor.
Qed.

Lemma evict_loop_ev est ih k cost : forall oracle s sample victims log mets s' v a lg m,
  Forall pol_ev mets -> evict_loop est ih k cost oracle s sample victims log mets = AddDone s' v a lg m -> Forall pol_ev m.
Proof.
  induction oracle as [|smp oracle IH]; intros s sample victims log mets s' v a lg m F; cbn [evict_loop].
  - destruct (0 <=? sl_room_left s cost)%Z; [|discriminate]. intros H; inversion H; subst.
    apply Forall_app. split; [assumption|repeat constructor].
  - destruct (0 <=? sl_room_left s cost)%Z.
    { intros H; inversion H; subst. apply Forall_app. split; [assumption|repeat constructor]. }
    destruct (negb (legal_fill (sl_kc s) sample smp)); [discriminate|].
    destruct (find_min0 est smp) as [[[mk mh] mi] mc].
    destruct (ih <? mh)%Z.
    { intros H; inversion H; subst. apply Forall_app. split; [assumption|repeat constructor]. }
    destruct smp; [discriminate|]. destruct (pol_remove s mk) as [s1 ev] eqn:PR.
    apply IH. apply Forall_app. split; [assumption|]. eapply pol_remove_ev; exact PR.
Qed.

Lemma pol_add_ev est oracle s k cost s' v a lg m : pol_add est oracle s k cost = AddDone s' v a lg m -> Forall pol_ev m.
Proof.
  unfold pol_add. destruct (sl_max s <? cost)%Z; [intros H; inversion H; constructor|].
  destruct (sl_update s k cost) as [[s1 b] ev] eqn:U. destruct b.
  - intros H; inversion H; subst. eapply sl_update_ev; exact U.
  - destruct (0 <=? sl_room_left s cost)%Z; [intros H; inversion H; repeat constructor|].
    apply evict_loop_ev. constructor.
Qed.

(* ---- what each step emits ---- *)
Definition MW (st : cstate) : Prop := length (s_mets st) = 11%nat.

Definition proc_ev (e : mevent) : Prop := pol_ev e \/ e = (MKeyAdd, 1).

Definition is_lookup (op : cop) : bool := match op with OGet _ _ | OGetMutWrite _ _ _ => true | _ => false end.

(* the events a step may emit, by actor and program point *)
Definition evs_spec (c : cfg) (st : cstate) (l : label) (o : out) (evs : list mevent) : Prop :=
  match l with
  | LOp a op =>
      if is_lookup op && negb (s_closed st) then
        evs = [] \/ (exists n, evs = [(MKeepGets, n)]) \/ (exists n, evs = [(MDropGets, n)])
      else evs = []
  | LClient a =>
      match client_of st a with
      | KInsSend it _ =>
          (evs = [] /\ o_res o = RBool true) \/
          (evs = [(MDropSets, 1)] /\ o_res o = RBool false /\ is_update it = false /\ buf_send c st it = None)
      | KGetStore k cf w =>
          evs = [(match st_get (s_now st) (s_store st) k cf with Some _ => MHit | None => MMiss end, 1)]
      | _ => evs = []
      end
  | LProc _ => Forall proc_ev evs
  | _ => evs = []
  end.

Lemma m_adds_nil m : m_adds m [] = m.
Proof. reflexivity. Qed.

Definition gets_evs (evs : list mevent) : Prop :=
  evs = [] \/ (exists n, evs = [(MKeepGets, n)]) \/ (exists n, evs = [(MDropGets, n)]).

Lemma policy_push_mets c st ks : c_metrics c = true ->
  exists evs, s_mets (policy_push c st ks) = m_adds (s_mets st) evs /\ gets_evs evs.
Proof.
  intros Hm. unfold policy_push, gets_evs. destruct (s_pol_closed st); [exists []; auto|].
  destruct ks; [exists []; auto|].
  match goal with |- context [if ?b then _ else _] => destruct b end; unfold emit; rewrite Hm; sproj; eexists; (split; [reflexivity|eauto]).
Qed.

Lemma ring_push_mets c st k : c_metrics c = true ->
  exists evs, s_mets (ring_push c st k) = m_adds (s_mets st) evs /\ gets_evs evs.
Proof.
  intros Hm. unfold ring_push. match goal with |- context [if ?b then _ else _] => destruct b end.
  - destruct (policy_push_mets c (upd_ring st []) (s_ring st ++ [k]) Hm) as (evs & E & G). exists evs. rewrite E. sproj. auto.
  - exists []. sproj. unfold gets_evs. auto.
Qed.

Ltac mnone := exists []; sproj; (split; [reflexivity|try reflexivity; try constructor; cbn; auto]).

Theorem step_metrics c st l st' o :
  c_metrics c = true -> cstep c st l = StepOk st' o ->
  (exists evs, s_mets st' = m_adds (s_mets st) evs /\ evs_spec c st l o evs) \/
  (exists sig h, l = LProc h /\ s_pc st = PClearAfterStore sig /\ s_mets st' = metrics_zero).
Proof.
  intros Hm H. destruct l as [a op|a|h|h|dt|]; cbn [cstep] in H.
  - destruct (client_of st a); try discriminate. left. unfold evs_spec.
    destruct op; cbn [start_op is_lookup andb] in *.
    + destruct (s_closed st); [inversion H; subst; mnone|].
      destruct (st_try_update _ _ _ _ _ _) as [sto r]. destruct r; try destruct only_update; inversion H; subst; mnone.
    + destruct (s_closed st); cbn [negb]; inversion H; subst; [mnone|].
      destruct (ring_push_mets c st k Hm) as (evs & E & G). exists evs. sproj. split; [exact E|exact G].
    + destruct (s_closed st); cbn [negb]; inversion H; subst; [mnone|].
      destruct (ring_push_mets c st k Hm) as (evs & E & G). exists evs. sproj. split; [exact E|exact G].
    + destruct (st_get _ _ _ _); [destruct (st_expiration _ _); [destruct (t_get_ttl _ _)|]|]; inversion H; subst; mnone.
    + destruct (s_closed st); [inversion H; subst; mnone|].
      destruct (st_try_remove _ _ _) as [sto prev]. inversion H; subst. mnone.
    + destruct (s_closed st); inversion H; subst; mnone.
    + destruct (s_closed st); inversion H; subst; mnone.
    + destruct (s_closed st); inversion H; subst; mnone.
    + inversion H; subst; mnone.
    + inversion H; subst; mnone.
    + inversion H; subst; mnone.
  - left. unfold continue_client in H. unfold evs_spec. destruct (client_of st a) eqn:CA; try discriminate.
    + destruct (buf_send c st it) as [st1|] eqn:E.
      * unfold buf_send in E. destruct (s_pc st); try discriminate;
          (match type of E with context [if ?b then _ else _] => destruct b end; [|discriminate]);
          inversion E; subst; inversion H; subst; exists []; sproj; (split; [reflexivity|left; auto]).
      * destruct (is_update it) eqn:IU; inversion H; subst.
        -- exists []. sproj. split; [reflexivity|left; auto].
        -- exists [(MDropSets, 1)]. unfold emit. rewrite Hm. sproj. split; [reflexivity|right; auto].
    + destruct (st_get _ _ _ _) as [e|].
      * destruct write as [v|].
        -- inversion H; subst. eexists. unfold emit. rewrite Hm. sproj. split; reflexivity.
        -- destruct (t_get_ttl _ _); [|discriminate]. inversion H; subst. eexists. unfold emit. rewrite Hm. sproj. split; reflexivity.
      * inversion H; subst. eexists. unfold emit. rewrite Hm. sproj. split; reflexivity.
    + destruct (buf_send c st (IDelete k c0)) as [st1|] eqn:E.
      * unfold buf_send in E. destruct (s_pc st); try discriminate;
          (match type of E with context [if ?b then _ else _] => destruct b end; [|discriminate]);
          inversion E; subst; inversion H; subst; mnone.
      * destruct (s_pc st); try discriminate; inversion H; subst; mnone.
    + sproj. destruct (buf_send _ _ _) as [st2|] eqn:E.
      * unfold buf_send in E. sproj. destruct (s_pc st); try discriminate;
          (match type of E with context [if ?b then _ else _] => destruct b end; [|discriminate]);
          inversion E; subst; inversion H; subst; mnone.
      * inversion H; subst. mnone.
    + destruct (s_pc st); inversion H; subst; mnone.
    + destruct (s_closed st); inversion H; subst; mnone.
    + destruct (mem_N id (s_done st)); [|discriminate]. inversion H; subst; mnone.
    + destruct (mem_N id (s_done st)); [|discriminate]. destruct closing; inversion H; subst; mnone.
    + destruct (s_pc st); inversion H; subst; mnone.
    + destruct (s_pc st); try destruct (s_stop_msgs st <? stop_cap c); inversion H; subst; mnone.
    + inversion H; subst; mnone.
    + destruct (s_pol_closed st); inversion H; subst; mnone.
    + destruct (s_wpc st); [destruct (s_pol_stop_msgs st <? stop_cap c)|]; inversion H; subst; mnone.
    + inversion H; subst; mnone.
    + inversion H; subst; mnone.
  - unfold proc_step in H. unfold evs_spec. destruct (s_pc st) eqn:PC; try discriminate.
    + left. destruct (h_arm h) as [[| | |]|]; try discriminate.
      * destruct (s_buf st) as [|it r]; [discriminate|]. unfold proc_handle_item in H. destruct it.
        -- destruct (pol_add _ _ _ _ _) eqn:PA; try discriminate. inversion H; subst.
           exists mets. unfold emit. rewrite Hm. sproj. split; [reflexivity|].
           apply pol_add_ev in PA. eapply Forall_impl; [|exact PA]. intros e He; left; exact He.
        -- destruct (sl_update _ _ _) as [[s' b] m] eqn:U. inversion H; subst.
           exists m. unfold emit. rewrite Hm. sproj. split; [reflexivity|].
           apply sl_update_ev in U. eapply Forall_impl; [|exact U]. intros e He; left; exact He.
        -- destruct (pol_remove _ _) as [s' m] eqn:PR. inversion H; subst.
           exists m. unfold emit. rewrite Hm. sproj. split; [reflexivity|].
           apply pol_remove_ev in PR. eapply Forall_impl; [|exact PR]. intros e He; left; exact He.
        -- inversion H; subst. mnone.
      * destruct (s_clear_sigs st); [discriminate|]. unfold drain_buffer in H. sproj.
        destruct (drain_items _ _ _) as [d cb]. inversion H; subst. mnone.
      * destruct (s_ticks st =? 0); [discriminate|]. sproj. destruct (em_cleanup _ _) as [em' due].
        destruct due as [m|].
        -- unfold tick_next in H. destruct m; [|destruct (h_tick_key h); [destruct (aget _ _)|]]; try discriminate;
             try open_prep H; inversion H; subst; mnone.
        -- inversion H; subst. mnone.
      * match type of H with context [match ?t with Some _ => _ | None => StepIllegal 24 end] => destruct t as [st1|] eqn:T end; [|discriminate].
        unfold drain_buffer in H. destruct (drain_items _ _ _) as [d cb]. inversion H; subst. exists []. sproj.
        split; [|constructor].
        destruct (0 <? s_stop_msgs st); [inversion T; subst; reflexivity|].
        destruct (find_offer false (s_clients st)); [|discriminate]. destruct (client_of st n); try discriminate. inversion T; subst. reflexivity.
    + left. destruct added; [open_track H|]; inversion H; subst.
      * exists [(MKeyAdd, 1)]. unfold emit. rewrite Hm. sproj. split; [reflexivity|]. constructor; [right; reflexivity|constructor].
      * mnone.
    + left. unfold next_victim in H. destruct victims; inversion H; subst; mnone.
    + left. destruct v. destruct (st_try_remove _ _ _). open_prep H. unfold next_victim in H. destruct rest; inversion H; subst; mnone.
    + left. destruct (st_try_remove _ _ _). inversion H; subst. mnone.
    + left. inversion H; subst. mnone.
    + left. inversion H; subst. mnone.
    + right. rewrite Hm in H. inversion H; subst. exists sig, h. sproj. auto.
    + left. destruct (st_expiration _ _) as [t|].
      * destruct (negb (t_is_zero t) && t_is_expired (s_now st) t).
        -- destruct (pol_remove _ _) as [s' m] eqn:PR. inversion H; subst.
           exists m. unfold emit. rewrite Hm. sproj. split; [reflexivity|].
           apply pol_remove_ev in PR. eapply Forall_impl; [|exact PR]. intros e He; left; exact He.
        -- unfold tick_next in H. destruct rest; [|destruct (h_tick_key h); [destruct (aget _ _)|]]; try discriminate;
             try open_prep H; inversion H; subst; mnone.
      * unfold tick_next in H. destruct rest; [|destruct (h_tick_key h); [destruct (aget _ _)|]]; try discriminate;
             try open_prep H; inversion H; subst; mnone.
    + left. destruct (st_try_remove _ _ _). unfold tick_next in H. destruct rest; [|destruct (h_tick_key h); [destruct (aget _ _)|]]; try discriminate;
             try open_prep H; inversion H; subst; mnone.
  - left. unfold worker_step in H. destruct (s_wpc st); [|discriminate]. destruct (h_arm h) as [[| | |]|]; try discriminate.
    + destruct (s_pqueue st); [discriminate|]. destruct (tl_increments _ _); [|discriminate]. inversion H; subst. mnone.
    + destruct (0 <? s_pol_stop_msgs st); [inversion H; subst; mnone|].
      destruct (find_offer true (s_clients st)); [|discriminate]. destruct (client_of st n); try discriminate.
      inversion H; subst. mnone.
  - left. inversion H; subst. mnone.
  - left. inversion H; subst. mnone.
Qed.

(* the counter array keeps its eleven slots *)
Lemma MW_step c st l st' o : c_metrics c = true -> MW st -> cstep c st l = StepOk st' o -> MW st'.
Proof.
  intros Hm W H.
  destruct (step_metrics c st l st' o Hm H) as [(evs & E & _)|(sig & h & _ & _ & E)]; unfold MW; rewrite E;
    [rewrite length_m_adds; exact W|reflexivity].
Qed.

Lemma MW_init c mc t now : MW (cinit c mc t now).
Proof. reflexivity. Qed.

(* ---- C15: the get-ring flush ---- *)
Definition push_room (c : cfg) (st : cstate) : bool :=
  match s_wpc st with
  | WExited => false
  | WIdle => match pol_queue_cap c with None => true | Some cap => N.of_nat (length (s_pqueue st)) <? cap end
  end.

(* RingStripe::push, exhaustively: the key joins the pending batch; when the batch reaches
   buffer_items it is handed to the policy and the stripe restarts empty; the policy either queues
   the whole batch for its worker (KeepGets += its length) or — queue full, worker gone — drops it
   (DropGets += its length), or — policy closed — drops it unaccounted.  Nothing else changes. *)
Theorem ring_push_cases c st k :
  let data := s_ring st ++ [k] in
  let n := N.of_nat (length data) in
  (n < c_buffer_items c /\ ring_push c st k = upd_ring st data) \/
  (c_buffer_items c <= n /\ s_pol_closed st = true /\ ring_push c st k = upd_ring st []) \/
  (c_buffer_items c <= n /\ s_pol_closed st = false /\ push_room c st = true /\
     ring_push c st k = emit c (upd_pqueue (upd_ring st []) (s_pqueue st ++ [data])) [(MKeepGets, n)]) \/
  (c_buffer_items c <= n /\ s_pol_closed st = false /\ push_room c st = false /\
     ring_push c st k = emit c (upd_ring st []) [(MDropGets, n)]).
Proof.
  intros data n. unfold ring_push. fold data. fold n. destruct (c_buffer_items c <=? n) eqn:E.
  - right. unfold policy_push. sproj. destruct (s_pol_closed st) eqn:PC.
    + left. split; [lia|]. auto.
    + right. assert (D : data <> []) by (unfold data; destruct (s_ring st); discriminate).
      destruct data as [|d0 dr] eqn:DE; [congruence|]. unfold push_room. sproj.
      destruct (s_wpc st); [destruct (pol_queue_cap c) as [cap|]; [destruct (N.of_nat (length (s_pqueue st)) <? cap)|]|];
        first [left; split; [lia|]; split; [reflexivity|]; split; reflexivity
              |right; split; [lia|]; split; [reflexivity|]; split; reflexivity].
  - left. split; [lia|reflexivity].
Qed.

Definition lookup_started (st : cstate) (l : label) : bool :=
  match l with LOp _ op => is_lookup op && negb (s_closed st) | _ => false end.

(* the pending batch changes only when a lookup starts *)
Lemma step_ring c st l st' o :
  cstep c st l = StepOk st' o -> lookup_started st l = false -> s_ring st' = s_ring st.
Proof.
  intros H NL. destruct l as [a op|a|h|h|dt|]; cbn [lookup_started] in NL.
  - destruct op; cbn [is_lookup andb] in NL; crush_step H; try discriminate NL; unemit; reflexivity.
  - crush_step H; open_shapes; unemit; reflexivity.
  - crush_step H; open_shapes; unemit; reflexivity.
  - crush_step H; open_shapes; unemit; reflexivity.
  - crush_step H; reflexivity.
  - crush_step H; reflexivity.
Qed.

(* the policy's queue grows only by a flush and shrinks only by the worker taking its head *)
Lemma step_pqueue c st l st' o :
  cstep c st l = StepOk st' o -> lookup_started st l = false ->
  s_pqueue st' = s_pqueue st \/ (exists h b, l = LWorker h /\ s_pqueue st = b :: s_pqueue st').
Proof.
  intros H NL. destruct l as [a op|a|h|h|dt|]; cbn [lookup_started] in NL.
  - left. destruct op; cbn [is_lookup andb] in NL; crush_step H; try discriminate NL; unemit; reflexivity.
  - left. crush_step H; open_shapes; unemit; reflexivity.
  - left. crush_step H; open_shapes; unemit; reflexivity.
  - crush_step H; open_shapes; unemit; first [left; reflexivity|right; eauto].
  - left. crush_step H; reflexivity.
  - left. crush_step H; reflexivity.
Qed.

Lemma wrap64_add_l a b : wrap64 (wrap64 a + b) = wrap64 (a + b).
Proof. unfold wrap64. apply N.add_mod_idemp_l. unfold two64. lia. Qed.
Lemma wrap64_add_r a b : wrap64 (a + wrap64 b) = wrap64 (a + b).
Proof. unfold wrap64. apply N.add_mod_idemp_r. unfold two64. lia. Qed.

(* C15: every flushed batch is accounted exactly once.  Taking the counters modulo 2^64 (they are
   wrapping u64s): kept + dropped + pending grows by exactly one per lookup started on an open cache
   while the policy is open, and by nothing on any other step of any actor (metrics reset by clear
   aside). *)
Theorem gets_conservation c st l st' o :
  c_metrics c = true -> MW st -> s_pol_closed st = false -> (forall sig, s_pc st <> PClearAfterStore sig) ->
  cstep c st l = StepOk st' o ->
  wrap64 (gets_accounted st') = wrap64 (gets_accounted st + (if lookup_started st l then 1 else 0)).
Proof.
  intros Hm W PCl NC H. destruct (lookup_started st l) eqn:LS.
  - destruct l as [a op|a|h|h|dt|]; cbn [lookup_started] in LS; try discriminate LS.
    assert (exists k kont, st' = set_client (ring_push c st k) a kont) as (k & kont & ->).
    { destruct op; cbn [is_lookup andb] in LS; try discriminate LS; crush_step H; try discriminate LS; eauto. }
    unfold gets_accounted. sproj.
    destruct (ring_push_cases c st k) as [(A & E)|[(A & B & E)|[(A & B & R & E)|(A & B & R & E)]]]; rewrite E; clear E.
    + sproj. rewrite app_length. cbn [length]. f_equal. lia.
    + congruence.
    + unfold emit. rewrite Hm. sproj. cbn [m_adds fold_left]. rewrite m_get_add_same by exact W.
      rewrite m_get_add_other by discriminate. cbn [length]. rewrite app_length. cbn [length].
      rewrite <- N.add_assoc, wrap64_add_l. f_equal. lia.
    + unfold emit. rewrite Hm. sproj. cbn [m_adds fold_left]. rewrite m_get_add_same by exact W.
      rewrite m_get_add_other by discriminate. cbn [length]. rewrite app_length. cbn [length].
      rewrite (N.add_comm (m_get (s_mets st) MKeepGets)), <- N.add_assoc, wrap64_add_l. f_equal. lia.
  - rewrite N.add_0_r. f_equal. unfold gets_accounted. rewrite (step_ring c st l st' o H LS).
    destruct (step_metrics c st l st' o Hm H) as [(evs & E & S)|(sig & h & _ & X & _)]; [|exfalso; exact (NC sig X)].
    assert (F : Forall (fun e => fst e <> MKeepGets /\ fst e <> MDropGets) evs).
    { destruct l as [a op|a|h|h|dt|]; cbn [evs_spec lookup_started] in *.
      - rewrite LS in S. subst evs. constructor.
      - destruct (client_of st a); try (subst evs; solve [constructor]).
        + destruct S as [(-> & _)|(-> & _)]; repeat constructor; discriminate.
        + subst evs. destruct (st_get _ _ _ _); repeat constructor; discriminate.
      - eapply Forall_impl; [|exact S]. intros [t d] [P|P]; cbn [fst].
        + unfold pol_ev in P. cbn [fst] in P. destruct t; try contradiction; split; discriminate.
        + inversion P; subst. split; discriminate.
      - subst evs. constructor.
      - subst evs. constructor.
      - subst evs. constructor. }
    rewrite E. rewrite !m_get_adds_other; [reflexivity| |]; (eapply Forall_impl; [|exact F]); intros e [X Y]; assumption.
Qed.

(* ---- C15: kept batches reach the estimator, in order, and nothing else feeds or wipes it ---- *)
Theorem worker_applies_batch c st h st' o b r :
  s_wpc st = WIdle -> h_arm h = Some ArmItem -> s_pqueue st = b :: r -> worker_step c st h = StepOk st' o ->
  tl_increments (s_tlfu st) b = Some (s_tlfu st') /\ s_pqueue st' = r.
Proof.
  intros W A Q. unfold worker_step. rewrite W, A, Q. destruct (tl_increments (s_tlfu st) b) as [t'|]; [|discriminate].
  intros H; inversion H; subst. sproj. auto.
Qed.

Theorem step_tlfu c st l st' o :
  cstep c st l = StepOk st' o ->
  s_tlfu st' = s_tlfu st \/
  (exists h b, l = LWorker h /\ s_pqueue st = b :: s_pqueue st' /\ tl_increments (s_tlfu st) b = Some (s_tlfu st')) \/
  (exists h sig, l = LProc h /\ s_pc st = PClearAfterDrain sig /\ s_tlfu st' = tl_clear (s_tlfu st)).
Proof.
  intros H. destruct l as [a op|a|h|h|dt|].
  - left. destruct op; crush_step H; open_shapes; unemit; try reflexivity;
      unfold ring_push, policy_push; repeat match goal with |- context [if ?b then _ else _] => destruct b end;
      try destruct (s_ring st ++ [k]); unemit; reflexivity.
  - left. crush_step H; open_shapes; unemit; reflexivity.
  - crush_step H; open_shapes; unemit; first [left; reflexivity|right; right; eauto].
  - crush_step H; open_shapes; unemit; first [left; reflexivity|right; left; eauto].
  - left. crush_step H; reflexivity.
  - left. crush_step H; reflexivity.
Qed.

(* once the worker has processed a kept batch, the estimate of every key reflects its lookups in
   that batch (saturating at 16), unless the aging window ended inside the batch *)
Theorem kept_batch_is_reflected c st h st' o b r :
  tl_wf (s_tlfu st) -> Forall (fun g => g < two64) b ->
  tl_w (s_tlfu st) + N.of_nat (length b) < tl_samples (s_tlfu st) ->
  s_wpc st = WIdle -> h_arm h = Some ArmItem -> s_pqueue st = b :: r -> worker_step c st h = StepOk st' o ->
  forall k, k < two64 -> exists e, tl_estimate (s_tlfu st') k = Some e /\ N.min 16 (count b k) <= e /\ e <= 16.
Proof.
  intros TW Fb Hw W A Q H k Hk. destruct (worker_applies_batch c st h st' o b r W A Q H) as (E & _).
  exact (estimate_never_undercounts (s_tlfu st) b (s_tlfu st') TW Fb Hw E k Hk).
Qed.

(* ---- C17: lookups are counted as exactly one hit or one miss, when their store access happens ---- *)
Definition lookup_finishes (st : cstate) (l : label) : bool :=
  match l with LClient a => match client_of st a with KGetStore _ _ _ => true | _ => false end | _ => false end.

Theorem hit_miss_conservation c st l st' o :
  c_metrics c = true -> MW st -> (forall sig, s_pc st <> PClearAfterStore sig) ->
  cstep c st l = StepOk st' o ->
  wrap64 (m_get (s_mets st') MHit + m_get (s_mets st') MMiss) =
  wrap64 (m_get (s_mets st) MHit + m_get (s_mets st) MMiss + (if lookup_finishes st l then 1 else 0)).
Proof.
  intros Hm W NC H.
  destruct (step_metrics c st l st' o Hm H) as [(evs & E & S)|(sig & h & _ & X & _)]; [|exfalso; exact (NC sig X)].
  rewrite E. destruct (lookup_finishes st l) eqn:LF.
  - destruct l as [a op|a|h|h|dt|]; cbn [lookup_finishes] in LF; try discriminate LF. cbn [evs_spec] in S.
    destruct (client_of st a); try discriminate LF. subst evs. cbn [m_adds fold_left].
    destruct (st_get _ _ _ _).
    + rewrite m_get_add_same by exact W. rewrite m_get_add_other by discriminate. rewrite wrap64_add_l. f_equal. lia.
    + rewrite m_get_add_same by exact W. rewrite m_get_add_other by discriminate. rewrite wrap64_add_r. f_equal. lia.
  - rewrite N.add_0_r.
    assert (F : Forall (fun e => fst e <> MHit /\ fst e <> MMiss) evs).
    { destruct l as [a op|a|h|h|dt|]; cbn [evs_spec lookup_finishes] in *.
      - destruct (is_lookup op && negb (s_closed st)) eqn:LS; [|subst evs; constructor].
        destruct S as [->|[(n & ->)|(n & ->)]]; repeat constructor; discriminate.
      - destruct (client_of st a); try discriminate LF; try (subst evs; solve [constructor]).
        destruct S as [(-> & _)|(-> & _)]; repeat constructor; discriminate.
      - eapply Forall_impl; [|exact S]. intros [t d] [P|P]; cbn [fst].
        + unfold pol_ev in P. cbn [fst] in P. destruct t; try contradiction; split; discriminate.
        + inversion P; subst. split; discriminate.
      - subst evs. constructor.
      - subst evs. constructor.
      - subst evs. constructor. }
    rewrite !m_get_adds_other; [reflexivity| |]; (eapply Forall_impl; [|exact F]); intros e [X Y]; assumption.
Qed.

(* C17: sets_dropped grows by one exactly when an insert of a non-resident key returns false because
   the insert buffer refused its New item; no other step of any actor touches it *)
Theorem drop_sets_exact c st l st' o :
  c_metrics c = true -> MW st -> (forall sig, s_pc st <> PClearAfterStore sig) ->
  cstep c st l = StepOk st' o ->
  (m_get (s_mets st') MDropSets = wrap64 (m_get (s_mets st) MDropSets + 1) /\
     exists a it k, l = LClient a /\ client_of st a = KInsSend it k /\ is_update it = false /\
                    buf_send c st it = None /\ o_res o = RBool false) \/
  (m_get (s_mets st') MDropSets = m_get (s_mets st) MDropSets /\
     forall a it k, l = LClient a -> client_of st a = KInsSend it k -> o_res o = RBool true).
Proof.
  intros Hm W NC H.
  destruct (step_metrics c st l st' o Hm H) as [(evs & E & S)|(sig & h & _ & X & _)]; [|exfalso; exact (NC sig X)].
  rewrite E.
  assert (G : forall evs', Forall (fun e => fst e <> MDropSets) evs' -> m_get (m_adds (s_mets st) evs') MDropSets = m_get (s_mets st) MDropSets)
    by (intros; apply m_get_adds_other; assumption).
  destruct l as [a op|a|h|h|dt|]; cbn [evs_spec] in S.
  - right. split; [|intros ? ? ? X; discriminate X]. apply G.
    destruct (is_lookup op && negb (s_closed st)); [|subst evs; constructor].
    destruct S as [->|[(n & ->)|(n & ->)]]; repeat constructor; discriminate.
  - destruct (client_of st a) eqn:CA; try (right; split; [subst evs; reflexivity|intros ? ? ? X Y; inversion X; subst; rewrite CA in Y; discriminate Y]).
    + destruct S as [(-> & R)|(-> & R & IU & BS)].
      * right. split; [reflexivity|]. intros ? ? ? X Y. assumption.
      * left. cbn [m_adds fold_left]. rewrite m_get_add_same by exact W. split; [reflexivity|]. exists a, it, k. auto.
    + right. split; [|intros ? ? ? X Y; inversion X; subst; rewrite CA in Y; discriminate Y]. apply G. subst evs.
      destruct (st_get _ _ _ _); repeat constructor; discriminate.
  - right. split; [|intros ? ? ? X; discriminate X]. apply G. eapply Forall_impl; [|exact S]. intros [t d] [P|P]; cbn [fst].
    + unfold pol_ev in P. cbn [fst] in P. destruct t; try contradiction; discriminate.
    + inversion P; subst. discriminate.
  - right. split; [subst evs; reflexivity|intros ? ? ? X; discriminate X].
  - right. split; [subst evs; reflexivity|intros ? ? ? X; discriminate X].
  - right. split; [subst evs; reflexivity|intros ? ? ? X; discriminate X].
Qed.

(* C17: clear() restarts every counter from zero (and resets the life-expectancy histogram), after
   the store has been emptied and before the caller is released *)
Theorem clear_resets_metrics c st h sig :
  c_metrics c = true -> s_pc st = PClearAfterStore sig ->
  exists st', proc_step c st h = StepOk st' (mk_out PtProcLoop [] RNone) /\
    s_mets st' = metrics_zero /\ s_hist st' = hist_clear /\ mem_N sig (s_done st') = true /\
    (forall t, m_get (s_mets st') t = 0).
Proof.
  intros Hm PC. unfold proc_step. rewrite PC, Hm. eexists. split; [reflexivity|]. sproj.
  split; [reflexivity|]. split; [reflexivity|]. split; [cbn [mem_N]; rewrite N.eqb_refl; reflexivity|].
  intros t. destruct t; reflexivity.
Qed.

(* the policy's rejections are counted exactly: one RejectSets per add refused inside the loop *)
Lemma evict_loop_rejects est ih k cost : forall oracle s sample victims log mets s' v a lg m,
  evict_loop est ih k cost oracle s sample victims log mets = AddDone s' v a lg m ->
  exists more, m = mets ++ more /\
    (a = false -> exists ev, more = ev ++ [(MRejectSets, 1)] /\ Forall (fun e => fst e <> MRejectSets) ev) /\
    (a = true -> Forall (fun e => fst e <> MRejectSets) more).
Proof.
  induction oracle as [|smp oracle IH]; intros s sample victims log mets s' v a lg m; cbn [evict_loop].
  - destruct (0 <=? sl_room_left s cost)%Z; [|discriminate]. intros H; inversion H; subst.
    eexists. split; [reflexivity|]. split; [discriminate|]. intros _. repeat constructor. discriminate.
  - destruct (0 <=? sl_room_left s cost)%Z.
    { intros H; inversion H; subst. eexists. split; [reflexivity|]. split; [discriminate|]. intros _. repeat constructor. discriminate. }
    destruct (negb (legal_fill (sl_kc s) sample smp)); [discriminate|].
    destruct (find_min0 est smp) as [[[mk mh] mi] mc].
    destruct (ih <? mh)%Z.
    { intros H; inversion H; subst. eexists. split; [reflexivity|]. split; [|discriminate]. intros _. exists []. split; [reflexivity|constructor]. }
    destruct smp; [discriminate|]. destruct (pol_remove s mk) as [s1 ev] eqn:PR.
    intros H. destruct (IH _ _ _ _ _ _ _ _ _ _ H) as (more & E & Hf & Ht).
    assert (Fev : Forall (fun e => fst e <> MRejectSets) ev).
    { unfold pol_remove in PR. destruct (sl_remove s mk) as [s2 [c0|]]; inversion PR; subst; repeat constructor; discriminate. }
    exists (ev ++ more). split; [rewrite E, app_assoc; reflexivity|]. split.
    + intros Ha. destruct (Hf Ha) as (ev' & -> & F'). exists (ev ++ ev'). split; [rewrite app_assoc; reflexivity|].
      apply Forall_app; split; assumption.
    + intros Ha. apply Forall_app; split; [assumption|apply Ht; assumption].
Qed.

(* ---- C17: the life-expectancy histogram ---- *)
Fixpoint sumZ (l : list Z) : Z := match l with [] => 0%Z | x :: r => (x + sumZ r)%Z end.

Definition hist_ok (h : hist) : Prop := length (h_buckets h) = HIST_BUCKETS /\ h_count h = sumZ (h_buckets h).

Lemma bucket_from_le val : forall fuel i, (bucket_from val i fuel <= i + fuel)%nat.
Proof.
  induction fuel as [|f IH]; intros i; cbn [bucket_from]; [lia|].
  destruct (val <? 2 ^ Z.of_nat (S i))%Z; [lia|]. specialize (IH (S i)). lia.
Qed.

Lemma bucket_idx_lt val : (bucket_idx val < HIST_BUCKETS)%nat.
Proof. unfold bucket_idx, HIST_BUCKETS. pose proof (bucket_from_le val HIST_BOUNDS 0). lia. Qed.

Lemma sumZ_list_set l : forall i, (i < length l)%nat -> sumZ (list_set l i (nth i l 0%Z + 1)%Z) = (sumZ l + 1)%Z.
Proof.
  induction l as [|x l IH]; intros [|i] H; cbn [length] in H; try lia; cbn [list_set nth sumZ].
  - lia.
  - rewrite IH by lia. lia.
Qed.

Lemma hist_new_ok : hist_ok hist_new.
Proof. split; reflexivity. Qed.
Lemma hist_clear_ok : hist_ok hist_clear.
Proof. split; reflexivity. Qed.

(* one sample: count and exactly one bucket grow by one; sum grows by the value *)
Theorem hist_update_spec h v : hist_ok h ->
  hist_ok (hist_update h v) /\ h_count (hist_update h v) = (h_count h + 1)%Z /\ h_sum (hist_update h v) = (h_sum h + v)%Z /\
  sumZ (h_buckets (hist_update h v)) = (sumZ (h_buckets h) + 1)%Z.
Proof.
  intros (L & C). pose proof (bucket_idx_lt v) as B. unfold hist_update, hist_ok. cbn [h_buckets h_count h_sum].
  rewrite length_list_set. rewrite sumZ_list_set by (rewrite L; exact B). repeat split; try assumption; lia.
Qed.

(* every eviction (victim or swept entry) of a tracked key adds exactly one sample and untracks it;
   an untracked key adds nothing *)
Theorem eviction_samples_tracked_key c st k ts :
  c_metrics c = true -> aget k (s_start st) = Some ts -> ts <= s_now st -> hist_ok (s_hist st) ->
  exists st1, prepare_evict c st k = Some st1 /\
    h_count (s_hist st1) = (h_count (s_hist st) + 1)%Z /\ hist_ok (s_hist st1) /\
    h_sum (s_hist st1) = (h_sum (s_hist st) + Z.of_N ((s_now st - ts) / 1000000000))%Z /\
    aget k (s_start st1) = None.
Proof.
  intros Hm G Hle HO. unfold prepare_evict. rewrite Hm, G. destruct (s_now st <? ts) eqn:X; [lia|].
  eexists. split; [reflexivity|]. sproj.
  destruct (hist_update_spec (s_hist st) (Z.of_N ((s_now st - ts) / 1000000000)) HO) as (A & B & C & _).
  split; [exact B|]. split; [exact A|]. split; [exact C|apply aget_adel_same].
Qed.

Theorem eviction_of_untracked_key c st k : aget k (s_start st) = None -> prepare_evict c st k = Some st.
Proof. intros G. unfold prepare_evict. rewrite G. destruct (c_metrics c); reflexivity. Qed.

(* an admitted key is tracked from its admission *)
Theorem admission_tracks_key c st k :
  c_metrics c = true -> N.of_nat (length (s_start st)) <= Consts.NUM_TO_KEEP ->
  exists st1, track_admission c st k = Some st1 /\ aget k (s_start st1) = Some (s_now st) /\ s_hist st1 = s_hist st.
Proof.
  intros Hm L. unfold track_admission. rewrite Hm. destruct (Consts.NUM_TO_KEEP <? N.of_nat (length (s_start st))) eqn:X; [lia|].
  eexists. split; [reflexivity|]. sproj. split; [apply aget_aset_same|reflexivity].
Qed.

Lemma prepare_evict_hist_ok c st k st1 : hist_ok (s_hist st) -> prepare_evict c st k = Some st1 -> hist_ok (s_hist st1).
Proof.
  intros HO. unfold prepare_evict. destruct (c_metrics c); [|intros H; inversion H; subst; assumption].
  destruct (aget k (s_start st)); [|intros H; inversion H; subst; assumption].
  destruct (s_now st <? n); [discriminate|]. intros H; inversion H; subst. sproj. apply hist_update_spec. assumption.
Qed.

Lemma prepare_evicts_hist_ok c cbs : forall st st1, hist_ok (s_hist st) -> prepare_evicts c st cbs = Some st1 -> hist_ok (s_hist st1).
Proof.
  induction cbs as [|cb cbs IH]; intros st st1 HO; cbn [prepare_evicts]; [intros H; inversion H; subst; assumption|].
  destruct cb; try (apply IH; assumption).
  destruct (prepare_evict c st k) as [st0|] eqn:E; [|discriminate]. apply IH. eapply prepare_evict_hist_ok; eassumption.
Qed.

(* the histogram's count equals the sum of its buckets in every reachable state *)
Theorem hist_ok_step c st l st' o : hist_ok (s_hist st) -> cstep c st l = StepOk st' o -> hist_ok (s_hist st').
Proof.
  intros HO H. destruct l as [a op|a|h|h|dt|].
  - destruct op; crush_step H; unemit; try assumption;
      unfold ring_push, policy_push; repeat match goal with |- context [if ?b then _ else _] => destruct b end;
      try destruct (s_ring st ++ [k]); unemit; assumption.
  - crush_step H; unemit; assumption.
  - crush_step H;
      try match goal with TA : track_admission _ _ _ = Some ?x |- _ =>
        let s0 := fresh "s0" in destruct (track_admission_shape _ _ _ _ TA) as (s0 & ->) end;
      try match goal with PE : prepare_evicts _ ?s0 _ = Some ?x |- _ =>
        assert (hist_ok (s_hist x)) by (eapply prepare_evicts_hist_ok; [|exact PE]; unemit; exact HO) end;
      unemit; try assumption; apply hist_clear_ok.
  - crush_step H; unemit; assumption.
  - crush_step H; assumption.
  - crush_step H; assumption.
Qed.
