(* Metrics.v — model of src/metrics.rs: eleven u64 counters (striping abstracted to the sum; the
   stripe index (hash % 25) * 10 < 256 is a separate lemma) and the metric events the policy and
   the cache emit. *)
From StrettoModel Require Export Base.
Open Scope N_scope.

Inductive mtype :=
| MHit | MMiss | MKeyAdd | MKeyUpdate | MKeyEvict | MCostAdd | MCostEvict
| MDropSets | MRejectSets | MDropGets | MKeepGets.

Definition mtype_idx (t : mtype) : nat :=
  match t with
  | MHit => 0 | MMiss => 1 | MKeyAdd => 2 | MKeyUpdate => 3 | MKeyEvict => 4
  | MCostAdd => 5 | MCostEvict => 6 | MDropSets => 7 | MRejectSets => 8
  | MDropGets => 9 | MKeepGets => 10
  end%nat.

(* an event: counter, delta (already a u64) *)
Definition mevent := (mtype * N)%type.

Definition metrics := list N.   (* 11 counters, MetricType order *)
Definition metrics_zero : metrics := repeat 0 11.

Definition m_get (m : metrics) (t : mtype) : N := nth (mtype_idx t) m 0.

(* fetch_add on an AtomicU64 wraps *)
Definition m_add (m : metrics) (e : mevent) : metrics :=
  let '(t, d) := e in
  list_set m (mtype_idx t) (wrap64 (m_get m t + d)).

Definition m_adds (m : metrics) (es : list mevent) : metrics := fold_left m_add es m.

(* stripe index used by MetricsInner::add *)
Definition stripe_idx (hash : N) : N := (hash mod 25) * 10.
