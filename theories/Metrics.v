(* Metrics.v — model of src/metrics.rs: eleven u64 counters (striping abstracted to the sum; the
   stripe index (hash % 25) * 10 < 256 is a separate lemma) and the metric events the policy and
   the cache emit. *)
From StrettoModel Require Export Base.
From StrettoModel Require Consts.
Open Scope N_scope.

Inductive mtype :=
| MHit | MMiss | MKeyAdd | MKeyUpdate | MKeyEvict | MCostAdd | MCostEvict
| MDropSets | MRejectSets | MDropGets | MKeepGets.

Definition mtype_idx (t : mtype) : nat :=
  match t with
  | MHit => 0 | MMiss => 1 | MKeyAdd => 2 | MKeyUpdate => 3 | MKeyEvict => 4
  | MCostAdd => 5 | MCostEvict => 6 | MDropSets => 7 | MRejectSets => 8
  | MDropGets => 9 | MKeepGets => 10
  end%nat.

(* an event: counter, delta (already a u64) *)
Definition mevent := (mtype * N)%type.

Definition metrics := list N.   (* 11 counters, MetricType order *)
Definition metrics_zero : metrics := repeat 0 11.

Definition m_get (m : metrics) (t : mtype) : N := nth (mtype_idx t) m 0.

(* fetch_add on an AtomicU64 wraps *)
Definition m_add (m : metrics) (e : mevent) : metrics :=
  let '(t, d) := e in
  list_set m (mtype_idx t) (wrap64 (m_get m t + d)).

Definition m_adds (m : metrics) (es : list mevent) : metrics := fold_left m_add es m.

(* stripe index used by MetricsInner::add *)
Definition stripe_idx (hash : N) : N := (hash mod 25) * 10.

(* ---- the life-expectancy histogram (src/histogram.rs): bounds 2^1 .. 2^16, seventeen buckets ---- *)
Record hist := { h_count : Z; h_sum : Z; h_min : Z; h_max : Z; h_buckets : list Z }.

Definition HIST_BOUNDS : nat := N.to_nat Consts.HISTOGRAM_BOUND_SIZE.
Definition HIST_BUCKETS : nat := S HIST_BOUNDS.
Definition hist_new : hist :=
  {| h_count := 0%Z; h_sum := 0%Z; h_min := I64MAX; h_max := 0%Z; h_buckets := repeat 0%Z HIST_BUCKETS |}.
(* Histogram::clear stores 0 into min as well *)
Definition hist_clear : hist :=
  {| h_count := 0%Z; h_sum := 0%Z; h_min := 0%Z; h_max := 0%Z; h_buckets := repeat 0%Z HIST_BUCKETS |}.

(* index of the first bound 2^(i+1) strictly above val; the last bucket otherwise *)
Fixpoint bucket_from (val : Z) (i : nat) (fuel : nat) : nat :=
  match fuel with
  | O => i
  | S f => if (val <? 2 ^ Z.of_nat (S i))%Z then i else bucket_from val (S i) f
  end.
Definition bucket_idx (val : Z) : nat := bucket_from val 0 HIST_BOUNDS.

Definition hist_update (h : hist) (val : Z) : hist :=
  let i := bucket_idx val in
  {| h_count := (h_count h + 1)%Z; h_sum := (h_sum h + val)%Z;
     h_min := if (val <? h_min h)%Z then val else h_min h;
     h_max := if (h_max h <? val)%Z then val else h_max h;
     h_buckets := list_set (h_buckets h) i (nth i (h_buckets h) 0%Z + 1)%Z |}.
