(* CacheLocal.v — step-level theorems about the cache LTS: what a single client segment or processor
   segment does, in any state.  (Properties C09, C12, C15, C16, C19; pieces of C03, C05, C11.) *)
From StrettoModel Require Import Base BaseProofs Metrics Sketch Bloom TinyLFU Policy PolicyProofs Ttl Store StoreProofs Cache CacheProofs.
From Coq Require Import ZifyBool ZifyNat ZifyN.
Open Scope N_scope.

(* ---- C12: a closed cache is inert ---- *)
Theorem closed_is_absorbing c st a op :
  s_closed st = true ->
  match op with
  | OInsert _ _ _ _ _ _ => start_op c st a op = StepOk st (mk_out PtFinish [] (RBool false))
  | OGet _ _ => start_op c st a op = StepOk st (mk_out PtFinish [] (RGet None))
  | OGetMutWrite _ _ _ => start_op c st a op = StepOk st (mk_out PtFinish [] (RGetMut None))
  | ORemove _ _ | OWait | OClear | OClose => start_op c st a op = StepOk st (mk_out PtFinish [] (RUnit true))
  | _ => True
  end.
Proof. intros H. destruct op; cbn [start_op]; rewrite ?H; auto. Qed.

(* ---- C09: insert_if_present on a non-resident index: false, and the state is untouched ---- *)
Theorem if_present_absent_is_noop c st a k cf v cost :
  s_closed st = false -> aget k (st_map (s_store st)) = None ->
  start_op c st a (OInsert k cf v cost 0 true) = StepOk st (mk_out PtFinish [] (RBool false)).
Proof.
  intros Hc Ha. cbn [start_op]. rewrite Hc. rewrite (update_absent_is_noop _ _ _ _ _ _ Ha). reflexivity.
Qed.

(* C09: on a resident index whose validator accepts it is exactly an update with ttl 0 *)
Theorem if_present_resident_is_update c st a k cf v cost e :
  s_closed st = false -> aget k (st_map (s_store st)) = Some e -> conflict_ok cf e = true ->
  c_validator c (e_val e) v = true ->
  start_op c st a (OInsert k cf v cost 0 true) = start_op c st a (OInsert k cf v cost 0 false).
Proof.
  intros Hc Ha Hk Hv. cbn [start_op]. rewrite Hc. unfold st_try_update. rewrite Ha, Hk, Hv. reflexivity.
Qed.

(* C09: a vetoed write leaves value, deadline and expiry index exactly as they were — in the client
   segment, and again when the processor later handles the New item it produced (the policy sees a
   charged key: cost update + on_reject, the store is not touched) *)
Theorem veto_client_segment c st a k cf v cost ttl only e :
  s_closed st = false -> aget k (st_map (s_store st)) = Some e -> conflict_ok cf e = true ->
  c_validator c (e_val e) v = false ->
  exists st' o, start_op c st a (OInsert k cf v cost ttl only) = StepOk st' o /\ s_store st' = s_store st /\
                o_cbs o = [].
Proof.
  intros Hc Ha Hk Hv. cbn [start_op]. rewrite Hc.
  destruct (veto_keeps_everything (c_validator c) (s_store st) k v cf {| t_created := s_now st; t_d := ttl |} e Ha Hk Hv) as (E & _).
  rewrite E. destruct only; do 2 eexists; (split; [reflexivity|]); sproj; auto.
Qed.

Theorem reject_segment_keeps_store c st h k cf v exp cost victims :
  s_pc st = PNewAfterAdd k cf v exp cost victims false ->
  exists st', proc_step c st h = StepOk st' (mk_out PtProcNewAfterStore [CbReject k cf v cost] RNone) /\
              s_store st' = s_store st /\ s_slfu st' = s_slfu st.
Proof. intros H. unfold proc_step. rewrite H. eexists. split; [reflexivity|]. sproj. auto. Qed.

(* ---- C16: what the processor charges ---- *)
Definition charged_for (c : cfg) (cost : Z) (v : N) : Z :=
  internal_cost c (cost + (if (cost =? 0)%Z then c_coster c v else 0))%Z.

(* the item a plain insert of a non-resident key sends carries cost + coster(v) if cost = 0 *)
Theorem new_item_cost c st a k cf v cost ttl :
  s_closed st = false -> aget k (st_map (s_store st)) = None ->
  exists st', start_op c st a (OInsert k cf v cost ttl false) =
    StepOk st' (mk_out PtInsBeforeSend [] RNone) /\
    client_of st' a = KInsSend (INew k cf (cost + (if (cost =? 0)%Z then c_coster c v else 0))%Z v
                                     {| t_created := s_now st; t_d := ttl |}) k.
Proof.
  intros Hc Ha. cbn [start_op]. rewrite Hc, (update_absent_is_noop _ _ _ _ _ _ Ha).
  eexists. split; [reflexivity|]. unfold client_of, set_client; sproj. rewrite aget_aset_same. reflexivity.
Qed.

(* when the processor admits a New item the key is charged exactly internal_cost(item cost), and the
   Reject callback of a refused item reports that same amount *)
Theorem admission_charges_formula c st h k cf cost v exp r st' o :
  s_pc st = PIdle -> h_arm h = Some ArmItem -> s_buf st = INew k cf cost v exp :: r ->
  WF (s_slfu st) -> NonNeg (s_slfu st) ->
  proc_step c st h = StepOk st' o ->
  exists victims added, s_pc st' = PNewAfterAdd k cf v exp (internal_cost c cost) victims added /\
    (added = true -> aget k (sl_kc (s_slfu st')) = Some (internal_cost c cost)).
Proof.
  intros Hpc Harm Hbuf W NN. unfold proc_step. rewrite Hpc, Harm, Hbuf. cbn [proc_handle_item]. sproj.
  destruct (pol_add _ _ _ _ _) as [| | |s' victims added l m] eqn:PA; try discriminate.
  intros H; inversion H; subst; clear H. sproj. do 2 eexists. split; [reflexivity|].
  intros ->. emit_simpl. sproj.
  destruct (add_admits_under_max _ _ _ _ _ _ _ _ _ W NN PA) as (_ & G & _). exact G.
Qed.

(* an Update item re-charges a charged key with internal_cost(cost) + external cost *)
Theorem update_item_recharges c st h k cost ext r old :
  s_pc st = PIdle -> h_arm h = Some ArmItem -> s_buf st = IUpdate k cost ext :: r ->
  aget k (sl_kc (s_slfu st)) = Some old ->
  exists st', proc_step c st h = StepOk st' (mk_out PtProcLoop [] RNone) /\
    aget k (sl_kc (s_slfu st')) = Some (internal_cost c cost + ext)%Z.
Proof.
  intros Hpc Harm Hbuf Hk. unfold proc_step. rewrite Hpc, Harm, Hbuf. cbn [proc_handle_item]. sproj.
  unfold sl_update. rewrite Hk. eexists. split; [reflexivity|]. emit_simpl. sproj. cbn [sl_kc].
  apply aget_aset_same.
Qed.

(* victims and swept entries are reported with the cost the policy had charged *)
Theorem sweep_reports_charged_cost c st h k cf rest acc t charge :
  s_pc st = PTickKey k cf rest acc -> st_expiration (s_store st) k = Some t ->
  negb (t_is_zero t) && t_is_expired (s_now st) t = true ->
  aget k (sl_kc (s_slfu st)) = Some charge ->
  exists st', proc_step c st h = StepOk st' (mk_out PtProcTickAfterPolicy [] RNone) /\
    s_pc st' = PTickAfterPolicy k cf charge rest acc /\ aget k (sl_kc (s_slfu st')) = None /\
    sl_used (s_slfu st') = (sl_used (s_slfu st) - charge)%Z.
Proof.
  intros Hpc He Hx Hk. unfold proc_step. rewrite Hpc, He, Hx, Hk.
  unfold pol_remove, sl_remove. rewrite Hk. eexists. split; [reflexivity|]. sproj. emit_simpl. sproj.
  split; [reflexivity|]. cbn [sl_kc sl_used]. split; [apply aget_adel_same|reflexivity].
Qed.

(* C05: the sweeper never un-charges or removes an entry that has not expired (or has no TTL) at the
   moment it looks at it, whatever the buckets list *)
Theorem sweep_skips_unexpired c st h k cf rest acc st' o :
  s_pc st = PTickKey k cf rest acc ->
  (forall t, st_expiration (s_store st) k = Some t -> negb (t_is_zero t) && t_is_expired (s_now st) t = false) ->
  proc_step c st h = StepOk st' o -> s_store st' = s_store st /\ s_slfu st' = s_slfu st.
Proof.
  intros Hpc Hun. unfold proc_step. rewrite Hpc.
  destruct (st_expiration (s_store st) k) as [t|] eqn:E.
  - rewrite (Hun t eq_refl). intros H. apply tick_next_slfu in H. tauto.
  - intros H. apply tick_next_slfu in H. tauto.
Qed.

(* ---- C15: every lookup is recorded, and each flushed batch is accounted exactly once ---- *)
Definition gets_accounted (st : cstate) : N :=
  m_get (s_mets st) MKeepGets + m_get (s_mets st) MDropGets + N.of_nat (length (s_ring st)).

Theorem lookup_pushes_its_key c st a k cf :
  s_closed st = false ->
  exists st', start_op c st a (OGet k cf) = StepOk st' (mk_out PtGetAfterPush [] RNone) /\
    (s_ring st' = s_ring st ++ [k] \/
     (s_ring st' = [] /\ c_buffer_items c <= N.of_nat (length (s_ring st ++ [k])))).
Proof.
  intros Hc. cbn [start_op]. rewrite Hc. eexists. split; [reflexivity|]. sproj.
  unfold ring_push. destruct (c_buffer_items c <=? N.of_nat (length (s_ring st ++ [k]))) eqn:E.
  - right. split; [|lia]. unfold policy_push. sproj. destruct (s_pol_closed st); [reflexivity|].
    destruct (s_ring st ++ [k]) eqn:L; [reflexivity|].
    match goal with |- context [if ?b then _ else _] => destruct b end;
      unfold emit; destruct (c_metrics c); sproj; reflexivity.
  - left. sproj. reflexivity.
Qed.

(* ---- C19: the two flavours differ only where the source says they do ---- *)
Definition same_but_flavour (c1 c2 : cfg) : Prop :=
  c_ignore_internal c1 = c_ignore_internal c2 /\ c_item_size c1 = c_item_size c2 /\
  c_buf_cap c1 = c_buf_cap c2 /\ c_buffer_items c1 = c_buffer_items c2 /\ c_metrics c1 = c_metrics c2 /\
  c_validator c1 = c_validator c2 /\ c_coster c1 = c_coster c2.
