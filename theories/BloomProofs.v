(* BloomProofs.v — the doorkeeper Bloom filter (property C14). *)
From StrettoModel Require Import Base BaseProofs Bloom SketchProofs.
From Coq Require Import ZifyBool ZifyNat ZifyN.
Open Scope N_scope.
Ltac Zify.zify_post_hook ::= Z.div_mod_to_equations.

(* the bit array as a function of the bit position *)
Definition bit (ws : list N) (p : N) : bool :=
  match nth_error ws (word_of p) with
  | Some x => N.testbit x (p mod 64)
  | None => false
  end.

(* byte-then-bit addressing inside a little-endian word is plain bit p mod 64 *)
Lemma bit_in_word_mod idx : bit_in_word idx = idx mod 64.
Proof. unfold bit_in_word. lia. Qed.

Lemma word_of_div p : word_of p = N.to_nat (p / 64).
Proof. unfold word_of. rewrite N.shiftr_div_pow2. reflexivity. Qed.

(* distinct positions are distinct (word, bit) pairs: the addressing is injective *)
Theorem bit_addressing_injective p q :
  word_of p = word_of q -> bit_in_word p = bit_in_word q -> p = q.
Proof. rewrite !word_of_div, !bit_in_word_mod. lia. Qed.

Lemma ws_is_set_bit ws idx v : ws_is_set ws idx = Some v -> v = bit ws idx.
Proof.
  unfold ws_is_set, bit. rewrite bit_in_word_mod. destruct (nth_error ws (word_of idx)); [|discriminate].
  intros H; inversion H; reflexivity.
Qed.

(* `set idx` changes exactly bit idx *)
Lemma ws_set_spec ws idx ws' :
  ws_set ws idx = Some ws' ->
  length ws' = length ws /\ forall p, bit ws' p = N.eqb p idx || bit ws p.
Proof.
  unfold ws_set. destruct (nth_error ws (word_of idx)) as [x|] eqn:E; [|discriminate].
  intros H; inversion H; subst; clear H. split; [apply length_list_set|].
  assert (Hlt : (word_of idx < length ws)%nat) by (apply nth_error_Some; congruence).
  intros p. unfold bit. destruct (Nat.eq_dec (word_of p) (word_of idx)) as [Hw|Hw].
  - rewrite Hw, nth_error_list_set_same by assumption. rewrite E.
    change (N.pos (Pos.shiftl 1 (bit_in_word idx))) with (N.shiftl 1 (bit_in_word idx)).
    rewrite N.lor_spec, N.shiftl_1_l, N.pow2_bits_eqb, bit_in_word_mod.
    rewrite orb_comm. f_equal.
    rewrite !word_of_div in Hw.
    destruct (N.eqb_spec (idx mod 64) (p mod 64)), (N.eqb_spec p idx); try reflexivity; exfalso; lia.
  - rewrite nth_error_list_set_other by auto.
    destruct (N.eqb_spec p idx) as [->|_]; [congruence|reflexivity].
Qed.

Lemma ws_set_some ws idx : (word_of idx < length ws)%nat -> exists ws', ws_set ws idx = Some ws'.
Proof.
  intros H. unfold ws_set. destruct (nth_error ws (word_of idx)) eqn:E; [eauto|].
  apply nth_error_None in E. lia.
Qed.

(* ---- well-formed filters ---- *)
Definition bl_wf (b : bloom) : Prop :=
  N.of_nat (length (bl_words b)) * 64 = bl_size b + 1 /\
  bl_size b + 1 = 2 ^ bl_exp b /\ bl_shift b = 64 - bl_exp b /\ bl_exp b <= 64 /\
  bl_locs b * 2 ^ bl_exp b <= two64.

Lemma loc_in_range b hash i idx :
  bl_wf b -> bl_loc b hash i = Some idx -> idx <= bl_size b /\ (word_of idx < length (bl_words b))%nat.
Proof.
  intros (L & _) H. unfold bl_loc in H.
  destruct (bl_hi b hash + i * bl_lo b hash <? two64); [|discriminate]. inversion H; subst; clear H.
  pose proof (land_le_mask (bl_hi b hash + i * bl_lo b hash) (bl_size b)) as Hle.
  split; [assumption|]. rewrite word_of_div. lia.
Qed.

Lemma hi_lo_bounds b hash : bl_wf b -> hash < two64 ->
  bl_hi b hash < 2 ^ bl_exp b /\ bl_lo b hash < 2 ^ bl_exp b.
Proof.
  intros (_ & _ & Hs & He & _) Hh. unfold bl_hi, bl_lo. rewrite Hs, !N.shiftr_div_pow2.
  assert (P : 2 ^ (64 - bl_exp b) * 2 ^ bl_exp b = two64).
  { rewrite <- N.pow_add_r. replace (64 - bl_exp b + bl_exp b) with 64 by lia. reflexivity. }
  assert (Pp : 0 < 2 ^ (64 - bl_exp b)) by (apply N.neq_0_lt_0, N.pow_nonzero; lia).
  assert (W : wrap64 (N.shiftl hash (64 - bl_exp b)) < two64) by (unfold wrap64; apply N.mod_lt; unfold two64; lia).
  split; apply N.div_lt_upper_bound; lia.
Qed.

Lemma loc_some b hash i : bl_wf b -> hash < two64 -> i < bl_locs b ->
  exists idx, bl_loc b hash i = Some idx.
Proof.
  intros W Hh Hi. destruct (hi_lo_bounds b hash W Hh) as (H1 & H2).
  destruct W as (_ & _ & _ & _ & Hov). unfold bl_loc.
  assert (bl_hi b hash + i * bl_lo b hash < two64) as Hlt by nia.
  apply N.ltb_lt in Hlt. rewrite Hlt. eauto.
Qed.

(* ---- add ---- *)
Lemma ws_add_spec b hash : bl_wf b -> hash < two64 -> forall n ws i,
  length ws = length (bl_words b) -> i + N.of_nat n <= bl_locs b ->
  exists ws', ws_add b hash ws i n = Some ws' /\ length ws' = length ws /\
    forall p, bit ws' p = true <->
      bit ws p = true \/ exists j, i <= j < i + N.of_nat n /\ bl_loc b hash j = Some p.
Proof.
  intros W Hh. induction n as [|n IH]; intros ws i Hl Hi; cbn [ws_add].
  - exists ws. split; [reflexivity|]. split; [reflexivity|]. intros p. split; [auto|].
    intros [H|(j & Hj & _)]; [assumption|lia].
  - destruct (loc_some b hash i W Hh ltac:(lia)) as (idx & Hloc). rewrite Hloc.
    destruct (loc_in_range b hash i idx W Hloc) as (_ & Hw). rewrite <- Hl in Hw.
    destruct (ws_set_some ws idx Hw) as (ws1 & Hset). rewrite Hset.
    destruct (ws_set_spec ws idx ws1 Hset) as (L1 & B1).
    destruct (IH ws1 (i + 1) ltac:(congruence) ltac:(lia)) as (ws' & Hadd & L' & B').
    exists ws'. split; [assumption|]. split; [congruence|].
    intros p. rewrite B', B1, orb_true_iff, N.eqb_eq. split.
    + intros [[->|H]|(j & Hj & Hlj)]; [right; exists i; split; [lia|assumption]|auto|right; exists j; split; [lia|assumption]].
    + intros [H|(j & Hj & Hlj)]; [auto|].
      destruct (N.eq_dec j i) as [->|Hne].
      * left. left. congruence.
      * right. exists j. split; [lia|assumption].
Qed.

Theorem bl_add_spec b hash : bl_wf b -> hash < two64 ->
  exists b', bl_add b hash = Some b' /\ bl_wf b' /\
    bl_size b' = bl_size b /\ bl_exp b' = bl_exp b /\ bl_locs b' = bl_locs b /\ bl_shift b' = bl_shift b /\
    forall p, bit (bl_words b') p = true <->
      bit (bl_words b) p = true \/ exists j, j < bl_locs b /\ bl_loc b hash j = Some p.
Proof.
  intros W Hh.
  destruct (ws_add_spec b hash W Hh (N.to_nat (bl_locs b)) (bl_words b) 0 eq_refl ltac:(lia))
    as (ws' & Hadd & L' & B').
  unfold bl_add. rewrite Hadd. eexists. split; [reflexivity|].
  split.
  - destruct W as (W1 & W2 & W3 & W4 & W5). unfold bl_wf, with_words; cbn [bl_words bl_size bl_exp bl_locs bl_shift].
    rewrite L'. auto.
  - cbn [with_words bl_words bl_size bl_exp bl_locs bl_shift]. repeat split; try reflexivity.
    + intros H. apply B' in H. destruct H as [H|(j & Hj & Hlj)]; [auto|right; exists j; split; [lia|assumption]].
    + intros [H|(j & Hj & Hlj)]; apply B'; [auto|right; exists j; split; [lia|assumption]].
Qed.

(* ---- contains ---- *)
Lemma ws_contains_spec b hash : bl_wf b -> hash < two64 -> forall n i,
  i + N.of_nat n <= bl_locs b ->
  exists v, ws_contains b hash i n = Some v /\
    (v = true <-> forall j, i <= j < i + N.of_nat n ->
                    exists p, bl_loc b hash j = Some p /\ bit (bl_words b) p = true).
Proof.
  intros W Hh. induction n as [|n IH]; intros i Hi; cbn [ws_contains].
  - exists true. split; [reflexivity|]. split; [intros _ j Hj; lia|reflexivity].
  - destruct (loc_some b hash i W Hh ltac:(lia)) as (idx & Hloc). rewrite Hloc.
    destruct (loc_in_range b hash i idx W Hloc) as (_ & Hw).
    unfold ws_is_set. destruct (nth_error (bl_words b) (word_of idx)) as [x|] eqn:E;
      [|apply nth_error_None in E; lia].
    assert (Hb : N.testbit x (bit_in_word idx) = bit (bl_words b) idx)
      by (unfold bit; rewrite E, bit_in_word_mod; reflexivity).
    rewrite Hb. destruct (bit (bl_words b) idx) eqn:Bi.
    + destruct (IH (i + 1) ltac:(lia)) as (v & Hv & Hiff). exists v. split; [assumption|].
      rewrite Hiff. split.
      * intros H j Hj. destruct (N.eq_dec j i) as [->|Hne]; [exists idx; auto|apply H; lia].
      * intros H j Hj. apply H. lia.
    + exists false. split; [reflexivity|]. split; [discriminate|].
      intros H. destruct (H i ltac:(lia)) as (p & Hp & Hbit). congruence.
Qed.

Theorem bl_contains_spec b hash : bl_wf b -> hash < two64 ->
  exists v, bl_contains b hash = Some v /\
    (v = true <-> forall j, j < bl_locs b ->
                    exists p, bl_loc b hash j = Some p /\ bit (bl_words b) p = true).
Proof.
  intros W Hh. destruct (ws_contains_spec b hash W Hh (N.to_nat (bl_locs b)) 0 ltac:(lia)) as (v & Hv & Hiff).
  exists v. split; [exact Hv|]. rewrite Hiff. split; intros H j Hj; apply H; lia.
Qed.

Lemma bl_loc_indep b b' hash j :
  bl_size b' = bl_size b -> bl_shift b' = bl_shift b -> bl_loc b' hash j = bl_loc b hash j.
Proof. intros H1 H2. unfold bl_loc, bl_hi, bl_lo. rewrite H1, H2. reflexivity. Qed.

(* no false negatives, one step: after add, the hash is present and nothing present is lost *)
Theorem bl_add_contains b hash b' : bl_wf b -> hash < two64 -> bl_add b hash = Some b' ->
  bl_contains b' hash = Some true /\
  forall g, g < two64 -> bl_contains b g = Some true -> bl_contains b' g = Some true.
Proof.
  intros W Hh Ha. destruct (bl_add_spec b hash W Hh) as (b2 & Ha2 & W2 & S1 & S2 & S3 & S4 & B).
  rewrite Ha in Ha2. inversion Ha2; subst b2; clear Ha2.
  split.
  - destruct (bl_contains_spec b' hash W2 Hh) as (v & Hv & Hiff). rewrite Hv. f_equal. apply Hiff.
    intros j Hj. rewrite S3 in Hj. destruct (loc_some b hash j W Hh Hj) as (p & Hp).
    exists p. rewrite (bl_loc_indep b b') by assumption. split; [assumption|]. apply B. right. eauto.
  - intros g Hg Hc. destruct (bl_contains_spec b g W Hg) as (v & Hv & Hiff). rewrite Hv in Hc. inversion Hc; subst v.
    destruct (bl_contains_spec b' g W2 Hg) as (v' & Hv' & Hiff'). rewrite Hv'. f_equal. apply Hiff'.
    intros j Hj. rewrite S3 in Hj. destruct (proj1 Hiff eq_refl j Hj) as (p & Hp & Hb).
    exists p. rewrite (bl_loc_indep b b') by assumption. split; [assumption|]. apply B. auto.
Qed.

Theorem bl_coa_spec b hash : bl_wf b -> hash < two64 ->
  exists added b', bl_contains_or_add b hash = Some (added, b') /\ bl_wf b' /\
    bl_contains b hash = Some (negb added) /\
    bl_contains b' hash = Some true /\
    (added = false -> b' = b) /\ (added = true -> bl_add b hash = Some b') /\
    forall g, g < two64 -> bl_contains b g = Some true -> bl_contains b' g = Some true.
Proof.
  intros W Hh. unfold bl_contains_or_add.
  destruct (bl_contains_spec b hash W Hh) as (v & Hv & _). rewrite Hv. destruct v.
  - exists false, b. split; [reflexivity|]. split; [assumption|]. split; [reflexivity|]. split; [exact Hv|].
    split; [reflexivity|]. split; [discriminate|auto].
  - destruct (bl_add_spec b hash W Hh) as (b' & Ha & W' & _). rewrite Ha.
    destruct (bl_add_contains b hash b' W Hh Ha) as (C1 & C2).
    exists true, b'. split; [reflexivity|]. split; [assumption|]. split; [reflexivity|]. split; [assumption|].
    split; [discriminate|]. split; [intros _; reflexivity|assumption].
Qed.

(* reset / clear empty the filter completely *)
Theorem bl_reset_spec b : bl_wf b ->
  bl_wf (bl_reset b) /\ (forall p, bit (bl_words (bl_reset b)) p = false) /\
  forall g, g < two64 -> 1 <= bl_locs b -> bl_contains (bl_reset b) g = Some false.
Proof.
  intros W. assert (W' : bl_wf (bl_reset b)).
  { destruct W as (W1 & W2 & W3 & W4 & W5). unfold bl_wf, bl_reset, with_words; cbn [bl_words bl_size bl_exp bl_locs bl_shift].
    rewrite map_length. auto. }
  assert (Z : forall p, bit (bl_words (bl_reset b)) p = false).
  { intros p. unfold bit, bl_reset, with_words; cbn [bl_words]. rewrite nth_error_map.
    destruct (nth_error (bl_words b) (word_of p)); [apply N.bits_0|reflexivity]. }
  split; [assumption|]. split; [assumption|].
  intros g Hg Hl. destruct (bl_contains_spec (bl_reset b) g W' Hg) as (v & Hv & Hiff). rewrite Hv. f_equal.
  destruct v; [|reflexivity]. destruct (proj1 Hiff eq_refl 0) as (p & _ & Hb).
  - unfold bl_reset, with_words; cbn [bl_locs]. lia.
  - rewrite Z in Hb. discriminate.
Qed.

(* get_size: the smallest power of two >= max n 512 *)
Theorem get_size_spec n : let '(sz, e) := get_size n in
  sz = 2 ^ e /\ N.max n 512 <= sz /\ 9 <= e /\ (e = 9 \/ 2 ^ (e - 1) < N.max n 512).
Proof.
  unfold get_size. set (m := N.max n 512). assert (Hm : 512 <= m) by (unfold m; lia).
  split; [reflexivity|]. assert (1 < m) by lia.
  destruct (N.log2_up_spec m H) as (Lo & Hi). split; [assumption|].
  assert (9 <= N.log2_up m).
  { change 9 with (N.log2_up 512). apply N.log2_up_le_mono. assumption. }
  split; [assumption|]. right. replace (N.log2_up m - 1) with (N.pred (N.log2_up m)) by lia. assumption.
Qed.

(* a filter built by Bloom::new is well-formed as soon as its probe count does not overflow u64 *)
Theorem bl_new_wf entries locs :
  N.log2_up (N.max entries 512) <= 64 -> locs * 2 ^ N.log2_up (N.max entries 512) <= two64 ->
  bl_wf (bl_new entries locs) /\ forall p, bit (bl_words (bl_new entries locs)) p = false.
Proof.
  intros He Hov. pose proof (get_size_spec entries) as G. unfold bl_new. destruct (get_size entries) as [sz e] eqn:Egs.
  unfold get_size in Egs. inversion Egs; subst; clear Egs. destruct G as (_ & G2 & G3 & _).
  set (e := N.log2_up (N.max entries 512)) in *.
  assert (P : 2 ^ e = 64 * 2 ^ (e - 6)).
  { change 64 with (2 ^ 6). rewrite <- N.pow_add_r. f_equal. lia. }
  split.
  - unfold bl_wf; cbn [bl_words bl_size bl_exp bl_locs bl_shift]. rewrite repeat_length.
    rewrite N.shiftr_div_pow2. change (2 ^ 6) with 64.
    assert (0 < 2 ^ e) by (apply N.neq_0_lt_0, N.pow_nonzero; lia).
    repeat split; lia.
  - intros p. unfold bit; cbn [bl_words]. destruct (nth_error _ _) as [x|] eqn:E; [|reflexivity].
    apply nth_error_In, repeat_spec in E. subst. apply N.bits_0.
Qed.
