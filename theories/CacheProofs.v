(* CacheProofs.v — invariants of the cache LTS that hold for every label sequence, i.e. for every
   history and every schedule of client threads, processor and policy worker. *)
From StrettoModel Require Import Base BaseProofs Metrics Sketch Bloom TinyLFU Policy PolicyProofs Ttl Store Cache.
From Coq Require Import ZifyBool ZifyNat ZifyN.
Open Scope N_scope.

(* ---- projections through the state updaters ---- *)
Ltac sproj :=
  cbn [s_store s_slfu s_tlfu s_ring s_pqueue s_buf s_clear_sigs s_done s_next_id s_ticks s_stop_msgs
       s_pol_stop_msgs s_now s_mets s_hist s_start s_closed s_pol_closed s_pc s_wpc s_clients
       upd_store upd_slfu upd_tlfu upd_ring upd_pqueue upd_buf upd_clear_sigs upd_done upd_next_id
       upd_ticks upd_stop_msgs upd_pol_stop_msgs upd_now upd_mets upd_hist upd_start upd_closed
       upd_pol_closed upd_pc upd_wpc upd_clients set_client fresh_id fst snd] in *.

(* prepare_evict / track_admission write the life-expectancy histogram and start_ts only *)
Lemma prepare_evict_shape c st k st1 : prepare_evict c st k = Some st1 ->
  exists h s, st1 = upd_start (upd_hist st h) s.
Proof.
  unfold prepare_evict. destruct (c_metrics c); [|intros H; inversion H; subst; exists (s_hist st1), (s_start st1); destruct st1; reflexivity].
  destruct (aget k (s_start st)) as [ts|]; [|intros H; inversion H; subst; exists (s_hist st1), (s_start st1); destruct st1; reflexivity].
  destruct (s_now st <? ts); [discriminate|]. intros H; inversion H; subst. eauto.
Qed.

Lemma prepare_evicts_shape c cbs : forall st st1, prepare_evicts c st cbs = Some st1 ->
  exists h s, st1 = upd_start (upd_hist st h) s.
Proof.
  induction cbs as [|cb cbs IH]; intros st st1; cbn [prepare_evicts].
  - intros H; inversion H; subst. exists (s_hist st1), (s_start st1). destruct st1; reflexivity.
  - destruct cb; try (apply IH).
    destruct (prepare_evict c st k) as [st0|] eqn:E; [|discriminate]. intros H.
    destruct (prepare_evict_shape _ _ _ _ E) as (h0 & s0 & ->). destruct (IH _ _ H) as (h1 & s1 & ->).
    exists h1, s1. reflexivity.
Qed.

Lemma track_admission_shape c st k st1 : track_admission c st k = Some st1 -> exists s, st1 = upd_start st s.
Proof.
  unfold track_admission. destruct (c_metrics c); [|intros H; inversion H; subst; exists (s_start st1); destruct st1; reflexivity].
  destruct (_ <? _); [discriminate|]. intros H; inversion H; subst. eauto.
Qed.

Ltac open_track H :=
  match type of H with context [track_admission ?c ?s ?k] =>
    let TA := fresh "TA" in
    destruct (track_admission c s k) eqn:TA;
      [ let s0 := fresh "s0" in destruct (track_admission_shape _ _ _ _ TA) as (s0 & ->); clear TA | discriminate H ]
  end.
Ltac open_prep H :=
  match type of H with context [prepare_evicts ?c ?s ?l] =>
    let PE := fresh "PE" in
    destruct (prepare_evicts c s l) eqn:PE;
      [ let h0 := fresh "h0" in let s0 := fresh "s0" in
        destruct (prepare_evicts_shape _ _ _ _ PE) as (h0 & s0 & ->); clear PE | discriminate H ]
  end.

(* ---- a generic case analysis of one step: unfold the step functions, destruct every scrutinee
   (innermost first) until the step's result is exposed ---- *)
Ltac crush_loop H :=
  first
   [ discriminate H
   | match type of H with
     | StepOk _ _ = StepOk _ _ => inversion H; subst; clear H
     | context [match ?x with _ => _ end] =>
         lazymatch x with context [match _ with _ => _ end] => fail | _ => idtac end;
         destruct x eqn:?; crush_loop H
     end ].
Ltac crush_step H :=
  unfold cstep, start_op, continue_client, proc_step, worker_step, proc_handle_item, buf_send, drain_buffer, tick_next, next_victim in H;
  sproj; crush_loop H.
Ltac open_shapes :=
  repeat match goal with
  | PE : prepare_evicts _ _ _ = Some ?x |- _ =>
      is_var x; let h0 := fresh "h0" in let s0 := fresh "s0" in
      destruct (prepare_evicts_shape _ _ _ _ PE) as (h0 & s0 & ->); clear PE
  | TA : track_admission _ _ _ = Some ?x |- _ =>
      is_var x; let s0 := fresh "s0" in destruct (track_admission_shape _ _ _ _ TA) as (s0 & ->); clear TA
  end.
Ltac unemit := unfold emit; try match goal with |- context [c_metrics ?c] => destruct (c_metrics c) end; sproj.

Lemma emit_frame c st evs :
  s_store (emit c st evs) = s_store st /\ s_slfu (emit c st evs) = s_slfu st /\
  s_tlfu (emit c st evs) = s_tlfu st /\ s_buf (emit c st evs) = s_buf st /\
  s_pc (emit c st evs) = s_pc st /\ s_done (emit c st evs) = s_done st /\
  s_clients (emit c st evs) = s_clients st /\ s_closed (emit c st evs) = s_closed st /\
  s_now (emit c st evs) = s_now st /\ s_clear_sigs (emit c st evs) = s_clear_sigs st /\
  s_wpc (emit c st evs) = s_wpc st /\ s_pqueue (emit c st evs) = s_pqueue st /\
  s_ring (emit c st evs) = s_ring st /\ s_pol_closed (emit c st evs) = s_pol_closed st /\
  s_stop_msgs (emit c st evs) = s_stop_msgs st /\ s_pol_stop_msgs (emit c st evs) = s_pol_stop_msgs st /\
  s_ticks (emit c st evs) = s_ticks st /\ s_next_id (emit c st evs) = s_next_id st.
Proof. unfold emit. destruct (c_metrics c); sproj; repeat split; reflexivity. Qed.

Ltac emit_simpl :=
  repeat match goal with
  | |- context [s_store (emit ?c ?st ?e)] => rewrite (proj1 (emit_frame c st e))
  | |- context [s_slfu (emit ?c ?st ?e)] => rewrite (proj1 (proj2 (emit_frame c st e)))
  | |- context [s_tlfu (emit ?c ?st ?e)] => rewrite (proj1 (proj2 (proj2 (emit_frame c st e))))
  | |- context [s_buf (emit ?c ?st ?e)] => rewrite (proj1 (proj2 (proj2 (proj2 (emit_frame c st e)))))
  | |- context [s_pc (emit ?c ?st ?e)] => rewrite (proj1 (proj2 (proj2 (proj2 (proj2 (emit_frame c st e))))))
  | |- context [s_done (emit ?c ?st ?e)] => rewrite (proj1 (proj2 (proj2 (proj2 (proj2 (proj2 (emit_frame c st e)))))))
  | |- context [s_clients (emit ?c ?st ?e)] => rewrite (proj1 (proj2 (proj2 (proj2 (proj2 (proj2 (proj2 (emit_frame c st e))))))))
  | |- context [s_closed (emit ?c ?st ?e)] => rewrite (proj1 (proj2 (proj2 (proj2 (proj2 (proj2 (proj2 (proj2 (emit_frame c st e)))))))))
  | |- context [s_now (emit ?c ?st ?e)] => rewrite (proj1 (proj2 (proj2 (proj2 (proj2 (proj2 (proj2 (proj2 (proj2 (emit_frame c st e))))))))))
  end.

(* ---- C01 lifted: every step changes the policy's charges by at most one policy operation ---- *)
Inductive slfu_rel (s s' : slfu) : Prop :=
| SRSame : s' = s -> slfu_rel s s'
| SRAdd est oracle k cost v a l m : pol_add est oracle s k cost = AddDone s' v a l m -> slfu_rel s s'
| SRUpdate k cost : s' = fst (fst (sl_update s k cost)) -> slfu_rel s s'
| SRRemove k : s' = fst (pol_remove s k) -> slfu_rel s s'
| SRClear : s' = sl_clear s -> slfu_rel s s'
| SRSetMax mc : s' = sl_set_max s mc -> slfu_rel s s'.

Lemma policy_push_slfu c st ks : s_slfu (policy_push c st ks) = s_slfu st.
Proof.
  unfold policy_push. destruct (s_pol_closed st); [reflexivity|]. destruct ks; [reflexivity|].
  match goal with |- context [if ?b then _ else _] => destruct b end; emit_simpl; sproj; reflexivity.
Qed.

Lemma ring_push_slfu c st k : s_slfu (ring_push c st k) = s_slfu st.
Proof.
  unfold ring_push. match goal with |- context [if ?b then _ else _] => destruct b end;
    [rewrite policy_push_slfu|]; sproj; reflexivity.
Qed.

Lemma buf_send_frame c st it st' : buf_send c st it = Some st' ->
  s_slfu st' = s_slfu st /\ s_store st' = s_store st /\ s_buf st' = s_buf st ++ [it] /\
  s_pc st' = s_pc st /\ s_done st' = s_done st /\ s_clients st' = s_clients st /\
  s_closed st' = s_closed st /\ s_tlfu st' = s_tlfu st /\ s_now st' = s_now st /\
  s_pc st <> PExited.
Proof.
  unfold buf_send. destruct (s_pc st) eqn:E;
    try (match goal with |- context [if ?b then _ else _] => destruct b end; [|discriminate];
         intros H; inversion H; subst; sproj; repeat split; try reflexivity; congruence).
  all: try discriminate.
Qed.

Lemma start_op_slfu c st a op st' o :
  start_op c st a op = StepOk st' o -> slfu_rel (s_slfu st) (s_slfu st').
Proof.
  destruct op; cbn [start_op]; intros H.
  - destruct (s_closed st); [inversion H; subst; apply SRSame; reflexivity|].
    destruct (st_try_update _ _ _ _ _ _) as [sto r].
    destruct r; destruct only_update; inversion H; subst; sproj; apply SRSame; reflexivity.
  - destruct (s_closed st); inversion H; subst; apply SRSame; sproj; [reflexivity|apply ring_push_slfu].
  - destruct (s_closed st); inversion H; subst; apply SRSame; sproj; [reflexivity|apply ring_push_slfu].
  - destruct (st_get _ _ _ _); [destruct (st_expiration _ _); [destruct (t_get_ttl _ _)|]|];
      inversion H; subst; apply SRSame; reflexivity.
  - destruct (s_closed st); [inversion H; subst; apply SRSame; reflexivity|].
    destruct (st_try_remove _ _ _) as [sto prev]. inversion H; subst; sproj. apply SRSame. reflexivity.
  - destruct (s_closed st); inversion H; subst; sproj; apply SRSame; reflexivity.
  - destruct (s_closed st); inversion H; subst; sproj; apply SRSame; reflexivity.
  - destruct (s_closed st); inversion H; subst; sproj; apply SRSame; reflexivity.
  - inversion H; subst. apply SRSame. reflexivity.
  - inversion H; subst; sproj. eapply SRSetMax. reflexivity.
  - inversion H; subst. apply SRSame. reflexivity.
Qed.

Ltac same_slfu H :=
  inversion H; subst; sproj; emit_simpl; sproj; apply SRSame; reflexivity.

Lemma continue_client_slfu c st a st' o :
  continue_client c st a = StepOk st' o -> s_slfu st' = s_slfu st.
Proof.
  unfold continue_client. destruct (client_of st a) eqn:K; intros H; try discriminate.
  - destruct (buf_send c st it) as [st1|] eqn:E.
    + inversion H; subst; sproj. apply buf_send_frame in E. tauto.
    + destruct (is_update it); inversion H; subst; sproj; emit_simpl; reflexivity.
  - destruct (st_get _ _ _ _) as [e|].
    + destruct write; [inversion H; subst; sproj; emit_simpl; reflexivity|].
      destruct (t_get_ttl _ _); inversion H; subst; sproj; emit_simpl; reflexivity.
    + inversion H; subst; sproj; emit_simpl; reflexivity.
  - destruct (buf_send c st (IDelete k c0)) as [st1|] eqn:E.
    + inversion H; subst; sproj. apply buf_send_frame in E. tauto.
    + destruct (s_pc st); try discriminate; inversion H; subst; sproj; reflexivity.
  - sproj. destruct (buf_send _ _ _) as [st2|] eqn:E.
    + inversion H; subst; sproj. apply buf_send_frame in E. sproj. tauto.
    + inversion H; subst; sproj. reflexivity.
  - destruct (s_pc st); inversion H; subst; sproj; reflexivity.
  - destruct (s_closed st); inversion H; subst; sproj; reflexivity.
  - destruct (mem_N id (s_done st)); [|discriminate]. inversion H; subst; sproj; reflexivity.
  - destruct (mem_N id (s_done st)); [|discriminate]. destruct closing; inversion H; subst; sproj; reflexivity.
  - destruct (s_pc st); inversion H; subst; sproj; reflexivity.
  - destruct (s_pc st); try (destruct (s_stop_msgs st <? stop_cap c)); inversion H; subst; sproj; reflexivity.
  - inversion H; subst; sproj; reflexivity.
  - destruct (s_pol_closed st); inversion H; subst; sproj; reflexivity.
  - destruct (s_wpc st); [destruct (s_pol_stop_msgs st <? stop_cap c)|]; inversion H; subst; sproj; reflexivity.
  - inversion H; subst; sproj; reflexivity.
  - inversion H; subst; sproj; reflexivity.
Qed.

Lemma drain_buffer_frame st st' cbs : drain_buffer st = (st', cbs) ->
  s_slfu st' = s_slfu st /\ s_store st' = s_store st /\ s_buf st' = [] /\ s_pc st' = s_pc st /\
  s_clients st' = s_clients st /\ s_closed st' = s_closed st /\ s_tlfu st' = s_tlfu st /\
  s_now st' = s_now st /\ s_clear_sigs st' = s_clear_sigs st.
Proof.
  unfold drain_buffer. destruct (drain_items _ _ _) as [d cb]. intros H; inversion H; subst; sproj.
  repeat split; reflexivity.
Qed.

Lemma tick_next_slfu c st h rest acc st' o :
  tick_next c st h rest acc = StepOk st' o -> s_slfu st' = s_slfu st /\ s_store st' = s_store st.
Proof.
  unfold tick_next. destruct rest.
  { destruct (prepare_evicts c st acc) as [st1|] eqn:E; [|discriminate].
    destruct (prepare_evicts_shape _ _ _ _ E) as (h0 & s0 & ->). intros H; inversion H; subst; sproj; auto. }
  destruct (h_tick_key h); [|discriminate]. destruct (aget _ _); [|discriminate].
  intros H; inversion H; subst; sproj; auto.
Qed.

Lemma proc_step_slfu c st h st' o :
  proc_step c st h = StepOk st' o -> slfu_rel (s_slfu st) (s_slfu st').
Proof.
  unfold proc_step. destruct (s_pc st) eqn:PC; intros H; try discriminate.
  - (* loop head *)
    destruct (h_arm h) as [[| | |]|]; try discriminate.
    + destruct (s_buf st) as [|it r]; [discriminate|]. unfold proc_handle_item in H. destruct it; sproj.
      * destruct (pol_add _ _ _ _ _) eqn:PA; try discriminate.
        inversion H; subst; sproj; emit_simpl; sproj. eapply SRAdd. exact PA.
      * destruct (sl_update _ _ _) as [[s' b] mets] eqn:SU. inversion H; subst; sproj; emit_simpl; sproj.
        eapply SRUpdate. rewrite SU. reflexivity.
      * destruct (pol_remove _ _) as [s' mets] eqn:PR. inversion H; subst; sproj; emit_simpl; sproj.
        eapply SRRemove. rewrite PR. reflexivity.
      * same_slfu H.
    + destruct (s_clear_sigs st) as [|sig r]; [discriminate|].
      destruct (drain_buffer _) as [st1 cbs] eqn:DB. inversion H; subst; sproj.
      apply drain_buffer_frame in DB. sproj. apply SRSame. tauto.
    + destruct (s_ticks st =? 0); [discriminate|].
      destruct (em_cleanup _ _) as [em' due]. destruct due as [m|].
      * apply tick_next_slfu in H. sproj. apply SRSame. tauto.
      * same_slfu H.
    + destruct (0 <? s_stop_msgs st).
      * destruct (drain_buffer _) as [st2 cbs] eqn:DB. inversion H; subst; sproj.
        apply drain_buffer_frame in DB. sproj. apply SRSame. tauto.
      * destruct (find_offer false (s_clients st)) as [a0|]; [|discriminate].
        destruct (client_of st a0); try discriminate.
        destruct (drain_buffer _) as [st2 cbs] eqn:DB. inversion H; subst; sproj.
        apply drain_buffer_frame in DB. sproj. apply SRSame. tauto.
  - destruct added; [|same_slfu H].
    destruct (track_admission _ _ _) as [st2|] eqn:TA; [|discriminate].
    destruct (track_admission_shape _ _ _ _ TA) as (s0 & ->). same_slfu H.
  - unfold next_victim in H. destruct victims; same_slfu H.
  - destruct v as [vk vcost]. destruct (st_try_remove _ _ _) as [sto prev].
    destruct (prepare_evicts _ _ _) as [st0|] eqn:PE; [|discriminate].
    destruct (prepare_evicts_shape _ _ _ _ PE) as (h0 & s0 & ->). unfold next_victim in H.
    destruct rest; same_slfu H.
  - destruct (st_try_remove _ _ _) as [sto prev]. same_slfu H.
  - inversion H; subst; sproj. apply SRClear. reflexivity.
  - same_slfu H.
  - destruct (c_metrics c); same_slfu H.
  - destruct (st_expiration _ _) as [t|].
    + destruct (negb (t_is_zero t) && t_is_expired (s_now st) t).
      * destruct (pol_remove _ _) as [s' mets] eqn:PR. inversion H; subst; sproj; emit_simpl; sproj.
        eapply SRRemove. rewrite PR. reflexivity.
      * apply tick_next_slfu in H. apply SRSame. tauto.
    + apply tick_next_slfu in H. apply SRSame. tauto.
  - destruct (st_try_remove _ _ _) as [sto prev]. apply tick_next_slfu in H. sproj. apply SRSame. tauto.
Qed.

Lemma worker_step_slfu c st h st' o : worker_step c st h = StepOk st' o -> s_slfu st' = s_slfu st.
Proof.
  unfold worker_step. destruct (s_wpc st); [|discriminate]. destruct (h_arm h) as [[| | |]|]; try discriminate.
  - destruct (s_pqueue st); [discriminate|]. destruct (tl_increments _ _); [|discriminate].
    intros H; inversion H; subst; sproj; reflexivity.
  - destruct (0 <? s_pol_stop_msgs st); [intros H; inversion H; subst; sproj; reflexivity|].
    destruct (find_offer true (s_clients st)) as [a0|]; [|discriminate]. destruct (client_of st a0); try discriminate.
    intros H; inversion H; subst; sproj; reflexivity.
Qed.

(* Every step of the cache — whichever actor takes it, in whatever state — changes the policy's
   charges by at most one policy operation.  With PolicyProofs this lifts C01 to every schedule. *)
Theorem cstep_slfu c st l st' o :
  cstep c st l = StepOk st' o -> slfu_rel (s_slfu st) (s_slfu st').
Proof.
  destruct l as [a op|a|h|h|dt|]; cbn [cstep].
  - destruct (client_of st a); try discriminate. apply start_op_slfu.
  - intros H. apply SRSame. eapply continue_client_slfu; eassumption.
  - apply proc_step_slfu.
  - intros H. apply SRSame. eapply worker_step_slfu; eassumption.
  - intros H; inversion H; subst; sproj. apply SRSame. reflexivity.
  - intros H; inversion H; subst; sproj. apply SRSame. reflexivity.
Qed.

(* the charged total is the sum of the charges, and keys are charged once, in every reachable state;
   admissions re-establish the bound: whenever a step admitted a new key, total <= max_cost *)
Definition op_costs_nonneg (c : cfg) (l : label) : Prop :=
  match l with
  | LOp _ (OInsert _ _ v cost _ _) => (0 <= cost)%Z /\ (0 <= c_coster c v)%Z
  | _ => True
  end.

Lemma slfu_rel_WF s s' : slfu_rel s s' -> WF s -> WF s'.
Proof.
  intros R W. destruct R as [->| est oracle k cost v a l m PA | k cost -> | k -> | -> | mc ->].
  - assumption.
  - eapply pol_add_WF_only; eassumption.
  - apply WF_update. assumption.
  - apply WF_pol_remove. assumption.
  - apply WF_clear.
  - apply WF_set_max. assumption.
Qed.

Theorem reachable_WF c mc t now ls st os :
  crun c (cinit c mc t now) ls = Some (st, os) -> WF (s_slfu st).
Proof.
  assert (G : forall ls st0 st os, WF (s_slfu st0) -> crun c st0 ls = Some (st, os) -> WF (s_slfu st)).
  { induction ls0 as [|l ls0 IH]; intros st0 st1 os0 W; cbn [crun].
    - intros H; inversion H; subst; assumption.
    - destruct (cstep c st0 l) as [st2 o| | |] eqn:E; try discriminate.
      destruct (crun c st2 ls0) as [[st3 os1]|] eqn:R; [|discriminate].
      intros H; inversion H; subst. eapply IH; [|exact R].
      eapply slfu_rel_WF; [eapply cstep_slfu; exact E|assumption]. }
  apply G. cbn. apply WF_new.
Qed.

