(* CacheCloseLive.v — close() is never stranded in its stop handshakes: at most one client is ever
   inside close(); in the sync flavour a closer offering the stop to the processor (resp. the policy
   worker) in the rendezvous always has a live partner, which can take it. *)
From StrettoModel Require Import Base BaseProofs Metrics Sketch Bloom TinyLFU TinyLFUProofs Policy PolicyProofs Ttl Store StoreProofs
  Cache CacheProofs CacheLocal CacheInv CacheClose.
From Coq Require Import ZifyBool ZifyNat ZifyN.
Open Scope N_scope.

Definition in_close (k : ccont) : bool :=
  match k with
  | KCloseAfterFlag | KClearBlock _ true | KCloseBeforeStop | KCloseStopOffered | KCloseStopTaken | KCloseBeforePolicy
  | KPolCloseBeforeStop | KPolCloseStopOffered | KPolCloseStopTaken | KPolCloseAfterStop => true
  | _ => false
  end.

Definition OneCloser (st : cstate) : Prop :=
  (forall a, in_close (client_of st a) = true -> s_closed st = true) /\
  (forall a b, in_close (client_of st a) = true -> in_close (client_of st b) = true -> a = b).

(* how a client's continuation can change in one step: it is the acting client, or it was the closer
   whose offer the processor / the worker has just taken *)
Lemma cont_change c st l st' o b :
  cstep c st l = StepOk st' o -> client_of st' b <> client_of st b ->
  (exists op, l = LOp b op) \/ l = LClient b \/
  (exists h, l = LProc h /\ client_of st b = KCloseStopOffered /\ client_of st' b = KCloseStopTaken /\ s_pc st' = PExited) \/
  (exists h, l = LWorker h /\ client_of st b = KPolCloseStopOffered /\ client_of st' b = KPolCloseStopTaken /\ s_wpc st' = WExited).
Proof.
  intros H NE. destruct l as [a op|a|h|h|dt|].
  - destruct (N.eq_dec b a) as [->|Hne]; [left; eauto|]. exfalso. apply NE.
    destruct op; crush_step H; open_shapes; unemit_all; try reflexivity;
      rewrite client_of_set; (destruct (N.eqb_spec b a); [contradiction|]); try reflexivity;
      unfold client_of; match goal with |- context [ring_push ?c0 ?s0 ?k0] => destruct (ring_push_close_frame c0 s0 k0) as (_ & _ & _ & _ & R & _); rewrite R end; reflexivity.
  - destruct (N.eq_dec b a) as [->|Hne]; [right; left; reflexivity|]. exfalso. apply NE.
    cbn [cstep] in H. unfold continue_client in H. destruct (client_of st a) eqn:CA; crush_step H; open_shapes; unemit_all;
      rewrite client_of_set; (destruct (N.eqb_spec b a); [contradiction|]); unfold client_of; sproj; reflexivity.
  - right. right. left. crush_step H; open_shapes; unemit_all; try (exfalso; apply NE; reflexivity).
    all: exists h; split; [reflexivity|]; revert NE; unfold client_of at 1, set_client; sproj; fold (client_of st b);
      destruct (N.eq_dec b n) as [->|Hne];
      [rewrite aget_aset_same; intros _; split; [assumption|split; [unfold client_of, set_client; sproj; rewrite aget_aset_same; reflexivity|reflexivity]]
      |rewrite aget_aset_other by assumption; intros X; exfalso; apply X; reflexivity].
  - right. right. right. crush_step H; open_shapes; unemit_all; try (exfalso; apply NE; reflexivity).
    exists h. split; [reflexivity|]. revert NE.
    change (client_of (upd_wpc (set_client st n KPolCloseStopTaken) WExited) b) with (client_of (set_client st n KPolCloseStopTaken) b).
    rewrite client_of_set. destruct (N.eqb_spec b n) as [->|Hne]; [intros _; auto|intros X; exfalso; apply X; reflexivity].
  - exfalso. apply NE. crush_step H. reflexivity.
  - exfalso. apply NE. crush_step H. reflexivity.
Qed.

Lemma time_eq_dec (a b : time) : {a = b} + {a <> b}.
Proof. decide equality; apply N.eq_dec. Qed.
Lemma item_eq_dec (a b : item) : {a = b} + {a <> b}.
Proof. decide equality; first [apply N.eq_dec | apply Z.eq_dec | apply time_eq_dec]. Qed.
Lemma optN_eq_dec (a b : option N) : {a = b} + {a <> b}.
Proof. decide equality; apply N.eq_dec. Qed.
Lemma ccont_eq_dec (a b : ccont) : {a = b} + {a <> b}.
Proof. decide equality; first [apply N.eq_dec | apply item_eq_dec | apply optN_eq_dec | apply Bool.bool_dec]. Qed.

Lemma enter_close c st l st' o b :
  cstep c st l = StepOk st' o -> in_close (client_of st' b) = true ->
  in_close (client_of st b) = true \/ (s_closed st = false /\ l = LOp b OClose /\ s_closed st' = true).
Proof.
  intros H X. destruct (ccont_eq_dec (client_of st' b) (client_of st b)) as [E|NE]; [left; rewrite <- E; exact X|].
  destruct (cont_change c st l st' o b H NE) as [(op & ->)|[->|[(h & -> & A & B & _)|(h & -> & A & B & _)]]].
  - destruct op; crush_step H; open_shapes; unemit_all;
      first [ exfalso; congruence
            | exfalso; apply NE; unfold client_of in *; sproj; assumption
            | exfalso; rewrite ?client_of_set, ?N.eqb_refl in X; cbn [in_close] in X; first [discriminate X | congruence]
            | solve [right; auto] ].
  - left. cbn [cstep] in H. unfold continue_client in H. destruct (client_of st b) eqn:CA; crush_step H; open_shapes; unemit_all;
      first [ reflexivity
            | exfalso; congruence
            | exfalso; apply NE; unfold client_of in *; sproj; assumption
            | exfalso; rewrite ?client_of_set, ?N.eqb_refl in X; cbn [in_close] in X; first [discriminate X | congruence] ].
  - left. rewrite A. reflexivity.
  - left. rewrite A. reflexivity.
Qed.

Theorem OneCloser_step c st l st' o : OneCloser st -> cstep c st l = StepOk st' o -> OneCloser st'.
Proof.
  intros (I1 & I2) H. destruct (closed_is_final c st l st' o H) as (CF & _). split.
  - intros a X. destruct (enter_close c st l st' o a H X) as [Y|(_ & _ & Y)]; [apply CF; apply (I1 a Y)|exact Y].
  - intros a b Xa Xb.
    destruct (enter_close c st l st' o a H Xa) as [Ya|(Ca & La & _)];
    destruct (enter_close c st l st' o b H Xb) as [Yb|(Cb & Lb & _)].
    + apply I2; assumption.
    + rewrite (I1 a Ya) in Cb. discriminate Cb.
    + rewrite (I1 b Yb) in Ca. discriminate Ca.
    + rewrite La in Lb. inversion Lb. reflexivity.
Qed.

Lemma OneCloser_init c mc t now : OneCloser (cinit c mc t now).
Proof. split; [intros a X; discriminate X|intros a b X; discriminate X]. Qed.

(* sync flavour: a closer offering the stop in the rendezvous has a live partner *)
Definition OfferLive (st : cstate) : Prop :=
  (forall a, client_of st a = KCloseStopOffered -> s_pc st <> PExited) /\
  (forall a, client_of st a = KPolCloseStopOffered -> s_wpc st = WIdle).

Lemma pc_exits_only_by_stop c st l st' o :
  cstep c st l = StepOk st' o -> s_pc st <> PExited -> s_pc st' = PExited ->
  exists h, l = LProc h /\ ((0 <? s_stop_msgs st) = true \/
    exists n, client_of st n = KCloseStopOffered /\ client_of st' n = KCloseStopTaken).
Proof.
  intros H NE E. destruct l as [a op|a|h|h|dt|].
  - exfalso. apply NE. rewrite <- E. symmetry. destruct op; crush_step H; open_shapes; unemit_all; repc; try reflexivity; try assumption; try congruence;
      match goal with E0 : s_pc (ring_push ?c0 ?s0 ?k0) = PExited |- _ => destruct (ring_push_close_frame c0 s0 k0) as (R & _); rewrite R in E0; congruence end.
  - exfalso. apply NE. rewrite <- E. symmetry. cbn [cstep] in H. unfold continue_client in H.
    destruct (client_of st a) eqn:CA; crush_step H; open_shapes; unemit_all; repc; first [reflexivity|assumption|congruence].
  - exists h. split; [reflexivity|]. crush_step H; open_shapes; unemit_all; try discriminate E; try (exfalso; apply NE; reflexivity); try (exfalso; congruence).
    + left. reflexivity.
    + right. match goal with Hn : client_of st ?n = KCloseStopOffered |- _ => exists n; split; [exact Hn|] end.
      unfold client_of, set_client; sproj. rewrite aget_aset_same. reflexivity.
  - exfalso. apply NE. rewrite <- E. symmetry. crush_step H; open_shapes; unemit_all; repc; first [reflexivity|assumption|congruence].
  - exfalso. apply NE. rewrite <- E. crush_step H. reflexivity.
  - exfalso. apply NE. rewrite <- E. crush_step H. reflexivity.
Qed.

Lemma becoming_offered c st l st' o a :
  cstep c st l = StepOk st' o -> client_of st' a = KCloseStopOffered ->
  client_of st a = KCloseStopOffered \/ (s_pc st <> PExited /\ s_pc st' = s_pc st).
Proof.
  intros H X. destruct (ccont_eq_dec (client_of st' a) (client_of st a)) as [Q|NE]; [left; rewrite <- Q; exact X|].
  right. destruct (cont_change c st l st' o a H NE) as [(op & ->)|[->|[(h & _ & _ & B & _)|(h & _ & _ & B & _)]]]; try congruence.
  - exfalso. destruct op; crush_step H; open_shapes; unemit_all; rewrite ?client_of_set, ?N.eqb_refl in X; try discriminate X;
      apply NE; unfold client_of in *; sproj; congruence.
  - cbn [cstep] in H. unfold continue_client in H. destruct (client_of st a) eqn:CA; crush_step H; open_shapes; unemit_all;
      rewrite ?client_of_set, ?N.eqb_refl in X; try discriminate X; try (exfalso; apply NE; unfold client_of in *; sproj; congruence).
    all: sproj; repc; split; [congruence|reflexivity].
Qed.

Theorem OfferLive_step c st l st' o :
  NoMsgs st -> OneCloser st -> OfferLive st -> cstep c st l = StepOk st' o ->
  forall a, client_of st' a = KCloseStopOffered -> s_pc st' <> PExited.
Proof.
  intros (M1 & _) (_ & U) (O1 & _) H a X E.
  destruct (becoming_offered c st l st' o a H X) as [Y|(NE & Q)]; [|rewrite Q in E; exact (NE E)].
  destruct (pc_exits_only_by_stop c st l st' o H (O1 a Y) E) as (h & _ & [Z|(n & Hn & Hn')]).
  - rewrite M1 in Z. discriminate Z.
  - assert (a = n) by (apply U; [rewrite Y; reflexivity|rewrite Hn; reflexivity]). subst. congruence.
Qed.

Lemma wpc_exits_only_by_stop c st l st' o :
  cstep c st l = StepOk st' o -> s_wpc st <> WExited -> s_wpc st' = WExited ->
  exists h, l = LWorker h /\ ((0 <? s_pol_stop_msgs st) = true \/
    exists n, client_of st n = KPolCloseStopOffered /\ client_of st' n = KPolCloseStopTaken).
Proof.
  intros H NE E. destruct l as [a op|a|h|h|dt|].
  - exfalso. apply NE. rewrite <- E. symmetry. destruct op; crush_step H; open_shapes; unemit_all; try reflexivity;
      match goal with E0 : s_wpc (ring_push ?c0 ?s0 ?k0) = WExited |- _ => destruct (ring_push_close_frame c0 s0 k0) as (_ & _ & R & _); rewrite R in E0; congruence end.
  - exfalso. apply NE. rewrite <- E. symmetry. cbn [cstep] in H. unfold continue_client in H.
    destruct (client_of st a) eqn:CA; crush_step H; open_shapes; unemit_all; first [reflexivity|assumption|congruence].
  - exfalso. apply NE. rewrite <- E. symmetry. crush_step H; open_shapes; unemit_all; first [reflexivity|assumption|congruence].
  - exists h. split; [reflexivity|]. crush_step H; open_shapes; unemit_all; try discriminate E; try (exfalso; apply NE; reflexivity); try (exfalso; congruence).
    + left. reflexivity.
    + right. match goal with Hn : client_of st ?n = KPolCloseStopOffered |- _ => exists n; split; [exact Hn|] end.
      change (client_of (upd_wpc (set_client st n KPolCloseStopTaken) WExited) n) with (client_of (set_client st n KPolCloseStopTaken) n).
      rewrite client_of_set, N.eqb_refl. reflexivity.
  - exfalso. apply NE. rewrite <- E. crush_step H. reflexivity.
  - exfalso. apply NE. rewrite <- E. crush_step H. reflexivity.
Qed.

Lemma becoming_pol_offered c st l st' o a :
  cstep c st l = StepOk st' o -> client_of st' a = KPolCloseStopOffered ->
  client_of st a = KPolCloseStopOffered \/ (s_wpc st <> WExited /\ s_wpc st' = s_wpc st).
Proof.
  intros H X. destruct (ccont_eq_dec (client_of st' a) (client_of st a)) as [Q|NE]; [left; rewrite <- Q; exact X|].
  right. destruct (cont_change c st l st' o a H NE) as [(op & ->)|[->|[(h & _ & _ & B & _)|(h & _ & _ & B & _)]]]; try congruence.
  - exfalso. destruct op; crush_step H; open_shapes; unemit_all; rewrite ?client_of_set, ?N.eqb_refl in X; try discriminate X;
      apply NE; unfold client_of in *; sproj; congruence.
  - cbn [cstep] in H. unfold continue_client in H. destruct (client_of st a) eqn:CA; crush_step H; open_shapes; unemit_all;
      rewrite ?client_of_set, ?N.eqb_refl in X; try discriminate X; try (exfalso; apply NE; unfold client_of in *; sproj; congruence).
    all: sproj; split; [congruence|congruence].
Qed.

Theorem PolOfferLive_step c st l st' o :
  NoMsgs st -> OneCloser st -> OfferLive st -> cstep c st l = StepOk st' o ->
  forall a, client_of st' a = KPolCloseStopOffered -> s_wpc st' = WIdle.
Proof.
  intros (_ & M2) (_ & U) (_ & O2) H a X.
  destruct (s_wpc st') eqn:E; [reflexivity|exfalso].
  destruct (becoming_pol_offered c st l st' o a H X) as [Y|(NE & Q)]; [|rewrite Q in E; exact (NE E)].
  assert (NW : s_wpc st <> WExited) by (rewrite (O2 a Y); discriminate).
  destruct (wpc_exits_only_by_stop c st l st' o H NW E) as (h & _ & [Z|(n & Hn & Hn')]).
  - rewrite M2 in Z. discriminate Z.
  - assert (a = n) by (apply U; [rewrite Y; reflexivity|rewrite Hn; reflexivity]). subst. congruence.
Qed.

(* C12, sync flavour, every reachable state: at most one client is inside close(); a closer offering
   the stop in a rendezvous has a live partner (the cache processor, resp. the policy worker, has not
   left its loop), so the handshake can complete: close() is never stranded *)
Theorem sync_close_offer_has_a_live_partner c mc t now st a :
  c_async c = false -> reach c (cinit c mc t now) st ->
  (client_of st a = KCloseStopOffered -> s_pc st <> PExited) /\
  (client_of st a = KPolCloseStopOffered -> s_wpc st = WIdle).
Proof.
  intros SY R.
  assert (I : NoMsgs st /\ OneCloser st /\ OfferLive st).
  { apply (reach_ind_inv c (cinit c mc t now) (fun s => NoMsgs s /\ OneCloser s /\ OfferLive s)); [| |exact R].
    - split; [split; reflexivity|]. split; [apply OneCloser_init|]. split; intros b X; discriminate X.
    - intros s0 l s1 o (N0 & C0 & L0) S. split; [eapply NoMsgs_step; eassumption|]. split; [eapply OneCloser_step; eassumption|].
      split; [eapply OfferLive_step; eassumption|eapply PolOfferLive_step; eassumption]. }
  destruct I as (_ & _ & (O1 & O2)). split; [apply O1|apply O2].
Qed.

Theorem at_most_one_closer c mc t now st a b :
  reach c (cinit c mc t now) st -> in_close (client_of st a) = true -> in_close (client_of st b) = true -> a = b.
Proof.
  intros R. assert (I : OneCloser st).
  { apply (reach_ind_inv c (cinit c mc t now) OneCloser); [apply OneCloser_init| |exact R].
    intros s0 l s1 o W S. eapply OneCloser_step; eassumption. }
  apply I.
Qed.
