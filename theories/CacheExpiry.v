(* CacheExpiry.v — property C05, the listing invariant: every resident entry with a TTL is listed in
   the expiry index under the bucket of its current deadline — or is among the keys the running
   cleanup has taken out of a due bucket and not visited yet, and has expired.  Hence a cleanup tick
   reclaims every entry whose bucket is due, and no resident TTL entry is ever forgotten. *)
From StrettoModel Require Import Base BaseProofs Metrics Sketch Bloom TinyLFU TinyLFUProofs Policy PolicyProofs Ttl Store StoreProofs
  Cache CacheProofs CacheLocal CacheInv CacheAgree.
From Coq Require Import ZifyBool ZifyNat ZifyN.
Open Scope N_scope.

Definition listed (em : emap) (b k : N) : Prop := exists bucket, aget b em = Some bucket /\ amem k bucket = true.

Lemma amem_aset_same {V} k (v : V) m : amem k (aset k v m) = true.
Proof. unfold amem. rewrite aget_aset_same. reflexivity. Qed.
Lemma amem_aset_other {V} k k' (v : V) m : k <> k' -> amem k (aset k' v m) = amem k m.
Proof. intros H. unfold amem. rewrite aget_aset_other by assumption. reflexivity. Qed.
Lemma amem_adel_other {V} k k' (m : amap V) : k <> k' -> amem k (adel k' m) = amem k m.
Proof. intros H. unfold amem. rewrite aget_adel_other by assumption. reflexivity. Qed.

Lemma listed_put_same em b k c : listed (em_put em b k c) b k.
Proof.
  unfold listed, em_put. destruct (aget b em) as [bucket|].
  - exists (aset k c bucket). rewrite aget_aset_same. split; [reflexivity|apply amem_aset_same].
  - exists [(k, c)]. rewrite aget_aset_same. split; [reflexivity|]. unfold amem. cbn [aget]. rewrite N.eqb_refl. reflexivity.
Qed.

Lemma listed_put_other em b k c b' k' : listed em b' k' -> listed (em_put em b k c) b' k'.
Proof.
  intros (bucket & G & M). unfold listed, em_put. destruct (N.eq_dec b' b) as [->|Hb].
  - rewrite G. exists (aset k c bucket). rewrite aget_aset_same. split; [reflexivity|].
    destruct (N.eq_dec k' k) as [->|Hk]; [apply amem_aset_same|rewrite amem_aset_other by assumption; exact M].
  - destruct (aget b em); exists bucket; rewrite aget_aset_other by assumption; auto.
Qed.

Lemma listed_unlist_other em b k b' k' : listed em b' k' -> (b' <> b \/ k' <> k) -> listed (em_unlist em b k) b' k'.
Proof.
  intros (bucket & G & M) D. unfold listed, em_unlist. destruct (aget b em) as [bk|] eqn:Gb; [|exists bucket; auto].
  destruct (N.eq_dec b' b) as [->|Hb].
  - rewrite Gb in G. inversion G; subst. exists (adel k bucket). rewrite aget_aset_same. split; [reflexivity|].
    destruct D as [D|D]; [congruence|]. rewrite amem_adel_other by assumption. exact M.
  - exists bucket. rewrite aget_aset_other by assumption. auto.
Qed.

(* ---- cleanup ---- *)
Lemma aget_filter_key {V} (P : N -> bool) b (m : amap V) :
  aget b (filter (fun p => P (fst p)) m) = if P b then aget b m else None.
Proof.
  induction m as [|[a v] m IH]; cbn [filter aget fst]; [destruct (P b); reflexivity|].
  destruct (P a) eqn:Pa; cbn [aget]; destruct (N.eqb_spec b a) as [->|Hne].
  - rewrite Pa. reflexivity.
  - exact IH.
  - rewrite Pa. rewrite IH, Pa. reflexivity.
  - exact IH.
Qed.

Lemma ins_sorted_In {V} (p q : key * V) l : In q (ins_sorted p l) <-> q = p \/ In q l.
Proof.
  induction l as [|r l IH]; cbn [ins_sorted].
  - cbn [In]. split; intros [H|H]; auto.
  - destruct (fst p <=? fst r); cbn [In].
    + split; intros [H|H]; auto.
    + rewrite IH. split; [intros [H|[H|H]]; auto|intros [H|[H|H]]; auto].
Qed.

Lemma asort_In {V} (q : key * V) m : In q (asort m) <-> In q m.
Proof.
  unfold asort. induction m as [|p m IH]; cbn [fold_right]; [tauto|]. rewrite ins_sorted_In, IH. cbn [In]. split; intros [H|H]; auto.
Qed.

Lemma fold_bucket_mem k (bucket : amap N) : forall acc,
  amem k acc = true \/ amem k bucket = true ->
  amem k (fold_left (fun a kc => aset (fst kc) (snd kc) a) bucket acc) = true.
Proof.
  induction bucket as [|[k0 c0] bucket IH]; intros acc H; cbn [fold_left fst snd].
  - destruct H as [H|H]; [exact H|discriminate H].
  - apply IH. destruct (N.eq_dec k k0) as [->|Hne].
    + left. apply amem_aset_same.
    + destruct H as [H|H].
      * left. rewrite amem_aset_other by assumption. exact H.
      * right. unfold amem in *. cbn [aget] in H. destruct (N.eqb_spec k k0); [contradiction|exact H].
Qed.

Lemma fold_listings_mem k (l : emap) : forall acc,
  amem k acc = true \/ (exists b bucket, In (b, bucket) l /\ amem k bucket = true) ->
  amem k (fold_left (fun acc b => fold_left (fun a kc => aset (fst kc) (snd kc) a) (snd b) acc) l acc) = true.
Proof.
  induction l as [|[b0 bk0] l IH]; intros acc H; cbn [fold_left snd].
  - destruct H as [H|(b & bk & [] & _)]. exact H.
  - apply IH. destruct H as [H|(b & bk & [E|Hin] & M)].
    + left. apply fold_bucket_mem. left. exact H.
    + inversion E; subst. left. apply fold_bucket_mem. right. exact M.
    + right. eauto.
Qed.

Lemma cleanup_listed em now em' due b k :
  em_cleanup em now = (em', due) -> listed em b k ->
  (cleanup_bucket now < b -> listed em' b k) /\
  (b <= cleanup_bucket now -> exists m, due = Some m /\ amem k m = true).
Proof.
  intros H (bucket & G & M). unfold em_cleanup in H.
  assert (Hin : In (b, bucket) em) by (apply aget_In_pair; exact G).
  split.
  - intros Hlt. destruct (em_due em now) eqn:D; inversion H; subst; [exists bucket; auto|].
    exists bucket. split; [|exact M]. unfold em_keep.
    rewrite (aget_filter_key (fun x => negb (x <=? cleanup_bucket now)) b em).
    destruct (b <=? cleanup_bucket now) eqn:E; [lia|]. exact G.
  - intros Hle.
    assert (Hd : In (b, bucket) (em_due em now)).
    { unfold em_due. apply filter_In. split; [exact Hin|]. cbn [fst]. destruct (b <=? cleanup_bucket now) eqn:E; [reflexivity|lia]. }
    destruct (em_due em now) as [|p d] eqn:D; [destruct Hd|]. inversion H; subst.
    eexists. split; [reflexivity|]. unfold merge_listings. apply fold_listings_mem. right.
    exists b, bucket. split; [apply asort_In; exact Hd|exact M].
Qed.

(* ---- the store operations keep every resident TTL entry listed ---- *)
Section Good.
(* Q k e: the entry is excused from being listed (it is pending in the running cleanup) *)
Variable Q : N -> time -> Prop.

Definition good (s : storage) (k : N) (e : entry) : Prop :=
  t_is_zero (e_exp e) = true \/ listed (st_em s) (storage_bucket (e_exp e)) k \/ Q k (e_exp e).
Definition all_good (s : storage) : Prop := forall k e, aget k (st_map s) = Some e -> good s k e.

Lemma em_update_keeps em k c old new b' k' : k' <> k -> listed em b' k' -> listed (em_update em k c old new) b' k'.
Proof.
  intros Hne L. unfold em_update. destruct (t_is_zero old && t_is_zero new); [exact L|].
  assert (L1 : listed (if t_is_zero old then em else em_unlist em (storage_bucket old) k) b' k').
  { destruct (t_is_zero old); [exact L|]. apply listed_unlist_other; [exact L|right; exact Hne]. }
  destruct (t_is_zero new); [exact L1|]. apply listed_put_other. exact L1.
Qed.

Lemma em_update_lists em k c old new : t_is_zero new = false -> listed (em_update em k c old new) (storage_bucket new) k.
Proof.
  intros Z. unfold em_update. rewrite Z. rewrite andb_false_r. apply listed_put_same.
Qed.

Lemma good_update vld s k v c t s' r : all_good s -> st_try_update vld s k v c t = (s', r) -> all_good s'.
Proof.
  intros A. unfold st_try_update. destruct (aget k (st_map s)) as [e|] eqn:G; [|intros H; inversion H; subst; exact A].
  destruct (negb (conflict_ok c e)); [intros H; inversion H; subst; exact A|].
  destruct (negb (vld (e_val e) v)); [intros H; inversion H; subst; exact A|].
  intros H; inversion H; subst; clear H. intros k' e'. cbn [st_map st_em]. destruct (N.eq_dec k' k) as [->|Hne].
  - rewrite aget_aset_same. intros X; inversion X; subst. unfold good. cbn [e_exp st_em].
    destruct (t_is_zero t) eqn:Z; [left; reflexivity|right; left; apply em_update_lists; exact Z].
  - rewrite aget_aset_other by assumption. intros X. destruct (A k' e' X) as [Z|[L|Qk]]; [left; exact Z| |right; right; exact Qk].
    right; left. cbn [st_em]. apply em_update_keeps; assumption.
Qed.

Lemma good_insert vld s k v c t : all_good s -> all_good (st_try_insert vld s k v c t).
Proof.
  intros A. unfold st_try_insert. destruct (aget k (st_map s)) as [e|] eqn:G.
  - destruct (negb (conflict_ok c e)); [exact A|]. destruct (negb (vld (e_val e) v)); [exact A|].
    intros k' e'. cbn [st_map st_em]. destruct (N.eq_dec k' k) as [->|Hne].
    + rewrite aget_aset_same. intros X; inversion X; subst. unfold good. cbn [e_exp st_em].
      destruct (t_is_zero t) eqn:Z; [left; reflexivity|right; left; apply em_update_lists; exact Z].
    + rewrite aget_aset_other by assumption. intros X. destruct (A k' e' X) as [Z|[L|Qk]]; [left; exact Z| |right; right; exact Qk].
      right; left. cbn [st_em]. apply em_update_keeps; assumption.
  - intros k' e'. cbn [st_map st_em]. unfold em_insert. destruct (N.eq_dec k' k) as [->|Hne].
    + rewrite aget_aset_same. intros X; inversion X; subst. unfold good. cbn [e_exp st_em].
      destruct (t_is_zero t) eqn:Z; [left; reflexivity|right; left; apply listed_put_same].
    + rewrite aget_aset_other by assumption. intros X. destruct (A k' e' X) as [Z|[L|Qk]]; [left; exact Z| |right; right; exact Qk].
      right; left. cbn [st_em]. destruct (t_is_zero t); [exact L|apply listed_put_other; exact L].
Qed.

Lemma good_remove s k c s' prev : all_good s -> st_try_remove s k c = (s', prev) -> all_good s'.
Proof.
  intros A. unfold st_try_remove. destruct (aget k (st_map s)) as [e|] eqn:G; [|intros H; inversion H; subst; exact A].
  destruct (negb (conflict_ok c e)); [intros H; inversion H; subst; exact A|].
  intros H; inversion H; subst; clear H. intros k' e'. cbn [st_map st_em]. destruct (N.eq_dec k' k) as [->|Hne].
  - rewrite aget_adel_same. discriminate.
  - rewrite aget_adel_other by assumption. intros X. destruct (A k' e' X) as [Z|[L|Qk]]; [left; exact Z| |right; right; exact Qk].
    right; left. cbn [st_em]. destruct (t_is_zero (e_exp e)); [exact L|]. unfold em_remove. apply listed_unlist_other; [exact L|right; exact Hne].
Qed.

Lemma good_write s k v : all_good s -> all_good (st_write s k v).
Proof.
  intros A. unfold st_write. destruct (aget k (st_map s)) as [e|] eqn:G; [|exact A].
  intros k' e'. cbn [st_map st_em]. destruct (N.eq_dec k' k) as [->|Hne].
  - rewrite aget_aset_same. intros X; inversion X; subst. unfold good. cbn [e_exp st_em]. exact (A k e G).
  - rewrite aget_aset_other by assumption. intros X. exact (A k' e' X).
Qed.
End Good.

(* ---- the cache-level invariant ---- *)
Definition pending (p : ppc) (k : N) : Prop :=
  match p with
  | PTickKey k0 _ rest _ => k = k0 \/ amem k rest = true
  | PTickAfterPolicy k0 _ _ rest _ => k = k0 \/ amem k rest = true
  | _ => False
  end.

Definition QP (p : ppc) (now : N) : N -> time -> Prop := fun k t => pending p k /\ t_is_expired now t = true.

Definition EmInv (st : cstate) : Prop := all_good (QP (s_pc st) (s_now st)) (s_store st).

Lemma all_good_mono (Q Q' : N -> time -> Prop) s : all_good Q s -> (forall k t, Q k t -> Q' k t) -> all_good Q' s.
Proof. intros A I k e X. destruct (A k e X) as [Z|[L|Qk]]; [left; exact Z|right; left; exact L|right; right; apply I; exact Qk]. Qed.

Lemma all_good_em (Q : N -> time -> Prop) s em' :
  all_good Q s -> (forall b k, listed (st_em s) b k -> listed em' b k) -> all_good Q {| st_map := st_map s; st_em := em' |}.
Proof. intros A I k e X. cbn [st_map] in X. destruct (A k e X) as [Z|[L|Qk]]; [left; exact Z|right; left; cbn [st_em]; apply I; exact L|right; right; exact Qk]. Qed.

Lemma expired_mono now dt t : t_is_expired now t = true -> t_is_expired (now + dt) t = true.
Proof.
  unfold t_is_expired. destruct (now <? t_created t) eqn:A; [discriminate|]. intros H.
  destruct (now + dt <? t_created t) eqn:B; [lia|]. lia.
Qed.

Lemma due_is_expired now t : storage_bucket t <= cleanup_bucket now -> t_is_expired now t = true.
Proof.
  intros H. pose proof (due_implies_elapsed now t H) as E. unfold t_is_expired.
  destruct (now <? t_created t) eqn:A; [lia|]. lia.
Qed.

Ltac unemit_all := unfold emit in *; try match goal with |- context [c_metrics ?c] => destruct (c_metrics c) | H : context [c_metrics ?c] |- _ => destruct (c_metrics c) end; sproj.

Lemma ring_push_em_frame c st k :
  s_store (ring_push c st k) = s_store st /\ s_pc (ring_push c st k) = s_pc st /\ s_now (ring_push c st k) = s_now st.
Proof.
  unfold ring_push, policy_push. repeat match goal with |- context [if ?b then _ else _] => destruct b end;
    try destruct (s_ring st ++ [k]); unemit; auto.
Qed.

Lemma try_remove_cf0_gone s k s' prev : st_try_remove s k 0 = (s', prev) -> aget k (st_map s') = None.
Proof.
  unfold st_try_remove. destruct (aget k (st_map s)) as [e|] eqn:G; [|intros H; inversion H; subst; exact G].
  unfold conflict_ok. cbn [N.eqb orb negb]. intros H; inversion H; subst. cbn [st_map]. apply aget_adel_same.
Qed.

(* going on to the next key of the cleanup (or ending it): the keys still to visit stay excused *)
Lemma tick_next_em c st h rest acc st' o :
  tick_next c st h rest acc = StepOk st' o ->
  all_good (fun k t => amem k rest = true /\ t_is_expired (s_now st) t = true) (s_store st) -> EmInv st'.
Proof.
  unfold tick_next, EmInv, QP. destruct rest as [|p r] eqn:R.
  - intros H A. open_prep H. inversion H; subst. sproj. cbn [pending].
    eapply all_good_mono; [exact A|]. intros k t (X & _). discriminate X.
  - destruct (h_tick_key h) as [k1|]; [|discriminate].
    destruct (aget k1 (p :: r)) as [cf|] eqn:G; [|discriminate]. intros H A.
    assert (M : forall k, amem k (p :: r) = true -> k = k1 \/ amem k (adel k1 (p :: r)) = true).
    { intros k X. destruct (N.eq_dec k k1) as [->|Hne]; [left; reflexivity|right; rewrite amem_adel_other by assumption; exact X]. }
    remember (adel k1 (p :: r)) as rr eqn:RR. inversion H; subst st' o. sproj. cbn [pending].
    eapply all_good_mono; [exact A|]. intros k t (X & Y). split; [apply M; exact X|exact Y].
Qed.

Ltac repc := repeat match goal with E : s_pc ?s = _ |- context [s_pc ?s] => rewrite E end.
Ltac em_close E :=
  repc;
  first [ exact E
        | eapply good_update; [exact E|eassumption]
        | eapply good_remove; [exact E|eassumption]
        | apply good_write; exact E
        | match goal with |- context [ring_push ?c0 ?s0 ?k0] =>
            destruct (ring_push_em_frame c0 s0 k0) as (R1 & R2 & R3); rewrite R1, R2, R3; exact E end ].

Theorem EmInv_step c st l st' o :
  EmInv st -> pc_cf0 (s_pc st) -> cstep c st l = StepOk st' o -> EmInv st'.
Proof.
  intros E Z H. unfold EmInv, QP in *.
  destruct l as [a op|a|h|h|dt|].
  - destruct op; crush_step H; open_shapes; unemit_all; em_close E.
  - cbn [cstep] in H. unfold continue_client in H. destruct (client_of st a) eqn:CA; crush_step H; open_shapes; unemit_all; em_close E.
  - cbn [cstep] in H. unfold proc_step in H. destruct (s_pc st) eqn:PC; try discriminate; cbn [pending] in E.
    + (* loop head *)
      destruct (h_arm h) as [[| | |]|] eqn:HA; try discriminate.
      * crush_step H; open_shapes; unemit_all; repc; cbn [pending]; exact E.
      * crush_step H; open_shapes; unemit_all; repc; cbn [pending]; exact E.
      * (* the cleanup tick *)
        destruct (s_ticks st =? 0); [discriminate|]. sproj.
        destruct (em_cleanup (st_em (s_store st)) (s_now st)) as [em' due] eqn:CL.
        assert (CLf : forall b k, listed (st_em (s_store st)) b k ->
                  (cleanup_bucket (s_now st) < b -> listed em' b k) /\
                  (b <= cleanup_bucket (s_now st) -> exists m, due = Some m /\ amem k m = true))
          by (intros b k L; exact (cleanup_listed _ _ _ _ b k CL L)).
        assert (G : all_good (fun k t => (exists m, due = Some m /\ amem k m = true) /\ t_is_expired (s_now st) t = true)
                      {| st_map := st_map (s_store st); st_em := em' |}).
        { intros k e X. cbn [st_map] in X. destruct (E k e X) as [Zr|[L|(F & _)]]; [left; exact Zr| |destruct F].
          destruct (CLf _ _ L) as (C1 & C2). destruct (N.ltb_spec (cleanup_bucket (s_now st)) (storage_bucket (e_exp e))) as [Hlt|Hge].
          - right; left. cbn [st_em]. apply C1. exact Hlt.
          - right; right. split; [apply C2; exact Hge|apply due_is_expired; exact Hge]. }
        destruct due as [m|].
        -- eapply tick_next_em; [exact H|]. sproj. eapply all_good_mono; [exact G|].
           intros k t ((m0 & Em & X) & Y). inversion Em; subst. auto.
        -- inversion H; subst. unfold EmInv, QP. sproj. rewrite PC. cbn [pending].
           eapply all_good_mono; [exact G|]. intros k t ((m0 & Em & _) & _). discriminate Em.
      * crush_step H; open_shapes; unemit_all; repc; cbn [pending]; exact E.
    + destruct added; [open_track H|]; inversion H; subst; unemit_all; cbn [pending]; first [apply good_insert; exact E|exact E].
    + unfold next_victim in H. destruct victims; inversion H; subst; sproj; cbn [pending]; exact E.
    + destruct v as [vk vc]. destruct (st_try_remove _ _ _) as [sto prev] eqn:TR. open_prep H. unfold next_victim in H.
      destruct rest; inversion H; subst; sproj; cbn [pending]; (eapply good_remove; [exact E|exact TR]).
    + destruct (st_try_remove _ _ _) as [sto prev] eqn:TR. inversion H; subst; sproj; cbn [pending]. eapply good_remove; [exact E|exact TR].
    + inversion H; subst; sproj; cbn [pending]. exact E.
    + inversion H; subst; sproj; cbn [pending]. intros k0 e0 X0. cbn in X0. discriminate X0.
    + inversion H; subst. unemit_all; cbn [pending]; exact E.
    + (* the cleanup looks at one key *)
      assert (Rest : (forall t, st_expiration (s_store st) k = Some t -> negb (t_is_zero t) && t_is_expired (s_now st) t = false) ->
                     all_good (fun k' t => amem k' rest = true /\ t_is_expired (s_now st) t = true) (s_store st)).
      { intros NX k' e X. destruct (E k' e X) as [Zr|[L|([->|M] & Y)]]; [left; exact Zr|right; left; exact L| |right; right; auto].
        specialize (NX (e_exp e)). unfold st_expiration in NX. rewrite X in NX. specialize (NX eq_refl).
        rewrite Y in NX. rewrite andb_true_r in NX. apply negb_false_iff in NX. left. exact NX. }
      destruct (st_expiration (s_store st) k) as [t|] eqn:SE.
      * destruct (negb (t_is_zero t) && t_is_expired (s_now st) t) eqn:B.
        -- destruct (pol_remove _ _) as [s' mets]. inversion H; subst. unfold EmInv, QP. unemit_all; cbn [pending]; exact E.
        -- eapply tick_next_em; [exact H|]. apply Rest. intros t0 X; inversion X; subst; exact B.
      * eapply tick_next_em; [exact H|]. apply Rest. intros t0 X; discriminate X.
    + (* the cleanup removes the expired key *)
      destruct Z as (-> & _). destruct (st_try_remove (s_store st) k 0) as [sto prev] eqn:TR.
      eapply tick_next_em; [exact H|]. sproj.
      pose proof (good_remove _ _ _ _ _ _ E TR) as G. pose proof (try_remove_cf0_gone _ _ _ _ TR) as Gone.
      intros k' e X. destruct (G k' e X) as [Zr|[L|([->|M] & Y)]]; [left; exact Zr|right; left; exact L|congruence|right; right; auto].
  - crush_step H; open_shapes; unemit_all; exact E.
  - crush_step H. sproj. eapply all_good_mono; [exact E|]. intros k t (P & X). split; [exact P|apply expired_mono; exact X].
  - crush_step H. exact E.
Qed.

Lemma EmInv_init c mc t now : EmInv (cinit c mc t now).
Proof. intros k e X. discriminate X. Qed.

Theorem reachable_EmInv c mc t now st : reach_cf c (cinit c mc t now) st -> EmInv st.
Proof.
  induction 1 as [|st l st' o R IH L S]; [apply EmInv_init|].
  destruct (reach_cf_inv _ _ _ _ _ R) as (_ & (_ & _ & Z & _)). eapply EmInv_step; eassumption.
Qed.

(* C05: no resident TTL entry is ever forgotten — whenever the processor is not inside a cleanup,
   every resident entry with a TTL is listed in the expiry index under the bucket of its current
   deadline, so the tick of that second will find it *)
Theorem resident_ttl_entry_is_listed c mc t now st k e :
  reach_cf c (cinit c mc t now) st ->
  (forall k0 cf rest acc, s_pc st <> PTickKey k0 cf rest acc) ->
  (forall k0 cf cost rest acc, s_pc st <> PTickAfterPolicy k0 cf cost rest acc) ->
  aget k (st_map (s_store st)) = Some e -> t_is_zero (e_exp e) = false ->
  listed (st_em (s_store st)) (storage_bucket (e_exp e)) k.
Proof.
  intros R N1 N2 G Z. destruct (reachable_EmInv _ _ _ _ _ R k e G) as [Zr|[L|(P & _)]]; [congruence|exact L|].
  exfalso. destruct (s_pc st); cbn [pending] in P; try contradiction; [eapply N1|eapply N2]; reflexivity.
Qed.

(* ---- after a cleanup at T nothing listed is due at T ---- *)
Definition MinBucket (em : emap) (T : N) : Prop := forall b k, listed em b k -> cleanup_bucket T < b.

Lemma listed_put_inv em b k c b' k' : listed (em_put em b k c) b' k' -> (b' = b /\ k' = k) \/ listed em b' k'.
Proof.
  unfold listed, em_put. destruct (aget b em) as [bucket|] eqn:G; intros (bk & A & M).
  - destruct (N.eq_dec b' b) as [->|Hb].
    + rewrite aget_aset_same in A. inversion A; subst. destruct (N.eq_dec k' k) as [->|Hk]; [left; auto|].
      right. rewrite amem_aset_other in M by assumption. eauto.
    + rewrite aget_aset_other in A by assumption. right. eauto.
  - destruct (N.eq_dec b' b) as [->|Hb].
    + rewrite aget_aset_same in A. inversion A; subst. unfold amem in M. cbn [aget] in M.
      destruct (N.eqb_spec k' k) as [->|Hk]; [left; auto|discriminate M].
    + rewrite aget_aset_other in A by assumption. right. eauto.
Qed.

Lemma listed_unlist_inv em b k b' k' : listed (em_unlist em b k) b' k' -> listed em b' k'.
Proof.
  unfold listed, em_unlist. destruct (aget b em) as [bucket|] eqn:G; [|auto]. intros (bk & A & M).
  destruct (N.eq_dec b' b) as [->|Hb].
  - rewrite aget_aset_same in A. inversion A; subst. exists bucket. split; [exact G|].
    destruct (N.eq_dec k' k) as [->|Hk]; [unfold amem in M; rewrite aget_adel_same in M; discriminate M|].
    rewrite amem_adel_other in M by assumption. exact M.
  - rewrite aget_aset_other in A by assumption. eauto.
Qed.

Lemma bucket_of_now_is_later now d T : T <= now -> cleanup_bucket T < storage_bucket {| t_created := now; t_d := d |}.
Proof.
  intros H. unfold cleanup_bucket, storage_bucket, t_unix. cbn [t_created t_d].
  assert (T / NS <= (now + d) / NS) by (apply N.div_le_mono; [unfold NS; lia|lia]). lia.
Qed.

Lemma MinBucket_update em k c old new T :
  MinBucket em T -> (t_is_zero new = false -> cleanup_bucket T < storage_bucket new) -> MinBucket (em_update em k c old new) T.
Proof.
  intros M Hn b' k' L. unfold em_update in L. destruct (t_is_zero old && t_is_zero new); [exact (M _ _ L)|].
  destruct (t_is_zero new) eqn:Zn.
  - destruct (t_is_zero old); [exact (M _ _ L)|apply listed_unlist_inv in L; exact (M _ _ L)].
  - apply listed_put_inv in L. destruct L as [(-> & _)|L]; [apply Hn; reflexivity|].
    destruct (t_is_zero old); [exact (M _ _ L)|apply listed_unlist_inv in L; exact (M _ _ L)].
Qed.

Definition MB (st : cstate) (T : N) : Prop := MinBucket (st_em (s_store st)) T.

Lemma MinBucket_try_update vld s k v c t s' r T :
  MinBucket (st_em s) T -> (t_is_zero t = false -> cleanup_bucket T < storage_bucket t) ->
  st_try_update vld s k v c t = (s', r) -> MinBucket (st_em s') T.
Proof.
  intros M Hn. unfold st_try_update. destruct (aget k (st_map s)) as [e|]; [|intros H; inversion H; subst; exact M].
  destruct (negb (conflict_ok c e)); [intros H; inversion H; subst; exact M|].
  destruct (negb (vld (e_val e) v)); [intros H; inversion H; subst; exact M|].
  intros H; inversion H; subst. cbn [st_em]. apply MinBucket_update; assumption.
Qed.

Lemma MinBucket_try_insert vld s k v c t T :
  MinBucket (st_em s) T -> (t_is_zero t = false -> cleanup_bucket T < storage_bucket t) ->
  MinBucket (st_em (st_try_insert vld s k v c t)) T.
Proof.
  intros M Hn. unfold st_try_insert. destruct (aget k (st_map s)) as [e|].
  - destruct (negb (conflict_ok c e)); [exact M|]. destruct (negb (vld (e_val e) v)); [exact M|].
    cbn [st_em]. apply MinBucket_update; assumption.
  - cbn [st_em]. unfold em_insert. destruct (t_is_zero t) eqn:Z; [exact M|].
    intros b' k' L. apply listed_put_inv in L. destruct L as [(-> & _)|L]; [apply Hn; reflexivity|exact (M _ _ L)].
Qed.

Lemma MinBucket_try_remove s k c s' prev T : MinBucket (st_em s) T -> st_try_remove s k c = (s', prev) -> MinBucket (st_em s') T.
Proof.
  intros M. unfold st_try_remove. destruct (aget k (st_map s)) as [e|]; [|intros H; inversion H; subst; exact M].
  destruct (negb (conflict_ok c e)); [intros H; inversion H; subst; exact M|].
  intros H; inversion H; subst. cbn [st_em]. destruct (t_is_zero (e_exp e)); [exact M|].
  intros b' k' L. unfold em_remove in L. apply listed_unlist_inv in L. exact (M _ _ L).
Qed.

Lemma MinBucket_write s k v T : MinBucket (st_em s) T -> MinBucket (st_em (st_write s k v)) T.
Proof. intros M. unfold st_write. destruct (aget k (st_map s)); exact M. Qed.

(* the cleanup itself: what it leaves is later than its own bucket, and it adds nothing *)
Lemma cleanup_MinBucket em now em' due : em_cleanup em now = (em', due) ->
  (due <> None -> MinBucket em' now) /\ (forall T, MinBucket em T -> MinBucket em' T).
Proof.
  unfold em_cleanup. destruct (em_due em now) eqn:D; intros H; inversion H; subst.
  - split; [intros X; congruence|auto].
  - split.
    + intros _ b k (bk & A & _). unfold em_keep in A.
      rewrite (aget_filter_key (fun x => negb (x <=? cleanup_bucket now)) b em) in A.
      destruct (b <=? cleanup_bucket now) eqn:E; [discriminate A|lia].
    + intros T M b k (bk & A & X). unfold em_keep in A.
      rewrite (aget_filter_key (fun x => negb (x <=? cleanup_bucket now)) b em) in A.
      destruct (negb (b <=? cleanup_bucket now)); [|discriminate A]. apply (M b k). exists bk. auto.
Qed.

(* an item admitted now whose deadline bucket was already due at T would be listed under a bucket the
   cleanup at T has been through; it is reclaimed by the next cleanup instead *)
Definition no_stale_admission (st : cstate) (T : N) : Prop :=
  forall k cf v exp cost vs, s_pc st = PNewAfterAdd k cf v exp cost vs true ->
  t_is_zero exp = false -> cleanup_bucket T < storage_bucket exp.

Theorem MB_step c st l st' o T :
  T <= s_now st -> MB st T -> no_stale_admission st T -> cstep c st l = StepOk st' o -> MB st' T.
Proof.
  intros HT M NS H. unfold MB in *.
  assert (Fresh : forall d, t_is_zero {| t_created := s_now st; t_d := d |} = false ->
            cleanup_bucket T < storage_bucket {| t_created := s_now st; t_d := d |})
    by (intros d _; apply bucket_of_now_is_later; exact HT).
  destruct l as [a op|a|h|h|dt|].
  - destruct op; crush_step H; open_shapes; unemit_all; try exact M;
      first [ eapply MinBucket_try_update; [exact M|apply Fresh|eassumption]
            | eapply MinBucket_try_remove; [exact M|eassumption]
            | match goal with |- context [ring_push ?c0 ?s0 ?k0] =>
                destruct (ring_push_em_frame c0 s0 k0) as (R1 & _); rewrite R1; exact M end ].
  - cbn [cstep] in H. unfold continue_client in H. destruct (client_of st a) eqn:CA; crush_step H; open_shapes; unemit_all;
      first [exact M | apply MinBucket_write; exact M].
  - crush_step H; open_shapes; unemit_all; try exact M;
      first [ eapply MinBucket_try_remove; [exact M|eassumption]
            | apply MinBucket_try_insert; [exact M|intros Zx; eapply NS; [eassumption|exact Zx]]
            | match goal with CL : em_cleanup _ _ = (_, _) |- _ => destruct (cleanup_MinBucket _ _ _ _ CL) as (_ & K); cbn [st_em]; apply K; exact M end
            | intros b k (bk & A & _); cbn in A; discriminate A ].
  - crush_step H; open_shapes; unemit_all; exact M.
  - crush_step H. exact M.
  - crush_step H. exact M.
Qed.

(* the cleanup step leaves no bucket that is due at its own time *)
Theorem tick_establishes_MB c st h st' o :
  s_pc st = PIdle -> h_arm h = Some ArmTick -> proc_step c st h = StepOk st' o -> MB st' (s_now st).
Proof.
  intros PC HA H. unfold proc_step in H. rewrite PC, HA in H. destruct (s_ticks st =? 0); [discriminate|]. sproj.
  destruct (em_cleanup (st_em (s_store st)) (s_now st)) as [em' due] eqn:CL.
  assert (M : MinBucket em' (s_now st)).
  { destruct due as [m|].
    - destruct (cleanup_MinBucket _ _ _ _ CL) as (K & _). apply K. discriminate.
    - destruct (cleanup_nothing_due _ _ _ CL) as (-> & K). intros b k (bk & A & _). apply (K b bk). apply aget_In_pair. exact A. }
  unfold MB. destruct due as [m|].
  - unfold tick_next in H. crush_loop H; open_shapes; sproj; exact M.
  - inversion H; subst. sproj. exact M.
Qed.

(* C05, reclamation: once a cleanup that ran at time T is over (the processor is out of it) — and
   as long as no item already due at T was admitted since — no resident entry has a deadline bucket
   that was due at T.  In particular an entry whose TTL had elapsed one bucket width (one second)
   before T is gone: removed from the store, un-charged, handed to on_evict. *)
Theorem after_cleanup_nothing_due_is_resident st T k e :
  EmInv st -> MB st T ->
  (forall k0 cf rest acc, s_pc st <> PTickKey k0 cf rest acc) ->
  (forall k0 cf cost rest acc, s_pc st <> PTickAfterPolicy k0 cf cost rest acc) ->
  aget k (st_map (s_store st)) = Some e -> t_is_zero (e_exp e) = false ->
  cleanup_bucket T < storage_bucket (e_exp e).
Proof.
  intros E M N1 N2 G Z. destruct (E k e G) as [Zr|[L|(P & _)]]; [congruence|exact (M _ _ L)|].
  exfalso. destruct (s_pc st); cbn [pending] in P; try contradiction; [eapply N1|eapply N2]; reflexivity.
Qed.

Corollary elapsed_entry_is_reclaimed st T k e :
  EmInv st -> MB st T ->
  (forall k0 cf rest acc, s_pc st <> PTickKey k0 cf rest acc) ->
  (forall k0 cf cost rest acc, s_pc st <> PTickAfterPolicy k0 cf cost rest acc) ->
  aget k (st_map (s_store st)) = Some e -> t_is_zero (e_exp e) = false ->
  t_created (e_exp e) + t_d (e_exp e) + NS <= T -> False.
Proof.
  intros E M N1 N2 G Z D. pose proof (after_cleanup_nothing_due_is_resident st T k e E M N1 N2 G Z) as X.
  pose proof (due_within_one_bucket T (e_exp e) D). lia.
Qed.
