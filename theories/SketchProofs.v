(* SketchProofs.v — the 4-bit counters and the count-min sketch (property C13, and the
   no-panic part of C20 for every counter width). *)
From StrettoModel Require Import Base BaseProofs Sketch.
From Coq Require Import ZifyBool ZifyNat ZifyN.
Open Scope N_scope.
Ltac Zify.zify_post_hook ::= Z.div_mod_to_equations.

(* ---- one nibble of one byte: exhaustive sweep, lifted ---- *)
Definition nib_get (b o : N) : N := N.land (N.shiftr b (o * 4)) 15.
Definition nib_inc (b o : N) : N := if nib_get b o <? 15 then b + N.shiftl 1 (o * 4) else b.
Definition nib_halve (b : N) : N := N.land (N.shiftr b 1) 119.

Definition bytes : list N := map N.of_nat (seq 0 256).
Lemma bytes_all b : b < 256 -> In b bytes.
Proof. intros H. unfold bytes. apply in_map_iff. exists (N.to_nat b). split; [lia|]. apply in_seq. lia. Qed.

Definition chk_inc (b : N) : bool :=
  forallb (fun o =>
    (nib_inc b o <? 256) && (nib_get b o <? 16) &&
    (nib_get (nib_inc b o) o =? N.min 15 (nib_get b o + 1)) &&
    (nib_get (nib_inc b o) (1 - o) =? nib_get b (1 - o))) [0; 1].
Lemma chk_inc_all : forallb chk_inc bytes = true.
Proof. vm_compute. reflexivity. Qed.

Lemma nib_inc_spec b o : b < 256 -> o < 2 ->
  nib_inc b o < 256 /\ nib_get b o < 16 /\
  nib_get (nib_inc b o) o = N.min 15 (nib_get b o + 1) /\
  nib_get (nib_inc b o) (1 - o) = nib_get b (1 - o).
Proof.
  intros H Ho. pose proof (proj1 (forallb_forall _ _) chk_inc_all b (bytes_all b H)) as C.
  unfold chk_inc in C. rewrite forallb_forall in C. specialize (C o).
  assert (Hin : In o [0; 1]) by (assert (o = 0 \/ o = 1) as [->| ->] by lia; simpl; auto).
  specialize (C Hin). rewrite !andb_true_iff, !N.ltb_lt, !N.eqb_eq in C. tauto.
Qed.

Definition chk_halve (b : N) : bool :=
  forallb (fun o => (nib_halve b <? 256) && (nib_get (nib_halve b) o =? nib_get b o / 2)) [0; 1].
Lemma chk_halve_all : forallb chk_halve bytes = true.
Proof. vm_compute. reflexivity. Qed.

Lemma nib_halve_spec b o : b < 256 -> o < 2 ->
  nib_halve b < 256 /\ nib_get (nib_halve b) o = nib_get b o / 2.
Proof.
  intros H Ho. pose proof (proj1 (forallb_forall _ _) chk_halve_all b (bytes_all b H)) as C.
  unfold chk_halve in C. rewrite forallb_forall in C. specialize (C o).
  assert (Hin : In o [0; 1]) by (assert (o = 0 \/ o = 1) as [->| ->] by lia; simpl; auto).
  specialize (C Hin). rewrite !andb_true_iff, !N.ltb_lt, !N.eqb_eq in C. tauto.
Qed.

Lemma land1 i : N.land i 1 = i mod 2.
Proof. change 1 with (N.ones 1). rewrite N.land_ones. reflexivity. Qed.

Lemma land1_lt i : N.land i 1 < 2.
Proof. rewrite land1. apply N.mod_lt. lia. Qed.

(* ---- rows ---- *)
Definition row_wf (r : row) : Prop := Forall (fun b => b < 256) r.

Lemma row_get_unfold r i :
  row_get r i = option_map (fun b => nib_get b (N.land i 1)) (nth_error r (N.to_nat (i / 2))).
Proof. unfold row_get, nib_get. destruct (nth_error r (N.to_nat (i / 2))); reflexivity. Qed.

Lemma row_inc_unfold r i :
  row_inc r i = option_map (fun b => list_set r (N.to_nat (i / 2)) (nib_inc b (N.land i 1)))
                           (nth_error r (N.to_nat (i / 2))).
Proof.
  unfold row_inc, nib_inc, nib_get. destruct (nth_error r (N.to_nat (i / 2))) as [b|] eqn:E; [|reflexivity].
  simpl. destruct (N.land (N.shiftr b (N.land i 1 * 4)) 15 <? 15); [reflexivity|].
  f_equal. clear -E. revert E. generalize (N.to_nat (i / 2)) as n. induction r as [|x r IH]; intros [|n]; simpl; try discriminate.
  - intros H; inversion H; reflexivity.
  - intros H. f_equal. apply IH. assumption.
Qed.

Lemma row_wf_nth r n b : row_wf r -> nth_error r n = Some b -> b < 256.
Proof. intros W H. unfold row_wf in W. rewrite Forall_forall in W. apply W. eapply nth_error_In; eassumption. Qed.

Lemma row_wf_list_set r n b : row_wf r -> b < 256 -> row_wf (list_set r n b).
Proof.
  unfold row_wf. revert n. induction r as [|x r IH]; intros [|n] W Hb; simpl; auto.
  - inversion W; subst. constructor; assumption.
  - inversion W; subst. constructor; auto.
Qed.

Lemma index_split i j : i <> j -> i / 2 = j / 2 -> N.land j 1 = 1 - N.land i 1.
Proof. intros Hne Hd. rewrite !land1. lia. Qed.

(* increment: saturates at 15, touches only its own counter, never panics inside the row *)
Lemma row_inc_spec r i :
  row_wf r -> (N.to_nat (i / 2) < length r)%nat ->
  exists r', row_inc r i = Some r' /\ row_wf r' /\ length r' = length r /\
    forall j, row_get r' j =
      if N.eqb j i then option_map (fun v => N.min 15 (v + 1)) (row_get r j) else row_get r j.
Proof.
  intros W Hlt. destruct (nth_error r (N.to_nat (i / 2))) as [b|] eqn:E;
    [|apply nth_error_None in E; lia].
  pose proof (row_wf_nth _ _ _ W E) as Hb. pose proof (land1_lt i) as Ho.
  destruct (nib_inc_spec b (N.land i 1) Hb Ho) as (I1 & I2 & I3 & I4).
  eexists. rewrite row_inc_unfold, E. split; [reflexivity|].
  split; [apply row_wf_list_set; assumption|]. split; [apply length_list_set|].
  intros j. rewrite !row_get_unfold.
  destruct (N.eqb_spec j i) as [->|Hne].
  - rewrite nth_error_list_set_same by assumption. rewrite E. simpl. f_equal. assumption.
  - destruct (N.eq_dec (j / 2) (i / 2)) as [Hd|Hd].
    + rewrite Hd, nth_error_list_set_same by assumption. rewrite E. simpl. f_equal.
      rewrite (index_split i j) by auto. assumption.
    + rewrite nth_error_list_set_other by lia. reflexivity.
Qed.

Lemma row_reset_spec r j : row_wf r ->
  row_wf (row_reset r) /\ row_get (row_reset r) j = option_map (fun v => v / 2) (row_get r j).
Proof.
  intros W. split.
  - unfold row_wf, row_reset in *. rewrite Forall_forall in *. intros b Hb. apply in_map_iff in Hb.
    destruct Hb as (x & <- & Hx). apply (nib_halve_spec x 0); [auto|lia].
  - rewrite !row_get_unfold. unfold row_reset. rewrite nth_error_map.
    destruct (nth_error r (N.to_nat (j / 2))) as [b|] eqn:E; [|reflexivity]. simpl. f_equal.
    apply (nib_halve_spec b (N.land j 1)); [eapply row_wf_nth; eassumption|apply land1_lt].
Qed.

Lemma row_clear_spec r j : row_wf (row_clear r) /\
  row_get (row_clear r) j = option_map (fun _ => 0) (row_get r j).
Proof.
  split.
  - unfold row_wf, row_clear. rewrite Forall_forall. intros b Hb. apply in_map_iff in Hb.
    destruct Hb as (x & <- & _). lia.
  - rewrite !row_get_unfold. unfold row_clear. rewrite nth_error_map.
    destruct (nth_error r (N.to_nat (j / 2))); [|reflexivity].
    cbn [option_map]. f_equal. unfold nib_get. rewrite N.shiftr_0_l. reflexivity.
Qed.

Lemma row_get_lt16 r j v : row_wf r -> row_get r j = Some v -> v < 16.
Proof.
  intros W. rewrite row_get_unfold. destruct (nth_error r (N.to_nat (j / 2))) as [b|] eqn:E; [|discriminate].
  simpl. intros H; inversion H; subst. apply (nib_inc_spec b (N.land j 1)); [eapply row_wf_nth; eassumption|apply land1_lt].
Qed.

Lemma row_new_wf w : row_wf (row_new w) /\ length (row_new w) = N.to_nat w.
Proof.
  unfold row_new. split; [|apply repeat_length]. unfold row_wf. rewrite Forall_forall.
  intros b Hb. apply repeat_spec in Hb. subst. lia.
Qed.

Lemma row_new_get w j v : row_get (row_new w) j = Some v -> v = 0.
Proof.
  rewrite row_get_unfold. unfold row_new.
  destruct (nth_error (repeat 0 (N.to_nat w)) (N.to_nat (j / 2))) as [b|] eqn:E; [|discriminate].
  apply nth_error_In, repeat_spec in E. subst. simpl. intros H; inversion H. unfold nib_get. rewrite N.shiftr_0_l. reflexivity.
Qed.

(* ---- the sketch ---- *)
Definition sk_wf (s : sketch) : Prop :=
  length (sk_seeds s) = length (sk_rows s) /\ sk_rows s <> [] /\
  Forall (fun r => row_wf r /\ 2 * N.of_nat (length r) = sk_mask s + 1) (sk_rows s).

Lemma land_le_mask x m : N.land x m <= m.
Proof.
  destruct (N.eq_dec m 0) as [->|Hm]; [rewrite N.land_0_r; lia|].
  apply N.bits_inj_iff in Hm || idtac.
  (* N.land x m <= m : every set bit of the conjunction is a set bit of m *)
  assert (H : N.land x m = m - N.ldiff m x).
  { rewrite N.sub_nocarry_ldiff.
    - apply N.bits_inj. intros n. rewrite N.land_spec, !N.ldiff_spec.
      destruct (N.testbit x n), (N.testbit m n); reflexivity.
    - apply N.bits_inj. intros n. rewrite N.ldiff_spec, N.ldiff_spec, N.bits_0.
      destruct (N.testbit x n), (N.testbit m n); reflexivity. }
  rewrite H. lia.
Qed.

Lemma idx_in_row (r : row) mask x :
  2 * N.of_nat (length r) = mask + 1 -> (N.to_nat (N.land x mask / 2) < length r)%nat.
Proof. intros H. pose proof (land_le_mask x mask). lia. Qed.

Lemma next_pow2_ge n : 1 <= n -> n <= next_pow2 n /\ exists e, next_pow2 n = 2 ^ e.
Proof.
  intros H. unfold next_pow2. split; [|eauto].
  destruct (N.eq_dec n 1) as [->|Hn]; [simpl; lia|].
  apply N.log2_up_spec. lia.
Qed.

Lemma sk_width_even ctrs : 1 <= ctrs -> 2 * (sk_width ctrs / 2) = sk_width ctrs /\ ctrs <= sk_width ctrs.
Proof.
  intros H. unfold sk_width. destruct (next_pow2_ge ctrs H) as (Hge & e & He).
  rewrite He in *. destruct (N.eq_dec e 0) as [->|Hne].
  - simpl in *. split; [reflexivity|lia].
  - assert (2 <= 2 ^ e).
    { replace e with (N.succ (N.pred e)) by lia. rewrite N.pow_succ_r'. pose proof (N.pow_nonzero 2 (N.pred e)). lia. }
    rewrite N.max_l by lia. split; [|lia].
    replace e with (N.succ (N.pred e)) by lia. rewrite N.pow_succ_r'.
    generalize (2 ^ N.pred e). intros p. lia.
Qed.

(* every accepted counter width (>= 1, power of two or not) yields a well-formed sketch *)
Theorem sk_new_wf ctrs seeds :
  1 <= ctrs -> length seeds = SK_DEPTH ->
  exists s, sk_new ctrs seeds = Some s /\ sk_wf s /\ ctrs <= sk_mask s + 1.
Proof.
  intros H Hs. unfold sk_new. destruct (ctrs <? 1) eqn:E; [lia|].
  eexists. split; [reflexivity|]. destruct (sk_width_even ctrs H) as (Hev & Hge).
  assert (Hpos : 1 <= sk_width ctrs) by lia.
  split; [|simpl; lia]. unfold sk_wf; cbn [sk_rows sk_seeds sk_mask].
  split; [rewrite repeat_length; assumption|]. split; [unfold SK_DEPTH; vm_compute; discriminate|].
  rewrite Forall_forall. intros r Hr. apply repeat_spec in Hr. subst r.
  destruct (row_new_wf (sk_width ctrs / 2)) as (W & L). split; [assumption|]. rewrite L. lia.
Qed.

Theorem sk_new_zero seeds : sk_new 0 seeds = None.
Proof. reflexivity. Qed.

(* ---- estimates as a minimum over per-row values ---- *)
Fixpoint rows_vals (mask h : N) (rows : list row) (seeds : list N) : option (list N) :=
  match rows, seeds with
  | [], _ => Some []
  | r :: rs, sd :: sds =>
      match row_get r (N.land (N.lxor h sd) mask), rows_vals mask h rs sds with
      | Some v, Some vs => Some (v :: vs)
      | _, _ => None
      end
  | _ :: _, [] => None
  end.

Lemma rows_est_vals mask h : forall rows seeds acc,
  rows_est mask h rows seeds acc =
  option_map (fun vs => fold_left N.min vs acc) (rows_vals mask h rows seeds).
Proof.
  induction rows as [|r rows IH]; intros [|sd seeds] acc; cbn [rows_est rows_vals]; try reflexivity.
  destruct (row_get r (N.land (N.lxor h sd) mask)) as [v|]; [|reflexivity].
  rewrite IH. destruct (rows_vals mask h rows seeds) as [vs|]; [|reflexivity].
  cbn [option_map fold_left]. f_equal. f_equal. destruct (v <? acc) eqn:E; lia.
Qed.

Lemma fold_min_min vs : forall a b, fold_left N.min vs (N.min a b) = N.min a (fold_left N.min vs b).
Proof.
  induction vs as [|v vs IH]; intros a b; cbn [fold_left]; [reflexivity|].
  rewrite <- IH. f_equal. lia.
Qed.

Lemma fold_min_le vs : forall a, fold_left N.min vs a <= a.
Proof. induction vs as [|v vs IH]; intros a; cbn [fold_left]; [lia|]. specialize (IH (N.min a v)). lia. Qed.

Lemma fold_min_start vs a b :
  vs <> [] -> Forall (fun v => v < 16) vs -> 15 <= a -> 15 <= b ->
  fold_left N.min vs a = fold_left N.min vs b.
Proof.
  destruct vs as [|v vs]; [congruence|]. intros _ F Ha Hb. inversion F; subst. cbn [fold_left].
  f_equal. lia.
Qed.

Lemma fold_min_lt16 vs a : vs <> [] -> Forall (fun v => v < 16) vs -> fold_left N.min vs a < 16.
Proof.
  destruct vs as [|v vs]; [congruence|]. intros _ F. inversion F; subst. cbn [fold_left].
  pose proof (fold_min_le vs (N.min a v)). lia.
Qed.

Lemma fold_min_mono vs vs' : Forall2 N.le vs vs' -> forall a a', a <= a' ->
  fold_left N.min vs a <= fold_left N.min vs' a'.
Proof.
  induction 1 as [|v v' vs vs' Hv _ IH]; intros a a' Ha; cbn [fold_left]; [assumption|].
  apply IH. lia.
Qed.

Lemma fold_min_map (f : N -> N) vs :
  (forall x y, f (N.min x y) = N.min (f x) (f y)) ->
  forall a, fold_left N.min (map f vs) (f a) = f (fold_left N.min vs a).
Proof.
  intros Hf. induction vs as [|v vs IH]; intros a; cbn [map fold_left]; [reflexivity|].
  rewrite <- Hf. apply IH.
Qed.

Definition rows_ok (mask : N) (rows : list row) : Prop :=
  Forall (fun r => row_wf r /\ 2 * N.of_nat (length r) = mask + 1) rows.

Lemma rows_vals_total mask h : forall rows seeds,
  length seeds = length rows -> rows_ok mask rows ->
  exists vs, rows_vals mask h rows seeds = Some vs /\ length vs = length rows /\
             Forall (fun v => v < 16) vs.
Proof.
  induction rows as [|r rows IH]; intros [|sd seeds] Hl HW; simpl in Hl; try discriminate.
  - exists []. repeat split; constructor.
  - inversion HW as [|? ? [W L] HW']; subst. injection Hl as Hl.
    destruct (IH seeds Hl HW') as (vs & E & Len & F).
    set (ix := N.land (N.lxor h sd) mask).
    destruct (row_get r ix) as [v|] eqn:Ev.
    + exists (v :: vs). cbn [rows_vals]. fold ix. rewrite Ev, E. split; [reflexivity|].
      split; [simpl; congruence|]. constructor; [eapply row_get_lt16; eassumption|assumption].
    + exfalso. rewrite row_get_unfold in Ev. pose proof (idx_in_row r mask (N.lxor h sd) L) as Hix. fold ix in Hix.
      destruct (nth_error r (N.to_nat (ix / 2))) eqn:En; [discriminate|]. apply nth_error_None in En. lia.
Qed.

Definition bump (v : N) : N := N.min 15 (v + 1).

Lemma rows_inc_spec mask h : forall rows seeds,
  length seeds = length rows -> rows_ok mask rows ->
  exists rows', rows_inc mask h rows seeds = Some rows' /\ rows_ok mask rows' /\
    length rows' = length rows /\
    forall h' vs, rows_vals mask h' rows seeds = Some vs ->
      exists vs', rows_vals mask h' rows' seeds = Some vs' /\
        Forall2 N.le vs vs' /\ (h' = h -> vs' = map bump vs).
Proof.
  induction rows as [|r rows IH]; intros [|sd seeds] Hl HW; simpl in Hl; try discriminate.
  - exists []. split; [reflexivity|]. split; [constructor|]. split; [reflexivity|].
    intros h' vs H. simpl in H. inversion H; subst. exists []. repeat split; constructor.
  - inversion HW as [|? ? [W L] HW']; subst. injection Hl as Hl.
    destruct (IH seeds Hl HW') as (rows' & HI & HW2 & HL2 & Hv).
    destruct (row_inc_spec r (N.land (N.lxor h sd) mask) W (idx_in_row r mask _ L)) as (r' & RI & W' & L' & G).
    exists (r' :: rows'). cbn [rows_inc]. rewrite RI, HI. split; [reflexivity|].
    split; [constructor; [split; [assumption|rewrite L'; assumption]|assumption]|].
    split; [simpl; congruence|].
    intros h' vs. cbn [rows_vals].
    set (ix := N.land (N.lxor h' sd) mask).
    destruct (row_get r ix) as [v|] eqn:Ev; [|discriminate].
    destruct (rows_vals mask h' rows seeds) as [vs0|] eqn:E0; [|discriminate].
    intros H; inversion H; subst; clear H.
    destruct (Hv h' vs0 E0) as (vs0' & E0' & F2 & Same).
    rewrite (G ix), Ev, E0'. cbn [option_map].
    destruct (N.eqb_spec ix (N.land (N.lxor h sd) mask)) as [Heq|Hne].
    + eexists. split; [reflexivity|]. split; [constructor; [unfold bump; pose proof (row_get_lt16 _ _ _ W Ev); lia|assumption]|].
      intros ->. rewrite (Same eq_refl). reflexivity.
    + eexists. split; [reflexivity|]. split; [constructor; [lia|assumption]|].
      intros ->. exfalso. apply Hne. reflexivity.
Qed.

Lemma bump_min x y : bump (N.min x y) = N.min (bump x) (bump y).
Proof. unfold bump. lia. Qed.

(* increment and estimate never panic on a well-formed sketch; counters only grow; the
   incremented key's estimate goes up by one, saturating at 15 *)
Theorem sk_inc_spec s h : sk_wf s ->
  exists s', sk_inc s h = Some s' /\ sk_wf s' /\ sk_mask s' = sk_mask s /\ sk_seeds s' = sk_seeds s /\
    forall h', exists e e', sk_est s h' = Some e /\ sk_est s' h' = Some e' /\ e <= e' /\ e' < 16 /\
                          (h' = h -> e' = bump e).
Proof.
  intros (Hl & Hne & HW).
  destruct (rows_inc_spec (sk_mask s) h (sk_rows s) (sk_seeds s) Hl HW) as (rows' & HI & HW' & HL' & Hv).
  unfold sk_inc. rewrite HI. eexists. split; [reflexivity|].
  split; [unfold sk_wf; cbn [sk_rows sk_seeds sk_mask]; split; [congruence|split; [destruct rows', (sk_rows s); simpl in *; congruence|assumption]]|].
  split; [reflexivity|]. split; [reflexivity|].
  intros h'. unfold sk_est; cbn [sk_rows sk_seeds sk_mask]. rewrite !rows_est_vals.
  destruct (rows_vals_total (sk_mask s) h' (sk_rows s) (sk_seeds s) Hl HW) as (vs & E & Len & F).
  destruct (Hv h' vs E) as (vs' & E' & F2 & Same).
  rewrite E, E'. cbn [option_map]. do 2 eexists. split; [reflexivity|]. split; [reflexivity|].
  assert (Hvs : vs <> []) by (destruct vs, (sk_rows s); simpl in *; congruence).
  assert (Hvs' : vs' <> []) by (inversion F2; subst; congruence).
  assert (F' : Forall (fun v => v < 16) vs').
  { assert (L2 : length rows' = length (sk_rows s)) by assumption.
    destruct (rows_vals_total (sk_mask s) h' rows' (sk_seeds s) ltac:(congruence) HW') as (vs2 & E2 & _ & F3).
    rewrite E' in E2. inversion E2; subst. assumption. }
  split; [apply fold_min_mono; [assumption|lia]|].
  split; [apply fold_min_lt16; assumption|].
  intros ->. rewrite (Same eq_refl).
  rewrite (fold_min_start (map bump vs) 255 (bump 255)).
  - apply fold_min_map. apply bump_min.
  - destruct vs; simpl; congruence.
  - rewrite <- (Same eq_refl). assumption.
  - lia.
  - unfold bump. lia.
Qed.

Theorem sk_est_total s h : sk_wf s -> exists e, sk_est s h = Some e /\ e < 16.
Proof.
  intros W. destruct (sk_inc_spec s h W) as (s' & _ & _ & _ & _ & H).
  destruct (H h) as (e & e' & E & _ & Hle & Hlt & _). exists e. split; [assumption|lia].
Qed.

Lemma half_min x y : N.min x y / 2 = N.min (x / 2) (y / 2).
Proof. lia. Qed.

Lemma rows_ok_map mask (f : row -> row) rows :
  (forall r, row_wf r -> row_wf (f r) /\ length (f r) = length r) ->
  rows_ok mask rows -> rows_ok mask (map f rows).
Proof.
  intros Hf. unfold rows_ok. rewrite !Forall_forall. intros H r Hr. apply in_map_iff in Hr.
  destruct Hr as (x & <- & Hx). destruct (H x Hx) as (W & L). destruct (Hf x W) as (W' & L').
  split; [assumption|]. rewrite L'. assumption.
Qed.

Lemma rows_vals_map mask h (f : row -> row) (g : N -> N) :
  (forall r j, row_wf r -> row_get (f r) j = option_map g (row_get r j)) ->
  forall rows seeds, rows_ok mask rows ->
  rows_vals mask h (map f rows) seeds = option_map (map g) (rows_vals mask h rows seeds).
Proof.
  intros Hf. induction rows as [|r rows IH]; intros [|sd seeds] HW; cbn [map rows_vals]; try reflexivity.
  inversion HW as [|? ? [W L] HW']; subst.
  rewrite Hf by assumption. destruct (row_get r (N.land (N.lxor h sd) mask)) as [v|]; [|reflexivity].
  cbn [option_map]. rewrite IH by assumption.
  destruct (rows_vals mask h rows seeds); reflexivity.
Qed.

(* reset halves every estimate; clear zeroes it *)
Theorem sk_reset_spec s h : sk_wf s ->
  sk_wf (sk_reset s) /\ sk_est (sk_reset s) h = option_map (fun e => e / 2) (sk_est s h).
Proof.
  intros (Hl & Hne & HW). split.
  - unfold sk_wf, sk_reset; cbn [sk_rows sk_seeds sk_mask]. rewrite map_length.
    split; [assumption|]. split; [destruct (sk_rows s); simpl; congruence|].
    apply rows_ok_map; [|assumption]. intros r W. split; [apply (row_reset_spec r 0 W)|apply map_length].
  - unfold sk_est, sk_reset; cbn [sk_rows sk_seeds sk_mask]. rewrite !rows_est_vals.
    rewrite (rows_vals_map _ _ row_reset (fun v => v / 2)); [|intros r j W; apply row_reset_spec; assumption|assumption].
    destruct (rows_vals_total (sk_mask s) h (sk_rows s) (sk_seeds s) Hl HW) as (vs & E & Len & F).
    rewrite E. cbn [option_map]. f_equal.
    assert (Hvs : vs <> []) by (destruct vs, (sk_rows s); simpl in *; congruence).
    rewrite (fold_min_start (map (fun v => v / 2) vs) 255 (255 / 2)).
    + apply (fold_min_map (fun v => v / 2)). intros; apply half_min.
    + destruct vs; simpl; congruence.
    + rewrite Forall_forall in *. intros x Hx. apply in_map_iff in Hx. destruct Hx as (y & <- & Hy).
      specialize (F y Hy). simpl in F. lia.
    + lia.
    + lia.
Qed.

Theorem sk_clear_spec s h : sk_wf s ->
  sk_wf (sk_clear s) /\ sk_est (sk_clear s) h = Some 0.
Proof.
  intros (Hl & Hne & HW). split.
  - unfold sk_wf, sk_clear; cbn [sk_rows sk_seeds sk_mask]. rewrite map_length.
    split; [assumption|]. split; [destruct (sk_rows s); simpl; congruence|].
    apply rows_ok_map; [|assumption]. intros r W. split; [apply (row_clear_spec r 0)|apply map_length].
  - unfold sk_est, sk_clear; cbn [sk_rows sk_seeds sk_mask]. rewrite !rows_est_vals.
    rewrite (rows_vals_map _ _ row_clear (fun _ => 0)); [|intros r j W; apply row_clear_spec|assumption].
    destruct (rows_vals_total (sk_mask s) h (sk_rows s) (sk_seeds s) Hl HW) as (vs & E & Len & F).
    rewrite E. cbn [option_map]. f_equal.
    assert (Hvs : vs <> []) by (destruct vs, (sk_rows s); simpl in *; congruence).
    destruct vs as [|v vs]; [congruence|]. cbn [map fold_left].
    pose proof (fold_min_le (map (fun _ => 0) vs) (N.min 255 0)). lia.
Qed.

(* a fresh sketch estimates zero everywhere *)
Theorem sk_new_est_zero ctrs seeds s h :
  1 <= ctrs -> length seeds = SK_DEPTH -> sk_new ctrs seeds = Some s -> sk_est s h = Some 0.
Proof.
  intros H Hs E. destruct (sk_new_wf ctrs seeds H Hs) as (s0 & E0 & W & _). rewrite E in E0. inversion E0; subst s0.
  destruct (sk_est_total s h W) as (e & Ee & _). rewrite Ee. f_equal.
  unfold sk_new in E. destruct (ctrs <? 1); [discriminate|]. inversion E; subst; clear E.
  unfold sk_est in Ee; cbn [sk_rows sk_seeds sk_mask] in Ee. rewrite rows_est_vals in Ee.
  set (m := sk_width ctrs - 1) in *. set (w := sk_width ctrs / 2) in *.
  assert (G : forall n sds vs, rows_vals m h (repeat (row_new w) n) sds = Some vs -> Forall (fun v => v = 0) vs).
  { induction n as [|n IH]; intros [|sd sds] vs; cbn [repeat rows_vals]; try discriminate.
    - intros H0; inversion H0; constructor.
    - intros H0; inversion H0; constructor.
    - destruct (row_get (row_new w) (N.land (N.lxor h sd) m)) as [v|] eqn:Ev; [|discriminate].
      destruct (rows_vals m h (repeat (row_new w) n) sds) as [vs0|] eqn:E1; [|discriminate].
      intros H0; inversion H0; subst. constructor; [eapply row_new_get; eassumption|eapply IH; eassumption]. }
  destruct (rows_vals_total m h (repeat (row_new w) SK_DEPTH) seeds) as (vs & Ev & Len & _).
  - rewrite repeat_length; assumption.
  - destruct W as (_ & _ & W). exact W.
  - change [row_new w; row_new w; row_new w; row_new w] with (repeat (row_new w) SK_DEPTH) in Ee.
    rewrite Ev in Ee. cbn [option_map] in Ee. inversion Ee; subst. apply G in Ev.
    destruct vs as [|v vs]; [rewrite repeat_length in Len; vm_compute in Len; discriminate Len|].
    inversion Ev; subst. cbn [fold_left]. pose proof (fold_min_le vs (N.min 255 0)). lia.
Qed.

(* whatever the shape of the sketch, an estimate never exceeds the starting value 255 *)
Lemma rows_est_le_acc mask h : forall rows seeds acc e, rows_est mask h rows seeds acc = Some e -> e <= acc.
Proof.
  intros rows seeds acc e. rewrite rows_est_vals. destruct (rows_vals mask h rows seeds) as [vs|]; [|discriminate].
  cbn [option_map]. intros H; inversion H; subst. apply fold_min_le.
Qed.

Lemma sk_est_le_255 s h e : sk_est s h = Some e -> e <= 255.
Proof. unfold sk_est. apply rows_est_le_acc. Qed.
