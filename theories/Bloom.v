(* Bloom.v — model of src/bbloom.rs (the TinyLFU "doorkeeper").
   The bit array is the list of its u64 words.  Bit addressing is written exactly as the pointer
   arithmetic of `set`/`is_set` on a little-endian machine: word idx>>6, byte (idx%64)>>3 inside
   that word, bit idx%8 inside that byte.  `None` = the Rust code panics (or reads out of bounds). *)
From StrettoModel Require Export Base.
Open Scope N_scope.

Record bloom := {
  bl_words : list N;
  bl_size : N;      (* mask: number of bits - 1 *)
  bl_exp : N;
  bl_locs : N;
  bl_shift : N
}.

(* get_size: smallest power of two >= max n 512, with its exponent *)
Definition get_size (n : N) : N * N :=
  let e := N.log2_up (N.max n 512) in (N.pow 2 e, e).

(* Bloom::new after calc_size_by_wrong_positives produced (entries, locs) *)
Definition bl_new (entries locs : N) : bloom :=
  let '(sz, e) := get_size entries in
  {| bl_words := repeat 0 (N.to_nat (N.shiftr sz 6));
     bl_size := sz - 1; bl_exp := e; bl_locs := locs; bl_shift := 64 - e |}.

Definition bit_in_word (idx : N) : N := ((idx mod 64) / 8) * 8 + idx mod 8.
Definition word_of (idx : N) : nat := N.to_nat (N.shiftr idx 6).

Definition ws_set (ws : list N) (idx : N) : option (list N) :=
  match nth_error ws (word_of idx) with
  | Some x => Some (list_set ws (word_of idx) (N.lor x (N.shiftl 1 (bit_in_word idx))))
  | None => None
  end.

Definition ws_is_set (ws : list N) (idx : N) : option bool :=
  match nth_error ws (word_of idx) with
  | Some x => Some (N.testbit x (bit_in_word idx))
  | None => None
  end.

(* h = hash >> shift;  l = (hash << shift) >> shift  on u64 *)
Definition bl_hi (b : bloom) (hash : N) : N := N.shiftr hash (bl_shift b).
Definition bl_lo (b : bloom) (hash : N) : N :=
  N.shiftr (wrap64 (N.shiftl hash (bl_shift b))) (bl_shift b).

(* (h + i*l) & size, with the u64 overflow check of a debug build *)
Definition bl_loc (b : bloom) (hash i : N) : option N :=
  let x := bl_hi b hash + i * bl_lo b hash in
  if x <? two64 then Some (N.land x (bl_size b)) else None.

Fixpoint ws_add (b : bloom) (hash : N) (ws : list N) (i : N) (n : nat) : option (list N) :=
  match n with
  | O => Some ws
  | S n' =>
      match bl_loc b hash i with
      | Some idx =>
          match ws_set ws idx with
          | Some ws' => ws_add b hash ws' (i + 1) n'
          | None => None
          end
      | None => None
      end
  end.

Definition with_words (b : bloom) (ws : list N) : bloom :=
  {| bl_words := ws; bl_size := bl_size b; bl_exp := bl_exp b; bl_locs := bl_locs b;
     bl_shift := bl_shift b |}.

Definition bl_add (b : bloom) (hash : N) : option bloom :=
  match ws_add b hash (bl_words b) 0 (N.to_nat (bl_locs b)) with
  | Some ws => Some (with_words b ws)
  | None => None
  end.

Fixpoint ws_contains (b : bloom) (hash : N) (i : N) (n : nat) : option bool :=
  match n with
  | O => Some true
  | S n' =>
      match bl_loc b hash i with
      | Some idx =>
          match ws_is_set (bl_words b) idx with
          | Some true => ws_contains b hash (i + 1) n'
          | Some false => Some false
          | None => None
          end
      | None => None
      end
  end.

Definition bl_contains (b : bloom) (hash : N) : option bool :=
  ws_contains b hash 0 (N.to_nat (bl_locs b)).

(* returns (added?, filter) *)
Definition bl_contains_or_add (b : bloom) (hash : N) : option (bool * bloom) :=
  match bl_contains b hash with
  | Some true => Some (false, b)
  | Some false => match bl_add b hash with Some b' => Some (true, b') | None => None end
  | None => None
  end.

Definition bl_reset (b : bloom) : bloom := with_words b (map (fun _ => 0) (bl_words b)).
Definition bl_clear (b : bloom) : bloom := bl_reset b.
