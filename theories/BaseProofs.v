(* BaseProofs.v — lemmas about the association-list maps and list helpers of Base.v. *)
From StrettoModel Require Import Base.

Lemma aget_notin {V} k (m : amap V) : ~ In k (akeys m) -> aget k m = None.
Proof.
  induction m as [|[a b] m IH]; simpl; auto. intros H.
  destruct (N.eqb_spec k a); [subst; tauto|]. apply IH. tauto.
Qed.

Lemma aget_in {V} k (m : amap V) v : aget k m = Some v -> In k (akeys m).
Proof.
  induction m as [|[a b] m IH]; simpl; [discriminate|].
  destruct (N.eqb_spec k a); [subst; auto|]. intros H. right. auto.
Qed.

Lemma aget_In_pair {V} k (m : amap V) v : aget k m = Some v -> In (k, v) m.
Proof.
  induction m as [|[a b] m IH]; simpl; [discriminate|].
  destruct (N.eqb_spec k a); [subst; intros H; inversion H; auto|]. intros H. right. auto.
Qed.

Lemma in_keys_aget {V} k (m : amap V) : In k (akeys m) -> exists v, aget k m = Some v.
Proof.
  induction m as [|[a b] m IH]; simpl; [tauto|].
  destruct (N.eqb_spec k a); [eauto|]. intros [H|H]; [congruence|auto].
Qed.

Lemma In_pair_aget {V} k v (m : amap V) : NoDup (akeys m) -> In (k, v) m -> aget k m = Some v.
Proof.
  induction m as [|[a b] m IH]; simpl; [tauto|]. intros ND H. inversion ND as [|? ? Hn ND']; subst.
  destruct H as [H|H].
  - inversion H; subst. rewrite N.eqb_refl. reflexivity.
  - destruct (N.eqb_spec k a) as [->|].
    + exfalso. apply Hn. unfold akeys. change a with (fst (a, v)). apply in_map. exact H.
    + auto.
Qed.

Lemma in_adel {V} k k' (m : amap V) : In k' (akeys (adel k m)) <-> In k' (akeys m) /\ k' <> k.
Proof.
  induction m as [|[a b] m IH]; simpl; [tauto|].
  destruct (N.eqb_spec k a); simpl.
  - subst. rewrite IH. split; [tauto|]. intros [[H|H] Hne]; [congruence|tauto].
  - rewrite IH. split; [intros [->|H]; [split; auto|tauto]|tauto].
Qed.

Lemma nodup_adel {V} k (m : amap V) : NoDup (akeys m) -> NoDup (akeys (adel k m)).
Proof.
  induction m as [|[a b] m IH]; simpl; intros ND; [constructor|]. inversion ND; subst.
  destruct (N.eqb_spec k a); [auto|]. simpl. constructor; auto. intros H. apply in_adel in H. tauto.
Qed.

Lemma nodup_aset {V} k v (m : amap V) : NoDup (akeys m) -> NoDup (akeys (aset k v m)).
Proof.
  intros ND. unfold aset. simpl. constructor; [|apply nodup_adel; assumption].
  intros H. apply in_adel in H. tauto.
Qed.

Lemma aget_adel_same {V} k (m : amap V) : aget k (adel k m) = None.
Proof.
  induction m as [|[a b] m IH]; simpl; [reflexivity|].
  destruct (N.eqb_spec k a); [auto|]. simpl. destruct (N.eqb_spec k a); [tauto|auto].
Qed.

Lemma aget_adel_other {V} k k' (m : amap V) : k <> k' -> aget k (adel k' m) = aget k m.
Proof.
  intros Hne. induction m as [|[a b] m IH]; simpl; [reflexivity|].
  destruct (N.eqb_spec k' a).
  - subst. destruct (N.eqb_spec k a); [tauto|auto].
  - simpl. destruct (N.eqb_spec k a); auto.
Qed.

Lemma aget_aset_same {V} k v (m : amap V) : aget k (aset k v m) = Some v.
Proof. unfold aset. simpl. rewrite N.eqb_refl. reflexivity. Qed.

Lemma aget_aset_other {V} k k' v (m : amap V) : k <> k' -> aget k (aset k' v m) = aget k m.
Proof.
  intros Hne. unfold aset. simpl. destruct (N.eqb_spec k k'); [tauto|]. apply aget_adel_other; assumption.
Qed.

Lemma in_keys_aset {V} k k' v (m : amap V) : In k' (akeys (aset k v m)) <-> k' = k \/ In k' (akeys m).
Proof.
  unfold aset. simpl. rewrite in_adel. split.
  - intros [H|[H _]]; auto.
  - intros [H|H]; [auto|]. destruct (N.eq_dec k' k); [auto|right; auto].
Qed.

Lemma asum_adel k m :
  NoDup (akeys m) -> asum (adel k m) = (asum m - match aget k m with Some c => c | None => 0 end)%Z.
Proof.
  induction m as [|[k' v] m IH]; simpl; intros ND; [lia|].
  inversion ND as [|? ? Hn ND']; subst.
  destruct (N.eqb_spec k k') as [->|Hne].
  - rewrite IH by assumption. rewrite (aget_notin _ _ Hn). lia.
  - simpl. rewrite IH by assumption. lia.
Qed.

Lemma asum_aset k c m :
  NoDup (akeys m) -> asum (aset k c m) = (asum m + c - match aget k m with Some p => p | None => 0 end)%Z.
Proof. intros ND. unfold aset. simpl. rewrite asum_adel by assumption. lia. Qed.

Lemma length_adel {V} k (m : amap V) : (length (adel k m) <= length m)%nat.
Proof. induction m as [|[a b] m IH]; simpl; [lia|]. destruct (N.eqb k a); simpl; lia. Qed.

Lemma length_adel_in {V} k (m : amap V) :
  NoDup (akeys m) -> In k (akeys m) -> S (length (adel k m)) = length m.
Proof.
  induction m as [|[a b] m IH]; simpl; [tauto|]. intros ND H. inversion ND as [|? ? Hn ND']; subst.
  destruct (N.eqb_spec k a) as [->|Hne].
  - f_equal. clear IH ND H. induction m as [|[a' b'] m IH]; simpl; [reflexivity|].
    simpl in Hn. destruct (N.eqb_spec a a'); [subst; tauto|]. simpl. f_equal. apply IH.
    + tauto.
    + inversion ND'; assumption.
  - simpl. f_equal. apply IH; [assumption|]. destruct H; [congruence|assumption].
Qed.

(* list_set / nth_error *)
Lemma length_list_set {A} (l : list A) i x : length (list_set l i x) = length l.
Proof. revert i; induction l as [|h t IH]; intros [|i]; simpl; auto. Qed.

Lemma nth_error_list_set_same {A} (l : list A) i x :
  (i < length l)%nat -> nth_error (list_set l i x) i = Some x.
Proof. revert i; induction l as [|h t IH]; intros [|i]; simpl; intros H; try lia; auto. apply IH. lia. Qed.

Lemma nth_error_list_set_other {A} (l : list A) i j x :
  i <> j -> nth_error (list_set l i x) j = nth_error l j.
Proof.
  revert i j; induction l as [|h t IH]; intros [|i] [|j]; simpl; intros H; auto; try congruence.
Qed.

Lemma mem_N_In k l : mem_N k l = true <-> In k l.
Proof.
  induction l as [|x t IH]; simpl; [split; [discriminate|tauto]|].
  rewrite orb_true_iff, IH, N.eqb_eq. split; intros [H|H]; auto.
Qed.

Lemma nodup_N_NoDup l : nodup_N l = true <-> NoDup l.
Proof.
  induction l as [|x t IH]; simpl; [split; [constructor|reflexivity]|].
  rewrite andb_true_iff, negb_true_iff, IH. split.
  - intros [H1 H2]. constructor; [|assumption]. intros H. apply mem_N_In in H. congruence.
  - intros H. inversion H as [|? ? Hn ND]; subst. split; [|assumption].
    destruct (mem_N x t) eqn:E; [|reflexivity]. apply mem_N_In in E. tauto.
Qed.
