(* Extract.v — extraction of the executable model to OCaml.  ExtrOcamlBasic only; N, Z, positive
   and nat stay the extracted inductive datatypes. *)
From Coq Require Extraction.
From Coq Require Import ExtrOcamlBasic.
From StrettoModel Require Import Base Metrics Sketch Bloom TinyLFU Policy Ttl Store Cache Keys.
Extraction Language OCaml.
Extraction "model.ml"
  aget adel aset asort sort_N wrap64 u64_of_i64
  row_new row_get row_inc row_reset row_clear
  sk_new sk_inc sk_est sk_reset sk_clear
  get_size bl_new bl_add bl_contains bl_contains_or_add bl_reset bl_clear
  tl_new tl_estimate tl_increment tl_increments tl_clear
  sl_new sl_update sl_set_max sl_clear pol_remove pol_add pol_in_range
  m_add m_adds metrics_zero m_get
  cinit cstep crun continue_client
  transparent_index transparent_conflict validate.
