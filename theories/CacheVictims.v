(* CacheVictims.v — property C16 at the cache level: the victims the processor goes on to evict, and
   whose cost it reports to on_evict, carry the cost they were charged when the admission began. *)
From StrettoModel Require Import Base BaseProofs Metrics Sketch Bloom TinyLFU Policy PolicyProofs PolicyVictims Ttl Store StoreProofs
  Cache CacheProofs CacheLocal CacheInv CacheAgree.
Open Scope N_scope.

Theorem admission_victims_carry_their_charges c st h k cf cost v exp r st' o vs added cost' :
  s_pc st = PIdle -> h_arm h = Some ArmItem -> s_buf st = INew k cf cost v exp :: r -> WF (s_slfu st) ->
  proc_step c st h = StepOk st' o -> s_pc st' = PNewAfterAdd k cf v exp cost' vs added ->
  forall kv cv, In (kv, cv) vs -> aget kv (sl_kc (s_slfu st)) = Some cv.
Proof.
  intros PC HA B W. unfold proc_step. rewrite PC, HA, B. cbn [proc_handle_item]. sproj.
  destruct (pol_add _ _ _ _ _) as [| | |s' victims a0 lg m] eqn:PA; try discriminate.
  intros H PC'. inversion H; subst; clear H. sproj. inversion PC'; subst.
  intros kv cv Hin. destruct victims as [V|]; [|destruct Hin].
  eapply victims_report_their_charge; [exact W|apply est_of_small|exact PA|exact Hin].
Qed.

(* and the eviction step reports exactly the cost carried by the victim pair *)
Theorem victim_eviction_reports_that_cost c st h vk vc rest st' o :
  s_pc st = PNewVictim (vk, vc) rest -> proc_step c st h = StepOk st' o ->
  forall k cf v cost, In (CbEvict k cf v cost) (o_cbs o) -> k = vk /\ cost = vc.
Proof.
  intros PC H. unfold proc_step in H. rewrite PC in H. destruct (st_try_remove (s_store st) vk 0) as [sto prev].
  destruct (prepare_evicts _ _ _) as [st0|]; [|discriminate]. destruct (next_victim st0 rest) as [st1 p].
  inversion H; subst. cbn [o_cbs mk_out]. intros k cf v cost Hin. destruct prev as [e|]; [|destruct Hin].
  destruct Hin as [E|[]]. inversion E; subst. auto.
Qed.
