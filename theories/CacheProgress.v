(* CacheProgress.v — progress of the processor: at its loop head with a non-empty insert buffer it can
   always take the head item, whatever the item and whatever the policy holds (for a New item: under
   the canonical, legal choice of eviction samples the admission decision comes to an end).  Together
   with "never stranded" (C10 / C11) this is what weak fairness of select! needs to turn into "wait(),
   clear() and remove() return": every item in front of a marker is taken in one step each. *)
From StrettoModel Require Import Base BaseProofs Metrics Sketch Bloom TinyLFU TinyLFUProofs Policy PolicyProofs PolicyVictims PolicyLive
  Ttl Store StoreProofs Cache CacheProofs CacheLocal CacheInv CacheAgree.
From Coq Require Import ZifyBool ZifyNat ZifyN.
Open Scope N_scope.

Theorem processor_can_take_the_head_item c st it r :
  WF (s_slfu st) -> s_pc st = PIdle -> s_buf st = it :: r ->
  exists h st' o, h_arm h = Some ArmItem /\ proc_step c st h = StepOk st' o /\ s_buf st' = r.
Proof.
  intros W PC B. destruct it as [k cf cost v exp|k cost ext|k cf|id].
  - destruct (pol_add_returns (est_of (s_tlfu st)) (s_slfu st) k (internal_cost c cost) (est_of_small (s_tlfu st)) W) as (oracle & RT).
    exists {| h_arm := Some ArmItem; h_oracle := oracle; h_tick_key := None |}.
    unfold proc_step. rewrite PC. cbn [h_arm]. rewrite B. unfold proc_handle_item. cbn [h_oracle]. sproj.
    destruct (pol_add _ _ _ _ _) eqn:PA; cbn [returns] in RT; try contradiction.
    + exfalso. eapply pol_add_no_panic; [|exact PA]. apply est_of_small.
    + eexists. eexists. split; [reflexivity|]. split; [reflexivity|]. unfold emit. destruct (c_metrics c); sproj; reflexivity.
  - exists {| h_arm := Some ArmItem; h_oracle := []; h_tick_key := None |}.
    unfold proc_step. rewrite PC. cbn [h_arm]. rewrite B. unfold proc_handle_item. sproj.
    destruct (sl_update _ _ _) as [[s' b] mets]. eexists. eexists. split; [reflexivity|]. split; [reflexivity|].
    unfold emit. destruct (c_metrics c); sproj; reflexivity.
  - exists {| h_arm := Some ArmItem; h_oracle := []; h_tick_key := None |}.
    unfold proc_step. rewrite PC. cbn [h_arm]. rewrite B. unfold proc_handle_item. sproj.
    destruct (pol_remove _ _) as [s' mets]. eexists. eexists. split; [reflexivity|]. split; [reflexivity|].
    unfold emit. destruct (c_metrics c); sproj; reflexivity.
  - exists {| h_arm := Some ArmItem; h_oracle := []; h_tick_key := None |}.
    unfold proc_step. rewrite PC. cbn [h_arm]. rewrite B. unfold proc_handle_item. sproj.
    eexists. eexists. split; [reflexivity|]. split; [reflexivity|]. reflexivity.
Qed.

(* in every reachable state *)
Theorem reachable_processor_can_take_the_head_item c mc t now st it r :
  reach c (cinit c mc t now) st -> s_pc st = PIdle -> s_buf st = it :: r ->
  exists h st' o, h_arm h = Some ArmItem /\ proc_step c st h = StepOk st' o /\ s_buf st' = r.
Proof.
  intros R. apply processor_can_take_the_head_item.
  apply (reach_ind_inv c (cinit c mc t now) (fun s => WF (s_slfu s))); [apply WF_new| |exact R].
  intros st0 l st1 o W S. eapply slfu_rel_WF; [eapply cstep_slfu; exact S|exact W].
Qed.

(* ... and once it has taken an item (or a clear request, or a tick) it is never blocked in the
   middle: from every program point other than the loop head it can make its next step.  (NP and SO
   are the invariants behind C20; the hypothesis on the admission-time table excludes only the
   pruning of more than NUM_TO_KEEP tracked keys, which the model does not cover.) *)
Definition first_key (rest : amap N) : option N := match rest with [] => None | (k, _) :: _ => Some k end.

Definition mid_hint (p : ppc) : hint :=
  {| h_arm := None; h_oracle := [];
     h_tick_key := match p with PTickKey _ _ rest _ => first_key rest | PTickAfterPolicy _ _ _ rest _ => first_key rest | _ => None end |}.

From StrettoModel Require Import CacheNoPanic.

Theorem processor_never_blocks_mid_item c st :
  NP st -> SO st -> s_pc st <> PIdle -> s_pc st <> PExited ->
  N.of_nat (length (s_start st)) <= Consts.NUM_TO_KEEP ->
  exists st' o, proc_step c st (mid_hint (s_pc st)) = StepOk st' o.
Proof.
  intros N S P1 P2 LS.
  pose proof (no_step_panics c st (LProc (mid_hint (s_pc st))) 3 N S I) as NP3.
  pose proof (no_step_panics c st (LProc (mid_hint (s_pc st))) 4 N S I) as NP4.
  cbn [cstep] in NP3, NP4. unfold proc_step in *.
  assert (TN : forall st0 rest acc, s_now st0 = s_now st -> s_start st0 = s_start st ->
             tick_next c st0 {| h_arm := None; h_oracle := []; h_tick_key := first_key rest |} rest acc <> StepPanic 3 ->
             exists st' o, tick_next c st0 {| h_arm := None; h_oracle := []; h_tick_key := first_key rest |} rest acc = StepOk st' o).
  { intros st0 rest acc _ _ X. unfold tick_next in *. destruct rest as [|[k cf] rest'].
    - destruct (prepare_evicts c st0 acc); [eexists; eexists; reflexivity|congruence].
    - cbn [h_tick_key first_key aget]. rewrite N.eqb_refl. eexists; eexists; reflexivity. }
  destruct (s_pc st) eqn:PC; try congruence; cbn [mid_hint h_tick_key] in *.
  - destruct added.
    + unfold track_admission. unfold emit. destruct (c_metrics c); sproj.
      * destruct (Consts.NUM_TO_KEEP <? N.of_nat (length (s_start st))) eqn:E; [lia|]. eexists; eexists; reflexivity.
      * eexists; eexists; reflexivity.
    + eexists; eexists; reflexivity.
  - destruct (next_victim st victims). eexists; eexists; reflexivity.
  - destruct v as [vk vcost]. destruct (st_try_remove _ _ _) as [sto prev].
    destruct (prepare_evicts _ _ _); [|congruence]. destruct (next_victim _ _). eexists; eexists; reflexivity.
  - destruct (st_try_remove _ _ _) as [sto prev]. eexists; eexists; reflexivity.
  - eexists; eexists; reflexivity.
  - eexists; eexists; reflexivity.
  - eexists; eexists; reflexivity.
  - destruct (st_expiration _ _) as [t|].
    + destruct (negb (t_is_zero t) && t_is_expired (s_now st) t).
      * destruct (pol_remove _ _) as [s' mets]. eexists; eexists; reflexivity.
      * apply TN; [reflexivity|reflexivity|exact NP3].
    + apply TN; [reflexivity|reflexivity|exact NP3].
  - destruct (st_try_remove _ _ _) as [sto prev]. apply TN; [reflexivity|reflexivity|exact NP3].
Qed.
