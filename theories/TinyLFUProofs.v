(* TinyLFUProofs.v — popularity estimates never undercount between resets and decay by halving
   (property C13); the doorkeeper has no false negatives over any history (property C14). *)
From StrettoModel Require Import Base BaseProofs Sketch SketchProofs Bloom BloomProofs TinyLFU.
From Coq Require Import ZifyBool ZifyNat ZifyN.
Open Scope N_scope.

Definition tl_wf (t : tinylfu) : Prop := sk_wf (tl_sk t) /\ bl_wf (tl_bl t).

Definition with_sk_bl (t : tinylfu) sk bl : tinylfu :=
  {| tl_sk := sk; tl_bl := bl; tl_samples := tl_samples t; tl_w := tl_w t |}.

Lemma tl_try_reset_spec t :
  tl_try_reset t =
  if tl_samples t <=? tl_w t + 1 then tl_reset t
  else {| tl_sk := tl_sk t; tl_bl := tl_bl t; tl_samples := tl_samples t; tl_w := tl_w t + 1 |}.
Proof. reflexivity. Qed.

Lemma tl_reset_wf t : tl_wf t -> tl_wf (tl_reset t).
Proof.
  intros (W1 & W2). split; cbn [tl_reset tl_sk tl_bl].
  - apply (sk_reset_spec (tl_sk t) 0 W1).
  - apply (bl_reset_spec (tl_bl t) W2).
Qed.

Lemma tl_try_reset_wf t : tl_wf t -> tl_wf (tl_try_reset t).
Proof.
  intros W. rewrite tl_try_reset_spec. destruct (tl_samples t <=? tl_w t + 1); [apply tl_reset_wf; assumption|].
  exact W.
Qed.

(* the state right after recording g, before the aging check *)
Definition recorded (t : tinylfu) (g : N) (t1 : tinylfu) : Prop :=
  tl_samples t1 = tl_samples t /\ tl_w t1 = tl_w t /\ tl_wf t1 /\
  ((bl_contains (tl_bl t) g = Some false /\ bl_add (tl_bl t) g = Some (tl_bl t1) /\ tl_sk t1 = tl_sk t) \/
   (bl_contains (tl_bl t) g = Some true /\ tl_bl t1 = tl_bl t /\ sk_inc (tl_sk t) g = Some (tl_sk t1))).

Lemma tl_increment_spec t g : tl_wf t -> g < two64 ->
  exists t1, recorded t g t1 /\ tl_increment t g = Some (tl_try_reset t1).
Proof.
  intros (W1 & W2) Hg. unfold tl_increment.
  destruct (bl_coa_spec (tl_bl t) g W2 Hg) as (added & b' & Hcoa & Wb' & Hc & _ & Hsame & Hadd & _).
  rewrite Hcoa. destruct added.
  - eexists. split; [|reflexivity]. split; [reflexivity|]. split; [reflexivity|].
    split; [split; assumption|]. left. cbn [tl_bl tl_sk]. auto.
  - destruct (sk_inc_spec (tl_sk t) g W1) as (s' & Hinc & Ws' & _). rewrite Hinc.
    eexists. split; [|reflexivity]. split; [reflexivity|]. split; [reflexivity|].
    rewrite (Hsame eq_refl) in *.
    split; [split; assumption|]. right. cbn [tl_bl tl_sk]. auto.
Qed.

Theorem tl_increment_total t g : tl_wf t -> g < two64 ->
  exists t', tl_increment t g = Some t' /\ tl_wf t' /\ tl_samples t' = tl_samples t.
Proof.
  intros W Hg. destruct (tl_increment_spec t g W Hg) as (t1 & (R1 & R2 & R3 & _) & E).
  eexists. split; [exact E|]. split; [apply tl_try_reset_wf; assumption|].
  rewrite tl_try_reset_spec. destruct (tl_samples t1 <=? tl_w t1 + 1); cbn [tl_reset tl_samples]; assumption.
Qed.

Theorem tl_estimate_total t h : tl_wf t -> h < two64 ->
  exists e, tl_estimate t h = Some e /\ e <= 16.
Proof.
  intros (W1 & W2) Hh. unfold tl_estimate.
  destruct (sk_est_total (tl_sk t) h W1) as (e & Ee & He). rewrite Ee.
  destruct (bl_contains_spec (tl_bl t) h W2 Hh) as (v & Hv & _). rewrite Hv.
  destruct v; eexists; (split; [reflexivity|lia]).
Qed.

(* ---- never undercounting between two resets ---- *)

(* J t cnt: every hash recorded cnt times since the last reset (cnt > 0) is in the doorkeeper and
   its sketch estimate plus one is at least min 16 cnt *)
Definition J (t : tinylfu) (cnt : N -> N) : Prop :=
  forall h, h < two64 -> cnt h = 0 \/
    (bl_contains (tl_bl t) h = Some true /\
     exists e, sk_est (tl_sk t) h = Some e /\ N.min 16 (cnt h) <= e + 1).

Definition bumpc (cnt : N -> N) (g : N) : N -> N := fun h => if N.eqb h g then cnt h + 1 else cnt h.

Lemma J_recorded t g t1 cnt : tl_wf t -> g < two64 -> recorded t g t1 -> J t cnt -> J t1 (bumpc cnt g).
Proof.
  intros (W1 & W2) Hg (_ & _ & (W1' & W2') & Hcase) HJ h Hh. unfold bumpc.
  destruct Hcase as [(Hc & Hadd & Hsk)|(Hc & Hbl & Hinc)].
  - (* first sighting: the doorkeeper takes it *)
    destruct (bl_add_contains (tl_bl t) g (tl_bl t1) W2 Hg Hadd) as (C1 & C2). rewrite Hsk.
    destruct (N.eqb_spec h g) as [->|Hne].
    + right. split; [assumption|]. destruct (HJ g Hg) as [Z|(Hc' & _)]; [|congruence].
      destruct (sk_est_total (tl_sk t) g W1) as (e & Ee & _). exists e. split; [assumption|]. rewrite Z. lia.
    + destruct (HJ h Hh) as [Z|(Hc' & e & Ee & Hle)]; [left; assumption|].
      right. split; [apply C2; assumption|]. exists e. auto.
  - (* already in the doorkeeper: the sketch counts it *)
    rewrite Hbl. destruct (sk_inc_spec (tl_sk t) g W1) as (s' & Hinc' & _ & _ & _ & Hest).
    rewrite Hinc in Hinc'. inversion Hinc'; subst s'; clear Hinc'.
    destruct (Hest h) as (e & e' & Ee & Ee' & Hle & Hlt & Hsame).
    destruct (N.eqb_spec h g) as [->|Hne].
    + right. split; [assumption|]. exists e'. split; [assumption|]. rewrite (Hsame eq_refl). unfold bump.
      destruct (HJ g Hg) as [Z|(_ & e0 & Ee0 & Hle0)].
      * rewrite Z. lia.
      * rewrite Ee in Ee0. inversion Ee0; subst e0. lia.
    + destruct (HJ h Hh) as [Z|(Hc' & e0 & Ee0 & Hle0)]; [left; assumption|].
      right. split; [assumption|]. exists e'. split; [assumption|].
      rewrite Ee in Ee0. inversion Ee0; subst e0. lia.
Qed.

Fixpoint count (hs : list N) (h : N) : N :=
  match hs with [] => 0 | g :: hs' => (if N.eqb h g then 1 else 0) + count hs' h end.

Lemma increments_J : forall hs t cnt t',
  tl_wf t -> Forall (fun g => g < two64) hs ->
  tl_w t + N.of_nat (length hs) < tl_samples t ->
  J t cnt -> tl_increments t hs = Some t' ->
  tl_wf t' /\ tl_w t' = tl_w t + N.of_nat (length hs) /\ tl_samples t' = tl_samples t /\
  J t' (fun h => cnt h + count hs h).
Proof.
  induction hs as [|g hs IH]; intros t cnt t' W F Hw HJ; cbn [tl_increments].
  - intros H; inversion H; subst. split; [assumption|]. split; [simpl; lia|]. split; [reflexivity|].
    intros h Hh. specialize (HJ h Hh). cbn [count]. rewrite N.add_0_r. assumption.
  - inversion F as [|? ? Hg F']; subst.
    destruct (tl_increment_spec t g W Hg) as (t1 & R & E). rewrite E.
    pose proof R as (R1 & R2 & R3 & _).
    assert (NoReset : tl_try_reset t1 =
              {| tl_sk := tl_sk t1; tl_bl := tl_bl t1; tl_samples := tl_samples t1; tl_w := tl_w t1 + 1 |}).
    { rewrite tl_try_reset_spec. destruct (tl_samples t1 <=? tl_w t1 + 1) eqn:L; [|reflexivity].
      cbn [length] in Hw. lia. }
    rewrite NoReset. intros H.
    apply (IH _ (bumpc cnt g)) in H.
    + destruct H as (A & B & C & D). cbn [tl_w tl_samples] in B, C. split; [assumption|].
      split; [cbn [length]; lia|]. split; [congruence|].
      intros h Hh. specialize (D h Hh). cbn [count]. unfold bumpc in D.
      destruct (N.eqb h g); [replace (cnt h + (1 + count hs h)) with (cnt h + 1 + count hs h) by lia|rewrite N.add_0_l]; assumption.
    + exact R3.
    + assumption.
    + cbn [tl_w tl_samples length] in *. lia.
    + intros h Hh. pose proof (J_recorded t g t1 cnt W Hg R HJ h Hh) as Q. exact Q.
Qed.

(* C13: between two aging resets the estimate of a key is never lower than the number of times it
   was recorded, saturating at the 4-bit limit plus one for the doorkeeper. *)
Theorem estimate_never_undercounts t hs t' :
  tl_wf t -> Forall (fun g => g < two64) hs ->
  tl_w t + N.of_nat (length hs) < tl_samples t ->
  tl_increments t hs = Some t' ->
  forall h, h < two64 -> exists e, tl_estimate t' h = Some e /\ N.min 16 (count hs h) <= e /\ e <= 16.
Proof.
  intros W F Hw E h Hh.
  assert (J0 : J t (fun _ => 0)) by (intros x _; left; reflexivity).
  destruct (increments_J hs t (fun _ => 0) t' W F Hw J0 E) as (W' & _ & _ & HJ).
  destruct (tl_estimate_total t' h W' Hh) as (e & Ee & He). exists e. split; [assumption|]. split; [|assumption].
  destruct (HJ h Hh) as [Z|(Hc & e0 & Ee0 & Hle)].
  - rewrite N.add_0_l in Z. rewrite Z. lia.
  - unfold tl_estimate in Ee. rewrite Ee0, Hc in Ee. inversion Ee; subst. rewrite N.add_0_l in Hle. lia.
Qed.

(* recording always succeeds (no panic) for as long as one likes *)
Theorem increments_total : forall hs t,
  tl_wf t -> Forall (fun g => g < two64) hs ->
  exists t', tl_increments t hs = Some t' /\ tl_wf t' /\ tl_samples t' = tl_samples t.
Proof.
  induction hs as [|g hs IH]; intros t W F; cbn [tl_increments].
  - eauto.
  - inversion F; subst. destruct (tl_increment_total t g W) as (t1 & E & W1 & S1); [assumption|].
    rewrite E. destruct (IH t1 W1) as (t' & E' & W' & S'); [assumption|]. exists t'. split; [assumption|].
    split; [assumption|congruence].
Qed.

(* C13: the samples-th recorded access since the last reset — and no earlier one — halves every
   counter, empties the doorkeeper and restarts the window. *)
Theorem reset_exactly_at_samples t g : tl_wf t -> g < two64 ->
  exists t1, recorded t g t1 /\
    (tl_w t + 1 < tl_samples t ->
       tl_increment t g = Some {| tl_sk := tl_sk t1; tl_bl := tl_bl t1; tl_samples := tl_samples t; tl_w := tl_w t + 1 |}) /\
    (tl_samples t <= tl_w t + 1 ->
       exists t', tl_increment t g = Some t' /\ tl_w t' = 0 /\ tl_samples t' = tl_samples t /\
         (forall h, sk_est (tl_sk t') h = option_map (fun e => e / 2) (sk_est (tl_sk t1) h)) /\
         (forall p, bit (bl_words (tl_bl t')) p = false) /\
         (forall h, h < two64 -> 1 <= bl_locs (tl_bl t) -> bl_contains (tl_bl t') h = Some false)).
Proof.
  intros W Hg. destruct (tl_increment_spec t g W Hg) as (t1 & R & E). exists t1. split; [assumption|].
  pose proof R as (R1 & R2 & (W1 & W2) & Hcase). rewrite E, tl_try_reset_spec, R1, R2. split.
  - intros H. destruct (tl_samples t <=? tl_w t + 1) eqn:L; [lia|]. reflexivity.
  - intros H. destruct (tl_samples t <=? tl_w t + 1) eqn:L; [|lia].
    eexists. split; [reflexivity|]. cbn [tl_reset tl_w tl_samples tl_sk tl_bl].
    split; [reflexivity|]. split; [assumption|].
    split; [intros h; apply sk_reset_spec; assumption|].
    destruct (bl_reset_spec (tl_bl t1) W2) as (_ & Z & C). split; [assumption|].
    intros h Hh Hl. apply C; [assumption|].
    destruct Hcase as [(_ & Hadd & _)|(_ & Hbl & _)].
    + destruct (bl_add_spec (tl_bl t) g (proj2 W) Hg) as (b2 & Ha2 & _ & _ & _ & S3 & _).
      rewrite Hadd in Ha2. inversion Ha2; subst b2. lia.
    + rewrite Hbl. assumption.
Qed.

(* C13: on a fresh or cleared estimator every key estimates zero *)
Theorem tl_clear_spec t h : tl_wf t -> h < two64 -> 1 <= bl_locs (tl_bl t) ->
  tl_wf (tl_clear t) /\ tl_estimate (tl_clear t) h = Some 0 /\ tl_w (tl_clear t) = 0.
Proof.
  intros (W1 & W2) Hh Hl. destruct (sk_clear_spec (tl_sk t) h W1) as (A & B).
  destruct (bl_reset_spec (tl_bl t) W2) as (C & _ & D).
  split; [split; assumption|]. split; [|reflexivity].
  unfold tl_estimate, tl_clear; cbn [tl_sk tl_bl]. rewrite B. unfold bl_clear. rewrite (D h Hh Hl). reflexivity.
Qed.

Theorem tl_new_spec ctrs seeds entries locs :
  1 <= ctrs -> length seeds = SK_DEPTH ->
  N.log2_up (N.max entries 512) <= 64 -> locs * 2 ^ N.log2_up (N.max entries 512) <= two64 ->
  exists t, tl_new ctrs seeds entries locs = Some t /\ tl_wf t /\ tl_samples t = ctrs /\ tl_w t = 0 /\
    forall h, h < two64 -> 1 <= locs -> tl_estimate t h = Some 0.
Proof.
  intros H Hs He Hov. unfold tl_new.
  destruct (sk_new_wf ctrs seeds H Hs) as (s & Es & Ws & _). rewrite Es.
  destruct (bl_new_wf entries locs He Hov) as (Wb & Zb).
  eexists. split; [reflexivity|]. split; [split; assumption|]. split; [reflexivity|]. split; [reflexivity|].
  intros h Hh Hl. unfold tl_estimate; cbn [tl_sk tl_bl].
  rewrite (sk_new_est_zero ctrs seeds s h H Hs Es).
  destruct (bl_contains_spec (bl_new entries locs) h Wb Hh) as (v & Hv & Hiff). rewrite Hv.
  destruct v; [|reflexivity]. exfalso.
  assert (Hl0 : 0 < bl_locs (bl_new entries locs)).
  { unfold bl_new. destruct (get_size entries). cbn [bl_locs]. lia. }
  destruct (proj1 Hiff eq_refl 0 Hl0) as (p & _ & Hb). rewrite Zb in Hb. discriminate.
Qed.

(* ---- C14 over histories: everything added since the last reset is reported present ---- *)
Inductive bop := BAdd (h : N) | BCoa (h : N) | BReset.

Definition bstep (b : bloom) (o : bop) : option bloom :=
  match o with
  | BAdd h => bl_add b h
  | BCoa h => option_map snd (bl_contains_or_add b h)
  | BReset => Some (bl_reset b)
  end.

Fixpoint brun (b : bloom) (ops : list bop) : option bloom :=
  match ops with
  | [] => Some b
  | o :: ops' => match bstep b o with Some b' => brun b' ops' | None => None end
  end.

(* hashes added since the last reset *)
Fixpoint added_since_reset (ops : list bop) (acc : list N) : list N :=
  match ops with
  | [] => acc
  | BAdd h :: ops' => added_since_reset ops' (h :: acc)
  | BCoa h :: ops' => added_since_reset ops' (h :: acc)
  | BReset :: ops' => added_since_reset ops' []
  end.

Definition bop_ok (o : bop) : Prop :=
  match o with BAdd h => h < two64 | BCoa h => h < two64 | BReset => True end.

Theorem bloom_no_false_negative : forall ops b acc b',
  bl_wf b -> Forall bop_ok ops -> Forall (fun h => h < two64) acc ->
  (forall h, In h acc -> bl_contains b h = Some true) ->
  brun b ops = Some b' ->
  bl_wf b' /\ forall h, In h (added_since_reset ops acc) -> bl_contains b' h = Some true.
Proof.
  induction ops as [|o ops IH]; intros b acc b' W F Facc Hacc; cbn [brun added_since_reset].
  - intros H; inversion H; subst. auto.
  - inversion F as [|? ? Ho F']; subst. destruct o as [h|h|]; cbn [bstep bop_ok] in *.
    + destruct (bl_add_spec b h W Ho) as (b1 & Ea & W1 & _). rewrite Ea.
      destruct (bl_add_contains b h b1 W Ho Ea) as (C1 & C2).
      apply IH; try assumption; [constructor; assumption|].
      intros x [<-|Hx]; [assumption|]. apply C2; [|auto]. rewrite Forall_forall in Facc. auto.
    + destruct (bl_coa_spec b h W Ho) as (added & b1 & Ec & W1 & _ & C1 & _ & _ & C2). rewrite Ec. cbn [option_map snd].
      apply IH; try assumption; [constructor; assumption|].
      intros x [<-|Hx]; [assumption|]. apply C2; [|auto]. rewrite Forall_forall in Facc. auto.
    + destruct (bl_reset_spec b W) as (W1 & _). apply IH; try assumption; [constructor|intros x []].
Qed.
