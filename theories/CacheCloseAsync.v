(* CacheCloseAsync.v — C12, async flavour: close() never waits in the stop handshakes.  The stop
   channels of AsyncCache hold one message; at most one client is ever inside close() (OneCloser), and
   stop messages are sent by that closer only, so when it reaches a send the channel is empty and the
   send completes at once: the states "stop offered, waiting for a partner" are unreachable. *)
From StrettoModel Require Import Base BaseProofs Metrics Sketch Bloom TinyLFU TinyLFUProofs Policy PolicyProofs Ttl Store StoreProofs
  Cache CacheProofs CacheLocal CacheInv CacheClose CacheCloseLive.
From Coq Require Import ZifyBool ZifyNat ZifyN.
Open Scope N_scope.

Ltac unemit_all := unfold emit in *; try match goal with |- context [c_metrics ?c] => destruct (c_metrics c) | H : context [c_metrics ?c] |- _ => destruct (c_metrics c) end; sproj.

Definition early (k : ccont) : bool :=
  match k with KCloseAfterFlag | KClearBlock _ true | KCloseBeforeStop => true | _ => false end.

Definition polearly (k : ccont) : bool :=
  match k with
  | KCloseAfterFlag | KClearBlock _ true | KCloseBeforeStop | KCloseStopOffered | KCloseStopTaken | KCloseBeforePolicy
  | KPolCloseBeforeStop => true
  | _ => false
  end.

Lemma early_in_close k : early k = true -> in_close k = true.
Proof. destruct k; try discriminate; try reflexivity. destruct closing; [reflexivity|discriminate]. Qed.
Lemma polearly_in_close k : polearly k = true -> in_close k = true.
Proof. destruct k; try discriminate; try reflexivity. destruct closing; [reflexivity|discriminate]. Qed.

Lemma ring_push_msgs c st k :
  s_stop_msgs (ring_push c st k) = s_stop_msgs st /\ s_pol_stop_msgs (ring_push c st k) = s_pol_stop_msgs st.
Proof.
  unfold ring_push, policy_push. repeat match goal with |- context [if ?b then _ else _] => destruct b end;
    try destruct (s_ring st ++ [k]); unfold emit; try destruct (c_metrics c); sproj; auto.
Qed.

(* who changes the number of buffered stop messages *)
Lemma stop_msgs_change c st l st' o :
  cstep c st l = StepOk st' o -> s_stop_msgs st' <> s_stop_msgs st ->
  (exists a, l = LClient a /\ client_of st a = KCloseBeforeStop /\ client_of st' a = KCloseBeforePolicy) \/
  (exists h, l = LProc h /\ s_stop_msgs st' < s_stop_msgs st).
Proof.
  intros H NE. destruct l as [a op|a|h|h|dt|].
  - exfalso. apply NE. destruct op; crush_step H; open_shapes; unemit_all; try reflexivity; apply (proj1 (ring_push_msgs _ _ _)).
  - cbn [cstep] in H. unfold continue_client in H. destruct (client_of st a) eqn:CA; crush_step H; open_shapes; unemit_all;
      try (exfalso; apply NE; reflexivity).
    all: left; exists a; split; [reflexivity|]; split; [exact CA|]; rewrite client_of_set, N.eqb_refl; reflexivity.
  - right. exists h. split; [reflexivity|]. crush_step H; open_shapes; unemit_all; try (exfalso; apply NE; reflexivity); lia.
  - exfalso. apply NE. crush_step H; open_shapes; unemit_all; reflexivity.
  - exfalso. apply NE. crush_step H. reflexivity.
  - exfalso. apply NE. crush_step H. reflexivity.
Qed.

Lemma pol_stop_msgs_change c st l st' o :
  cstep c st l = StepOk st' o -> s_pol_stop_msgs st' <> s_pol_stop_msgs st ->
  (exists a, l = LClient a /\ client_of st a = KPolCloseBeforeStop /\ client_of st' a = KPolCloseAfterStop) \/
  (exists h, l = LWorker h /\ s_pol_stop_msgs st' < s_pol_stop_msgs st).
Proof.
  intros H NE. destruct l as [a op|a|h|h|dt|].
  - exfalso. apply NE. destruct op; crush_step H; open_shapes; unemit_all; try reflexivity; apply (proj2 (ring_push_msgs _ _ _)).
  - cbn [cstep] in H. unfold continue_client in H. destruct (client_of st a) eqn:CA; crush_step H; open_shapes; unemit_all;
      try (exfalso; apply NE; reflexivity).
    all: left; exists a; split; [reflexivity|]; split; [exact CA|]; rewrite client_of_set, N.eqb_refl; reflexivity.
  - exfalso. apply NE. crush_step H; open_shapes; unemit_all; reflexivity.
  - right. exists h. split; [reflexivity|]. crush_step H; open_shapes; unemit_all; try (exfalso; apply NE; reflexivity); lia.
  - exfalso. apply NE. crush_step H. reflexivity.
  - exfalso. apply NE. crush_step H. reflexivity.
Qed.

Definition AsyncStop (st : cstate) : Prop :=
  (s_closed st = false -> s_stop_msgs st = 0 /\ s_pol_stop_msgs st = 0) /\
  (forall a, early (client_of st a) = true -> s_stop_msgs st = 0) /\
  (forall a, polearly (client_of st a) = true -> s_pol_stop_msgs st = 0).

(* a client is at an early point of close() only if it was already inside close(), or has just begun *)
Lemma polearly_before c st l st' o b :
  cstep c st l = StepOk st' o -> polearly (client_of st' b) = true ->
  (polearly (client_of st b) = true /\ (early (client_of st' b) = true -> early (client_of st b) = true)) \/
  (s_closed st = false /\ l = LOp b OClose).
Proof.
  intros H X. destruct (ccont_eq_dec (client_of st' b) (client_of st b)) as [E|NE]; [left; rewrite <- E; auto|].
  destruct (cont_change c st l st' o b H NE) as [(op & ->)|[->|[(h & -> & A & B & _)|(h & -> & A & B & _)]]].
  - destruct op; crush_step H; open_shapes; unemit_all;
      first [ exfalso; congruence
            | exfalso; apply NE; unfold client_of in *; sproj; assumption
            | exfalso; rewrite ?client_of_set, ?N.eqb_refl in X; cbn [polearly] in X; first [discriminate X | congruence]
            | solve [right; auto] ].
  - left. cbn [cstep] in H. unfold continue_client in H. destruct (client_of st b) eqn:CA; crush_step H; open_shapes; unemit_all;
      rewrite ?client_of_set, ?N.eqb_refl in *; cbn [polearly early] in *;
      first [ split; [reflexivity|intros Y; first [reflexivity|discriminate Y]]
            | discriminate X
            | exfalso; congruence
            | exfalso; apply NE; unfold client_of in *; sproj; assumption ].
  - left. rewrite A, B. cbn [polearly early]. split; [reflexivity|intros Y; discriminate Y].
  - rewrite B in X. discriminate X.
Qed.

Theorem AsyncStop_step c st l st' o :
  OneCloser st -> AsyncStop st -> cstep c st l = StepOk st' o -> AsyncStop st'.
Proof.
  intros (O1 & O2) (A1 & A2 & A3) H. destruct (closed_is_final c st l st' o H) as (CF & _).
  assert (S0 : forall x : N, x < 0 -> False) by (intros; lia).
  split; [|split].
  - intros C'. assert (C : s_closed st = false) by (destruct (s_closed st); [rewrite (CF eq_refl) in C'; discriminate|reflexivity]).
    destruct (A1 C) as (M1 & M2). split.
    + destruct (N.eq_dec (s_stop_msgs st') (s_stop_msgs st)) as [E|NE]; [congruence|].
      destruct (stop_msgs_change _ _ _ _ _ H NE) as [(a & _ & K & _)|(h & _ & LT)]; [|lia].
      assert (X : in_close (client_of st a) = true) by (rewrite K; reflexivity). rewrite (O1 a X) in C. discriminate.
    + destruct (N.eq_dec (s_pol_stop_msgs st') (s_pol_stop_msgs st)) as [E|NE]; [congruence|].
      destruct (pol_stop_msgs_change _ _ _ _ _ H NE) as [(a & _ & K & _)|(h & _ & LT)]; [|lia].
      assert (X : in_close (client_of st a) = true) by (rewrite K; reflexivity). rewrite (O1 a X) in C. discriminate.
  - intros b X. assert (XP : polearly (client_of st' b) = true) by (destruct (client_of st' b); try discriminate X; try reflexivity; destruct closing; [reflexivity|discriminate X]).
    destruct (polearly_before c st l st' o b H XP) as [(PB & EB)|(C & L)].
    + specialize (EB X). pose proof (A2 b EB) as M.
      destruct (N.eq_dec (s_stop_msgs st') (s_stop_msgs st)) as [E|NE]; [congruence|].
      destruct (stop_msgs_change _ _ _ _ _ H NE) as [(a & _ & K & K')|(h & _ & LT)]; [|lia].
      assert (a = b) by (apply O2; [rewrite K; reflexivity|apply early_in_close; exact EB]). subst a.
      rewrite K' in X. discriminate X.
    + destruct (A1 C) as (M1 & _). subst l. destruct (N.eq_dec (s_stop_msgs st') (s_stop_msgs st)) as [E|NE]; [congruence|].
      destruct (stop_msgs_change _ _ _ _ _ H NE) as [(a & L & _)|(h & L & _)]; discriminate L.
  - intros b X. destruct (polearly_before c st l st' o b H X) as [(PB & _)|(C & L)].
    + pose proof (A3 b PB) as M.
      destruct (N.eq_dec (s_pol_stop_msgs st') (s_pol_stop_msgs st)) as [E|NE]; [congruence|].
      destruct (pol_stop_msgs_change _ _ _ _ _ H NE) as [(a & _ & K & K')|(h & _ & LT)]; [|lia].
      assert (a = b) by (apply O2; [rewrite K; reflexivity|apply polearly_in_close; exact PB]). subst a.
      rewrite K' in X. discriminate X.
    + destruct (A1 C) as (_ & M2). subst l. destruct (N.eq_dec (s_pol_stop_msgs st') (s_pol_stop_msgs st)) as [E|NE]; [congruence|].
      destruct (pol_stop_msgs_change _ _ _ _ _ H NE) as [(a & L & _)|(h & L & _)]; discriminate L.
Qed.

(* a closer comes to wait in a rendezvous only by finding the stop channel full *)
Lemma offer_only_when_full c st l st' o a :
  cstep c st l = StepOk st' o -> client_of st' a = KCloseStopOffered -> client_of st a <> KCloseStopOffered ->
  client_of st a = KCloseBeforeStop /\ (s_stop_msgs st <? stop_cap c) = false.
Proof.
  intros H X N. assert (NE : client_of st' a <> client_of st a) by congruence.
  destruct (cont_change c st l st' o a H NE) as [(op & ->)|[->|[(h & _ & _ & B & _)|(h & _ & _ & B & _)]]]; try congruence.
  - exfalso. destruct op; crush_step H; open_shapes; unemit_all; rewrite ?client_of_set, ?N.eqb_refl in X; try discriminate X;
      apply NE; unfold client_of in *; sproj; congruence.
  - cbn [cstep] in H. unfold continue_client in H. destruct (client_of st a) eqn:CA; crush_step H; open_shapes; unemit_all;
      rewrite ?client_of_set, ?N.eqb_refl in X; try discriminate X; try (exfalso; apply NE; unfold client_of in *; sproj; congruence).
    all: split; reflexivity.
Qed.

Lemma pol_offer_only_when_full c st l st' o a :
  cstep c st l = StepOk st' o -> client_of st' a = KPolCloseStopOffered -> client_of st a <> KPolCloseStopOffered ->
  client_of st a = KPolCloseBeforeStop /\ (s_pol_stop_msgs st <? stop_cap c) = false.
Proof.
  intros H X N. assert (NE : client_of st' a <> client_of st a) by congruence.
  destruct (cont_change c st l st' o a H NE) as [(op & ->)|[->|[(h & _ & _ & B & _)|(h & _ & _ & B & _)]]]; try congruence.
  - exfalso. destruct op; crush_step H; open_shapes; unemit_all; rewrite ?client_of_set, ?N.eqb_refl in X; try discriminate X;
      apply NE; unfold client_of in *; sproj; congruence.
  - cbn [cstep] in H. unfold continue_client in H. destruct (client_of st a) eqn:CA; crush_step H; open_shapes; unemit_all;
      rewrite ?client_of_set, ?N.eqb_refl in X; try discriminate X; try (exfalso; apply NE; unfold client_of in *; sproj; congruence).
    all: split; reflexivity.
Qed.

Definition NoOffer (st : cstate) : Prop :=
  forall a, client_of st a <> KCloseStopOffered /\ client_of st a <> KPolCloseStopOffered.

(* C12, async flavour, every reachable state: no closer ever waits in a stop handshake — the stop
   message of close() is buffered at once (the channel holds one message and only the one closer
   sends), so close() cannot be part of a deadlock there. *)
Theorem async_close_never_waits c mc t now st :
  c_async c = true -> reach c (cinit c mc t now) st -> NoOffer st.
Proof.
  intros AS R.
  assert (I : OneCloser st /\ AsyncStop st /\ NoOffer st); [|exact (proj2 (proj2 I))].
  apply (reach_ind_inv c (cinit c mc t now) (fun s => OneCloser s /\ AsyncStop s /\ NoOffer s)); [| |exact R].
  - split; [apply OneCloser_init|]. split.
    + split; [intros _; split; reflexivity|]. split; intros a X; discriminate X.
    + intros a. split; intros X; discriminate X.
  - intros s0 l s1 o (O0 & A0 & N0) S. split; [eapply OneCloser_step; eassumption|]. split; [eapply AsyncStop_step; eassumption|].
    destruct A0 as (_ & A2 & A3). intros a. split; intros X.
    + destruct (offer_only_when_full c s0 l s1 o a S X (proj1 (N0 a))) as (K & F).
      assert (M : s_stop_msgs s0 = 0) by (apply (A2 a); rewrite K; reflexivity).
      unfold stop_cap in F. rewrite AS, M in F. discriminate F.
    + destruct (pol_offer_only_when_full c s0 l s1 o a S X (proj2 (N0 a))) as (K & F).
      assert (M : s_pol_stop_msgs s0 = 0) by (apply (A3 a); rewrite K; reflexivity).
      unfold stop_cap in F. rewrite AS, M in F. discriminate F.
Qed.
