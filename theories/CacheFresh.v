(* CacheFresh.v — property C11, "the cache then behaves like a fresh one": clear() restores the
   popularity estimator (count-min rows, doorkeeper, window) to exactly what the builder made, and
   with the store, the expiry index, the charges and the counters empty the cache's state is that of
   a fresh cache with the same parameters. *)
From StrettoModel Require Import Base BaseProofs Metrics Sketch SketchProofs Bloom BloomProofs TinyLFU TinyLFUProofs Policy PolicyProofs Ttl Store StoreProofs
  Cache CacheProofs CacheLocal CacheInv CacheMetrics.
From Coq Require Import ZifyBool ZifyNat ZifyN.
Open Scope N_scope.

(* what never changes in an estimator: the geometry of its tables and its parameters *)
Record shape := { sh_rows : list nat; sh_seeds : list N; sh_mask : N; sh_words : nat;
                  sh_size : N; sh_exp : N; sh_locs : N; sh_shift : N; sh_samples : N }.

Definition tl_shape (t : tinylfu) : shape :=
  {| sh_rows := map (@length N) (sk_rows (tl_sk t)); sh_seeds := sk_seeds (tl_sk t); sh_mask := sk_mask (tl_sk t);
     sh_words := length (bl_words (tl_bl t)); sh_size := bl_size (tl_bl t); sh_exp := bl_exp (tl_bl t);
     sh_locs := bl_locs (tl_bl t); sh_shift := bl_shift (tl_bl t); sh_samples := tl_samples t |}.

(* the all-zero estimator of a given shape *)
Definition zero_of (s : shape) : tinylfu :=
  {| tl_sk := {| sk_rows := map (fun n => repeat 0 n) (sh_rows s); sk_seeds := sh_seeds s; sk_mask := sh_mask s |};
     tl_bl := {| bl_words := repeat 0 (sh_words s); bl_size := sh_size s; bl_exp := sh_exp s; bl_locs := sh_locs s; bl_shift := sh_shift s |};
     tl_samples := sh_samples s; tl_w := 0 |}.

Lemma map_const_repeat {A} (l : list A) : map (fun _ => 0) l = repeat 0 (length l).
Proof. induction l as [|x l IH]; cbn [map length repeat]; [reflexivity|rewrite IH; reflexivity]. Qed.

Lemma tl_clear_is_zero t : tl_clear t = zero_of (tl_shape t).
Proof.
  unfold tl_clear, zero_of, tl_shape, sk_clear, bl_clear, bl_reset, with_words. cbn [sh_rows sh_seeds sh_mask sh_words sh_size sh_exp sh_locs sh_shift sh_samples].
  f_equal; [f_equal|f_equal].
  - rewrite map_map. apply map_ext. intros r. unfold row_clear. apply map_const_repeat.
  - apply map_const_repeat.
Qed.

Lemma row_inc_length r i r' : row_inc r i = Some r' -> length r' = length r.
Proof.
  rewrite row_inc_unfold. destruct (nth_error r (N.to_nat (i / 2))); [|discriminate]. cbn [option_map].
  intros H; inversion H; subst. apply length_list_set.
Qed.

Lemma rows_inc_lengths mask h : forall rows seeds rows', rows_inc mask h rows seeds = Some rows' ->
  map (@length N) rows' = map (@length N) rows.
Proof.
  induction rows as [|r rs IH]; intros seeds rows'; cbn [rows_inc].
  - intros H; inversion H; reflexivity.
  - destruct seeds as [|sd sds]; [discriminate|].
    destruct (row_inc r (N.land (N.lxor h sd) mask)) as [r'|] eqn:E; [|discriminate].
    destruct (rows_inc mask h rs sds) as [rs'|] eqn:E2; [|discriminate].
    intros H; inversion H; subst. cbn [map]. rewrite (row_inc_length _ _ _ E), (IH _ _ E2). reflexivity.
Qed.

Lemma ws_set_length ws idx ws' : ws_set ws idx = Some ws' -> length ws' = length ws.
Proof.
  unfold ws_set. destruct (nth_error ws (word_of idx)); [|discriminate]. intros H; inversion H; subst. apply length_list_set.
Qed.

Lemma ws_add_length b hash : forall n ws i ws', ws_add b hash ws i n = Some ws' -> length ws' = length ws.
Proof.
  induction n as [|n IH]; intros ws i ws'; cbn [ws_add].
  - intros H; inversion H; reflexivity.
  - destruct (bl_loc b hash i); [|discriminate]. destruct (ws_set ws n0) as [ws1|] eqn:E; [|discriminate].
    intros H. rewrite (IH _ _ _ H). apply (ws_set_length _ _ _ E).
Qed.

Lemma tl_reset_shape t : tl_shape (tl_reset t) = tl_shape t.
Proof.
  unfold tl_shape, tl_reset, sk_reset, bl_reset, with_words. cbn [tl_sk tl_bl tl_samples sk_rows sk_seeds sk_mask bl_words bl_size bl_exp bl_locs bl_shift].
  f_equal.
  - rewrite map_map. apply map_ext. intros r. unfold row_reset. apply map_length.
  - apply map_length.
Qed.

Lemma tl_try_reset_shape t : tl_shape (tl_try_reset t) = tl_shape t.
Proof. unfold tl_try_reset. destruct (tl_samples t <=? tl_w t + 1); [apply tl_reset_shape|reflexivity]. Qed.

Lemma tl_increment_shape t h t' : tl_increment t h = Some t' -> tl_shape t' = tl_shape t.
Proof.
  unfold tl_increment, bl_contains_or_add. destruct (bl_contains (tl_bl t) h) as [[|]|]; try discriminate.
  - destruct (sk_inc (tl_sk t) h) as [sk'|] eqn:E; [|discriminate]. intros H; inversion H; subst. rewrite tl_try_reset_shape.
    unfold sk_inc in E. destruct (rows_inc _ _ _ _) as [rs|] eqn:R; [|discriminate]. inversion E; subst.
    unfold tl_shape. cbn [tl_sk tl_bl tl_samples sk_rows sk_seeds sk_mask]. rewrite (rows_inc_lengths _ _ _ _ _ R). reflexivity.
  - unfold bl_add. destruct (ws_add _ _ _ _ _) as [ws|] eqn:E; [|discriminate]. intros H; inversion H; subst. rewrite tl_try_reset_shape.
    unfold tl_shape, with_words. cbn [tl_sk tl_bl tl_samples bl_words bl_size bl_exp bl_locs bl_shift]. rewrite (ws_add_length _ _ _ _ _ _ E). reflexivity.
Qed.

Lemma tl_increments_shape : forall hs t t', tl_increments t hs = Some t' -> tl_shape t' = tl_shape t.
Proof.
  induction hs as [|h hs IH]; intros t t'; cbn [tl_increments].
  - intros H; inversion H; reflexivity.
  - destruct (tl_increment t h) as [t1|] eqn:E; [|discriminate]. intros H. rewrite (IH _ _ H). apply (tl_increment_shape _ _ _ E).
Qed.

Lemma tl_clear_shape t : tl_shape (tl_clear t) = tl_shape t.
Proof.
  rewrite tl_clear_is_zero. unfold tl_shape, zero_of. cbn [tl_sk tl_bl tl_samples sk_rows sk_seeds sk_mask bl_words bl_size bl_exp bl_locs bl_shift sh_rows sh_seeds sh_mask sh_words sh_size sh_exp sh_locs sh_shift sh_samples].
  f_equal; [|apply repeat_length]. rewrite map_map. rewrite <- (map_id (map (@length N) (sk_rows (tl_sk t)))) at 2.
  apply map_ext. intros n. apply repeat_length.
Qed.

Lemma zero_rows_fixed m : forall n, map (fun k => repeat 0 k) (map (@length N) (repeat (repeat 0 m) n)) = repeat (repeat 0 m) n.
Proof. induction n as [|n IH]; cbn [repeat map]; [reflexivity|]. rewrite repeat_length, IH. reflexivity. Qed.

(* a freshly built estimator is the all-zero one of its shape *)
Lemma tl_new_is_zero ctrs seeds entries locs t : tl_new ctrs seeds entries locs = Some t -> t = zero_of (tl_shape t).
Proof.
  unfold tl_new. destruct (sk_new ctrs seeds) as [sk|] eqn:E; [|discriminate]. intros H; inversion H; subst; clear H.
  unfold sk_new in E. destruct (ctrs <? 1); [discriminate|]. inversion E; subst; clear E.
  unfold zero_of, tl_shape, bl_new. destruct (get_size entries) as [sz e].
  cbn [tl_sk tl_bl tl_samples sk_rows sk_seeds sk_mask bl_words bl_size bl_exp bl_locs bl_shift sh_rows sh_seeds sh_mask sh_words sh_size sh_exp sh_locs sh_shift sh_samples].
  f_equal; [f_equal|f_equal].
  - unfold row_new. symmetry. exact (zero_rows_fixed (N.to_nat (sk_width ctrs / 2)) SK_DEPTH).
  - rewrite repeat_length. reflexivity.
Qed.

(* ---- at the cache level ---- *)
Theorem estimator_shape_is_invariant c st l st' o :
  cstep c st l = StepOk st' o -> tl_shape (s_tlfu st') = tl_shape (s_tlfu st).
Proof.
  intros H. destruct (step_tlfu c st l st' o H) as [E|[(h & b & _ & _ & E)|(h & sig & _ & _ & E)]].
  - rewrite E. reflexivity.
  - apply (tl_increments_shape _ _ _ E).
  - rewrite E. apply tl_clear_shape.
Qed.

(* C11: whatever lookups, aging resets and earlier clears happened, clear() leaves the estimator
   exactly as the builder made it *)
Theorem clear_restores_the_fresh_estimator c mc ctrs seeds entries locs t0 now st h sig :
  tl_new ctrs seeds entries locs = Some t0 ->
  reach c (cinit c mc t0 now) st -> s_pc st = PClearAfterDrain sig ->
  exists st', proc_step c st h = StepOk st' (mk_out PtProcClearAfterPolicy [] RNone) /\
    s_tlfu st' = t0 /\ sl_kc (s_slfu st') = [] /\ sl_used (s_slfu st') = 0%Z.
Proof.
  intros N0 R PC.
  assert (SH : tl_shape (s_tlfu st) = tl_shape t0).
  { apply (reach_ind_inv c (cinit c mc t0 now) (fun s => tl_shape (s_tlfu s) = tl_shape t0)); [reflexivity| |exact R].
    intros s0 l s1 o E S. rewrite (estimator_shape_is_invariant c s0 l s1 o S). exact E. }
  unfold proc_step. rewrite PC. eexists. split; [reflexivity|]. sproj.
  split; [|split; reflexivity]. rewrite tl_clear_is_zero, SH. symmetry. eapply tl_new_is_zero. exact N0.
Qed.
