(* CacheGlobalProgress.v — no reachable deadlock: in every reachable state of either flavour in which
   some client operation is in flight, somebody can move — that client itself, the cache processor, or
   the policy worker. *)
From StrettoModel Require Import Base BaseProofs Metrics Sketch Bloom TinyLFU TinyLFUProofs Policy PolicyProofs PolicyVictims PolicyLive
  Ttl Store StoreProofs Cache CacheProofs CacheLocal CacheInv CacheAgree CacheNoPanic CacheClearLive CacheBarrier
  CacheClose CacheCloseLive CacheCloseAsync CacheProgress CacheNoDeadlock.
From Coq Require Import ZifyBool ZifyNat ZifyN.
Open Scope N_scope.

Definition waits_for_partner (k : ccont) : Prop :=
  blocked_call k \/ k = KCloseStopOffered \/ k = KPolCloseStopOffered.

(* a client that is not inside one of the five waiting points can always make its next step *)
Lemma client_step_total c st a :
  NP st -> SO st -> client_of st a <> KIdle -> ~ waits_for_partner (client_of st a) ->
  exists st' o, cstep c st (LClient a) = StepOk st' o.
Proof.
  intros N S NI NW.
  assert (NP0 : forall w, cstep c st (LClient a) <> StepPanic w) by (intros w; apply no_step_panics; [exact N|exact S|exact I]).
  cbn [cstep] in *. unfold continue_client in *. unfold waits_for_partner, blocked_call in NW.
  destruct (client_of st a) eqn:K; try congruence;
    try (exfalso; apply NW; first [left; left; eexists; reflexivity | left; right; left; eexists; eexists; reflexivity
                                  | left; right; right; eexists; eexists; reflexivity | right; left; reflexivity | right; right; reflexivity]).
  all: repeat match goal with
       | |- context [match ?x with _ => _ end] =>
           lazymatch x with context [match _ with _ => _ end] => fail | _ => idtac end; destruct x eqn:?
       end; try (eexists; eexists; reflexivity).
  all: exfalso; eapply NP0; match goal with |- ?x = _ => reflexivity end.
Qed.

Theorem no_reachable_deadlock c mc t now st a :
  tl_wf t -> 0 < c_buf_cap c ->
  reach_u64 c (cinit c mc t now) st ->
  N.of_nat (length (s_start st)) <= Consts.NUM_TO_KEEP ->
  client_of st a <> KIdle ->
  (exists st' o, cstep c st (LClient a) = StepOk st' o) \/
  (exists h st' o, cstep c st (LProc h) = StepOk st' o) \/
  (exists h st' o, cstep c st (LWorker h) = StepOk st' o).
Proof.
  intros TW CAP RU LS NI. pose proof (reach_u64_reach _ _ _ RU) as R.
  destruct (reachable_NP c mc t now st TW RU) as (NPst & SOst).
  destruct (ccont_eq_dec (client_of st a) KCloseStopOffered) as [KO|NKO];
  [|destruct (ccont_eq_dec (client_of st a) KPolCloseStopOffered) as [KP|NKP]].
  - destruct (c_async c) eqn:AS.
    + exfalso. exact (proj1 (async_close_never_waits c mc t now st AS R a) KO).
    + right. left. exact (proj1 (blocked_close_has_a_moving_partner c mc t now st a TW AS RU LS) KO).
  - destruct (c_async c) eqn:AS.
    + exfalso. exact (proj2 (async_close_never_waits c mc t now st AS R a) KP).
    + right. right. exact (proj2 (blocked_close_has_a_moving_partner c mc t now st a TW AS RU LS) KP).
  - assert (D : blocked_call (client_of st a) \/ ~ blocked_call (client_of st a)).
    { unfold blocked_call. destruct (client_of st a); first [left; left; eexists; reflexivity | left; right; left; eexists; eexists; reflexivity
        | left; right; right; eexists; eexists; reflexivity | right; intros [(? & X)|[(? & ? & X)|(? & ? & X)]]; discriminate X]. }
    destruct D as [B|NB].
    + destruct (blocked_call_has_a_moving_processor c mc t now st a TW CAP RU LS B) as [X|X]; [left; exact X|right; left; exact X].
    + left. apply client_step_total; try assumption. intros [B|[X|X]]; [exact (NB B)|exact (NKO X)|exact (NKP X)].
Qed.

(* ---- non-vacuity: the hypotheses of no_reachable_deadlock are met by a concrete reachable state in
   which a client is blocked in wait() behind an insert the processor has not taken yet ---- *)
Lemma crun_reach_u64 c st0 ls st os :
  Forall label_u64 ls -> crun c st0 ls = Some (st, os) -> reach_u64 c st0 st.
Proof.
  intros F. revert st0 os. induction F as [|l ls L F IH]; intros st0 os; cbn [crun].
  - intros H; inversion H; subst. constructor.
  - destruct (cstep c st0 l) as [st1 o| | |] eqn:E; try discriminate.
    destruct (crun c st1 ls) as [[st2 os1]|] eqn:R; [|discriminate].
    intros H; inversion H; subst. specialize (IH st1 _ R).
    clear -IH E L. induction IH.
    + econstructor; [constructor|exact L|exact E].
    + econstructor; eassumption.
Qed.

Example no_reachable_deadlock_nonvacuous :
  let c := {| c_ignore_internal := true; c_item_size := 56; c_buf_cap := 4; c_buffer_items := 0; c_metrics := true;
              c_validator := fun _ _ => true; c_coster := fun _ => 0%Z; c_async := false |} in
  exists t st,
    tl_new 3 [1; 2; 3; 4] 29 7 = Some t /\ tl_wf t /\ 0 < c_buf_cap c /\
    reach_u64 c (cinit c 100 t 1000) st /\
    N.of_nat (length (s_start st)) <= Consts.NUM_TO_KEEP /\
    client_of st 0 = KWaitBlock 0 /\ s_pc st = PIdle /\ length (s_buf st) = 2%nat /\
    continue_client c st 0 = StepBlocked.
Proof.
  intros c.
  destruct (tl_new_spec 3 [1; 2; 3; 4] 29 7) as (t & E & W & _); [lia|reflexivity|vm_compute; discriminate|vm_compute; discriminate|].
  exists t.
  destruct (crun c (cinit c 100 t 1000) [LOp 0 (OInsert 1 0 100 1 0 false); LClient 0; LOp 0 OWait; LClient 0; LClient 0]) as [[st os]|] eqn:R.
  - exists st. split; [exact E|]. split; [exact W|]. split; [reflexivity|].
    split; [eapply crun_reach_u64; [|exact R]; repeat constructor|].
    revert R. vm_compute in E. inversion E; subst t. vm_compute. intros R; inversion R; subst.
    repeat split; vm_compute; congruence || reflexivity.
  - exfalso. revert R. vm_compute in E. inversion E; subst t. vm_compute. discriminate.
Qed.
