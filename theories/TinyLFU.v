(* TinyLFU.v — model of TinyLFU in src/policy.rs:397-499. *)
From StrettoModel Require Export Sketch Bloom.
Open Scope N_scope.

Record tinylfu := { tl_sk : sketch; tl_bl : bloom; tl_samples : N; tl_w : N }.

(* TinyLFU::new(num_ctrs): sketch of num_ctrs counters, doorkeeper Bloom::new(num_ctrs, 0.01)
   whose (entries, locs) come out of an f64 computation and are parameters here. *)
Definition tl_new (ctrs : N) (seeds : list N) (bl_entries bl_locs : N) : option tinylfu :=
  match sk_new ctrs seeds with
  | Some sk => Some {| tl_sk := sk; tl_bl := bl_new bl_entries bl_locs; tl_samples := ctrs; tl_w := 0 |}
  | None => None
  end.

(* estimate: sketch minimum, plus one if the doorkeeper has the hash *)
Definition tl_estimate (t : tinylfu) (h : N) : option N :=
  match sk_est (tl_sk t) h, bl_contains (tl_bl t) h with
  | Some e, Some true => Some (e + 1)
  | Some e, Some false => Some e
  | _, _ => None
  end.

Definition tl_reset (t : tinylfu) : tinylfu :=
  {| tl_sk := sk_reset (tl_sk t); tl_bl := bl_reset (tl_bl t); tl_samples := tl_samples t; tl_w := 0 |}.

Definition tl_try_reset (t : tinylfu) : tinylfu :=
  let w := tl_w t + 1 in
  if tl_samples t <=? w then tl_reset t
  else {| tl_sk := tl_sk t; tl_bl := tl_bl t; tl_samples := tl_samples t; tl_w := w |}.

(* increment: doorkeeper first; the sketch only if the doorkeeper already had the hash *)
Definition tl_increment (t : tinylfu) (h : N) : option tinylfu :=
  match bl_contains_or_add (tl_bl t) h with
  | Some (true, b') =>
      Some (tl_try_reset {| tl_sk := tl_sk t; tl_bl := b'; tl_samples := tl_samples t; tl_w := tl_w t |})
  | Some (false, _) =>
      match sk_inc (tl_sk t) h with
      | Some sk' =>
          Some (tl_try_reset {| tl_sk := sk'; tl_bl := tl_bl t; tl_samples := tl_samples t; tl_w := tl_w t |})
      | None => None
      end
  | None => None
  end.

Fixpoint tl_increments (t : tinylfu) (hs : list N) : option tinylfu :=
  match hs with
  | [] => Some t
  | h :: hs' => match tl_increment t h with Some t' => tl_increments t' hs' | None => None end
  end.

Definition tl_clear (t : tinylfu) : tinylfu :=
  {| tl_sk := sk_clear (tl_sk t); tl_bl := bl_clear (tl_bl t); tl_samples := tl_samples t; tl_w := 0 |}.
