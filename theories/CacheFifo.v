(* CacheFifo.v — property C10, the barrier: the insert buffer is a FIFO that only the processor
   consumes, from its head or all at once (clear / stop); a wait marker is released only when the
   processor takes it at the head of the buffer, or by such a drain.  Hence when wait() returns Ok,
   everything that was ahead of its marker — in particular everything the same thread sent before —
   has been handled by the processor or discarded by a clear()/close(). *)
From StrettoModel Require Import Base BaseProofs Metrics Sketch Bloom TinyLFU TinyLFUProofs Policy PolicyProofs Ttl Store StoreProofs
  Cache CacheProofs CacheLocal CacheInv.
From Coq Require Import ZifyBool ZifyNat ZifyN.
Open Scope N_scope.

Ltac unemit_all := unfold emit in *; try match goal with |- context [c_metrics ?c] => destruct (c_metrics c) | H : context [c_metrics ?c] |- _ => destruct (c_metrics c) end; sproj.

Lemma ring_push_buf c st k : s_buf (ring_push c st k) = s_buf st /\ s_done (ring_push c st k) = s_done st.
Proof.
  unfold ring_push, policy_push. repeat match goal with |- context [if ?b then _ else _] => destruct b end;
    try destruct (s_ring st ++ [k]); unemit; auto.
Qed.

Inductive buf_change (st : cstate) (l : label) (st' : cstate) : Prop :=
| BcSame : s_buf st' = s_buf st -> buf_change st l st'
| BcSend a it : l = LClient a -> s_buf st' = s_buf st ++ [it] -> buf_change st l st'
| BcTake h it : l = LProc h -> s_pc st = PIdle -> h_arm h = Some ArmItem -> s_buf st = it :: s_buf st' -> buf_change st l st'
| BcDrain h : l = LProc h -> s_pc st = PIdle -> (h_arm h = Some ArmClear \/ h_arm h = Some ArmStop) -> s_buf st' = [] -> buf_change st l st'.

(* the insert buffer is a FIFO: clients append, the processor takes the head or drains everything *)
Theorem buffer_is_fifo c st l st' o : cstep c st l = StepOk st' o -> buf_change st l st'.
Proof.
  intros H. destruct l as [a op|a|h|h|dt|].
  - destruct op; crush_step H; open_shapes; unemit_all;
      apply BcSame; first [reflexivity|apply (proj1 (ring_push_buf _ _ _))].
  - cbn [cstep] in H. unfold continue_client in H. destruct (client_of st a) eqn:CA; crush_step H; open_shapes; unemit_all;
      first [ apply BcSame; reflexivity | eapply BcSend; [reflexivity|reflexivity] ].
  - cbn [cstep] in H. unfold proc_step in H. destruct (s_pc st) eqn:PC; try discriminate.
    + destruct (h_arm h) as [[| | |]|] eqn:HA; try discriminate.
      * destruct (s_buf st) as [|it r] eqn:B; [discriminate|].
        assert (X : s_buf st' = r); [|eapply (BcTake st _ st' h it); [reflexivity|exact PC|exact HA|rewrite X; exact B]].
        unfold proc_handle_item in H. crush_loop H; open_shapes; unemit_all; reflexivity.
      * eapply BcDrain; [reflexivity|exact PC|left; exact HA|]. crush_step H; open_shapes; unemit_all; reflexivity.
      * apply BcSame. crush_step H; open_shapes; unemit_all; reflexivity.
      * eapply BcDrain; [reflexivity|exact PC|right; exact HA|]. crush_step H; open_shapes; unemit_all; reflexivity.
    + apply BcSame. crush_loop H; open_shapes; unemit_all; reflexivity.
    + apply BcSame. unfold next_victim in H. crush_loop H; open_shapes; unemit_all; reflexivity.
    + apply BcSame. unfold next_victim in H. crush_loop H; open_shapes; unemit_all; reflexivity.
    + apply BcSame. crush_loop H; open_shapes; unemit_all; reflexivity.
    + apply BcSame. crush_loop H; open_shapes; unemit_all; reflexivity.
    + apply BcSame. crush_loop H; open_shapes; unemit_all; reflexivity.
    + apply BcSame. crush_loop H; open_shapes; unemit_all; reflexivity.
    + apply BcSame. unfold tick_next in H. crush_loop H; open_shapes; unemit_all; reflexivity.
    + apply BcSame. unfold tick_next in H. crush_loop H; open_shapes; unemit_all; reflexivity.
  - apply BcSame. crush_step H; open_shapes; unemit_all; reflexivity.
  - apply BcSame. crush_step H; reflexivity.
  - apply BcSame. crush_step H; reflexivity.
Qed.

Lemma drain_items_done its : forall d cbs d' cbs' id,
  drain_items its d cbs = (d', cbs') -> mem_N id d' = true -> mem_N id d = true \/ In (IWait id) its.
Proof.
  induction its as [|it its IH]; intros d cbs d' cbs' id; cbn [drain_items].
  - intros H; inversion H; subst. auto.
  - destruct it; intros H M; try (destruct (IH _ _ _ _ _ H M) as [X|X]; [left; exact X|right; right; exact X]).
    destruct (IH _ _ _ _ _ H M) as [X|X]; [|right; right; exact X].
    cbn [mem_N] in X. apply orb_true_iff in X. destruct X as [X|X]; [|left; exact X].
    apply N.eqb_eq in X. subst. right. left. reflexivity.
Qed.

Lemma mem_N_app id l1 l2 : mem_N id (l1 ++ l2) = mem_N id l1 || mem_N id l2.
Proof. induction l1 as [|x l1 IH]; cbn [app mem_N]; [reflexivity|]. rewrite IH, orb_assoc. reflexivity. Qed.

Inductive release_cause (st : cstate) (l : label) (id : N) : Prop :=
| RcHead h r : l = LProc h -> s_pc st = PIdle -> h_arm h = Some ArmItem -> s_buf st = IWait id :: r -> release_cause st l id
| RcDrain h : l = LProc h -> s_pc st = PIdle -> (h_arm h = Some ArmClear \/ h_arm h = Some ArmStop) ->
              (In (IWait id) (s_buf st) \/ In id (s_clear_sigs st)) -> release_cause st l id
| RcClearAck h : l = LProc h -> s_pc st = PClearAfterStore id -> release_cause st l id.

(* a wait marker (or a clear signal) is released only by the processor: taking the marker at the head
   of the buffer, draining the buffer for a clear or at the stop request, or acknowledging a clear *)
Theorem marker_released_only_by c st l st' o id :
  cstep c st l = StepOk st' o -> mem_N id (s_done st) = false -> mem_N id (s_done st') = true -> release_cause st l id.
Proof.
  intros H N Y.
  assert (Same : s_done st' = s_done st -> False) by (intros X; rewrite X in Y; congruence).
  destruct l as [a op|a|h|h|dt|].
  - exfalso. destruct op; crush_step H; open_shapes; unemit_all; apply Same; first [reflexivity|apply (proj2 (ring_push_buf _ _ _))].
  - exfalso. cbn [cstep] in H. unfold continue_client in H. destruct (client_of st a) eqn:CA; crush_step H; open_shapes; unemit_all; apply Same; reflexivity.
  - cbn [cstep] in H. unfold proc_step in H. destruct (s_pc st) eqn:PC; try discriminate.
    + destruct (h_arm h) as [[| | |]|] eqn:HA; try discriminate.
      * destruct (s_buf st) as [|it r] eqn:B; [discriminate|]. unfold proc_handle_item in H.
        destruct it; try (exfalso; crush_loop H; open_shapes; unemit_all; apply Same; reflexivity).
        inversion H; subst. sproj. cbn [mem_N] in Y. apply orb_true_iff in Y. destruct Y as [Y|Y]; [|congruence].
        apply N.eqb_eq in Y. subst. eapply RcHead; [reflexivity|exact PC|exact HA|exact B].
      * destruct (s_clear_sigs st) as [|sig r] eqn:CS; [discriminate|]. unfold drain_buffer in H. sproj.
        destruct (drain_items (s_buf st) (s_done st) []) as [d cb] eqn:DI. inversion H; subst. sproj.
        destruct (drain_items_done _ _ _ _ _ id DI Y) as [X|X]; [congruence|].
        eapply RcDrain; [reflexivity|exact PC|left; exact HA|left; exact X].
      * exfalso. crush_step H; open_shapes; unemit_all; apply Same; reflexivity.
      * match type of H with context [match ?t with Some _ => _ | None => StepIllegal 24 end] => destruct t as [st1|] eqn:T end; [|discriminate].
        assert (F : s_buf st1 = s_buf st /\ s_done st1 = s_done st /\ s_clear_sigs st1 = s_clear_sigs st).
        { destruct (0 <? s_stop_msgs st); [inversion T; subst; auto|].
          destruct (find_offer false (s_clients st)); [|discriminate]. destruct (client_of st n); try discriminate. inversion T; subst. auto. }
        destruct F as (F1 & F2 & F3). unfold drain_buffer in H. rewrite F1, F2 in H.
        destruct (drain_items (s_buf st) (s_done st) []) as [d cb] eqn:DI. inversion H; subst. sproj. rewrite F3 in Y.
        rewrite mem_N_app in Y. apply orb_true_iff in Y. destruct Y as [Y|Y].
        -- eapply RcDrain; [reflexivity|exact PC|right; exact HA|right; apply mem_N_In; exact Y].
        -- destruct (drain_items_done _ _ _ _ _ id DI Y) as [X|X]; [congruence|].
           eapply RcDrain; [reflexivity|exact PC|right; exact HA|left; exact X].
    + exfalso. crush_loop H; open_shapes; unemit_all; apply Same; reflexivity.
    + exfalso. unfold next_victim in H. crush_loop H; open_shapes; unemit_all; apply Same; reflexivity.
    + exfalso. unfold next_victim in H. crush_loop H; open_shapes; unemit_all; apply Same; reflexivity.
    + exfalso. crush_loop H; open_shapes; unemit_all; apply Same; reflexivity.
    + exfalso. crush_loop H; open_shapes; unemit_all; apply Same; reflexivity.
    + exfalso. crush_loop H; open_shapes; unemit_all; apply Same; reflexivity.
    + assert (E : s_done st' = sig :: s_done st) by (crush_loop H; open_shapes; unemit_all; reflexivity).
      rewrite E in Y. cbn [mem_N] in Y. apply orb_true_iff in Y. destruct Y as [Y|Y]; [|congruence].
      apply N.eqb_eq in Y. subst. eapply RcClearAck; [reflexivity|exact PC].
    + exfalso. unfold tick_next in H. crush_loop H; open_shapes; unemit_all; apply Same; reflexivity.
    + exfalso. unfold tick_next in H. crush_loop H; open_shapes; unemit_all; apply Same; reflexivity.
  - exfalso. crush_step H; open_shapes; unemit_all; apply Same; reflexivity.
  - exfalso. crush_step H. apply Same; reflexivity.
  - exfalso. crush_step H. apply Same; reflexivity.
Qed.
