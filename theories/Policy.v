(* Policy.v — model of SampledLFU and of the policy `add` eviction loop (src/policy.rs:24-177,
   239-390).  Costs are Z (the Rust type is i64; the model is faithful while every intermediate
   value stays inside i64 — see `pol_in_range`).  The hash-map iteration order used by
   `fill_sample` is not predictable: `pol_add` takes, per loop iteration, the sample the
   implementation held after refilling (the oracle), checks that it is a legal refill, and is
   structurally recursive on that list. *)
From StrettoModel Require Export Base Metrics.
From StrettoModel Require Consts.
Open Scope Z_scope.

Definition SAMPLES : nat := N.to_nat Consts.DEFAULT_SAMPLES.

Definition pair := (key * Z)%type.

Record slfu := { sl_max : Z; sl_used : Z; sl_kc : amap Z }.

Definition sl_new (mc : Z) : slfu := {| sl_max := mc; sl_used := 0; sl_kc := [] |}.

Definition sl_room_left (s : slfu) (cost : Z) : Z := sl_max s - (sl_used s + cost).

(* SampledLFU::increment (only called on an absent key) *)
Definition sl_increment (s : slfu) (k : key) (c : Z) : slfu :=
  {| sl_max := sl_max s; sl_used := sl_used s + c; sl_kc := aset k c (sl_kc s) |}.

(* SampledLFU::remove *)
Definition sl_remove (s : slfu) (k : key) : slfu * option Z :=
  match aget k (sl_kc s) with
  | None => (s, None)
  | Some c => ({| sl_max := sl_max s; sl_used := sl_used s - c; sl_kc := adel k (sl_kc s) |}, Some c)
  end.

(* the CostAdd delta SampledLFU::update reports: the difference, two's-complement when negative *)
Definition update_delta (prev cost : Z) : list mevent :=
  if prev <? cost then [(MCostAdd, Z.to_N (cost - prev))]
  else if cost <? prev then [(MCostAdd, (two64 - 1 - (Z.to_N (prev - cost) - 1))%N)]
  else [].

(* SampledLFU::update *)
Definition sl_update (s : slfu) (k : key) (c : Z) : slfu * bool * list mevent :=
  match aget k (sl_kc s) with
  | None => (s, false, [])
  | Some p =>
      ({| sl_max := sl_max s; sl_used := sl_used s + (c - p); sl_kc := aset k c (sl_kc s) |},
       true, (MKeyUpdate, 1%N) :: update_delta p c)
  end.

Definition sl_clear (s : slfu) : slfu := {| sl_max := sl_max s; sl_used := 0; sl_kc := [] |}.
Definition sl_set_max (s : slfu) (mc : Z) : slfu :=
  {| sl_max := mc; sl_used := sl_used s; sl_kc := sl_kc s |}.

(* policy.remove: un-charge and report the eviction metrics *)
Definition pol_remove (s : slfu) (k : key) : slfu * list mevent :=
  match sl_remove s k with
  | (s', Some c) => (s', [(MCostEvict, u64_of_i64 c); (MKeyEvict, 1%N)])
  | (s', None) => (s', [])
  end.

(* ---- the eviction loop ---- *)

(* find the first strict minimum, starting from (0, i64::MAX, 0, 0) *)
Fixpoint find_min (est : key -> Z) (l : list pair) (idx : nat) (acc : key * Z * nat * Z)
  : key * Z * nat * Z :=
  match l with
  | [] => acc
  | (k, c) :: l' =>
      let '(_, mh, _, _) := acc in
      let h := est k in
      find_min est l' (S idx) (if h <? mh then (k, h, idx, c) else acc)
  end.

Definition find_min0 (est : key -> Z) (l : list pair) := find_min est l 0 (0%N, I64MAX, O, 0).

(* sample[i] = sample[len-1]; truncate(len-1) *)
Definition swap_remove (l : list pair) (i : nat) : list pair :=
  match rev l with
  | [] => []
  | last :: _ => firstn (length l - 1) (list_set l i last)
  end.

Fixpoint pair_in (p : pair) (m : amap Z) : bool :=
  match m with
  | [] => false
  | (k, c) :: m' => (N.eqb (fst p) k && Z.eqb (snd p) c) || pair_in p m'
  end.

(* Is `smp` a legal result of fill_sample on `sample`?  Either the sample was already full and is
   unchanged, or it is `sample ++ app` where `app` lists distinct keys with their current costs,
   stops as soon as the sample is full, and otherwise covers every charged key. *)
Fixpoint pairs_eqb (a b : list pair) : bool :=
  match a, b with
  | [], [] => true
  | (k1, c1) :: a', (k2, c2) :: b' => N.eqb k1 k2 && Z.eqb c1 c2 && pairs_eqb a' b'
  | _, _ => false
  end.

Definition legal_fill (kc : amap Z) (sample smp : list pair) : bool :=
  if (SAMPLES <=? length sample)%nat then pairs_eqb sample smp
  else
    let app := skipn (length sample) smp in
    pairs_eqb sample (firstn (length sample) smp)
    && nodup_N (map fst app)
    && forallb (fun p => pair_in p kc) app
    && (length smp =? Nat.min SAMPLES (length sample + length kc))%nat.

Record iter_log := {
  il_sample : list pair;   (* sample after refill *)
  il_min_key : key;
  il_min_hits : Z;
  il_min_id : nat;
  il_min_cost : Z;
  il_room : Z              (* room before this iteration (negative) *)
}.

Inductive add_result :=
| AddOutOfOracle                         (* oracle shorter than the loop *)
| AddIllegalOracle (s : slfu) (sample smp : list pair)
| AddPanic                               (* sample.len() - 1 on an empty sample *)
| AddDone (s : slfu) (victims : option (list pair)) (added : bool)
          (log : list iter_log) (mets : list mevent).

Fixpoint evict_loop (est : key -> Z) (inc_hits : Z) (k : key) (cost : Z)
    (oracle : list (list pair)) (s : slfu) (sample victims : list pair)
    (log : list iter_log) (mets : list mevent) : add_result :=
  let room := sl_room_left s cost in
  if 0 <=? room then
    AddDone (sl_increment s k cost) (Some victims) true log (mets ++ [(MCostAdd, u64_of_i64 cost)])
  else
    match oracle with
    | [] => AddOutOfOracle
    | smp :: oracle' =>
        if negb (legal_fill (sl_kc s) sample smp) then AddIllegalOracle s sample smp else
        let '(mk, mh, mi, mc) := find_min0 est smp in
        let entry := {| il_sample := smp; il_min_key := mk; il_min_hits := mh; il_min_id := mi;
                        il_min_cost := mc; il_room := room |} in
        if inc_hits <? mh then
          AddDone s (Some victims) false (log ++ [entry]) (mets ++ [(MRejectSets, 1%N)])
        else
          match smp with
          | [] => AddPanic
          | _ :: _ =>
              let '(s', ev) := pol_remove s mk in
              evict_loop est inc_hits k cost oracle' s' (swap_remove smp mi)
                         (victims ++ [(mk, mc)]) (log ++ [entry]) (mets ++ ev)
          end
    end.

(* LFUPolicy::add *)
Definition pol_add (est : key -> Z) (oracle : list (list pair)) (s : slfu) (k : key) (cost : Z)
  : add_result :=
  if sl_max s <? cost then AddDone s None false [] []
  else
    match sl_update s k cost with
    | (s', true, ev) => AddDone s' None false [] ev
    | (_, false, _) =>
        if 0 <=? sl_room_left s cost then
          AddDone (sl_increment s k cost) None true [] [(MCostAdd, u64_of_i64 cost)]
        else evict_loop est (est k) k cost oracle s [] [] [] []
    end.

(* every value the Rust code computes stays inside i64 *)
Definition pol_in_range (s : slfu) (cost : Z) : bool :=
  in_i64 (sl_used s + cost) && in_i64 (sl_max s - (sl_used s + cost)).
