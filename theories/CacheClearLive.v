(* CacheClearLive.v — clear() (and the clear inside close()) is never stranded: in every reachable
   state a client blocked on its clear signal has been acknowledged already, or its signal is still
   queued for a live processor, or the processor is in the middle of performing that very clear. *)
From StrettoModel Require Import Base BaseProofs Metrics Sketch Bloom TinyLFU TinyLFUProofs Policy PolicyProofs Ttl Store StoreProofs
  Cache CacheProofs CacheLocal CacheInv.
From Coq Require Import ZifyBool ZifyNat ZifyN.
Open Scope N_scope.

Definition clearing (p : ppc) (id : N) : Prop :=
  p = PClearAfterDrain id \/ p = PClearAfterPolicy id \/ p = PClearAfterStore id.

Definition clear_ok (st : cstate) (id : N) : Prop :=
  mem_N id (s_done st) = true \/ (In id (s_clear_sigs st) /\ s_pc st <> PExited) \/ clearing (s_pc st) id.

Definition ClearWaitInv (st : cstate) : Prop :=
  forall a id closing, client_of st a = KClearBlock id closing -> clear_ok st id.

Ltac unemit_all := unfold emit in *; try match goal with |- context [c_metrics ?c] => destruct (c_metrics c) | H : context [c_metrics ?c] |- _ => destruct (c_metrics c) end; sproj.

Lemma ring_push_clear_frame c st k :
  s_done (ring_push c st k) = s_done st /\ s_clear_sigs (ring_push c st k) = s_clear_sigs st /\
  s_pc (ring_push c st k) = s_pc st /\ s_clients (ring_push c st k) = s_clients st.
Proof.
  unfold ring_push, policy_push. repeat match goal with |- context [if ?b then _ else _] => destruct b end;
    try destruct (s_ring st ++ [k]); unemit; auto.
Qed.

Lemma mem_N_app id l1 l2 : mem_N id (l1 ++ l2) = mem_N id l1 || mem_N id l2.
Proof. induction l1 as [|x l1 IH]; cbn [app mem_N]; [reflexivity|]. rewrite IH, orb_assoc. reflexivity. Qed.

Lemma drain_items_done_mono its : forall d cbs d' cbs' id,
  drain_items its d cbs = (d', cbs') -> mem_N id d = true -> mem_N id d' = true.
Proof.
  induction its as [|it its IH]; intros d cbs d' cbs' id; cbn [drain_items].
  - intros H; inversion H; subst. auto.
  - destruct it; intros H M; try (eapply IH; eassumption).
    eapply IH; [exact H|]. cbn [mem_N]. rewrite M. apply orb_true_r.
Qed.

Ltac repc := repeat match goal with E : s_pc ?s = _ |- context [s_pc ?s] => rewrite E end.

Ltac ck_done Ka :=
  left; first [ exact Ka
              | cbn [mem_N]; rewrite Ka; apply orb_true_r
              | rewrite mem_N_app, Ka; apply orb_true_r
              | cbn [mem_N]; rewrite mem_N_app, Ka; rewrite ?orb_true_r; reflexivity
              | eapply drain_items_done_mono; eassumption ].
Ltac ck_pc Kc :=
  first [ right; right; first [left; exact Kc | right; left; exact Kc | right; right; exact Kc]
        | discriminate Kc ].

Ltac ck_fin K :=
  repc;
  first
  [ exact K
  | match goal with |- context [ring_push ?c0 ?s0 ?k0] =>
      destruct (ring_push_clear_frame c0 s0 k0) as (R1 & R2 & R3 & _); rewrite R1, R2, R3; repc; exact K end
  | let Ka := fresh "Ka" in let Kb1 := fresh "Kb1" in let Kb2 := fresh "Kb2" in
    let Kc := fresh "Kc" in let Kd := fresh "Kd" in let Ke := fresh "Ke" in
    destruct K as [Ka|[(Kb1 & Kb2)|[Kc|[Kd|Ke]]]];
    [ ck_done Ka
    | first [ right; left; split; [first [exact Kb1 | apply in_or_app; left; exact Kb1] | first [exact Kb2 | discriminate]]
            | exfalso; apply Kb2; reflexivity ]
    | ck_pc Kc | ck_pc Kd | ck_pc Ke ] ].

(* clear_ok is kept by every step *)
Lemma clear_ok_step c st l st' o id :
  clear_ok st id -> cstep c st l = StepOk st' o -> clear_ok st' id.
Proof.
  intros K H. unfold clear_ok, clearing in *. destruct l as [a op|a|h|h|dt|].
  - destruct op; crush_step H; open_shapes; unemit_all; ck_fin K.
  - cbn [cstep] in H. unfold continue_client in H. destruct (client_of st a) eqn:CA; crush_step H; open_shapes; unemit_all; ck_fin K.
  - crush_step H; open_shapes; unemit_all; try (ck_fin K).
    all: destruct K as [Ka|[(Kb1 & Kb2)|[Kc|[Kd|Ke]]]]; try discriminate;
      first
      [ (* already acknowledged *)
        left; first [ eapply drain_items_done_mono; eassumption
                    | rewrite mem_N_app; apply orb_true_iff; right; eapply drain_items_done_mono; eassumption
                    | cbn [mem_N]; rewrite Ka; apply orb_true_r
                    | exact Ka ]
      | (* the signal taken now *)
        destruct Kb1 as [->|Kb1]; [right; right; left; reflexivity|right; left; split; [exact Kb1|discriminate]]
      | (* the processor exits: pending signals are released *)
        left; rewrite mem_N_app; apply orb_true_iff; left; apply mem_N_In; exact Kb1
      | right; left; split; [exact Kb1|discriminate]
      | (* the clear in progress moves on *)
        inversion Kc; subst; right; right; right; left; reflexivity
      | inversion Kd; subst; right; right; right; right; reflexivity
      | inversion Ke; subst; left; cbn [mem_N]; rewrite N.eqb_refl; reflexivity ].
  - crush_step H; open_shapes; unemit_all; ck_fin K.
  - crush_step H. exact K.
  - crush_step H. exact K.
Qed.

Lemma clear_block_new c st l st' o b id cl :
  cstep c st l = StepOk st' o -> client_of st' b = KClearBlock id cl ->
  client_of st b = KClearBlock id cl \/ (In id (s_clear_sigs st') /\ s_pc st' <> PExited).
Proof.
  intros H. destruct l as [a op|a|h|h|dt|].
  - destruct op; crush_step H; open_shapes; unemit_all; try (intros X; left; exact X);
      try (rewrite client_of_set; destruct (N.eqb_spec b a) as [->|Hne]; [|intros X; left; exact X]; intros X; inversion X; subst;
           right; repc; (split; [apply in_or_app; right; left; reflexivity|discriminate])).
    all: rewrite client_of_set; destruct (N.eqb_spec b a) as [->|Hne]; [discriminate|];
      unfold client_of; match goal with |- context [ring_push ?c0 ?s0 ?k0] => destruct (ring_push_clear_frame c0 s0 k0) as (_ & _ & _ & R); rewrite R end; intros X; left; exact X.
  - cbn [cstep] in H. unfold continue_client in H. destruct (client_of st a) eqn:CA; crush_step H; open_shapes; unemit_all;
      rewrite client_of_set; (destruct (N.eqb_spec b a) as [->|Hne]; [|unfold client_of; sproj; intros X; left; exact X]);
      try discriminate.
    all: intros X; inversion X; subst; right; repc; (split; [apply in_or_app; right; left; reflexivity|discriminate]).
  - crush_step H; open_shapes; unemit_all; try (intros X; left; exact X).
    all: unfold client_of, set_client; sproj; destruct (N.eq_dec b n) as [->|Hne];
      [rewrite aget_aset_same; discriminate|rewrite aget_aset_other by assumption; intros X; left; exact X].
  - crush_step H; open_shapes; unemit_all; try (intros X; left; exact X).
    change (client_of (upd_wpc (set_client st n KPolCloseStopTaken) WExited) b) with (client_of (set_client st n KPolCloseStopTaken) b).
    rewrite client_of_set. destruct (N.eqb_spec b n) as [->|Hne]; [discriminate|intros X; left; exact X].
  - crush_step H. intros X; left; exact X.
  - crush_step H. intros X; left; exact X.
Qed.

Theorem ClearWaitInv_step c st l st' o : ClearWaitInv st -> cstep c st l = StepOk st' o -> ClearWaitInv st'.
Proof.
  intros I H b id cl X. destruct (clear_block_new c st l st' o b id cl H X) as [Y|Y].
  - eapply clear_ok_step; [exact (I b id cl Y)|exact H].
  - right. left. exact Y.
Qed.

(* C10/C11/C12: in every reachable state — every history, every schedule, either flavour, clear()
   and close() racing each other and everything else — a client blocked on its clear signal is not
   stranded: it can return now, or its signal is still queued for a live processor, or the processor
   is performing that very clear. *)
Theorem clear_never_stuck c mc t now st a id closing :
  reach c (cinit c mc t now) st -> client_of st a = KClearBlock id closing ->
  (exists st' o, continue_client c st a = StepOk st' o) \/
  (In id (s_clear_sigs st) /\ s_pc st <> PExited) \/ clearing (s_pc st) id.
Proof.
  intros R K.
  assert (I : ClearWaitInv st).
  { apply (reach_ind_inv c (cinit c mc t now) ClearWaitInv); [intros b i cl X; discriminate X| |exact R].
    intros s0 l s1 o W S. eapply ClearWaitInv_step; eassumption. }
  destruct (I a id closing K) as [D|[Q|C]]; [left|right; left; exact Q|right; right; exact C].
  unfold continue_client. rewrite K, D. destruct closing; eauto.
Qed.
