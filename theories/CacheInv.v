(* CacheInv.v — inductive invariants of the cache LTS for the lifecycle properties:
   wait() can always return (C10), a completed clear() leaves the cache empty (C11). *)
From StrettoModel Require Import Base BaseProofs Metrics Sketch Bloom TinyLFU Policy PolicyProofs Ttl Store StoreProofs Cache CacheProofs.
From Coq Require Import ZifyBool ZifyNat ZifyN.
Open Scope N_scope.

(* ---- reachability ---- *)
Inductive reach (c : cfg) (st0 : cstate) : cstate -> Prop :=
| reach_init : reach c st0 st0
| reach_step st l st' o : reach c st0 st -> cstep c st l = StepOk st' o -> reach c st0 st'.

Lemma crun_reach c st0 ls st os : crun c st0 ls = Some (st, os) -> reach c st0 st.
Proof.
  revert st0 os. induction ls as [|l ls IH]; intros st0 os; cbn [crun].
  - intros H; inversion H; subst. constructor.
  - destruct (cstep c st0 l) as [st1 o| | |] eqn:E; try discriminate.
    destruct (crun c st1 ls) as [[st2 os1]|] eqn:R; [|discriminate].
    intros H; inversion H; subst. specialize (IH st1 _ R).
    clear -IH E. induction IH.
    + econstructor; [constructor|exact E].
    + econstructor; eassumption.
Qed.

Lemma reach_ind_inv c st0 (P : cstate -> Prop) :
  P st0 -> (forall st l st' o, P st -> cstep c st l = StepOk st' o -> P st') ->
  forall st, reach c st0 st -> P st.
Proof. intros H0 Hs st R. induction R; eauto. Qed.

(* ---- C10: a blocked wait() is never stranded ---- *)
Definition waiting (k : ccont) (id : N) : Prop := k = KWaitAfterSend id \/ k = KWaitBlock id.

Definition WaitInv (st : cstate) : Prop :=
  (s_pc st = PExited -> s_buf st = []) /\
  (forall a id, waiting (client_of st a) id -> mem_N id (s_done st) = true \/ In (IWait id) (s_buf st)).

Lemma client_of_set st a b k : client_of (set_client st a k) b = if N.eqb b a then k else client_of st b.
Proof.
  unfold client_of, set_client; sproj. destruct (N.eqb_spec b a) as [->|Hne].
  - rewrite aget_aset_same. reflexivity.
  - rewrite aget_aset_other by assumption. reflexivity.
Qed.

Lemma drain_items_spec its : forall done cbs done' cbs',
  drain_items its done cbs = (done', cbs') ->
  (forall id, In (IWait id) its \/ mem_N id done = true -> mem_N id done' = true).
Proof.
  induction its as [|it its IH]; intros done cbs done' cbs'; cbn [drain_items].
  - intros H; inversion H; subst. intros id [[]|H1]; assumption.
  - destruct it as [k0 c0 cost0 v0 e0|k0 cost0 ext0|k0 c0|wid]; intros H id Hid.
    + eapply IH; [exact H|]. destruct Hid as [[Hd|Hi]|Hm]; [discriminate|auto|auto].
    + eapply IH; [exact H|]. destruct Hid as [[Hd|Hi]|Hm]; [discriminate|auto|auto].
    + eapply IH; [exact H|]. destruct Hid as [[Hd|Hi]|Hm]; [discriminate|auto|auto].
    + eapply IH; [exact H|]. destruct Hid as [[Hd|Hi]|Hm].
      * inversion Hd; subst. right. cbn [mem_N]. rewrite N.eqb_refl. reflexivity.
      * auto.
      * right. cbn [mem_N]. rewrite Hm. apply orb_true_r.
Qed.

Lemma drain_buffer_done st st' cbs : drain_buffer st = (st', cbs) ->
  forall id, In (IWait id) (s_buf st) \/ mem_N id (s_done st) = true -> mem_N id (s_done st') = true.
Proof.
  unfold drain_buffer. destruct (drain_items _ _ _) as [d cb] eqn:D. intros H; inversion H; subst; sproj.
  eapply drain_items_spec. exact D.
Qed.

(* the only thing other actors can do to a client is nothing: continuations change only by the
   client's own steps, except the two stop handshakes *)
Lemma waiting_preserved_by_others st a b k id :
  waiting (client_of (set_client st a k) b) id -> b <> a -> waiting (client_of st b) id.
Proof. rewrite client_of_set. intros H Hne. destruct (N.eqb_spec b a); [tauto|assumption]. Qed.

Lemma WaitInv_start_op c st a op st' o :
  client_of st a = KIdle -> WaitInv st -> start_op c st a op = StepOk st' o -> WaitInv st'.
Proof.
  intros Hidle (W1 & W2) H.
  assert (Same : forall st1 k, s_buf st1 = s_buf st -> s_done st1 = s_done st -> s_pc st1 = s_pc st ->
            (forall id, ~ waiting k id) ->
            (forall b, b <> a -> client_of st1 b = client_of st b) -> client_of st1 a = k -> WaitInv st1).
  { intros st1 k Hb Hd Hp Hk Ho Ha. split; [rewrite Hp, Hb; assumption|].
    intros b id Hw. rewrite Hb, Hd. destruct (N.eq_dec b a) as [->|Hne].
    - rewrite Ha in Hw. exfalso. eapply Hk. exact Hw.
    - rewrite Ho in Hw by assumption. apply (W2 b id). assumption. }
  assert (Unch : forall k, (forall id, ~ waiting k id) -> forall st1, s_buf st1 = s_buf st -> s_done st1 = s_done st ->
            s_pc st1 = s_pc st -> s_clients st1 = s_clients st -> WaitInv (set_client st1 a k)).
  { intros k Hk st1 Hb Hd Hp Hc. apply (Same _ k); sproj; try assumption.
    - intros b Hne. rewrite client_of_set. destruct (N.eqb_spec b a); [tauto|]. unfold client_of. rewrite Hc. reflexivity.
    - rewrite client_of_set, N.eqb_refl. reflexivity. }
  assert (NW : forall st1, s_buf st1 = s_buf st -> s_done st1 = s_done st -> s_pc st1 = s_pc st ->
            s_clients st1 = s_clients st -> WaitInv st1).
  { intros st1 Hb Hd Hp Hc. split; [rewrite Hp, Hb; assumption|].
    intros b id Hw. rewrite Hb, Hd. apply (W2 b id). unfold client_of in *. rewrite Hc in Hw. assumption. }
  destruct op; cbn [start_op] in H.
  - destruct (s_closed st); [inversion H; subst; split; assumption|].
    destruct (st_try_update _ _ _ _ _ _) as [sto r].
    destruct r; destruct only_update; inversion H; subst;
      try (split; assumption);
      (apply Unch; [intros id [Hx|Hx]; discriminate|sproj; reflexivity..]).
  - destruct (s_closed st); [inversion H; subst; split; assumption|]. inversion H; subst.
    apply Unch; [intros id [Hx|Hx]; discriminate|..]; unfold ring_push, policy_push;
      repeat match goal with |- context [if ?b then _ else _] => destruct b end;
      try (destruct (s_ring st ++ [k])); unfold emit; try destruct (c_metrics c); sproj; reflexivity.
  - destruct (s_closed st); [inversion H; subst; split; assumption|]. inversion H; subst.
    apply Unch; [intros id [Hx|Hx]; discriminate|..]; unfold ring_push, policy_push;
      repeat match goal with |- context [if ?b then _ else _] => destruct b end;
      try (destruct (s_ring st ++ [k])); unfold emit; try destruct (c_metrics c); sproj; reflexivity.
  - destruct (st_get _ _ _ _); [destruct (st_expiration _ _); [destruct (t_get_ttl _ _)|]|];
      inversion H; subst; split; assumption.
  - destruct (s_closed st); [inversion H; subst; split; assumption|].
    destruct (st_try_remove _ _ _) as [sto prev]. inversion H; subst.
    apply Unch; [intros id [Hx|Hx]; discriminate|sproj; reflexivity..].
  - destruct (s_closed st); inversion H; subst; [split; assumption|].
    apply Unch; [intros id [Hx|Hx]; discriminate|sproj; reflexivity..].
  - destruct (s_closed st); inversion H; subst; [split; assumption|].
    apply Unch; [intros id [Hx|Hx]; discriminate|sproj; reflexivity..].
  - destruct (s_closed st); inversion H; subst; [split; assumption|].
    apply Unch; [intros id [Hx|Hx]; discriminate|sproj; reflexivity..].
  - inversion H; subst. split; assumption.
  - inversion H; subst. apply NW; sproj; reflexivity.
  - inversion H; subst. split; assumption.
Qed.

Lemma WaitInv_unchanged st st1 :
  s_buf st1 = s_buf st -> s_done st1 = s_done st -> s_pc st1 = s_pc st -> s_clients st1 = s_clients st ->
  WaitInv st -> WaitInv st1.
Proof.
  intros Hb Hd Hp Hc (W1 & W2). split; [rewrite Hp, Hb; assumption|].
  intros b id Hw. rewrite Hb, Hd. apply (W2 b id). unfold client_of in *. rewrite Hc in Hw. assumption.
Qed.

(* client a moves to continuation k; buffer, done-set and processor are as in st1 which extends st *)
Lemma WaitInv_client_moves st st1 a k :
  WaitInv st ->
  (s_pc st1 = PExited -> s_buf st1 = []) ->
  (forall id, mem_N id (s_done st) = true -> mem_N id (s_done st1) = true) ->
  (forall id, In (IWait id) (s_buf st) -> In (IWait id) (s_buf st1) \/ mem_N id (s_done st1) = true) ->
  s_clients st1 = s_clients st ->
  (forall id, waiting k id -> mem_N id (s_done st1) = true \/ In (IWait id) (s_buf st1)) ->
  WaitInv (set_client st1 a k).
Proof.
  intros (W1 & W2) H1 Hd Hb Hc Hk. split; [sproj; assumption|].
  intros b id Hw. sproj. rewrite client_of_set in Hw. destruct (N.eqb_spec b a) as [->|Hne].
  - apply Hk. assumption.
  - unfold client_of in Hw. rewrite Hc in Hw. destruct (W2 b id Hw) as [Hx|Hx].
    + left. apply Hd. assumption.
    + destruct (Hb id Hx); auto.
Qed.

Lemma WaitInv_client_same st st1 a k :
  WaitInv st -> s_buf st1 = s_buf st -> s_done st1 = s_done st -> s_pc st1 = s_pc st ->
  s_clients st1 = s_clients st ->
  (forall id, waiting k id -> mem_N id (s_done st) = true \/ In (IWait id) (s_buf st)) ->
  WaitInv (set_client st1 a k).
Proof.
  intros WI Hb Hd Hp Hc Hk. pose proof WI as (W1 & W2). apply (WaitInv_client_moves st); try assumption.
  - rewrite Hp, Hb. assumption.
  - intros id. rewrite Hd. auto.
  - intros id Hi. left. rewrite Hb. assumption.
  - intros id Hw. rewrite Hd, Hb. auto.
Qed.

Ltac not_waiting := let i := fresh in let Hx := fresh in intros i [Hx|Hx]; discriminate Hx.
Ltac same_fields := unfold emit; try destruct (c_metrics _); sproj; reflexivity.

Lemma WaitInv_continue_client c st a st' o :
  WaitInv st -> continue_client c st a = StepOk st' o -> WaitInv st'.
Proof.
  intros WI H. pose proof WI as (W1 & W2). unfold continue_client in H.
  destruct (client_of st a) eqn:K; try discriminate.
  - (* KInsSend *)
    destruct (buf_send c st it) as [st1|] eqn:E.
    + inversion H; subst. apply buf_send_frame in E.
      destruct E as (_ & _ & Eb & Ep & Ed & Ec & _ & _ & _ & Ene).
      apply (WaitInv_client_moves st); try assumption.
      * rewrite Ep. tauto.
      * intros id. rewrite Ed. auto.
      * intros id Hi. left. rewrite Eb. apply in_or_app. auto.
      * not_waiting.
    + destruct (is_update it); inversion H; subst;
        (apply (WaitInv_client_same st); [assumption|same_fields..|not_waiting]).
  - (* KGetStore *)
    destruct (st_get _ _ _ _) as [e|].
    + destruct write.
      * inversion H; subst. apply (WaitInv_client_same st); [assumption|same_fields..|not_waiting].
      * destruct (t_get_ttl _ _); inversion H; subst.
        apply (WaitInv_client_same st); [assumption|same_fields..|not_waiting].
    + inversion H; subst. apply (WaitInv_client_same st); [assumption|same_fields..|not_waiting].
  - (* KRemSend *)
    destruct (buf_send c st (IDelete k c0)) as [st1|] eqn:E.
    + inversion H; subst. apply buf_send_frame in E.
      destruct E as (_ & _ & Eb & Ep & Ed & Ec & _ & _ & _ & Ene).
      apply (WaitInv_client_moves st); try assumption.
      * rewrite Ep. tauto.
      * intros id. rewrite Ed. auto.
      * intros id Hi. left. rewrite Eb. apply in_or_app. auto.
      * not_waiting.
    + destruct (s_pc st) eqn:PC; try discriminate; inversion H; subst;
        (apply (WaitInv_client_same st); [assumption|same_fields..|not_waiting]).
  - (* KWaitStart: the marker goes into the buffer *)
    sproj. destruct (buf_send _ _ _) as [st2|] eqn:E.
    + inversion H; subst. apply buf_send_frame in E. sproj.
      destruct E as (_ & _ & Eb & Ep & Ed & Ec & _ & _ & _ & Ene).
      apply (WaitInv_client_moves st); sproj; try assumption.
      * rewrite Ep. tauto.
      * intros id. rewrite Ed. auto.
      * intros id Hi. left. rewrite Eb. apply in_or_app. auto.
      * intros i [Hx|Hx]; [|discriminate Hx]. inversion Hx; subst. right. rewrite Eb. apply in_or_app. right. left. reflexivity.
    + inversion H; subst. apply (WaitInv_client_same st); [assumption|same_fields..|not_waiting].
  - (* KClearStart *)
    destruct (s_pc st) eqn:PC; inversion H; subst;
      (apply (WaitInv_client_same st); [assumption|sproj; try rewrite PC; reflexivity..|not_waiting]).
  - (* KWaitAfterSend *)
    destruct (s_closed st); inversion H; subst.
    + apply (WaitInv_client_same st); [assumption|same_fields..|not_waiting].
    + apply (WaitInv_client_same st); [assumption|same_fields..|].
      intros i [Hx|Hx]; [discriminate|]. inversion Hx; subst. apply (W2 a i). rewrite K. left. reflexivity.
  - (* KWaitBlock *)
    destruct (mem_N id (s_done st)); [|discriminate]. inversion H; subst.
    apply (WaitInv_client_same st); [assumption|same_fields..|not_waiting].
  - (* KClearBlock *)
    destruct (mem_N id (s_done st)); [|discriminate]. destruct closing; inversion H; subst;
      (apply (WaitInv_client_same st); [assumption|same_fields..|not_waiting]).
  - (* KCloseAfterFlag *)
    destruct (s_pc st) eqn:PC; inversion H; subst;
      (apply (WaitInv_client_same st); [assumption|sproj; try rewrite PC; reflexivity..|not_waiting]).
  - (* KCloseBeforeStop *)
    destruct (s_pc st) eqn:PC; try (destruct (s_stop_msgs st <? stop_cap c)); inversion H; subst;
      (apply (WaitInv_client_same st); [assumption|sproj; try rewrite PC; reflexivity..|not_waiting]).
  - inversion H; subst. apply (WaitInv_client_same st); [assumption|same_fields..|not_waiting].
  - destruct (s_pol_closed st); inversion H; subst;
      (apply (WaitInv_client_same st); [assumption|same_fields..|not_waiting]).
  - destruct (s_wpc st); [destruct (s_pol_stop_msgs st <? stop_cap c)|]; inversion H; subst;
      (apply (WaitInv_client_same st); [assumption|same_fields..|not_waiting]).
  - inversion H; subst. apply (WaitInv_client_same st); [assumption|same_fields..|not_waiting].
  - inversion H; subst. apply (WaitInv_client_same st); [assumption|same_fields..|not_waiting].
Qed.

Lemma WaitInv_generic st st1 :
  WaitInv st ->
  (s_pc st1 = PExited -> s_buf st1 = []) ->
  (forall id, mem_N id (s_done st) = true -> mem_N id (s_done st1) = true) ->
  (forall id, In (IWait id) (s_buf st) -> In (IWait id) (s_buf st1) \/ mem_N id (s_done st1) = true) ->
  (forall b id, waiting (client_of st1 b) id -> waiting (client_of st b) id) ->
  WaitInv st1.
Proof.
  intros (W1 & W2) H1 Hd Hb Hc. split; [assumption|].
  intros b id Hw. apply Hc in Hw. destruct (W2 b id Hw) as [Hx|Hx].
  - left. auto.
  - destruct (Hb id Hx); auto.
Qed.

Lemma mem_N_cons id x l : mem_N id l = true -> mem_N id (x :: l) = true.
Proof. intros H. cbn [mem_N]. rewrite H. apply orb_true_r. Qed.

Lemma mem_N_app id l1 l2 : mem_N id l2 = true -> mem_N id (l1 ++ l2) = true.
Proof. intros H. induction l1 as [|x l1 IH]; cbn [app mem_N]; [assumption|]. rewrite IH. apply orb_true_r. Qed.

Lemma tick_next_fields c st h rest acc st' o :
  tick_next c st h rest acc = StepOk st' o ->
  s_buf st' = s_buf st /\ s_done st' = s_done st /\ s_clients st' = s_clients st /\ s_pc st' <> PExited.
Proof.
  unfold tick_next. destruct rest; [intros H; open_prep H; inversion H; subst; sproj; repeat split; discriminate|].
  destruct (h_tick_key h); [|discriminate]. destruct (aget _ _); [|discriminate].
  intros H; inversion H; subst; sproj; repeat split; discriminate.
Qed.

Ltac wi_same WI :=
  apply (WaitInv_generic _ _ WI);
  [ sproj; unfold emit; try destruct (c_metrics _); sproj; first [discriminate | exact (proj1 WI) | idtac]
  | intros ?; unfold emit; try destruct (c_metrics _); sproj; auto
  | intros ? ?; left; unfold emit; try destruct (c_metrics _); sproj; assumption
  | intros ? ?; unfold client_of, emit; try destruct (c_metrics _); sproj; auto ].

Lemma WaitInv_proc_step c st h st' o : WaitInv st -> proc_step c st h = StepOk st' o -> WaitInv st'.
Proof.
  intros WI H. pose proof WI as (W1 & W2). unfold proc_step in H.
  destruct (s_pc st) eqn:PC; try discriminate.
  - destruct (h_arm h) as [[| | |]|]; try discriminate.
    + (* item *)
      destruct (s_buf st) as [|it r] eqn:B; [discriminate|]. unfold proc_handle_item in H.
      destruct it as [k0 c0 cost0 v0 e0|k0 cost0 ext0|k0 c0|wid]; sproj.
      * destruct (pol_add _ _ _ _ _); try discriminate. inversion H; subst.
        apply (WaitInv_generic _ _ WI).
        -- sproj. discriminate.
        -- intros id. unfold emit; destruct (c_metrics c); sproj; auto.
        -- intros id Hi. left. unfold emit; destruct (c_metrics c); sproj; rewrite B in Hi;
             (destruct Hi as [Hx|Hx]; [discriminate|assumption]).
        -- intros b id. unfold client_of, emit; destruct (c_metrics c); sproj; auto.
      * destruct (sl_update _ _ _) as [[s' bb] mets]. inversion H; subst.
        apply (WaitInv_generic _ _ WI).
        -- unfold emit; destruct (c_metrics c); sproj; rewrite PC; discriminate.
        -- intros id. unfold emit; destruct (c_metrics c); sproj; auto.
        -- intros id Hi. left. unfold emit; destruct (c_metrics c); sproj; rewrite B in Hi;
             (destruct Hi as [Hx|Hx]; [discriminate|assumption]).
        -- intros b id. unfold client_of, emit; destruct (c_metrics c); sproj; auto.
      * destruct (pol_remove _ _) as [s' mets]. inversion H; subst.
        apply (WaitInv_generic _ _ WI).
        -- sproj. discriminate.
        -- intros id. unfold emit; destruct (c_metrics c); sproj; auto.
        -- intros id Hi. left. unfold emit; destruct (c_metrics c); sproj; rewrite B in Hi;
             (destruct Hi as [Hx|Hx]; [discriminate|assumption]).
        -- intros b id. unfold client_of, emit; destruct (c_metrics c); sproj; auto.
      * inversion H; subst. apply (WaitInv_generic _ _ WI).
        -- sproj. rewrite PC. discriminate.
        -- intros id Hm. sproj. apply mem_N_cons. assumption.
        -- intros id Hi. sproj. rewrite B in Hi. destruct Hi as [Hx|Hx].
           ++ inversion Hx; subst. right. cbn [mem_N]. rewrite N.eqb_refl. reflexivity.
           ++ left. assumption.
        -- intros b id. unfold client_of; sproj; auto.
    + (* clear *)
      destruct (s_clear_sigs st) as [|sig r]; [discriminate|].
      destruct (drain_buffer _) as [st1 cbs] eqn:DB. inversion H; subst.
      pose proof (drain_buffer_done _ _ _ DB) as DD. apply drain_buffer_frame in DB.
      destruct DB as (_ & _ & Eb & _ & Ec & _).
      apply (WaitInv_generic _ _ WI).
      * sproj. discriminate.
      * intros id Hm. sproj. apply DD. right. sproj. assumption.
      * intros id Hi. right. sproj. apply DD. left. sproj. assumption.
      * intros b id. unfold client_of; sproj. rewrite Ec. sproj. auto.
    + (* tick *)
      destruct (s_ticks st =? 0); [discriminate|].
      destruct (em_cleanup _ _) as [em' due]. destruct due as [m|].
      * apply tick_next_fields in H. sproj. destruct H as (Eb & Ed & Ec & Ene).
        apply (WaitInv_generic _ _ WI); [tauto|rewrite Ed; auto|intros id Hi; left; rewrite Eb; assumption|].
        intros b id. unfold client_of. rewrite Ec. auto.
      * inversion H; subst. wi_same WI.
    + (* stop *)
      assert (G : forall st1, s_buf st1 = s_buf st -> s_done st1 = s_done st ->
                (forall b id, waiting (client_of st1 b) id -> waiting (client_of st b) id) ->
                forall st2 cbs, drain_buffer st1 = (st2, cbs) ->
                WaitInv (upd_pc (upd_clear_sigs (upd_done st2 (s_clear_sigs st2 ++ s_done st2)) []) PExited)).
      { intros st1 Hb Hd Hc st2 cbs DB. pose proof (drain_buffer_done _ _ _ DB) as DD.
        apply drain_buffer_frame in DB. destruct DB as (_ & _ & Eb & _ & Ec & _).
        apply (WaitInv_generic _ _ WI).
        - sproj. intros _. assumption.
        - intros id Hm. sproj. apply mem_N_app. apply DD. right. rewrite Hd. assumption.
        - intros id Hi. right. sproj. apply mem_N_app. apply DD. left. rewrite Hb. assumption.
        - intros b id Hw. apply Hc. unfold client_of in *. sproj. rewrite Ec in Hw. assumption. }
      destruct (0 <? s_stop_msgs st).
      * destruct (drain_buffer _) as [st2 cbs] eqn:DB. inversion H; subst.
        eapply G; [| | |exact DB]; sproj; auto.
      * destruct (find_offer false (s_clients st)) as [a0|] eqn:FO; [|discriminate].
        destruct (client_of st a0) eqn:KO; try discriminate.
        destruct (drain_buffer _) as [st2 cbs] eqn:DB. inversion H; subst.
        eapply G; [| | |exact DB]; sproj; auto.
        intros b id Hw. rewrite client_of_set in Hw. destruct (N.eqb_spec b a0); [|assumption].
        destruct Hw as [Hx|Hx]; discriminate.
  - destruct added; [open_track H|]; inversion H; subst; wi_same WI.
  - unfold next_victim in H. destruct victims; inversion H; subst; wi_same WI.
  - destruct v as [vk vcost]. destruct (st_try_remove _ _ _) as [sto prev]. open_prep H. unfold next_victim in H.
    destruct rest; inversion H; subst; wi_same WI.
  - destruct (st_try_remove _ _ _) as [sto prev]. inversion H; subst. wi_same WI.
  - inversion H; subst. wi_same WI.
  - inversion H; subst. wi_same WI.
  - inversion H; subst. apply (WaitInv_generic _ _ WI).
    + destruct (c_metrics c); sproj; discriminate.
    + intros id Hm. destruct (c_metrics c); sproj; apply mem_N_cons; assumption.
    + intros id Hi. left. destruct (c_metrics c); sproj; assumption.
    + intros b id. unfold client_of. destruct (c_metrics c); sproj; auto.
  - destruct (st_expiration _ _) as [t|].
    + destruct (negb (t_is_zero t) && t_is_expired (s_now st) t).
      * destruct (pol_remove _ _) as [s' mets]. inversion H; subst. wi_same WI.
      * apply tick_next_fields in H. destruct H as (Eb & Ed & Ec & Ene).
        apply (WaitInv_generic _ _ WI); [tauto|rewrite Ed; auto|intros id Hi; left; rewrite Eb; assumption|].
        intros b id. unfold client_of. rewrite Ec. auto.
    + apply tick_next_fields in H. destruct H as (Eb & Ed & Ec & Ene).
      apply (WaitInv_generic _ _ WI); [tauto|rewrite Ed; auto|intros id Hi; left; rewrite Eb; assumption|].
      intros b id. unfold client_of. rewrite Ec. auto.
  - destruct (st_try_remove _ _ _) as [sto prev]. apply tick_next_fields in H. sproj.
    destruct H as (Eb & Ed & Ec & Ene).
    apply (WaitInv_generic _ _ WI); [tauto|rewrite Ed; auto|intros id Hi; left; rewrite Eb; assumption|].
    intros b id. unfold client_of. rewrite Ec. auto.
Qed.

Lemma WaitInv_worker_step c st h st' o : WaitInv st -> worker_step c st h = StepOk st' o -> WaitInv st'.
Proof.
  intros WI H. unfold worker_step in H. destruct (s_wpc st); [|discriminate].
  destruct (h_arm h) as [[| | |]|]; try discriminate.
  - destruct (s_pqueue st); [discriminate|]. destruct (tl_increments _ _); [|discriminate].
    inversion H; subst. wi_same WI.
  - destruct (0 <? s_pol_stop_msgs st); [inversion H; subst; wi_same WI|].
    destruct (find_offer true (s_clients st)) as [a0|]; [|discriminate].
    destruct (client_of st a0) eqn:KO; try discriminate. inversion H; subst.
    apply (WaitInv_generic _ _ WI).
    + sproj. destruct WI as (W1 & _). assumption.
    + intros id. sproj. auto.
    + intros id Hi. left. sproj. assumption.
    + intros b id Hw. change (client_of (upd_wpc (set_client st a0 KPolCloseStopTaken) WExited) b)
        with (client_of (set_client st a0 KPolCloseStopTaken) b) in Hw.
      rewrite client_of_set in Hw. destruct (N.eqb_spec b a0); [|assumption].
      destruct Hw as [Hx|Hx]; discriminate.
Qed.

Theorem WaitInv_step c st l st' o : WaitInv st -> cstep c st l = StepOk st' o -> WaitInv st'.
Proof.
  intros WI. destruct l as [a op|a|h|h|dt|]; cbn [cstep].
  - destruct (client_of st a) eqn:K; try discriminate. apply WaitInv_start_op; assumption.
  - apply WaitInv_continue_client. assumption.
  - apply WaitInv_proc_step. assumption.
  - apply WaitInv_worker_step. assumption.
  - intros H; inversion H; subst. wi_same WI.
  - intros H; inversion H; subst. wi_same WI.
Qed.

Lemma WaitInv_init c mc t now : WaitInv (cinit c mc t now).
Proof. split; [discriminate|]. intros a id [H|H]; discriminate. Qed.

(* C10: in every reachable state — any history, any schedule, either flavour — a client blocked in
   wait() either can return now (its marker was handled or drained), or its marker sits in the
   insert buffer of a live processor (which can always take the next item). It is never stranded. *)
Theorem wait_never_stuck c mc t now st a id :
  reach c (cinit c mc t now) st -> client_of st a = KWaitBlock id ->
  (exists st', continue_client c st a = StepOk st' (mk_out PtFinish [] (RUnit true))) \/
  (In (IWait id) (s_buf st) /\ s_pc st <> PExited).
Proof.
  intros R K.
  assert (WI : WaitInv st).
  { apply (reach_ind_inv c (cinit c mc t now) WaitInv); [apply WaitInv_init| |exact R].
    intros st0 l st1 o W S. eapply WaitInv_step; eassumption. }
  destruct WI as (W1 & W2). destruct (W2 a id) as [Hd|Hi]; [rewrite K; right; reflexivity| |].
  - left. unfold continue_client. rewrite K, Hd. eauto.
  - right. split; [assumption|]. intros PE. rewrite (W1 PE) in Hi. destruct Hi.
Qed.

(* the processor can always take the item at the head of its buffer (New items need the sampling
   oracle of the policy; every other item needs nothing) *)
Theorem processor_takes_wait_marker c st id r :
  s_pc st = PIdle -> s_buf st = IWait id :: r ->
  exists st', proc_step c st {| h_arm := Some ArmItem; h_oracle := []; h_tick_key := None |} =
                StepOk st' (mk_out PtProcLoop [] RNone) /\ mem_N id (s_done st') = true /\ s_buf st' = r.
Proof.
  intros PC B. unfold proc_step. rewrite PC. cbn [h_arm]. rewrite B. cbn [proc_handle_item].
  eexists. split; [reflexivity|]. sproj. cbn [mem_N]. rewrite N.eqb_refl. auto.
Qed.

(* ---- C11: what a completed clear() leaves behind ---- *)
Definition ClearEmpty (st : cstate) : Prop :=
  (forall sig, s_pc st = PClearAfterPolicy sig -> sl_kc (s_slfu st) = [] /\ sl_used (s_slfu st) = 0%Z) /\
  (forall sig, s_pc st = PClearAfterStore sig ->
     sl_kc (s_slfu st) = [] /\ sl_used (s_slfu st) = 0%Z /\ s_store st = st_empty).

Lemma ClearEmpty_frame st st1 :
  ClearEmpty st -> s_pc st1 = s_pc st ->
  sl_kc (s_slfu st1) = sl_kc (s_slfu st) -> sl_used (s_slfu st1) = sl_used (s_slfu st) ->
  (s_store st = st_empty -> s_store st1 = st_empty) -> ClearEmpty st1.
Proof.
  intros (C3 & C4) Hp Hk Hu Hs. split; intros sig PC; rewrite Hp in PC.
  - rewrite Hk, Hu. apply (C3 sig PC).
  - destruct (C4 sig PC) as (A & B & D). rewrite Hk, Hu. auto.
Qed.

Lemma ClearEmpty_other_pc st1 :
  (forall sig, s_pc st1 <> PClearAfterPolicy sig) -> (forall sig, s_pc st1 <> PClearAfterStore sig) ->
  ClearEmpty st1.
Proof. intros H1 H2. split; intros sig PC; [destruct (H1 sig PC)|destruct (H2 sig PC)]. Qed.

Lemma empty_try_update vld k v c t : st_try_update vld st_empty k v c t = (st_empty, UNotExist).
Proof. reflexivity. Qed.
Lemma empty_try_remove k c : st_try_remove st_empty k c = (st_empty, None).
Proof. reflexivity. Qed.
Lemma empty_write k v : st_write st_empty k v = st_empty.
Proof. reflexivity. Qed.

Lemma ring_push_frame c st k :
  s_pc (ring_push c st k) = s_pc st /\ s_slfu (ring_push c st k) = s_slfu st /\
  s_store (ring_push c st k) = s_store st.
Proof.
  unfold ring_push, policy_push.
  repeat match goal with |- context [if ?b then _ else _] => destruct b end;
    try destruct (s_ring st ++ [k]); unfold emit; try destruct (c_metrics c); sproj; auto.
Qed.

Lemma ClearEmpty_start_op c st a op st' o : ClearEmpty st -> start_op c st a op = StepOk st' o -> ClearEmpty st'.
Proof.
  intros CE H. destruct op; cbn [start_op] in H.
  - destruct (s_closed st); [inversion H; subst; assumption|].
    destruct (st_try_update _ _ _ _ _ _) as [sto r] eqn:TU.
    assert (Hs : s_store st = st_empty -> sto = st_empty) by (intros E; rewrite E, empty_try_update in TU; inversion TU; reflexivity).
    destruct r; destruct only_update; inversion H; subst; try assumption;
      (apply (ClearEmpty_frame st); [assumption|sproj; reflexivity..|sproj; auto]).
  - destruct (s_closed st); inversion H; subst; [assumption|].
    destruct (ring_push_frame c st k) as (A & B & D).
    apply (ClearEmpty_frame st); [assumption|sproj; congruence..|sproj; intros E; rewrite D; assumption].
  - destruct (s_closed st); inversion H; subst; [assumption|].
    destruct (ring_push_frame c st k) as (A & B & D).
    apply (ClearEmpty_frame st); [assumption|sproj; congruence..|sproj; intros E; rewrite D; assumption].
  - destruct (st_get _ _ _ _); [destruct (st_expiration _ _); [destruct (t_get_ttl _ _)|]|];
      inversion H; subst; assumption.
  - destruct (s_closed st); [inversion H; subst; assumption|].
    destruct (st_try_remove _ _ _) as [sto prev] eqn:TR.
    assert (Hs : s_store st = st_empty -> sto = st_empty) by (intros E; rewrite E, empty_try_remove in TR; inversion TR; reflexivity).
    inversion H; subst. apply (ClearEmpty_frame st); [assumption|sproj; reflexivity..|sproj; auto].
  - destruct (s_closed st); inversion H; subst; [assumption|].
    apply (ClearEmpty_frame st); [assumption|sproj; reflexivity..|sproj; auto].
  - destruct (s_closed st); inversion H; subst; [assumption|].
    apply (ClearEmpty_frame st); [assumption|sproj; reflexivity..|sproj; auto].
  - destruct (s_closed st); inversion H; subst; [assumption|].
    apply (ClearEmpty_frame st); [assumption|sproj; reflexivity..|sproj; auto].
  - inversion H; subst. assumption.
  - inversion H; subst. apply (ClearEmpty_frame st); [assumption|sproj; reflexivity..|sproj; auto].
  - inversion H; subst. assumption.
Qed.

Ltac ce_same CE st :=
  apply (ClearEmpty_frame st);
  [ exact CE
  | unfold emit; try destruct (c_metrics _); sproj; reflexivity
  | unfold emit; try destruct (c_metrics _); sproj; reflexivity
  | unfold emit; try destruct (c_metrics _); sproj; reflexivity
  | unfold emit; try destruct (c_metrics _); sproj; auto ].

Lemma ClearEmpty_continue_client c st a st' o :
  ClearEmpty st -> continue_client c st a = StepOk st' o -> ClearEmpty st'.
Proof.
  intros CE H. unfold continue_client in H. destruct (client_of st a) eqn:K; try discriminate.
  - destruct (buf_send c st it) as [st1|] eqn:E.
    + inversion H; subst. apply buf_send_frame in E. destruct E as (Es & Est & _ & Ep & _).
      apply (ClearEmpty_frame st); [assumption|sproj; congruence..|sproj; intros X; rewrite Est; assumption].
    + destruct (is_update it); inversion H; subst; ce_same CE st.
  - destruct (st_get _ _ _ _) as [e|].
    + destruct write.
      * inversion H; subst. apply (ClearEmpty_frame st); [assumption|unfold emit; destruct (c_metrics c); sproj; reflexivity..|].
        unfold emit; destruct (c_metrics c); sproj; intros X; rewrite X; reflexivity.
      * destruct (t_get_ttl _ _); inversion H; subst. ce_same CE st.
    + inversion H; subst. ce_same CE st.
  - destruct (buf_send c st (IDelete k c0)) as [st1|] eqn:E.
    + inversion H; subst. apply buf_send_frame in E. destruct E as (Es & Est & _ & Ep & _).
      apply (ClearEmpty_frame st); [assumption|sproj; congruence..|sproj; intros X; rewrite Est; assumption].
    + destruct (s_pc st) eqn:PC; try discriminate; inversion H; subst; ce_same CE st.
  - sproj. destruct (buf_send _ _ _) as [st2|] eqn:E.
    + inversion H; subst. apply buf_send_frame in E. sproj.
      destruct E as (Es & Est & _ & Ep & _).
      apply (ClearEmpty_frame st); [assumption|sproj; congruence..|sproj; intros X; rewrite Est; assumption].
    + inversion H; subst. apply (ClearEmpty_frame st); [assumption|sproj; reflexivity..|sproj; auto].
  - destruct (s_pc st) eqn:PC; inversion H; subst;
      (apply (ClearEmpty_frame st); [assumption|sproj; try rewrite PC; reflexivity..|sproj; auto]).
  - destruct (s_closed st); inversion H; subst; ce_same CE st.
  - destruct (mem_N id (s_done st)); [|discriminate]. inversion H; subst. ce_same CE st.
  - destruct (mem_N id (s_done st)); [|discriminate]. destruct closing; inversion H; subst; ce_same CE st.
  - destruct (s_pc st) eqn:PC; inversion H; subst;
      (apply (ClearEmpty_frame st); [assumption|sproj; try rewrite PC; reflexivity..|sproj; auto]).
  - destruct (s_pc st) eqn:PC; try (destruct (s_stop_msgs st <? stop_cap c)); inversion H; subst;
      (apply (ClearEmpty_frame st); [assumption|sproj; try rewrite PC; reflexivity..|sproj; auto]).
  - inversion H; subst. ce_same CE st.
  - destruct (s_pol_closed st); inversion H; subst; ce_same CE st.
  - destruct (s_wpc st); [destruct (s_pol_stop_msgs st <? stop_cap c)|]; inversion H; subst; ce_same CE st.
  - inversion H; subst. ce_same CE st.
  - inversion H; subst. ce_same CE st.
Qed.

Lemma tick_next_pc c st h rest acc st' o :
  tick_next c st h rest acc = StepOk st' o ->
  (forall sig, s_pc st' <> PClearAfterPolicy sig) /\ (forall sig, s_pc st' <> PClearAfterStore sig).
Proof.
  unfold tick_next. destruct rest; [intros H; open_prep H; inversion H; subst; sproj; split; discriminate|].
  destruct (h_tick_key h); [|discriminate]. destruct (aget _ _); [|discriminate].
  intros H; inversion H; subst; sproj; split; discriminate.
Qed.

Ltac ce_other := apply ClearEmpty_other_pc; intros ?; unfold emit; try destruct (c_metrics _); sproj; discriminate.

Lemma ClearEmpty_proc_step c st h st' o : ClearEmpty st -> proc_step c st h = StepOk st' o -> ClearEmpty st'.
Proof.
  intros CE H. pose proof CE as (C3 & C4). unfold proc_step in H.
  destruct (s_pc st) eqn:PC; try discriminate.
  - destruct (h_arm h) as [[| | |]|]; try discriminate.
    + destruct (s_buf st) as [|it r]; [discriminate|]. unfold proc_handle_item in H.
      destruct it as [k0 c0 cost0 v0 e0|k0 cost0 ext0|k0 c0|wid]; sproj.
      * destruct (pol_add _ _ _ _ _); try discriminate. inversion H; subst. ce_other.
      * destruct (sl_update _ _ _) as [[s' bb] mets]. inversion H; subst.
        apply ClearEmpty_other_pc; intros ?; unfold emit; destruct (c_metrics c); sproj; rewrite PC; discriminate.
      * destruct (pol_remove _ _) as [s' mets]. inversion H; subst. ce_other.
      * inversion H; subst. apply ClearEmpty_other_pc; intros ?; sproj; rewrite PC; discriminate.
    + destruct (s_clear_sigs st) as [|sig r]; [discriminate|].
      destruct (drain_buffer _) as [st1 cbs]. inversion H; subst. ce_other.
    + destruct (s_ticks st =? 0); [discriminate|].
      destruct (em_cleanup _ _) as [em' due]. destruct due as [m|].
      * apply tick_next_pc in H. apply ClearEmpty_other_pc; tauto.
      * inversion H; subst. apply ClearEmpty_other_pc; intros ?; sproj; rewrite PC; discriminate.
    + destruct (0 <? s_stop_msgs st).
      * destruct (drain_buffer _) as [st2 cbs]. inversion H; subst. ce_other.
      * destruct (find_offer false (s_clients st)) as [a0|]; [|discriminate].
        destruct (client_of st a0); try discriminate.
        destruct (drain_buffer _) as [st2 cbs]. inversion H; subst. ce_other.
  - destruct added; [open_track H|]; inversion H; subst; ce_other.
  - unfold next_victim in H. destruct victims; inversion H; subst; ce_other.
  - destruct v as [vk vcost]. destruct (st_try_remove _ _ _) as [sto prev]. open_prep H. unfold next_victim in H.
    destruct rest; inversion H; subst; ce_other.
  - destruct (st_try_remove _ _ _) as [sto prev]. inversion H; subst. ce_other.
  - (* after drain: the policy is emptied *)
    inversion H; subst. split; intros sg PCs; sproj; [|discriminate]. cbn [sl_clear sl_kc sl_used]. auto.
  - (* after policy: the store is emptied *)
    inversion H; subst. split; intros sg PCs; sproj; [discriminate|].
    destruct (C3 sig eq_refl) as (A & B). auto.
  - inversion H; subst. apply ClearEmpty_other_pc; intros ?; destruct (c_metrics c); sproj; discriminate.
  - destruct (st_expiration _ _) as [t|].
    + destruct (negb (t_is_zero t) && t_is_expired (s_now st) t).
      * destruct (pol_remove _ _) as [s' mets]. inversion H; subst. ce_other.
      * apply tick_next_pc in H. apply ClearEmpty_other_pc; tauto.
    + apply tick_next_pc in H. apply ClearEmpty_other_pc; tauto.
  - destruct (st_try_remove _ _ _) as [sto prev]. apply tick_next_pc in H. apply ClearEmpty_other_pc; tauto.
Qed.

Theorem ClearEmpty_step c st l st' o : ClearEmpty st -> cstep c st l = StepOk st' o -> ClearEmpty st'.
Proof.
  intros CE. destruct l as [a op|a|h|h|dt|]; cbn [cstep].
  - destruct (client_of st a); try discriminate. apply ClearEmpty_start_op; assumption.
  - apply ClearEmpty_continue_client. assumption.
  - apply ClearEmpty_proc_step. assumption.
  - intros H. unfold worker_step in H. destruct (s_wpc st); [|discriminate].
    destruct (h_arm h) as [[| | |]|]; try discriminate.
    + destruct (s_pqueue st); [discriminate|]. destruct (tl_increments _ _); [|discriminate].
      inversion H; subst. ce_same CE st.
    + destruct (0 <? s_pol_stop_msgs st); [inversion H; subst; ce_same CE st|].
      destruct (find_offer true (s_clients st)) as [a0|]; [|discriminate]. destruct (client_of st a0); try discriminate.
      inversion H; subst. ce_same CE st.
  - intros H; inversion H; subst. ce_same CE st.
  - intros H; inversion H; subst. ce_same CE st.
Qed.

(* C11: in every reachable state, the step in which the processor acknowledges a clear() — the only
   thing that lets clear() return — finds and leaves: no resident entry, no expiry listing, no
   charge, a charged total of zero, and (when metrics are on) every counter at zero.  Clients may
   have run arbitrarily in between: they cannot add entries or charges, only the processor can. *)
Theorem clear_ack_leaves_cache_empty c mc t now st sig h :
  reach c (cinit c mc t now) st -> s_pc st = PClearAfterStore sig ->
  exists st', proc_step c st h = StepOk st' (mk_out PtProcLoop [] RNone) /\
    mem_N sig (s_done st') = true /\
    s_store st' = st_empty /\ sl_kc (s_slfu st') = [] /\ sl_used (s_slfu st') = 0%Z /\
    (c_metrics c = true -> s_mets st' = metrics_zero) /\ s_pc st' = PIdle.
Proof.
  intros R PC.
  assert (CE : ClearEmpty st).
  { apply (reach_ind_inv c (cinit c mc t now) ClearEmpty); [|intros st0 l st1 o W S; eapply ClearEmpty_step; eassumption|exact R].
    split; intros sg X; discriminate X. }
  destruct CE as (_ & C4). destruct (C4 sig PC) as (A & B & D).
  unfold proc_step. rewrite PC. eexists. split; [reflexivity|].
  destruct (c_metrics c); sproj; cbn [mem_N]; rewrite N.eqb_refl; repeat split; auto; discriminate.
Qed.

(* C11: the clear arm hands every buffered New item to on_evict and releases every buffered waiter *)
Theorem clear_drains_buffer its : forall done cbs done' cbs',
  drain_items its done cbs = (done', cbs') ->
  (forall k cf cost v exp, In (INew k cf cost v exp) its -> In (CbEvict k cf v cost) cbs') /\
  (forall x, In x cbs -> In x cbs') /\
  (forall id, In (IWait id) its -> mem_N id done' = true).
Proof.
  induction its as [|it its IH]; intros done cbs done' cbs'; cbn [drain_items].
  - intros H; inversion H; subst. repeat split; auto; intros; contradiction.
  - destruct it as [k0 c0 cost0 v0 e0|k0 cost0 ext0|k0 c0|wid]; intros H; destruct (IH _ _ _ _ H) as (A & B & D).
    + repeat split.
      * intros k cf cost v exp [Hx|Hx]; [inversion Hx; subst; apply B, in_or_app; right; left; reflexivity|eauto].
      * intros x Hx. apply B, in_or_app. auto.
      * intros id [Hx|Hx]; [discriminate|auto].
    + repeat split; [intros k cf cost v exp [Hx|Hx]; [discriminate|eauto]|auto|intros id [Hx|Hx]; [discriminate|auto]].
    + repeat split; [intros k cf cost v exp [Hx|Hx]; [discriminate|eauto]|auto|intros id [Hx|Hx]; [discriminate|auto]].
    + repeat split; [intros k cf cost v exp [Hx|Hx]; [discriminate|eauto]|auto|].
      intros id [Hx|Hx]; [|auto]. inversion Hx; subst.
      eapply drain_items_spec; [exact H|]. right. cbn [mem_N]. rewrite N.eqb_refl. reflexivity.
Qed.
