(* CacheCharge.v — property C17, the charge-conservation laws: with metrics on,
   cost_added - cost_evicted equals the charged total and keys_added - keys_evicted the number of
   charged entries (counters are wrapping u64s: equalities modulo 2^64), as an invariant of every
   step of every actor. *)
From StrettoModel Require Import Base BaseProofs Metrics Sketch Bloom TinyLFU TinyLFUProofs Policy PolicyProofs Ttl Store StoreProofs
  Cache CacheProofs CacheLocal CacheInv CacheMetrics.
From Coq Require Import ZifyBool ZifyNat ZifyN.
Open Scope Z_scope.

Definition M : Z := 18446744073709551616.
Definition eqm (a b : Z) : Prop := (a - b) mod M = 0.

Lemma eqm_refl a : eqm a a.
Proof. unfold eqm. rewrite Z.sub_diag. reflexivity. Qed.
Lemma eqm_intro a b q : a - b = q * M -> eqm a b.
Proof. intros H. unfold eqm. rewrite H. apply Z.mod_mul. unfold M. lia. Qed.
Lemma eqm_elim a b : eqm a b -> exists q, a - b = q * M.
Proof. unfold eqm. intros H. apply Z.mod_divide in H; [|unfold M; lia]. destruct H as [q Hq]. exists q. exact Hq. Qed.
Lemma eqm_trans a b c : eqm a b -> eqm b c -> eqm a c.
Proof. intros H1 H2. apply eqm_elim in H1, H2. destruct H1 as [q1 H1], H2 as [q2 H2]. apply (eqm_intro _ _ (q1 + q2)). lia. Qed.
Lemma eqm_sym a b : eqm a b -> eqm b a.
Proof. intros H. apply eqm_elim in H. destruct H as [q H]. apply (eqm_intro _ _ (- q)). lia. Qed.
Lemma eqm_add a b c d : eqm a b -> eqm c d -> eqm (a + c) (b + d).
Proof. intros H1 H2. apply eqm_elim in H1, H2. destruct H1 as [q1 H1], H2 as [q2 H2]. apply (eqm_intro _ _ (q1 + q2)). lia. Qed.
Lemma eqm_sub a b c d : eqm a b -> eqm c d -> eqm (a - c) (b - d).
Proof. intros H1 H2. apply eqm_elim in H1, H2. destruct H1 as [q1 H1], H2 as [q2 H2]. apply (eqm_intro _ _ (q1 - q2)). lia. Qed.

Lemma eqm_wrap64 n : eqm (Z.of_N (wrap64 n)) (Z.of_N n).
Proof.
  unfold wrap64, two64. rewrite N2Z.inj_mod. change (Z.of_N 18446744073709551616) with M.
  apply (eqm_intro _ _ (- (Z.of_N n / M))). pose proof (Z.div_mod (Z.of_N n) M). unfold M in *. lia.
Qed.

Lemma eqm_u64_of_i64 z : eqm (Z.of_N (u64_of_i64 z)) z.
Proof.
  unfold u64_of_i64, two64. change (Z.of_N 18446744073709551616) with M.
  rewrite Z2N.id by (apply Z.mod_pos_bound; unfold M; lia).
  apply (eqm_intro _ _ (- (z / M))). pose proof (Z.div_mod z M). unfold M in *. lia.
Qed.

(* ---- the signed effect of an event list on (cost_added - cost_evicted) and on keys_evicted ---- *)
Definition ev_cost (e : mevent) : Z :=
  match e with (MCostAdd, d) => Z.of_N d | (MCostEvict, d) => - Z.of_N d | _ => 0 end.
Definition ev_kev (e : mevent) : Z := match e with (MKeyEvict, d) => Z.of_N d | _ => 0 end.
Definition ev_kadd (e : mevent) : Z := match e with (MKeyAdd, d) => Z.of_N d | _ => 0 end.
Fixpoint sumz (f : mevent -> Z) (evs : list mevent) : Z := match evs with [] => 0 | e :: r => f e + sumz f r end.

Lemma sumz_app f a b : sumz f (a ++ b) = sumz f a + sumz f b.
Proof. induction a as [|e a IH]; cbn [sumz app]; lia. Qed.

Definition cnet (m : metrics) : Z := Z.of_N (m_get m MCostAdd) - Z.of_N (m_get m MCostEvict).
Definition knet (m : metrics) : Z := Z.of_N (m_get m MKeyAdd) - Z.of_N (m_get m MKeyEvict).

Lemma cnet_add m e : length m = 11%nat -> eqm (cnet (m_add m e)) (cnet m + ev_cost e).
Proof.
  intros L. destruct e as [t d]. unfold cnet.
  destruct t; cbn [ev_cost];
    try (rewrite !m_get_add_other by discriminate; apply (eqm_intro _ _ 0); lia).
  - rewrite m_get_add_same by exact L. rewrite m_get_add_other by discriminate.
    pose proof (eqm_wrap64 (m_get m MCostAdd + d)) as H. apply eqm_elim in H. destruct H as [q H].
    apply (eqm_intro _ _ q). lia.
  - rewrite m_get_add_same by exact L. rewrite m_get_add_other by discriminate.
    pose proof (eqm_wrap64 (m_get m MCostEvict + d)) as H. apply eqm_elim in H. destruct H as [q H].
    apply (eqm_intro _ _ (- q)). lia.
Qed.

Lemma knet_add m e : length m = 11%nat -> eqm (knet (m_add m e)) (knet m + ev_kadd e - ev_kev e).
Proof.
  intros L. destruct e as [t d]. unfold knet.
  destruct t; cbn [ev_kadd ev_kev];
    try (rewrite !m_get_add_other by discriminate; apply (eqm_intro _ _ 0); lia).
  - rewrite m_get_add_same by exact L. rewrite m_get_add_other by discriminate.
    pose proof (eqm_wrap64 (m_get m MKeyAdd + d)) as H. apply eqm_elim in H. destruct H as [q H].
    apply (eqm_intro _ _ q). lia.
  - rewrite m_get_add_same by exact L. rewrite m_get_add_other by discriminate.
    pose proof (eqm_wrap64 (m_get m MKeyEvict + d)) as H. apply eqm_elim in H. destruct H as [q H].
    apply (eqm_intro _ _ (- q)). lia.
Qed.

Lemma cnet_adds evs : forall m, length m = 11%nat -> eqm (cnet (m_adds m evs)) (cnet m + sumz ev_cost evs).
Proof.
  induction evs as [|e evs IH]; intros m L; cbn [m_adds fold_left sumz].
  - apply (eqm_intro _ _ 0). lia.
  - eapply eqm_trans; [apply (IH (m_add m e)); rewrite length_m_add; exact L|].
    pose proof (cnet_add m e L) as H. apply eqm_elim in H. destruct H as [q H]. apply (eqm_intro _ _ q). lia.
Qed.

Lemma knet_adds evs : forall m, length m = 11%nat -> eqm (knet (m_adds m evs)) (knet m + sumz ev_kadd evs - sumz ev_kev evs).
Proof.
  induction evs as [|e evs IH]; intros m L; cbn [m_adds fold_left sumz].
  - apply (eqm_intro _ _ 0). lia.
  - eapply eqm_trans; [apply (IH (m_add m e)); rewrite length_m_add; exact L|].
    pose proof (knet_add m e L) as H. apply eqm_elim in H. destruct H as [q H]. apply (eqm_intro _ _ q). lia.
Qed.

(* ---- what each policy operation emits, against what it does to used and to the charge map ---- *)
Definition klen (s : slfu) : Z := Z.of_nat (length (sl_kc s)).

Lemma adel_absent {V} k (m : amap V) : aget k m = None -> adel k m = m.
Proof.
  induction m as [|[a b] m IH]; cbn [aget adel]; [reflexivity|]. destruct (N.eqb k a); [discriminate|].
  intros H. rewrite IH by assumption. reflexivity.
Qed.

Lemma pol_remove_net s k s' evs :
  WF s -> pol_remove s k = (s', evs) ->
  eqm (sl_used s' - sl_used s) (sumz ev_cost evs) /\ klen s' + sumz ev_kev evs = klen s /\ sumz ev_kadd evs = 0.
Proof.
  intros (_ & ND). unfold pol_remove, sl_remove. destruct (aget k (sl_kc s)) as [c0|] eqn:G; intros H; inversion H; subst; clear H.
  - cbn [sl_used sl_kc sumz ev_cost ev_kev ev_kadd]. split; [|split; [|reflexivity]].
    + pose proof (eqm_u64_of_i64 c0) as E. apply eqm_elim in E. destruct E as [q E]. apply (eqm_intro _ _ q). lia.
    + unfold klen. cbn [sl_kc]. pose proof (length_adel_in k (sl_kc s) ND (aget_in _ _ _ G)). lia.
  - cbn [sumz]. split; [apply (eqm_intro _ _ 0); lia|]. split; [lia|reflexivity].
Qed.

Definition delta_ok (p c : Z) : Prop := p - c <= M.

Lemma update_delta_net p c : delta_ok p c -> eqm (sumz ev_cost (update_delta p c)) (c - p).
Proof.
  unfold update_delta, delta_ok. intros D. destruct (p <? c) eqn:E1; [|destruct (c <? p) eqn:E2]; cbn [sumz ev_cost].
  - rewrite Z2N.id by lia. apply (eqm_intro _ _ 0). lia.
  - unfold two64. apply (eqm_intro _ _ 1). unfold M in *. lia.
  - apply (eqm_intro _ _ 0). lia.
Qed.

Lemma sl_update_net s k c s' b evs :
  WF s -> (forall p, aget k (sl_kc s) = Some p -> delta_ok p c) -> sl_update s k c = (s', b, evs) ->
  eqm (sl_used s' - sl_used s) (sumz ev_cost evs) /\ klen s' = klen s /\ sumz ev_kev evs = 0 /\ sumz ev_kadd evs = 0.
Proof.
  intros (_ & ND) D. unfold sl_update. destruct (aget k (sl_kc s)) as [p|] eqn:G; intros H; inversion H; subst; clear H.
  - cbn [sl_used sl_kc]. split; [|split; [|split]].
    + cbn [sumz ev_cost]. pose proof (update_delta_net p c (D p eq_refl)) as E. apply eqm_elim in E. destruct E as [q E].
      apply (eqm_intro _ _ (- q)). lia.
    + unfold klen, aset. cbn [sl_kc length]. pose proof (length_adel_in k (sl_kc s) ND (aget_in _ _ _ G)). lia.
    + cbn [sumz ev_kev]. unfold update_delta. destruct (p <? c); [reflexivity|]. destruct (c <? p); reflexivity.
    + cbn [sumz ev_kadd]. unfold update_delta. destruct (p <? c); [reflexivity|]. destruct (c <? p); reflexivity.
  - cbn [sumz]. split; [apply (eqm_intro _ _ 0); lia|]. auto.
Qed.

Lemma sl_increment_net s k c : aget k (sl_kc s) = None ->
  sl_used (sl_increment s k c) - sl_used s = c /\ klen (sl_increment s k c) = klen s + 1.
Proof.
  intros G. unfold sl_increment, klen, aset. cbn [sl_used sl_kc length]. rewrite (adel_absent _ _ G). lia.
Qed.

Lemma evict_loop_net est ih k cost : forall oracle s sample victims log mets s' v a lg m,
  WF s -> aget k (sl_kc s) = None ->
  evict_loop est ih k cost oracle s sample victims log mets = AddDone s' v a lg m ->
  exists more, m = mets ++ more /\
    eqm (sl_used s' - sl_used s) (sumz ev_cost more) /\
    klen s' + sumz ev_kev more = klen s + (if a then 1 else 0) /\ sumz ev_kadd more = 0.
Proof.
  induction oracle as [|smp oracle IH]; intros s sample victims log mets s' v a lg m W G; cbn [evict_loop].
  - destruct (0 <=? sl_room_left s cost); [|discriminate]. intros H; inversion H; subst.
    eexists. split; [reflexivity|]. destruct (sl_increment_net s k cost G) as (U & K). cbn [sumz ev_cost ev_kev ev_kadd].
    split; [|split; [lia|reflexivity]].
    pose proof (eqm_u64_of_i64 cost) as E. apply eqm_elim in E. destruct E as [q E]. apply (eqm_intro _ _ (- q)). lia.
  - destruct (0 <=? sl_room_left s cost).
    { intros H; inversion H; subst.
      eexists. split; [reflexivity|]. destruct (sl_increment_net s k cost G) as (U & K). cbn [sumz ev_cost ev_kev ev_kadd].
      split; [|split; [lia|reflexivity]].
      pose proof (eqm_u64_of_i64 cost) as E. apply eqm_elim in E. destruct E as [q E]. apply (eqm_intro _ _ (- q)). lia. }
    destruct (negb (legal_fill (sl_kc s) sample smp)); [discriminate|].
    destruct (find_min0 est smp) as [[[mk mh] mi] mc].
    destruct (ih <? mh).
    { intros H; inversion H; subst. eexists. split; [reflexivity|]. cbn [sumz ev_cost ev_kev ev_kadd].
      split; [apply (eqm_intro _ _ 0); lia|]. split; [lia|reflexivity]. }
    destruct smp; [discriminate|]. destruct (pol_remove s mk) as [s1 ev] eqn:PR.
    intros H. destruct (pol_remove_net s mk s1 ev W PR) as (U1 & K1 & A1).
    assert (W1 : WF s1). { pose proof (WF_pol_remove s mk W) as X. rewrite PR in X. exact X. }
    assert (G1 : aget k (sl_kc s1) = None).
    { pose proof (pol_remove_fst s mk) as X. rewrite PR in X. cbn [fst] in X. subst s1.
      destruct (N.eq_dec k mk) as [->|Hne].
      - unfold sl_remove. rewrite G. cbn [fst]. exact G.
      - rewrite sl_remove_get. destruct (N.eqb_spec k mk); [congruence|exact G]. }
    destruct (IH _ _ _ _ _ _ _ _ _ _ W1 G1 H) as (more & E & U2 & K2 & A2).
    exists (ev ++ more). split; [rewrite E, app_assoc; reflexivity|]. rewrite !sumz_app.
    split; [|split; [lia|lia]].
    apply eqm_elim in U1, U2. destruct U1 as [q1 U1], U2 as [q2 U2]. apply (eqm_intro _ _ (q1 + q2)). lia.
Qed.

Lemma sl_update_false s k c s' evs : sl_update s k c = (s', false, evs) -> aget k (sl_kc s) = None.
Proof. unfold sl_update. destruct (aget k (sl_kc s)); [discriminate|reflexivity]. Qed.

Lemma pol_add_net est oracle s k cost s' v a lg m :
  WF s -> (forall p, aget k (sl_kc s) = Some p -> delta_ok p cost) ->
  pol_add est oracle s k cost = AddDone s' v a lg m ->
  eqm (sl_used s' - sl_used s) (sumz ev_cost m) /\
  klen s' + sumz ev_kev m = klen s + (if a then 1 else 0) /\ sumz ev_kadd m = 0.
Proof.
  intros W D. unfold pol_add. destruct (sl_max s <? cost).
  { intros H; inversion H; subst. cbn [sumz]. split; [apply (eqm_intro _ _ 0); lia|]. split; [lia|reflexivity]. }
  destruct (sl_update s k cost) as [[s1 b] ev] eqn:U. destruct b.
  - intros H; inversion H; subst. destruct (sl_update_net s k cost s' true m W D U) as (A & B & C & E).
    split; [exact A|]. split; [lia|exact E].
  - pose proof (sl_update_false _ _ _ _ _ U) as G. destruct (0 <=? sl_room_left s cost).
    + intros H; inversion H; subst. destruct (sl_increment_net s k cost G) as (U1 & K1). cbn [sumz ev_cost ev_kev ev_kadd].
      split; [|split; [lia|reflexivity]].
      pose proof (eqm_u64_of_i64 cost) as E. apply eqm_elim in E. destruct E as [q E]. apply (eqm_intro _ _ (- q)). lia.
    + intros H. destruct (evict_loop_net _ _ _ _ _ _ _ _ _ _ _ _ _ _ _ W G H) as (more & E & A & B & C).
      cbn [app] in E. subst more. auto.
Qed.

(* ---- the invariant ---- *)
Definition pending (p : ppc) : Z := match p with PNewAfterAdd _ _ _ _ _ _ true => 1 | _ => 0 end.
Definition pcl (p : ppc) : option Z :=
  match p with PClearAfterPolicy _ | PClearAfterStore _ => None | _ => Some (pending p) end.

Definition ChargeInv (st : cstate) : Prop :=
  MW st /\ WF (s_slfu st) /\
  match pcl (s_pc st) with
  | None => sl_used (s_slfu st) = 0 /\ sl_kc (s_slfu st) = []
  | Some pd => eqm (cnet (s_mets st)) (sl_used (s_slfu st)) /\ eqm (knet (s_mets st) + pd) (klen (s_slfu st))
  end.

(* no single cost decrease exceeds 2^64 (it cannot, for i64 costs whose differences do not overflow) *)
Definition DeltaOk (c : cfg) (st : cstate) : Prop :=
  forall it r, s_pc st = PIdle -> s_buf st = it :: r ->
  match it with
  | INew k _ cost _ _ => forall p, aget k (sl_kc (s_slfu st)) = Some p -> delta_ok p (internal_cost c cost)
  | IUpdate k cost ext => forall p, aget k (sl_kc (s_slfu st)) = Some p -> delta_ok p (internal_cost c cost + ext)
  | _ => True
  end.

Lemma ChargeInv_frame st st' evs :
  ChargeInv st -> s_mets st' = m_adds (s_mets st) evs ->
  sumz ev_cost evs = 0 -> sumz ev_kadd evs = 0 -> sumz ev_kev evs = 0 ->
  WF (s_slfu st') -> sl_used (s_slfu st') = sl_used (s_slfu st) -> sl_kc (s_slfu st') = sl_kc (s_slfu st) ->
  pcl (s_pc st') = pcl (s_pc st) -> ChargeInv st'.
Proof.
  intros (W & F & I) Em C KA KE F' Eu Ek Ep. unfold ChargeInv, MW, klen in *. rewrite Em, Eu, Ek, Ep, length_m_adds.
  split; [exact W|]. split; [exact F'|]. destruct (pcl (s_pc st)) as [pd|]; [|exact I].
  destruct I as (I1 & I2). pose proof (cnet_adds evs (s_mets st) W) as X. pose proof (knet_adds evs (s_mets st) W) as Y.
  rewrite C in X. rewrite KA, KE in Y. split.
  - eapply eqm_trans; [exact X|]. replace (cnet (s_mets st) + 0) with (cnet (s_mets st)) by lia. exact I1.
  - apply eqm_elim in Y, I2. destruct Y as [q1 Y], I2 as [q2 I2]. apply (eqm_intro _ _ (q1 + q2)). lia.
Qed.

Ltac frame_fin CI :=
  first [exact CI | reflexivity | exact (proj1 (proj2 CI)) | apply WF_set_max; exact (proj1 (proj2 CI))
        | match goal with Hp : s_pc ?st = _ |- pcl _ = pcl (s_pc ?st) => rewrite Hp; reflexivity end ].
Ltac frame_tac CI :=
  first [ eapply (ChargeInv_frame _ _ []); [frame_fin CI..]
        | eapply ChargeInv_frame; [frame_fin CI..] ].

Lemma ChargeInv_policy st st' evs pd' :
  ChargeInv st -> pcl (s_pc st) = Some 0 -> s_mets st' = m_adds (s_mets st) evs ->
  WF (s_slfu st') -> eqm (sl_used (s_slfu st') - sl_used (s_slfu st)) (sumz ev_cost evs) ->
  klen (s_slfu st') + sumz ev_kev evs = klen (s_slfu st) + pd' -> sumz ev_kadd evs = 0 ->
  pcl (s_pc st') = Some pd' -> ChargeInv st'.
Proof.
  intros (W & F & I) P0 Em F' U K KA P'. unfold ChargeInv, MW. rewrite Em, P', length_m_adds. rewrite P0 in I.
  split; [exact W|]. split; [exact F'|]. destruct I as (I1 & I2).
  pose proof (cnet_adds evs (s_mets st) W) as X. pose proof (knet_adds evs (s_mets st) W) as Y. rewrite KA in Y. split.
  - apply eqm_elim in X, I1, U. destruct X as [q1 X], I1 as [q2 I1], U as [q3 U]. apply (eqm_intro _ _ (q1 + q2 - q3)). lia.
  - apply eqm_elim in Y, I2. destruct Y as [q1 Y], I2 as [q2 I2]. apply (eqm_intro _ _ (q1 + q2)). lia.
Qed.

Lemma ring_push_pc c st k : s_pc (ring_push c st k) = s_pc st.
Proof.
  destruct (ring_push_cases c st k) as [(A & E)|[(A & B & E)|[(A & B & R & E)|(A & B & R & E)]]]; rewrite E;
    unfold emit; try destruct (c_metrics c); sproj; reflexivity.
Qed.

Lemma ring_push_charge c st k a kont : c_metrics c = true -> ChargeInv st -> ChargeInv (set_client (ring_push c st k) a kont).
Proof.
  intros Hm CI. destruct (ring_push_mets c st k Hm) as (evs & E & G).
  eapply (ChargeInv_frame st _ evs); sproj; [exact CI|exact E| | | |rewrite ring_push_slfu; exact (proj1 (proj2 CI))
    |rewrite ring_push_slfu; reflexivity|rewrite ring_push_slfu; reflexivity|rewrite ring_push_pc; reflexivity];
    destruct G as [->|[(n & ->)|(n & ->)]]; reflexivity.
Qed.

Theorem ChargeInv_step c st l st' o :
  c_metrics c = true -> ChargeInv st -> DeltaOk c st -> cstep c st l = StepOk st' o -> ChargeInv st'.
Proof.
  intros Hm CI DO H. destruct l as [a op|a|h|h|dt|].
  - destruct op; crush_step H; open_shapes; unfold emit; rewrite ?Hm; sproj; try (frame_tac CI); apply ring_push_charge; assumption.
  - crush_step H; open_shapes; unfold emit; rewrite ?Hm; sproj; frame_tac CI.
  - assert (WFs : WF (s_slfu st)) by exact (proj1 (proj2 CI)).
    crush_step H; open_shapes; unfold emit; rewrite ?Hm; sproj; try (frame_tac CI).
    + (* New item: policy.add *)
      match goal with PA : pol_add _ _ _ _ _ = AddDone _ _ _ _ _, B : s_buf st = _, P : s_pc st = PIdle |- _ =>
        pose proof (DO _ _ P B) as D; cbn beta iota in D;
        destruct (pol_add_net _ _ _ _ _ _ _ _ _ _ WFs D PA) as (U & K & KA);
        pose proof (pol_add_WF_only _ _ _ _ _ _ _ _ _ _ WFs PA) as W';
        eapply (ChargeInv_policy st _ _ (if added then 1 else 0)); sproj;
          [exact CI|rewrite P; reflexivity|reflexivity|exact W'|exact U|exact K|exact KA|destruct added; reflexivity]
      end.
    + (* Update item *)
      match goal with U0 : sl_update _ _ _ = _, B : s_buf st = _, P : s_pc st = PIdle |- _ =>
        pose proof (DO _ _ P B) as D; cbn beta iota in D;
        destruct (sl_update_net _ _ _ _ _ _ WFs D U0) as (U & K & KE & KA);
        pose proof (WF_update (s_slfu st) k (internal_cost c cost + ext) WFs) as W'; rewrite U0 in W'; cbn [fst] in W';
        eapply (ChargeInv_policy st _ _ 0); sproj;
          [exact CI|rewrite P; reflexivity|reflexivity|exact W'|exact U|lia|exact KA|rewrite P; reflexivity]
      end.
    + (* Delete item: policy.remove *)
      match goal with PR : pol_remove _ _ = _, P : s_pc st = PIdle |- _ =>
        destruct (pol_remove_net _ _ _ _ WFs PR) as (U & K & KA);
        pose proof (WF_pol_remove (s_slfu st) k WFs) as W'; rewrite PR in W'; cbn [fst] in W';
        eapply (ChargeInv_policy st _ _ 0); sproj;
          [exact CI|rewrite P; reflexivity|reflexivity|exact W'|exact U|lia|exact KA|reflexivity]
      end.
    + (* the admitted key enters the store: KeyAdd *)
      match goal with P : s_pc st = PNewAfterAdd _ _ _ _ _ _ true |- _ =>
        destruct CI as (W & F & I); rewrite P in I; cbn [pcl pending] in I; destruct I as (I1 & I2);
        unfold ChargeInv, MW; sproj; rewrite length_m_adds; split; [exact W|]; split; [exact F|]; cbn [pcl pending];
        pose proof (cnet_adds [(MKeyAdd, 1%N)] (s_mets st) W) as X; pose proof (knet_adds [(MKeyAdd, 1%N)] (s_mets st) W) as Y;
        cbn [sumz ev_cost ev_kadd ev_kev] in X, Y; split;
        [ apply eqm_elim in X, I1; destruct X as [q1 X], I1 as [q2 I1]; apply (eqm_intro _ _ (q1 + q2)); lia
        | apply eqm_elim in Y, I2; destruct Y as [q1 Y], I2 as [q2 I2]; apply (eqm_intro _ _ (q1 + q2)); lia ]
      end.
    + (* clear: the policy is emptied *)
      destruct CI as (W & F & I). unfold ChargeInv, MW. sproj. split; [exact W|]. split; [apply WF_clear|]. cbn [pcl]. split; reflexivity.
    + (* clear: the counters restart *)
      match goal with P : s_pc st = PClearAfterStore _ |- _ =>
        destruct CI as (W & F & I); rewrite P in I; cbn [pcl] in I; destruct I as (I1 & I2);
        unfold ChargeInv, MW, klen; sproj; rewrite I1, I2; split; [reflexivity|]; split; [exact F|]; cbn [pcl pending];
        split; apply (eqm_intro _ _ 0); reflexivity
      end.
    + (* sweep: policy.remove *)
      match goal with PR : pol_remove _ _ = _, P : s_pc st = PTickKey _ _ _ _ |- _ =>
        destruct (pol_remove_net _ _ _ _ WFs PR) as (U & K & KA);
        pose proof (WF_pol_remove (s_slfu st) k WFs) as W'; rewrite PR in W'; cbn [fst] in W';
        eapply (ChargeInv_policy st _ _ 0); sproj;
          [exact CI|rewrite P; reflexivity|reflexivity|exact W'|exact U|lia|exact KA|reflexivity]
      end.
  - crush_step H; open_shapes; unfold emit; rewrite ?Hm; sproj; try (frame_tac CI).
  - crush_step H; frame_tac CI.
  - crush_step H; frame_tac CI.
Qed.

(* ---- every reachable state ---- *)
Inductive reach_d (c : cfg) (st0 : cstate) : cstate -> Prop :=
| rd_init : reach_d c st0 st0
| rd_step st l st' o : reach_d c st0 st -> DeltaOk c st -> cstep c st l = StepOk st' o -> reach_d c st0 st'.

Lemma ChargeInv_init c mc t now : ChargeInv (cinit c mc t now).
Proof.
  unfold ChargeInv, MW, cinit, klen; sproj. split; [reflexivity|]. split; [apply WF_new|]. cbn [pcl pending].
  split; apply (eqm_intro _ _ 0); reflexivity.
Qed.

(* C17: in every reachable state in which the processor is between items (in particular at every
   quiescent point), modulo 2^64: cost_added - cost_evicted = the charged total, and
   keys_added - keys_evicted = the number of charged entries. *)
Theorem charge_conservation c mc t now st :
  c_metrics c = true -> reach_d c (cinit c mc t now) st -> s_pc st = PIdle ->
  eqm (Z.of_N (m_get (s_mets st) MCostAdd) - Z.of_N (m_get (s_mets st) MCostEvict)) (sl_used (s_slfu st)) /\
  eqm (Z.of_N (m_get (s_mets st) MKeyAdd) - Z.of_N (m_get (s_mets st) MKeyEvict)) (Z.of_nat (length (sl_kc (s_slfu st)))).
Proof.
  intros Hm R P. assert (CI : ChargeInv st).
  { clear P. induction R as [|st l st' o R IH D S]; [apply ChargeInv_init|]. eapply ChargeInv_step; [exact Hm|apply IH|exact D|exact S]. }
  destruct CI as (_ & _ & I). rewrite P in I. cbn [pcl pending] in I. destruct I as (I1 & I2). split; [exact I1|].
  unfold knet, klen in I2. rewrite Z.add_0_r in I2. exact I2.
Qed.
