(* Property C18 — keys hash deterministically and colliding keys stay isolated.
   Only statements here; proofs are in Keys.v and StoreProofs.v. *)
From StrettoModel Require Import Base Ttl Store StoreProofs Keys.
Open Scope Z_scope.

(* TransparentKeyBuilder maps every unsigned integer key to itself ... *)
Theorem C18_transparent_unsigned_is_identity :
  forall k x, is_signed k = false -> in_range k x -> transparent_index k x = x.
Proof. exact transparent_unsigned_is_identity. Qed.
Print Assumptions C18_transparent_unsigned_is_identity.

(* ... and every signed one to its two's-complement image ... *)
Theorem C18_transparent_signed_is_twos_complement :
  forall k x, is_signed k = true -> in_range k x ->
  transparent_index k x = if x <? 0 then 2 ^ 64 + x else x.
Proof. exact transparent_signed_is_twos_complement. Qed.
Print Assumptions C18_transparent_signed_is_twos_complement.

(* ... so distinct keys of one integer type (negative and boundary values included) never collide. *)
Theorem C18_transparent_injective :
  forall k x y, in_range k x -> in_range k y -> transparent_index k x = transparent_index k y -> x = y.
Proof. exact transparent_injective. Qed.
Print Assumptions C18_transparent_injective.

(* Two keys sharing an index but differing in (non-zero) conflict hash: an operation on one never
   reads, overwrites or removes the other's value — get / get_mut / get_ttl return nothing, insert
   and insert_if_present change nothing, remove removes nothing. *)
Theorem C18_colliding_lookup_returns_nothing :
  forall (s : storage) (k c1 c2 : N) (e : entry),
  aget k (st_map s) = Some e -> e_conflict e = c2 -> c1 <> c2 -> c1 <> 0%N ->
  forall now, st_get now s k c1 = None.
Proof. exact colliding_get_none. Qed.
Print Assumptions C18_colliding_lookup_returns_nothing.

Theorem C18_colliding_update_changes_nothing :
  forall (s : storage) (k c1 c2 : N) (e : entry),
  aget k (st_map s) = Some e -> e_conflict e = c2 -> c1 <> c2 -> c1 <> 0%N ->
  forall vld v t, st_try_update vld s k v c1 t = (s, UConflict).
Proof. exact colliding_update_noop. Qed.
Print Assumptions C18_colliding_update_changes_nothing.

Theorem C18_colliding_insert_changes_nothing :
  forall (s : storage) (k c1 c2 : N) (e : entry),
  aget k (st_map s) = Some e -> e_conflict e = c2 -> c1 <> c2 -> c1 <> 0%N ->
  forall vld v t, st_try_insert vld s k v c1 t = s.
Proof. exact colliding_insert_noop. Qed.
Print Assumptions C18_colliding_insert_changes_nothing.

Theorem C18_colliding_remove_removes_nothing :
  forall (s : storage) (k c1 c2 : N) (e : entry),
  aget k (st_map s) = Some e -> e_conflict e = c2 -> c1 <> c2 -> c1 <> 0%N ->
  st_try_remove s k c1 = (s, None).
Proof. exact colliding_remove_noop. Qed.
Print Assumptions C18_colliding_remove_removes_nothing.

(* Non-vacuity: i8 -1 and u8 255 differ; i64 min maps to 2^63. *)
Example C18_nonvacuous :
  (transparent_index KI8 (-1), transparent_index KU8 255, transparent_index KI64 (- 2 ^ 63)) =
  (18446744073709551615, 255, 9223372036854775808).
Proof. vm_compute. reflexivity. Qed.
