(* Property C15 — lookups feed the popularity estimator, lossily but accountably.
   Only statements here; proofs are in CacheLocal.v, CacheMetrics.v, TinyLFUProofs.v. *)
From StrettoModel Require Import Base Metrics Sketch Bloom TinyLFU TinyLFUProofs Policy Ttl Store Cache CacheProofs CacheLocal CacheInv CacheMetrics CacheNoPanic CacheNoDeadlock.
Open Scope N_scope.

(* Every lookup on an open cache — hit or miss: the store is consulted only in the client's next
   segment — first pushes its key hash onto the pending batch; the batch is either longer by that key
   or has just been flushed because it reached buffer_items. *)
Theorem C15_every_lookup_is_recorded :
  forall c st a k cf, s_closed st = false ->
  exists st', start_op c st a (OGet k cf) = StepOk st' (mk_out PtGetAfterPush [] RNone) /\
    (s_ring st' = s_ring st ++ [k] \/
     (s_ring st' = [] /\ c_buffer_items c <= N.of_nat (length (s_ring st ++ [k])))).
Proof. exact lookup_pushes_its_key. Qed.
Print Assumptions C15_every_lookup_is_recorded.

(* A push, exhaustively: below buffer_items the key just joins the batch; at buffer_items the whole
   batch goes to the policy and the stripe restarts empty: queued for the worker with
   KeepGets += |batch|, or — queue full / worker gone — dropped with DropGets += |batch|, or — policy
   closed — dropped unaccounted.  A batch is lost in no other way. *)
Theorem C15_flush_is_kept_or_dropped :
  forall c st k,
  let data := s_ring st ++ [k] in
  let n := N.of_nat (length data) in
  (n < c_buffer_items c /\ ring_push c st k = upd_ring st data) \/
  (c_buffer_items c <= n /\ s_pol_closed st = true /\ ring_push c st k = upd_ring st []) \/
  (c_buffer_items c <= n /\ s_pol_closed st = false /\ push_room c st = true /\
     ring_push c st k = emit c (upd_pqueue (upd_ring st []) (s_pqueue st ++ [data])) [(MKeepGets, n)]) \/
  (c_buffer_items c <= n /\ s_pol_closed st = false /\ push_room c st = false /\
     ring_push c st k = emit c (upd_ring st []) [(MDropGets, n)]).
Proof. exact ring_push_cases. Qed.
Print Assumptions C15_flush_is_kept_or_dropped.

(* Each lookup is accounted exactly once: for EVERY step of EVERY actor (clients, processor, policy
   worker, clock, ticker), modulo 2^64, gets_kept + gets_dropped + |pending batch| grows by one if the
   step starts a lookup on an open cache and by nothing otherwise (while the policy is open; the
   counters' reset by clear() aside). *)
Theorem C15_accounting_is_conserved :
  forall c st l st' o,
  c_metrics c = true -> MW st -> s_pol_closed st = false -> (forall sig, s_pc st <> PClearAfterStore sig) ->
  cstep c st l = StepOk st' o ->
  wrap64 (gets_accounted st') = wrap64 (gets_accounted st + (if lookup_started st l then 1 else 0)).
Proof. exact gets_conservation. Qed.
Print Assumptions C15_accounting_is_conserved.

(* The pending batch is touched by lookups only; the policy's queue grows only by a flush and
   shrinks only by the worker taking its head. *)
Theorem C15_ring_changes_only_by_lookups :
  forall c st l st' o, cstep c st l = StepOk st' o -> lookup_started st l = false -> s_ring st' = s_ring st.
Proof. exact step_ring. Qed.
Print Assumptions C15_ring_changes_only_by_lookups.

Theorem C15_queue_is_fifo :
  forall c st l st' o, cstep c st l = StepOk st' o -> lookup_started st l = false ->
  s_pqueue st' = s_pqueue st \/ (exists h b, l = LWorker h /\ s_pqueue st = b :: s_pqueue st').
Proof. exact step_pqueue. Qed.
Print Assumptions C15_queue_is_fifo.

(* The worker applies exactly the head batch to the estimator; nothing else writes the estimator
   except clear(). *)
Theorem C15_worker_applies_head_batch :
  forall c st h st' o b r,
  s_wpc st = WIdle -> h_arm h = Some ArmItem -> s_pqueue st = b :: r -> worker_step c st h = StepOk st' o ->
  tl_increments (s_tlfu st) b = Some (s_tlfu st') /\ s_pqueue st' = r.
Proof. exact worker_applies_batch. Qed.
Print Assumptions C15_worker_applies_head_batch.

Theorem C15_estimator_written_only_by_worker_and_clear :
  forall c st l st' o, cstep c st l = StepOk st' o ->
  s_tlfu st' = s_tlfu st \/
  (exists h b, l = LWorker h /\ s_pqueue st = b :: s_pqueue st' /\ tl_increments (s_tlfu st) b = Some (s_tlfu st')) \/
  (exists h sig, l = LProc h /\ s_pc st = PClearAfterDrain sig /\ s_tlfu st' = tl_clear (s_tlfu st)).
Proof. exact step_tlfu. Qed.
Print Assumptions C15_estimator_written_only_by_worker_and_clear.

(* Once a kept batch has been processed the estimate of every key reflects its lookups in that batch
   (at least their number, saturating at 16) — unless the aging window ended inside the batch. *)
Theorem C15_kept_batch_is_reflected :
  forall c st h st' o b r,
  tl_wf (s_tlfu st) -> Forall (fun g => g < two64) b ->
  tl_w (s_tlfu st) + N.of_nat (length b) < tl_samples (s_tlfu st) ->
  s_wpc st = WIdle -> h_arm h = Some ArmItem -> s_pqueue st = b :: r -> worker_step c st h = StepOk st' o ->
  forall k, k < two64 -> exists e, tl_estimate (s_tlfu st') k = Some e /\ N.min 16 (count b k) <= e /\ e <= 16.
Proof. exact kept_batch_is_reflected. Qed.
Print Assumptions C15_kept_batch_is_reflected.

(* non-vacuity: buffer_items = 2, three lookups of key 7: one batch [7;7] kept, one key pending;
   after the worker ran the estimate of 7 is 2 *)
Example C15_nonvacuous :
  match tl_new 16 [1; 2; 3; 4] 153 7 with
  | Some t =>
      let c := {| c_ignore_internal := true; c_item_size := 56; c_buf_cap := 8; c_buffer_items := 2; c_metrics := true;
                  c_validator := fun _ _ => true; c_coster := fun _ => 0%Z; c_async := false |} in
      match crun c (cinit c 10 t 1000)
              [LOp 0 (OGet 7 0); LClient 0; LOp 0 (OGet 7 0); LClient 0; LOp 0 (OGet 7 0); LClient 0;
               LWorker {| h_arm := Some ArmItem; h_oracle := []; h_tick_key := None |}] with
      | Some (st, _) => (m_get (s_mets st) MKeepGets, m_get (s_mets st) MDropGets, s_ring st, tl_estimate (s_tlfu st) 7,
                         m_get (s_mets st) MMiss)
      | None => (0, 0, [], None, 0)
      end
  | None => (0, 0, [], None, 0)
  end = (2, 0, [7], Some 2, 3).
Proof. vm_compute. reflexivity. Qed.

(* Progress of the policy worker: at its loop head with a batch queued it can always apply the head
   batch — no panic, whatever the keys (NP / SO are the invariants of every reachable state, C20) —
   so a flushed batch that was kept is eventually reflected as soon as the worker is scheduled. *)
Theorem C15_worker_can_take_the_head_batch :
  forall c st b r,
  NP st -> SO st -> s_wpc st = WIdle -> s_pqueue st = b :: r ->
  exists st' o, worker_step c st {| h_arm := Some ArmItem; h_oracle := []; h_tick_key := None |} = StepOk st' o.
Proof. exact worker_can_take_the_head_batch. Qed.
Print Assumptions C15_worker_can_take_the_head_batch.
