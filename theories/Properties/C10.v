(* Property C10 — wait() is a barrier and always returns.
   Only statements here; proofs are in CacheInv.v. *)
From StrettoModel Require Import Base Metrics Policy Ttl Store Cache CacheProofs CacheInv.
Open Scope N_scope.

(* In every reachable state — every history, every interleaving of clients, processor and policy
   worker, either flavour, every buffer size — a client blocked in wait() can either return Ok right
   now (its marker was handled, or drained by clear()/close()), or its marker is in the insert buffer
   of a processor that has not exited.  It is never stranded (the defect repaired by 3cd56a2). *)
Theorem C10_wait_never_stuck :
  forall c mc t now st a id,
  reach c (cinit c mc t now) st -> client_of st a = KWaitBlock id ->
  (exists st', continue_client c st a = StepOk st' (mk_out PtFinish [] (RUnit true))) \/
  (In (IWait id) (s_buf st) /\ s_pc st <> PExited).
Proof. exact wait_never_stuck. Qed.
Print Assumptions C10_wait_never_stuck.

(* Progress: a live processor at its loop head can always take a wait marker at the head of the
   buffer, which releases the waiter. *)
Theorem C10_processor_takes_wait_marker :
  forall c st id r,
  s_pc st = PIdle -> s_buf st = IWait id :: r ->
  exists st', proc_step c st {| h_arm := Some ArmItem; h_oracle := []; h_tick_key := None |} =
                StepOk st' (mk_out PtProcLoop [] RNone) /\ mem_N id (s_done st') = true /\ s_buf st' = r.
Proof. exact processor_takes_wait_marker. Qed.
Print Assumptions C10_processor_takes_wait_marker.

(* The invariant behind it, preserved by every step. *)
Theorem C10_invariant_is_inductive :
  forall c st l st' o, WaitInv st -> cstep c st l = StepOk st' o -> WaitInv st'.
Proof. exact WaitInv_step. Qed.
Print Assumptions C10_invariant_is_inductive.
