(* Property C10 — wait() is a barrier and always returns.
   Only statements here; proofs are in CacheInv.v and CacheFifo.v. *)
From StrettoModel Require Import Base Metrics Sketch Bloom TinyLFU Policy Ttl Store Cache CacheProofs CacheInv CacheFifo CacheClearLive CacheBarrier PolicyProofs CacheNoPanic CacheProgress.
Open Scope N_scope.

(* In every reachable state — every history, every interleaving of clients, processor and policy
   worker, either flavour, every buffer size — a client blocked in wait() can either return Ok right
   now (its marker was handled, or drained by clear()/close()), or its marker is in the insert buffer
   of a processor that has not exited.  It is never stranded (the defect repaired by 3cd56a2). *)
Theorem C10_wait_never_stuck :
  forall c mc t now st a id,
  reach c (cinit c mc t now) st -> client_of st a = KWaitBlock id ->
  (exists st', continue_client c st a = StepOk st' (mk_out PtFinish [] (RUnit true))) \/
  (In (IWait id) (s_buf st) /\ s_pc st <> PExited).
Proof. exact wait_never_stuck. Qed.
Print Assumptions C10_wait_never_stuck.

(* Progress: a live processor at its loop head can always take a wait marker at the head of the
   buffer, which releases the waiter. *)
Theorem C10_processor_takes_wait_marker :
  forall c st id r,
  s_pc st = PIdle -> s_buf st = IWait id :: r ->
  exists st', proc_step c st {| h_arm := Some ArmItem; h_oracle := []; h_tick_key := None |} =
                StepOk st' (mk_out PtProcLoop [] RNone) /\ mem_N id (s_done st') = true /\ s_buf st' = r.
Proof. exact processor_takes_wait_marker. Qed.
Print Assumptions C10_processor_takes_wait_marker.

(* The invariant behind it, preserved by every step. *)
Theorem C10_invariant_is_inductive :
  forall c st l st' o, WaitInv st -> cstep c st l = StepOk st' o -> WaitInv st'.
Proof. exact WaitInv_step. Qed.
Print Assumptions C10_invariant_is_inductive.

(* ---- the barrier (proofs in CacheFifo.v) ---- *)

(* The insert buffer is a FIFO that only the processor consumes: for every step of every actor the
   buffer is unchanged, or a client appended one item, or the processor took the head item, or the
   processor drained it whole (clear / stop). *)
Theorem C10_buffer_is_fifo :
  forall c st l st' o, cstep c st l = StepOk st' o -> buf_change st l st'.
Proof. exact buffer_is_fifo. Qed.
Print Assumptions C10_buffer_is_fifo.

(* A wait marker is released only by the processor: when it takes the marker at the head of the
   buffer — so everything that was queued ahead of it, in particular everything the same thread sent
   before calling wait(), has been handled — or by a drain for clear() / at the stop request, which
   discards what was ahead; (clear acknowledgements share the id space). *)
Theorem C10_marker_released_only_by :
  forall c st l st' o id,
  cstep c st l = StepOk st' o -> mem_N id (s_done st) = false -> mem_N id (s_done st') = true -> release_cause st l id.
Proof. exact marker_released_only_by. Qed.
Print Assumptions C10_marker_released_only_by.

(* ---- the barrier end to end (proofs in CacheBarrier.v) ---- *)

(* Identifiers of wait markers and clear signals are fresh: in every reachable state every
   identifier in use (a marker in the buffer, a pending clear signal, the clear being performed, a
   released marker or acknowledged clear) is below the allocation counter. *)
Theorem C10_identifiers_are_fresh :
  forall c mc t now st, reach c (cinit c mc t now) st -> IdBound st.
Proof. exact reachable_IdBound. Qed.
Print Assumptions C10_identifiers_are_fresh.

(* The buffer shrinks only when the processor, at its loop head, takes the head item or drains the
   buffer for clear() / stop: this is what the slot count of the next theorem counts. *)
Theorem C10_slots_are_consumed_only_by_the_processor :
  forall c st l st' o,
  cstep c st l = StepOk st' o -> (0 < consumed st st')%nat ->
  exists h, l = LProc h /\ s_pc st = PIdle /\
    ((h_arm h = Some ArmItem /\ exists it, s_buf st = it :: s_buf st') \/
     ((h_arm h = Some ArmClear \/ h_arm h = Some ArmStop) /\ s_buf st' = [])).
Proof. exact consumed_only_by_processor. Qed.
Print Assumptions C10_slots_are_consumed_only_by_the_processor.

(* THE BARRIER.  A thread inside wait(), past its is_closed check (KWaitStart: whatever happened
   between the check and now, a close() included), queues its marker in any reachable state st0 —
   any history, schedule, flavour, buffer size.  Follow any continuation of the run (btrace), counting
   down the slots that were in the buffer at that moment as the processor consumes them.  Whenever
   the marker has been released, i.e. wait() can return Ok, the count is zero: every item queued
   before the marker — in particular every insert and remove the same thread issued before calling
   wait() — has been taken by the processor, or discarded by a drain for clear() / close(). *)
Theorem C10_wait_is_a_barrier :
  forall c mc t now st0 a st1 id st n,
  reach c (cinit c mc t now) st0 -> client_of st0 a = KWaitStart ->
  cstep c st0 (LClient a) = StepOk st1 (mk_out PtWaitAfterSend [] RNone) -> client_of st1 a = KWaitAfterSend id ->
  btrace c st1 (length (s_buf st0)) st n ->
  mem_N id (s_done st) = true -> n = 0%nat.
Proof. exact wait_is_a_barrier. Qed.
Print Assumptions C10_wait_is_a_barrier.

(* ... and the release happens while the processor is at its loop head, between two items: what it
   took before the marker has been handled to the end (the per-item effects are C04's end-to-end
   theorems). *)
Theorem C10_marker_released_between_items :
  forall c st l st' o id n,
  ahead st id n -> cstep c st l = StepOk st' o -> mem_N id (s_done st') = true ->
  s_pc st = PIdle /\ exists h, l = LProc h.
Proof. exact marker_released_between_items. Qed.
Print Assumptions C10_marker_released_between_items.

(* non-vacuity: insert, then wait(); the count is 1 while the insert is still queued, the marker is
   not released before the processor has taken the insert, and is released with count 0 *)
Example C10_barrier_nonvacuous :
  match tl_new 3 [1; 2; 3; 4] 29 7 with
  | Some t =>
      let c := {| c_ignore_internal := true; c_item_size := 56; c_buf_cap := 4; c_buffer_items := 0; c_metrics := true;
                  c_validator := fun _ _ => true; c_coster := fun _ => 0%Z; c_async := false |} in
      let item := {| h_arm := Some ArmItem; h_oracle := []; h_tick_key := None |} in
      match crun c (cinit c 100 t 1000) [LOp 0 (OInsert 1 0 100 1 0 false); LClient 0; LOp 0 OWait] with
      | Some (st0, _) =>
          match cstep c st0 (LClient 0) with
          | StepOk st1 o =>
              (length (s_buf st0), o, client_of st1 0,
               match brun c st1 1 [LClient 0] with Some (s, n) => Some (mem_N 0 (s_done s), n) | None => None end,
               match brun c st1 1 [LClient 0; LProc item; LProc no_hint; LProc no_hint] with Some (s, n) => Some (mem_N 0 (s_done s), n) | None => None end,
               match brun c st1 1 [LClient 0; LProc item; LProc no_hint; LProc no_hint; LProc item] with Some (s, n) => Some (mem_N 0 (s_done s), n) | None => None end)
          | _ => (0%nat, mk_out PtBlocked [] RNone, KIdle, None, None, None)
          end
      | None => (0%nat, mk_out PtBlocked [] RNone, KIdle, None, None, None)
      end
  | None => (0%nat, mk_out PtBlocked [] RNone, KIdle, None, None, None)
  end = (1%nat, mk_out PtWaitAfterSend [] RNone, KWaitAfterSend 0,
         Some (false, 1%nat), Some (false, 0%nat), Some (true, 0%nat)).
Proof. vm_compute. reflexivity. Qed.

(* remove() always queues its Delete marker behind everything already in the buffer before it
   returns (or the processor has exited): it reports Ok and no other outcome exists — no error, no
   panic, no lost marker (the defect repaired by 7541841), so "removed ones are gone" once the
   barrier of C10_wait_is_a_barrier has passed. *)
Theorem C10_remove_queues_its_marker :
  forall c st a k cf st' o,
  client_of st a = KRemSend k cf -> cstep c st (LClient a) = StepOk st' o ->
  o = mk_out PtFinish [] (RUnit true) /\ client_of st' a = KIdle /\
  (s_buf st' = s_buf st ++ [IDelete k cf] \/ (s_pc st = PExited /\ s_buf st' = s_buf st)).
Proof. exact remove_queues_its_marker. Qed.
Print Assumptions C10_remove_queues_its_marker.

(* ... and a remove() waiting for room is never stranded: it can finish right now, or the buffer is
   full in front of a live processor. *)
Theorem C10_remove_never_stuck :
  forall c st a k cf,
  client_of st a = KRemSend k cf ->
  (exists st', cstep c st (LClient a) = StepOk st' (mk_out PtFinish [] (RUnit true))) \/
  (s_pc st <> PExited /\ c_buf_cap c <= N.of_nat (length (s_buf st))).
Proof. exact remove_never_stuck. Qed.
Print Assumptions C10_remove_never_stuck.

(* ---- progress of the processor (proofs in PolicyLive.v, CacheProgress.v) ----
   "wait() always returns": a waiter is never stranded (C10_wait_never_stuck: its marker is ahead of
   a live processor), and the processor can always move on — at its loop head it can take the head
   item, whatever it is and whatever the policy holds (for a New item the admission decision comes
   to an end under the canonical legal choice of eviction samples), and in the middle of an item, a
   clear or a sweep it is never blocked.  What remains an assumption is only that select! eventually
   takes the item arm (weak fairness of crossbeam / futures). *)
Theorem C10_processor_can_take_the_head_item :
  forall c mc t now st it r,
  reach c (cinit c mc t now) st -> s_pc st = PIdle -> s_buf st = it :: r ->
  exists h st' o, h_arm h = Some ArmItem /\ proc_step c st h = StepOk st' o /\ s_buf st' = r.
Proof. exact reachable_processor_can_take_the_head_item. Qed.
Print Assumptions C10_processor_can_take_the_head_item.

Theorem C10_processor_never_blocks_mid_item :
  forall c st,
  NP st -> SO st -> s_pc st <> PIdle -> s_pc st <> PExited ->
  N.of_nat (length (s_start st)) <= Consts.NUM_TO_KEEP ->
  exists st' o, proc_step c st (mid_hint (s_pc st)) = StepOk st' o.
Proof. exact processor_never_blocks_mid_item. Qed.
Print Assumptions C10_processor_never_blocks_mid_item.
