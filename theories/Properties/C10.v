(* Property C10 — wait() is a barrier and always returns.
   Only statements here; proofs are in CacheInv.v and CacheFifo.v. *)
From StrettoModel Require Import Base Metrics Sketch Bloom TinyLFU Policy Ttl Store Cache CacheProofs CacheInv CacheFifo.
Open Scope N_scope.

(* In every reachable state — every history, every interleaving of clients, processor and policy
   worker, either flavour, every buffer size — a client blocked in wait() can either return Ok right
   now (its marker was handled, or drained by clear()/close()), or its marker is in the insert buffer
   of a processor that has not exited.  It is never stranded (the defect repaired by 3cd56a2). *)
Theorem C10_wait_never_stuck :
  forall c mc t now st a id,
  reach c (cinit c mc t now) st -> client_of st a = KWaitBlock id ->
  (exists st', continue_client c st a = StepOk st' (mk_out PtFinish [] (RUnit true))) \/
  (In (IWait id) (s_buf st) /\ s_pc st <> PExited).
Proof. exact wait_never_stuck. Qed.
Print Assumptions C10_wait_never_stuck.

(* Progress: a live processor at its loop head can always take a wait marker at the head of the
   buffer, which releases the waiter. *)
Theorem C10_processor_takes_wait_marker :
  forall c st id r,
  s_pc st = PIdle -> s_buf st = IWait id :: r ->
  exists st', proc_step c st {| h_arm := Some ArmItem; h_oracle := []; h_tick_key := None |} =
                StepOk st' (mk_out PtProcLoop [] RNone) /\ mem_N id (s_done st') = true /\ s_buf st' = r.
Proof. exact processor_takes_wait_marker. Qed.
Print Assumptions C10_processor_takes_wait_marker.

(* The invariant behind it, preserved by every step. *)
Theorem C10_invariant_is_inductive :
  forall c st l st' o, WaitInv st -> cstep c st l = StepOk st' o -> WaitInv st'.
Proof. exact WaitInv_step. Qed.
Print Assumptions C10_invariant_is_inductive.

(* ---- the barrier (proofs in CacheFifo.v) ---- *)

(* The insert buffer is a FIFO that only the processor consumes: for every step of every actor the
   buffer is unchanged, or a client appended one item, or the processor took the head item, or the
   processor drained it whole (clear / stop). *)
Theorem C10_buffer_is_fifo :
  forall c st l st' o, cstep c st l = StepOk st' o -> buf_change st l st'.
Proof. exact buffer_is_fifo. Qed.
Print Assumptions C10_buffer_is_fifo.

(* A wait marker is released only by the processor: when it takes the marker at the head of the
   buffer — so everything that was queued ahead of it, in particular everything the same thread sent
   before calling wait(), has been handled — or by a drain for clear() / at the stop request, which
   discards what was ahead; (clear acknowledgements share the id space). *)
Theorem C10_marker_released_only_by :
  forall c st l st' o id,
  cstep c st l = StepOk st' o -> mem_N id (s_done st) = false -> mem_N id (s_done st') = true -> release_cause st l id.
Proof. exact marker_released_only_by. Qed.
Print Assumptions C10_marker_released_only_by.
