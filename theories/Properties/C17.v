(* Property C17 — metrics obey conservation laws.
   Only statements here; proofs are in CacheMetrics.v and CacheCharge.v. *)
From StrettoModel Require Import Base Metrics Sketch Bloom TinyLFU Policy PolicyProofs Ttl Store Cache CacheProofs CacheLocal CacheInv
  CacheMetrics CacheCharge.
Open Scope N_scope.

(* What every step of every actor does to the eleven counters, exactly: a lookup's start emits at
   most one KeepGets/DropGets event; the segment that consults the store emits exactly one Hit or one
   Miss; an insert's send emits DropSets 1 exactly when it returns false (only New items are dropped);
   the processor emits only the policy's events and KeyAdd; nobody else emits anything; clear()
   zeroes the array. *)
Theorem C17_step_events :
  forall c st l st' o,
  c_metrics c = true -> cstep c st l = StepOk st' o ->
  (exists evs, s_mets st' = m_adds (s_mets st) evs /\ evs_spec c st l o evs) \/
  (exists sig h, l = LProc h /\ s_pc st = PClearAfterStore sig /\ s_mets st' = metrics_zero).
Proof. exact step_metrics. Qed.
Print Assumptions C17_step_events.

(* hits + misses counts the lookups made on the open cache: modulo 2^64 it grows by exactly one when
   a lookup consults the store, and by nothing on any other step. *)
Theorem C17_hits_plus_misses_counts_lookups :
  forall c st l st' o,
  c_metrics c = true -> MW st -> (forall sig, s_pc st <> PClearAfterStore sig) ->
  cstep c st l = StepOk st' o ->
  wrap64 (m_get (s_mets st') MHit + m_get (s_mets st') MMiss) =
  wrap64 (m_get (s_mets st) MHit + m_get (s_mets st) MMiss + (if lookup_finishes st l then 1 else 0)).
Proof. exact hit_miss_conservation. Qed.
Print Assumptions C17_hits_plus_misses_counts_lookups.

(* sets_dropped counts exactly the inserts of non-resident keys that returned false for lack of
   buffer space: +1 on such a step, unchanged on every other step (an insert whose send step leaves
   it unchanged returned true). *)
Theorem C17_sets_dropped_is_exact :
  forall c st l st' o,
  c_metrics c = true -> MW st -> (forall sig, s_pc st <> PClearAfterStore sig) ->
  cstep c st l = StepOk st' o ->
  (m_get (s_mets st') MDropSets = wrap64 (m_get (s_mets st) MDropSets + 1) /\
     exists a it k, l = LClient a /\ client_of st a = KInsSend it k /\ is_update it = false /\
                    buf_send c st it = None /\ o_res o = RBool false) \/
  (m_get (s_mets st') MDropSets = m_get (s_mets st) MDropSets /\
     forall a it k, l = LClient a -> client_of st a = KInsSend it k -> o_res o = RBool true).
Proof. exact drop_sets_exact. Qed.
Print Assumptions C17_sets_dropped_is_exact.

(* sets_rejected: the eviction loop emits RejectSets 1 exactly when it refuses the incoming key, as
   the last event of that add, and never otherwise. *)
Theorem C17_rejections_are_counted_once :
  forall est ih k cost oracle s sample victims log mets s' v a lg m,
  evict_loop est ih k cost oracle s sample victims log mets = AddDone s' v a lg m ->
  exists more, m = mets ++ more /\
    (a = false -> exists ev, more = ev ++ [(MRejectSets, 1)] /\ Forall (fun e => fst e <> MRejectSets) ev) /\
    (a = true -> Forall (fun e => fst e <> MRejectSets) more).
Proof. exact evict_loop_rejects. Qed.
Print Assumptions C17_rejections_are_counted_once.

(* keys_added - keys_evicted = number of charged entries, cost_added - cost_evicted = charged total
   (modulo 2^64: the counters are wrapping u64s, cost decreases are added in two's complement): an
   invariant of every step of every actor ... *)
Theorem C17_charge_invariant_is_inductive :
  forall c st l st' o,
  c_metrics c = true -> ChargeInv st -> DeltaOk c st -> cstep c st l = StepOk st' o -> ChargeInv st'.
Proof. exact ChargeInv_step. Qed.
Print Assumptions C17_charge_invariant_is_inductive.

(* ... hence true in every reachable state in which the processor is between items, in particular
   at every quiescent point, for every history and schedule. *)
Theorem C17_charge_conservation :
  forall c mc t now st,
  c_metrics c = true -> reach_d c (cinit c mc t now) st -> s_pc st = PIdle ->
  eqm (Z.of_N (m_get (s_mets st) MCostAdd) - Z.of_N (m_get (s_mets st) MCostEvict)) (sl_used (s_slfu st)) /\
  eqm (Z.of_N (m_get (s_mets st) MKeyAdd) - Z.of_N (m_get (s_mets st) MKeyEvict)) (Z.of_nat (length (sl_kc (s_slfu st)))).
Proof. exact charge_conservation. Qed.
Print Assumptions C17_charge_conservation.

(* Counters restart from zero at clear(), after the store was emptied and before the caller is
   released; the life-expectancy histogram is reset with them. *)
Theorem C17_clear_restarts_counters :
  forall c st h sig,
  c_metrics c = true -> s_pc st = PClearAfterStore sig ->
  exists st', proc_step c st h = StepOk st' (mk_out PtProcLoop [] RNone) /\
    s_mets st' = metrics_zero /\ s_hist st' = hist_clear /\ mem_N sig (s_done st') = true /\
    (forall t, m_get (s_mets st') t = 0).
Proof. exact clear_resets_metrics. Qed.
Print Assumptions C17_clear_restarts_counters.

(* The life-expectancy histogram.  A key admitted with metrics on is tracked from its admission
   (start_ts; the pruning of more than num_to_keep tracked keys is outside the model) ... *)
Theorem C17_admission_tracks_key :
  forall c st k,
  c_metrics c = true -> N.of_nat (length (s_start st)) <= Consts.NUM_TO_KEEP ->
  exists st1, track_admission c st k = Some st1 /\ aget k (s_start st1) = Some (s_now st) /\ s_hist st1 = s_hist st.
Proof. exact admission_tracks_key. Qed.
Print Assumptions C17_admission_tracks_key.

(* ... every eviction — policy victim or swept entry — of a tracked key adds exactly one sample (its
   age in whole seconds) and untracks it; an untracked key adds nothing ... *)
Theorem C17_eviction_adds_one_sample :
  forall c st k ts,
  c_metrics c = true -> aget k (s_start st) = Some ts -> ts <= s_now st -> hist_ok (s_hist st) ->
  exists st1, prepare_evict c st k = Some st1 /\
    h_count (s_hist st1) = (h_count (s_hist st) + 1)%Z /\ hist_ok (s_hist st1) /\
    h_sum (s_hist st1) = (h_sum (s_hist st) + Z.of_N ((s_now st - ts) / 1000000000))%Z /\
    aget k (s_start st1) = None.
Proof. exact eviction_samples_tracked_key. Qed.
Print Assumptions C17_eviction_adds_one_sample.

Theorem C17_untracked_eviction_adds_nothing :
  forall c st k, aget k (s_start st) = None -> prepare_evict c st k = Some st.
Proof. exact eviction_of_untracked_key. Qed.
Print Assumptions C17_untracked_eviction_adds_nothing.

(* ... and the histogram's count equals the sum of its seventeen buckets: one sample puts one unit
   in exactly one bucket, and this is an invariant of every step of every actor. *)
Theorem C17_sample_goes_to_one_bucket :
  forall h v, hist_ok h ->
  hist_ok (hist_update h v) /\ h_count (hist_update h v) = (h_count h + 1)%Z /\ h_sum (hist_update h v) = (h_sum h + v)%Z /\
  sumZ (h_buckets (hist_update h v)) = (sumZ (h_buckets h) + 1)%Z.
Proof. exact hist_update_spec. Qed.
Print Assumptions C17_sample_goes_to_one_bucket.

Theorem C17_count_equals_sum_of_buckets :
  forall c st l st' o, hist_ok (s_hist st) -> cstep c st l = StepOk st' o -> hist_ok (s_hist st').
Proof. exact hist_ok_step. Qed.
Print Assumptions C17_count_equals_sum_of_buckets.

(* non-vacuity: two inserts (costs 3 and 4, max 10), one update to cost 1, one remove: at quiescence
   cost_added - cost_evicted = used = 1 (mod 2^64, through a two's-complement CostAdd) and
   keys_added - keys_evicted = 1 *)
Definition c17_cfg : cfg :=
  {| c_ignore_internal := true; c_item_size := 56; c_buf_cap := 8; c_buffer_items := 64; c_metrics := true;
     c_validator := fun _ _ => true; c_coster := fun _ => 0%Z; c_async := false |}.
Definition c17_item : hint := {| h_arm := Some ArmItem; h_oracle := []; h_tick_key := None |}.
Example C17_nonvacuous :
  match tl_new 16 [1; 2; 3; 4] 153 7 with
  | Some t =>
      match crun c17_cfg (cinit c17_cfg 10 t 1000)
              [LOp 0 (OInsert 1 0 100 3 0 false); LClient 0; LProc c17_item; LProc no_hint; LProc no_hint;
               LOp 0 (OInsert 2 0 200 4 0 false); LClient 0; LProc c17_item; LProc no_hint; LProc no_hint;
               LOp 0 (OInsert 2 0 201 1 0 false); LClient 0; LProc c17_item;
               LOp 0 (ORemove 1 0); LClient 0; LProc c17_item; LProc no_hint] with
      | Some (st, _) => (wrap64 (m_get (s_mets st) MCostAdd + (two64 - m_get (s_mets st) MCostEvict)), sl_used (s_slfu st),
                         m_get (s_mets st) MKeyAdd, m_get (s_mets st) MKeyEvict, length (sl_kc (s_slfu st)), s_pc st)
      | None => (0, 0%Z, 0, 0, 0%nat, PExited)
      end
  | None => (0, 0%Z, 0, 0, 0%nat, PExited)
  end = (1, 1%Z, 2, 1, 1%nat, PIdle).
Proof. vm_compute. reflexivity. Qed.
