(* Property C19 — AsyncCache behaves exactly like Cache.
   Only statements here; proofs are in CacheFlavour.v.  The model has ONE transition function for both
   flavours (cfg.c_async), so every theorem of the other properties is already a theorem about both;
   what is stated here is where, exactly, the flavour is consulted at all. *)
From StrettoModel Require Import Base Metrics Sketch Bloom TinyLFU Policy Ttl Store Cache CacheProofs CacheLocal CacheInv CacheMetrics CacheFlavour.
Open Scope N_scope.

(* Every step of every actor — same state in, same label — has the same outcome (next state,
   callbacks, result) in both flavours, except at exactly these points: a get-ring flush that finds
   SYNC_POLICY_QUEUE_CAP batches already queued (the sync policy drops, the async one queues), and
   the two stop handshakes of close() (sync rendezvous, async buffered message).  (Before fix 7541841
   a remove() finding the insert buffer full was a third point: sync gave up, async awaits.) *)
Theorem C19_flavours_agree_step_by_step :
  forall c st l,
  flavour_insensitive c st l -> cstep (with_flavour c true) st l = cstep (with_flavour c false) st l.
Proof. exact flavours_agree. Qed.
Print Assumptions C19_flavours_agree_step_by_step.

(* The processor (impl_cache_processor, the cleanup, clear) and the policy worker (impl_policy) never
   consult the flavour: item handling, eviction, sweeping, clearing are the same function. *)
Theorem C19_processor_is_flavour_independent :
  forall c b st h, proc_step (with_flavour c b) st h = proc_step c st h.
Proof. exact proc_step_flavour. Qed.
Print Assumptions C19_processor_is_flavour_independent.

Theorem C19_policy_worker_is_flavour_independent :
  forall c b st h, worker_step (with_flavour c b) st h = worker_step c st h.
Proof. exact worker_step_flavour. Qed.
Print Assumptions C19_policy_worker_is_flavour_independent.

(* The stop handshake of close() differs in mechanism only: from the same state, the sync
   rendezvous (offer; processor takes the stop arm; closer resumes) and the async buffered stop
   message (send; processor takes the stop arm) end in the SAME state, having fired the same
   callbacks. *)
Theorem C19_close_handshake_agrees :
  forall c st a h,
  client_of st a = KCloseBeforeStop -> s_pc st = PIdle -> s_stop_msgs st = 0 -> h_arm h = Some ArmStop ->
  exists st1 cbs,
    crun (with_flavour c false) st [LClient a; LProc h; LClient a] =
      Some (st1, [mk_out PtBlocked [] RNone; mk_out PtProcExit cbs RNone; mk_out PtCloseBeforePolicy [] RNone]) /\
    crun (with_flavour c true) st [LClient a; LProc h] =
      Some (st1, [mk_out PtCloseBeforePolicy [] RNone; mk_out PtProcExit cbs RNone]).
Proof. exact close_handshake_agrees. Qed.
Print Assumptions C19_close_handshake_agrees.

(* With quiescence between operations the policy's queue never holds more than one batch and the
   insert buffer is empty when a remove() sends its Delete, so the first two exceptions cannot occur:
   a lookup's flush is flavour-insensitive whenever fewer than SYNC_POLICY_QUEUE_CAP batches wait. *)
Theorem C19_flush_agrees_below_queue_cap :
  forall c st k,
  N.of_nat (length (s_pqueue st)) < Consts.SYNC_POLICY_QUEUE_CAP ->
  ring_push (with_flavour c true) st k = ring_push (with_flavour c false) st k.
Proof. exact ring_push_flavour. Qed.
Print Assumptions C19_flush_agrees_below_queue_cap.
