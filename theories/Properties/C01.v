(* Property C01 — charged cost of resident entries never exceeds max_cost.
   Only statements here; proofs are in PolicyProofs.v. *)
From StrettoModel Require Import Base Metrics Policy PolicyProofs Ttl Store Cache CacheProofs.
Open Scope Z_scope.

(* For every history of policy operations (add / update / remove / clear / update_max_cost, any
   popularity function, any legal sampling order, non-negative costs), in every reached state:
   the charged total equals the sum of the per-entry charges, every key is charged at most once,
   and whenever something is charged the total exceeds max_cost by at most the slack that
   in-place updates and a lowered max_cost have added since the last admission. *)
Theorem C01_total_is_sum_and_bounded_by_slack :
  forall (mc : Z) (ops : list pop) (st : pstate),
    Forall op_nonneg ops ->
    prun {| ps := sl_new mc; slack := 0 |} ops = Some st ->
    (sl_used (ps st) = asum (sl_kc (ps st)) /\ NoDup (akeys (sl_kc (ps st)))) /\
    (forall k c, aget k (sl_kc (ps st)) = Some c -> 0 <= c) /\
    0 <= slack st /\
    (sl_kc (ps st) = [] \/ sl_used (ps st) <= sl_max (ps st) + slack st).
Proof. exact overshoot_is_update_slack. Qed.
Print Assumptions C01_total_is_sum_and_bounded_by_slack.

(* Every admission of a new key re-establishes total <= max_cost and charges exactly its cost. *)
Theorem C01_admission_reestablishes_bound :
  forall est oracle s k cost s' v l m,
    WF s -> NonNeg s ->
    pol_add est oracle s k cost = AddDone s' v true l m ->
    sl_used s' <= sl_max s' /\ aget k (sl_kc s') = Some cost /\ cost <= sl_max s' /\
    aget k (sl_kc s) = None.
Proof. exact add_admits_under_max. Qed.
Print Assumptions C01_admission_reestablishes_bound.

(* An entry whose own cost exceeds max_cost is never admitted (and the policy is untouched). *)
Theorem C01_oversize_never_admitted :
  forall est oracle s k cost,
    sl_max s < cost -> pol_add est oracle s k cost = AddDone s None false [] [].
Proof. exact oversize_never_admitted. Qed.
Print Assumptions C01_oversize_never_admitted.

(* update_max_cost takes effect for every later admission. *)
Theorem C01_max_cost_read_per_add :
  forall est oracle s mc k cost,
    pol_add est oracle (sl_set_max s mc) k cost =
    pol_add est oracle {| sl_max := mc; sl_used := sl_used s; sl_kc := sl_kc s |} k cost.
Proof. exact max_cost_read_per_add. Qed.
Print Assumptions C01_max_cost_read_per_add.

(* Lifting to the cache and to every schedule: whichever actor steps (client thread, processor,
   policy worker, clock), in whatever state and flavour, the policy's charges change by at most one
   of the policy operations above — all of them run under the policy mutex. *)
Theorem C01_every_cache_step_is_one_policy_operation :
  forall c st l st' o, cstep c st l = StepOk st' o -> slfu_rel (s_slfu st) (s_slfu st').
Proof. exact cstep_slfu. Qed.
Print Assumptions C01_every_cache_step_is_one_policy_operation.

(* Hence in every state reachable by any history under any interleaving, for every max_cost and
   internal-cost setting: the charged total equals the sum of the per-entry charges and every key
   is charged at most once. *)
Theorem C01_reachable_total_is_sum :
  forall c mc t now ls st os,
  crun c (cinit c mc t now) ls = Some (st, os) ->
  sl_used (s_slfu st) = asum (sl_kc (s_slfu st)) /\ NoDup (akeys (sl_kc (s_slfu st))).
Proof. exact reachable_WF. Qed.
Print Assumptions C01_reachable_total_is_sum.

(* Non-vacuity: a concrete history in which an update overshoots, a later add evicts one victim and
   is then rejected by popularity, and max_cost is lowered. *)
Example C01_nonvacuous :
  let est := fun k : key => match k with 1%N => 5 | 2%N => 1 | _ => 3 end in
  exists st,
    prun {| ps := sl_new 10; slack := 0 |}
      [PAdd est [] 1%N 4; PAdd est [] 2%N 4; PUpdate 1%N 7;
       PAdd est [[(2%N, 4); (1%N, 7)]; [(1%N, 7); (1%N, 7)]] 3%N 6; PSetMax 3] = Some st /\
    sl_used (ps st) = 7 /\ slack st = 10 /\ sl_kc (ps st) = [(1%N, 7)].
Proof. eexists. vm_compute. repeat split. Qed.
