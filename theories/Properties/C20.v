(* Property C20 — every accepted configuration yields a working cache.
   Only statements here; proofs are in Keys.v, SketchProofs.v, BloomProofs.v, TinyLFUProofs.v,
   PolicyProofs.v, CacheNoPanic.v, CacheInv.v. *)
From StrettoModel Require Import Base Metrics Sketch SketchProofs Bloom BloomProofs TinyLFU TinyLFUProofs Policy PolicyProofs
  Ttl Store Cache Keys CacheProofs CacheInv CacheNoPanic PolicyLive CacheNoDeadlock CacheGlobalProgress.
Open Scope N_scope.

(* The builder rejects exactly zero num_counters, zero max_cost, zero buffer size, with that error
   and in that order of precedence; everything else — negative max_cost included — is accepted. *)
Theorem C20_builder_validation :
  forall nc mc bs,
  (nc = 0 -> validate nc mc bs = Some InvalidNumCounters) /\
  (nc <> 0 -> mc = 0%Z -> validate nc mc bs = Some InvalidMaxCost) /\
  (nc <> 0 -> mc <> 0%Z -> bs = 0 -> validate nc mc bs = Some InvalidBufferSize) /\
  (nc <> 0 -> mc <> 0%Z -> bs <> 0 -> validate nc mc bs = None).
Proof. exact builder_validation. Qed.
Print Assumptions C20_builder_validation.

(* Every num_counters >= 1 — 1, 2, 3, the non-powers of two — dimensions a well-formed sketch (even
   row width >= 2 counters, mask = width - 1, rows of width/2 bytes) and a well-formed doorkeeper
   (at least 512 bits, a power of two of them) on which estimate never fails. *)
Theorem C20_every_width_builds :
  forall ctrs seeds entries locs,
  1 <= ctrs -> length seeds = SK_DEPTH ->
  N.log2_up (N.max entries 512) <= 64 -> locs * 2 ^ N.log2_up (N.max entries 512) <= two64 ->
  exists t, tl_new ctrs seeds entries locs = Some t /\ tl_wf t /\ tl_samples t = ctrs /\ tl_w t = 0 /\
    forall h, h < two64 -> 1 <= locs -> tl_estimate t h = Some 0.
Proof. exact tl_new_spec. Qed.
Print Assumptions C20_every_width_builds.

(* On such a cache, for every configuration (max_cost of either sign, any insert-buffer size, any
   buffer_items including 0 and 1, metrics on or off, internal cost ignored or not, either flavour),
   every history of operations on u64 key hashes, every clock advance and tick, and every schedule
   of clients, processor and policy worker: no step panics — neither in the caller nor in a
   background worker. *)
Theorem C20_cache_never_panics :
  forall c mc ctrs seeds entries locs now,
  1 <= ctrs -> length seeds = SK_DEPTH ->
  N.log2_up (N.max entries 512) <= 64 -> locs * 2 ^ N.log2_up (N.max entries 512) <= two64 ->
  exists t, tl_new ctrs seeds entries locs = Some t /\
    forall st, reach_u64 c (cinit c mc t now) st ->
    forall l w, label_u64 l -> cstep c st l <> StepPanic w.
Proof. exact cache_never_panics. Qed.
Print Assumptions C20_cache_never_panics.

(* The invariant behind it — sketch and doorkeeper well-formed, every stored deadline and every tracked
   admission time taken at or before "now", ring and queue hold u64 hashes — is inductive over every
   step of every actor. *)
Theorem C20_invariant_is_inductive :
  forall c st l st' o, NP st -> label_u64 l -> cstep c st l = StepOk st' o -> NP st'.
Proof. exact NP_step. Qed.
Print Assumptions C20_invariant_is_inductive.

Theorem C20_admission_times_invariant :
  forall c st l st' o, SO st -> cstep c st l = StepOk st' o -> SO st'.
Proof. exact SO_step. Qed.
Print Assumptions C20_admission_times_invariant.

Theorem C20_no_step_panics :
  forall c st l w, NP st -> SO st -> label_u64 l -> cstep c st l <> StepPanic w.
Proof. exact no_step_panics. Qed.
Print Assumptions C20_no_step_panics.

(* The eviction loop, whatever samples the policy's hash map yields (any legal oracle), never
   indexes an empty sample. *)
Theorem C20_eviction_loop_never_panics :
  forall est oracle s k cost, (est k < I64MAX)%Z -> pol_add est oracle s k cost <> AddPanic.
Proof. exact pol_add_no_panic. Qed.
Print Assumptions C20_eviction_loop_never_panics.

(* Operations complete: a client blocked in wait() is never stranded (its marker is released or still
   ahead of a live processor), in every reachable state. *)
Theorem C20_wait_completes :
  forall c mc t now st a id,
  reach c (cinit c mc t now) st -> client_of st a = KWaitBlock id ->
  (exists st', continue_client c st a = StepOk st' (mk_out PtFinish [] (RUnit true))) \/
  (In (IWait id) (s_buf st) /\ s_pc st <> PExited).
Proof. exact wait_never_stuck. Qed.
Print Assumptions C20_wait_completes.

(* non-vacuity: a width-3, max_cost -5, buffer-1 cache runs a small history *)
Example C20_tiny_config_runs :
  match tl_new 3 [1; 2; 3; 4] 29 7 with
  | Some t =>
      let c := {| c_ignore_internal := false; c_item_size := 56; c_buf_cap := 1; c_buffer_items := 0; c_metrics := true;
                  c_validator := fun _ _ => true; c_coster := fun _ => 0%Z; c_async := false |} in
      match crun c (cinit c (-5) t 1000)
              [LOp 0 (OInsert 1 0 100 1 0 false); LClient 0;
               LProc {| h_arm := Some ArmItem; h_oracle := []; h_tick_key := None |}; LProc no_hint; LProc no_hint;
               LOp 0 (OGet 1 0); LClient 0] with
      | Some (_, os) => length os
      | None => 0%nat
      end
  | None => 0%nat
  end = 7%nat.
Proof. vm_compute. reflexivity. Qed.

(* Operations complete: the admission decision of LFUPolicy::add always comes to an end.  For every
   policy state and every newcomer there is a legal sequence of sample refills (the canonical one)
   under which the eviction loop returns — it never runs for ever, although a refill can re-add keys
   that are already sampled and evicting a duplicated key leaves a stale copy that frees nothing
   (measure: six times the charged keys plus the stale sample entries; proof in PolicyLive.v). *)
Theorem C20_admission_decision_terminates :
  forall est s k cost,
  (forall x, (est x < I64MAX)%Z) -> WF s ->
  exists oracle,
    match pol_add est oracle s k cost with AddDone _ _ _ _ _ => True | AddPanic => True | _ => False end.
Proof. exact pol_add_returns. Qed.
Print Assumptions C20_admission_decision_terminates.

(* Operations complete: the three calls of the API that can wait for the processor — wait(), clear()
   and remove() — are never part of a deadlock.  In every reachable state (any history, schedule,
   flavour, accepted configuration), whenever such a call cannot return yet, the call itself or the
   processor can make a step: the processor takes the head item, takes the clear request, or goes on
   with what it is doing.  With weak fairness of the processor's select! the call returns.  (The
   hypothesis on the admission-time table excludes only the pruning of more than NUM_TO_KEEP tracked
   keys, which the model does not cover.) *)
Theorem C20_blocked_call_has_a_moving_processor :
  forall c mc t now st a,
  tl_wf t -> 0 < c_buf_cap c ->
  reach_u64 c (cinit c mc t now) st ->
  N.of_nat (length (s_start st)) <= Consts.NUM_TO_KEEP ->
  blocked_call (client_of st a) ->
  (exists st' o, cstep c st (LClient a) = StepOk st' o) \/
  (exists h st' o, cstep c st (LProc h) = StepOk st' o).
Proof. exact blocked_call_has_a_moving_processor. Qed.
Print Assumptions C20_blocked_call_has_a_moving_processor.

(* NO REACHABLE DEADLOCK.  In every reachable state of either flavour — any history, schedule,
   accepted configuration — in which some client operation is in flight, somebody can move: that
   client itself (every point of every operation other than the five waiting points is a total
   step), the cache processor, or the policy worker.  With weak fairness of the two select! loops
   every operation therefore completes. *)
Theorem C20_no_reachable_deadlock :
  forall c mc t now st a,
  tl_wf t -> 0 < c_buf_cap c ->
  reach_u64 c (cinit c mc t now) st ->
  N.of_nat (length (s_start st)) <= Consts.NUM_TO_KEEP ->
  client_of st a <> KIdle ->
  (exists st' o, cstep c st (LClient a) = StepOk st' o) \/
  (exists h st' o, cstep c st (LProc h) = StepOk st' o) \/
  (exists h st' o, cstep c st (LWorker h) = StepOk st' o).
Proof. exact no_reachable_deadlock. Qed.
Print Assumptions C20_no_reachable_deadlock.

(* non-vacuity of the deadlock theorems: a concrete reachable state meets all their hypotheses with a
   client blocked in wait() behind an insert the processor has not taken yet *)
Example C20_no_reachable_deadlock_nonvacuous :
  let c := {| c_ignore_internal := true; c_item_size := 56; c_buf_cap := 4; c_buffer_items := 0; c_metrics := true;
              c_validator := fun _ _ => true; c_coster := fun _ => 0%Z; c_async := false |} in
  exists t st,
    tl_new 3 [1; 2; 3; 4] 29 7 = Some t /\ tl_wf t /\ 0 < c_buf_cap c /\
    reach_u64 c (cinit c 100 t 1000) st /\
    N.of_nat (length (s_start st)) <= Consts.NUM_TO_KEEP /\
    client_of st 0 = KWaitBlock 0 /\ s_pc st = PIdle /\ length (s_buf st) = 2%nat /\
    continue_client c st 0 = StepBlocked.
Proof. exact no_reachable_deadlock_nonvacuous. Qed.
