(* Property C05 — expired entries are reclaimed, and only expired ones.
   Only statements here; proofs are in StoreProofs.v and CacheLocal.v. *)
From StrettoModel Require Import Base Metrics Policy Ttl Store StoreProofs Cache CacheProofs CacheLocal.
Open Scope N_scope.

(* An entry is filed under the second after its deadline's second: strictly after the deadline,
   at most one bucket width (1 s) later. *)
Theorem C05_bucket_lies_within_one_width_after_deadline :
  forall t, t_created t + t_d t < storage_bucket t * NS /\ storage_bucket t * NS <= t_created t + t_d t + NS.
Proof. exact bucket_bounds. Qed.
Print Assumptions C05_bucket_lies_within_one_width_after_deadline.

(* A cleanup at time T takes EVERY bucket whose second has begun and no other — whatever the
   cleanup interval, however late the tick: so the first tick at or after deadline + 1 s sweeps
   the entry's bucket (bounded delay: one bucket width plus one interval). *)
Theorem C05_cleanup_takes_exactly_the_due_buckets :
  forall em now em' due,
  em_cleanup em now = (em', Some due) ->
  (forall b m, In (b, m) em' -> cleanup_bucket now < b) /\
  (forall b m, In (b, m) em -> b <= cleanup_bucket now -> ~ In (b, m) em') /\
  (forall b m, In (b, m) em -> cleanup_bucket now < b -> In (b, m) em').
Proof. exact cleanup_takes_exactly_the_due_buckets. Qed.
Print Assumptions C05_cleanup_takes_exactly_the_due_buckets.

Theorem C05_due_within_one_bucket_width :
  forall now t, t_created t + t_d t + NS <= now -> storage_bucket t <= cleanup_bucket now.
Proof. exact due_within_one_bucket. Qed.
Print Assumptions C05_due_within_one_bucket_width.

Theorem C05_due_implies_elapsed :
  forall now t, storage_bucket t <= cleanup_bucket now -> t_created t + t_d t < now.
Proof. exact due_implies_elapsed. Qed.
Print Assumptions C05_due_implies_elapsed.

(* The sweeper re-checks the stored deadline: an entry that has no TTL or has not expired at that
   moment is neither un-charged nor removed, whatever the buckets list (stale listings are harmless). *)
Theorem C05_sweep_skips_unexpired :
  forall c st h k cf rest acc st' o,
  s_pc st = PTickKey k cf rest acc ->
  (forall t, st_expiration (s_store st) k = Some t -> negb (t_is_zero t) && t_is_expired (s_now st) t = false) ->
  proc_step c st h = StepOk st' o -> s_store st' = s_store st /\ s_slfu st' = s_slfu st.
Proof. exact sweep_skips_unexpired. Qed.
Print Assumptions C05_sweep_skips_unexpired.

(* An expired entry is un-charged by exactly its charged cost, and that cost is what on_evict gets. *)
Theorem C05_sweep_releases_and_reports_charged_cost :
  forall c st h k cf rest acc t charge,
  s_pc st = PTickKey k cf rest acc -> st_expiration (s_store st) k = Some t ->
  negb (t_is_zero t) && t_is_expired (s_now st) t = true ->
  aget k (sl_kc (s_slfu st)) = Some charge ->
  exists st', proc_step c st h = StepOk st' (mk_out PtProcTickAfterPolicy [] RNone) /\
    s_pc st' = PTickAfterPolicy k cf charge rest acc /\ aget k (sl_kc (s_slfu st')) = None /\
    sl_used (s_slfu st') = (sl_used (s_slfu st) - charge)%Z.
Proof. exact sweep_reports_charged_cost. Qed.
Print Assumptions C05_sweep_releases_and_reports_charged_cost.

(* Non-vacuity: buckets for seconds ..02, ..03, ..05; a late tick in second ..04 takes the first two. *)
Example C05_nonvacuous :
  let em := [(1700000002, [(1, 0)]); (1700000003, [(2, 0); (3, 0)]); (1700000005, [(4, 0)])] in
  match em_cleanup em 1700000004250000000 with
  | (em', Some due) => (map fst em', asort due)
  | _ => ([], [])
  end = ([1700000005], [(1, 0); (2, 0); (3, 0)]).
Proof. vm_compute. reflexivity. Qed.
