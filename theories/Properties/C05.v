(* Property C05 — expired entries are reclaimed, and only expired ones.
   Only statements here; proofs are in StoreProofs.v, CacheLocal.v and CacheExpiry.v. *)
From StrettoModel Require Import Base Metrics Sketch Bloom TinyLFU Policy Ttl Store StoreProofs Cache CacheProofs CacheLocal CacheInv CacheAgree CacheExpiry.
Open Scope N_scope.

(* An entry is filed under the second after its deadline's second: strictly after the deadline,
   at most one bucket width (1 s) later. *)
Theorem C05_bucket_lies_within_one_width_after_deadline :
  forall t, t_created t + t_d t < storage_bucket t * NS /\ storage_bucket t * NS <= t_created t + t_d t + NS.
Proof. exact bucket_bounds. Qed.
Print Assumptions C05_bucket_lies_within_one_width_after_deadline.

(* A cleanup at time T takes EVERY bucket whose second has begun and no other — whatever the
   cleanup interval, however late the tick: so the first tick at or after deadline + 1 s sweeps
   the entry's bucket (bounded delay: one bucket width plus one interval). *)
Theorem C05_cleanup_takes_exactly_the_due_buckets :
  forall em now em' due,
  em_cleanup em now = (em', Some due) ->
  (forall b m, In (b, m) em' -> cleanup_bucket now < b) /\
  (forall b m, In (b, m) em -> b <= cleanup_bucket now -> ~ In (b, m) em') /\
  (forall b m, In (b, m) em -> cleanup_bucket now < b -> In (b, m) em').
Proof. exact cleanup_takes_exactly_the_due_buckets. Qed.
Print Assumptions C05_cleanup_takes_exactly_the_due_buckets.

Theorem C05_due_within_one_bucket_width :
  forall now t, t_created t + t_d t + NS <= now -> storage_bucket t <= cleanup_bucket now.
Proof. exact due_within_one_bucket. Qed.
Print Assumptions C05_due_within_one_bucket_width.

Theorem C05_due_implies_elapsed :
  forall now t, storage_bucket t <= cleanup_bucket now -> t_created t + t_d t < now.
Proof. exact due_implies_elapsed. Qed.
Print Assumptions C05_due_implies_elapsed.

(* The sweeper re-checks the stored deadline: an entry that has no TTL or has not expired at that
   moment is neither un-charged nor removed, whatever the buckets list (stale listings are harmless). *)
Theorem C05_sweep_skips_unexpired :
  forall c st h k cf rest acc st' o,
  s_pc st = PTickKey k cf rest acc ->
  (forall t, st_expiration (s_store st) k = Some t -> negb (t_is_zero t) && t_is_expired (s_now st) t = false) ->
  proc_step c st h = StepOk st' o -> s_store st' = s_store st /\ s_slfu st' = s_slfu st.
Proof. exact sweep_skips_unexpired. Qed.
Print Assumptions C05_sweep_skips_unexpired.

(* An expired entry is un-charged by exactly its charged cost, and that cost is what on_evict gets. *)
Theorem C05_sweep_releases_and_reports_charged_cost :
  forall c st h k cf rest acc t charge,
  s_pc st = PTickKey k cf rest acc -> st_expiration (s_store st) k = Some t ->
  negb (t_is_zero t) && t_is_expired (s_now st) t = true ->
  aget k (sl_kc (s_slfu st)) = Some charge ->
  exists st', proc_step c st h = StepOk st' (mk_out PtProcTickAfterPolicy [] RNone) /\
    s_pc st' = PTickAfterPolicy k cf charge rest acc /\ aget k (sl_kc (s_slfu st')) = None /\
    sl_used (s_slfu st') = (sl_used (s_slfu st) - charge)%Z.
Proof. exact sweep_reports_charged_cost. Qed.
Print Assumptions C05_sweep_releases_and_reports_charged_cost.

(* Non-vacuity: buckets for seconds ..02, ..03, ..05; a late tick in second ..04 takes the first two. *)
Example C05_nonvacuous :
  let em := [(1700000002, [(1, 0)]); (1700000003, [(2, 0); (3, 0)]); (1700000005, [(4, 0)])] in
  match em_cleanup em 1700000004250000000 with
  | (em', Some due) => (map fst em', asort due)
  | _ => ([], [])
  end = ([1700000005], [(1, 0); (2, 0); (3, 0)]).
Proof. vm_compute. reflexivity. Qed.

(* ---- the listing invariant (proofs in CacheExpiry.v) ---- *)

(* Every resident entry with a TTL is listed in the expiry index under the bucket of its CURRENT
   deadline — whatever inserts, TTL updates (TTL -> longer/shorter TTL, TTL <-> none) and removes hit
   it or its bucket neighbours — or it is among the keys the running cleanup has taken out of a due
   bucket and not yet visited, and it has expired.  Inductive over every step of every actor. *)
Theorem C05_listing_invariant_is_inductive :
  forall c st l st' o, EmInv st -> pc_cf0 (s_pc st) -> cstep c st l = StepOk st' o -> EmInv st'.
Proof. exact EmInv_step. Qed.
Print Assumptions C05_listing_invariant_is_inductive.

(* No resident TTL entry is ever forgotten: in every reachable state of a collision-free run in which
   the processor is not inside a cleanup, it is listed under its bucket, so the cleanup of that
   second will visit it. *)
Theorem C05_resident_ttl_entry_is_listed :
  forall c mc t now st k e,
  reach_cf c (cinit c mc t now) st ->
  (forall k0 cf rest acc, s_pc st <> PTickKey k0 cf rest acc) ->
  (forall k0 cf cost rest acc, s_pc st <> PTickAfterPolicy k0 cf cost rest acc) ->
  aget k (st_map (s_store st)) = Some e -> t_is_zero (e_exp e) = false ->
  listed (st_em (s_store st)) (storage_bucket (e_exp e)) k.
Proof. exact resident_ttl_entry_is_listed. Qed.
Print Assumptions C05_resident_ttl_entry_is_listed.

(* The cleanup step takes every due bucket: what it leaves is later than its own second ... *)
Theorem C05_cleanup_leaves_no_due_bucket :
  forall c st h st' o,
  s_pc st = PIdle -> h_arm h = Some ArmTick -> proc_step c st h = StepOk st' o -> MB st' (s_now st).
Proof. exact tick_establishes_MB. Qed.
Print Assumptions C05_cleanup_leaves_no_due_bucket.

(* ... and stays so: every later listing (an insert or TTL update made at or after T) is for a later
   second — except an item written before T, already due at T, that the processor admits only now. *)
Theorem C05_listings_stay_later_than_the_last_cleanup :
  forall c st l st' o T,
  T <= s_now st -> MB st T -> no_stale_admission st T -> cstep c st l = StepOk st' o -> MB st' T.
Proof. exact MB_step. Qed.
Print Assumptions C05_listings_stay_later_than_the_last_cleanup.

(* Reclamation: once a cleanup that ran at T is over, no resident entry has a deadline bucket that
   was due at T; in particular an entry whose TTL had elapsed one bucket width (one second) before T
   has been reclaimed. *)
Theorem C05_after_cleanup_nothing_due_is_resident :
  forall st T k e,
  EmInv st -> MB st T ->
  (forall k0 cf rest acc, s_pc st <> PTickKey k0 cf rest acc) ->
  (forall k0 cf cost rest acc, s_pc st <> PTickAfterPolicy k0 cf cost rest acc) ->
  aget k (st_map (s_store st)) = Some e -> t_is_zero (e_exp e) = false ->
  cleanup_bucket T < storage_bucket (e_exp e).
Proof. exact after_cleanup_nothing_due_is_resident. Qed.
Print Assumptions C05_after_cleanup_nothing_due_is_resident.

Theorem C05_elapsed_entry_is_reclaimed :
  forall st T k e,
  EmInv st -> MB st T ->
  (forall k0 cf rest acc, s_pc st <> PTickKey k0 cf rest acc) ->
  (forall k0 cf cost rest acc, s_pc st <> PTickAfterPolicy k0 cf cost rest acc) ->
  aget k (st_map (s_store st)) = Some e -> t_is_zero (e_exp e) = false ->
  t_created (e_exp e) + t_d (e_exp e) + NS <= T -> False.
Proof. exact elapsed_entry_is_reclaimed. Qed.
Print Assumptions C05_elapsed_entry_is_reclaimed.
