(* Property C02 — lookups return only the current value of that same key.
   Only statements here; proofs are in CacheValues.v (and CacheInv.v for clear). *)
From StrettoModel Require Import Base Metrics Sketch Bloom TinyLFU Policy Ttl Store Cache CacheProofs CacheLocal CacheInv CacheAgree CacheValues.
Open Scope N_scope.

(* For every history, every number of client threads and every interleaving with the processor, the
   policy worker, the clock and the cleanup tick: after the run, every value that is resident, sits in
   the insert buffer, is carried by a client between its store update and its buffer send, or is held
   by the processor between policy.add and store.try_insert, was written under that very key by an
   insert or a get_mut write of the run. *)
Theorem C02_run_holds_only_written_values :
  forall c mc t now ls st os,
  crun c (cinit c mc t now) ls = Some (st, os) -> WI (fun k v => In (k, v) (writes ls)) st.
Proof. exact run_holds_only_written_values. Qed.
Print Assumptions C02_run_holds_only_written_values.

(* The invariant is inductive over every step of every actor, for any "written under" predicate
   closed under the writes of the labels. *)
Theorem C02_invariant_is_inductive :
  forall P c st l st' o, WI P st -> label_ok P l -> cstep c st l = StepOk st' o -> WI P st'.
Proof. exact WI_step. Qed.
Print Assumptions C02_invariant_is_inductive.

(* Hence a lookup of key k — get or get_mut, whatever the schedule — returns nothing or a value
   written under k: never a value of another key. *)
Theorem C02_lookup_returns_a_value_written_under_its_key :
  forall P c st a k cf w st' o,
  WI P st -> client_of st a = KGetStore k cf w -> cstep c st (LClient a) = StepOk st' o ->
  match o_res o with
  | RGet (Some (v, _)) => P k v
  | RGetMut (Some v) => P k v
  | RGet None | RGetMut None => True
  | _ => False
  end.
Proof. exact lookup_returns_written_value. Qed.
Print Assumptions C02_lookup_returns_a_value_written_under_its_key.

(* An insert of a resident key that the validator does not veto replaces the value in that very
   step — before the Update item is even queued — and touches no other key ... *)
Theorem C02_update_is_immediate :
  forall c st a k cf v cost ttl only e,
  s_closed st = false -> aget k (st_map (s_store st)) = Some e -> conflict_ok cf e = true ->
  c_validator c (e_val e) v = true ->
  exists st', start_op c st a (OInsert k cf v cost ttl only) =
                StepOk st' (mk_out PtInsBeforeSend [CbExit (e_val e)] RNone) /\
    (exists e', aget k (st_map (s_store st')) = Some e' /\ e_val e' = v /\ e_conflict e' = e_conflict e /\
                e_exp e' = {| t_created := s_now st; t_d := ttl |}) /\
    (forall k', k' <> k -> aget k' (st_map (s_store st')) = aget k' (st_map (s_store st))).
Proof. exact update_is_immediate. Qed.
Print Assumptions C02_update_is_immediate.

(* ... and is never rolled back: in every reachable state of a collision-free run, whichever actor
   takes whichever step, a resident value is replaced only by a client's later write to that same
   key (an insert carrying the new value, or the write half of a get_mut) — never by the processor
   applying an older queued item, by eviction, expiry or the policy worker. *)
Theorem C02_value_replaced_only_by_a_later_write_to_its_key :
  forall c mc t now st l st' o k e e',
  reach_cf c (cinit c mc t now) st -> cstep c st l = StepOk st' o ->
  aget k (st_map (s_store st)) = Some e -> aget k (st_map (s_store st')) = Some e' -> e_val e' <> e_val e ->
  (exists a cf cost ttl only, l = LOp a (OInsert k cf (e_val e') cost ttl only)) \/
  (exists a cf, l = LClient a /\ client_of st a = KGetStore k cf (Some (e_val e'))).
Proof. exact reachable_value_replaced_only_by_a_write. Qed.
Print Assumptions C02_value_replaced_only_by_a_later_write_to_its_key.

(* remove(k) takes the entry out of the store in its first step; clear() acknowledged leaves store,
   buffer and policy empty (C11), so nothing written before either can be returned afterwards unless
   it was written again. *)
Theorem C02_remove_is_immediate :
  forall c st a k cf e,
  s_closed st = false -> aget k (st_map (s_store st)) = Some e -> conflict_ok cf e = true ->
  exists st', start_op c st a (ORemove k cf) = StepOk st' (mk_out PtRemBeforeSend [CbExit (e_val e)] RNone) /\
    aget k (st_map (s_store st')) = None /\
    (forall k', k' <> k -> aget k' (st_map (s_store st')) = aget k' (st_map (s_store st))).
Proof. exact remove_is_immediate. Qed.
Print Assumptions C02_remove_is_immediate.

(* non-vacuity: two keys, an update and a lookup: the lookup of key 1 returns the latest value 101 *)
Example C02_nonvacuous :
  match tl_new 16 [1; 2; 3; 4] 153 7 with
  | Some t =>
      let c := {| c_ignore_internal := true; c_item_size := 56; c_buf_cap := 8; c_buffer_items := 64; c_metrics := false;
                  c_validator := fun _ _ => true; c_coster := fun _ => 0%Z; c_async := false |} in
      let item := {| h_arm := Some ArmItem; h_oracle := []; h_tick_key := None |} in
      match crun c (cinit c 10 t 1000)
              [LOp 0 (OInsert 1 0 100 1 0 false); LClient 0; LProc item; LProc no_hint; LProc no_hint;
               LOp 1 (OInsert 2 0 200 1 0 false); LClient 1; LProc item; LProc no_hint; LProc no_hint;
               LOp 0 (OInsert 1 0 101 1 0 false); LOp 1 (OGet 1 0); LClient 1; LClient 0; LProc item] with
      | Some (_, os) => map o_res (firstn 1 (skipn 12 os))
      | None => []
      end
  | None => []
  end = [RGet (Some (101, TtlInf))].
Proof. vm_compute. reflexivity. Qed.
