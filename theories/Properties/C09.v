(* Property C09 — conditional writes: insert_if_present and UpdateValidator are honoured.
   Only statements here; proofs are in StoreProofs.v and CacheLocal.v.  "Absent" = not resident in
   the store (an elapsed-but-unswept entry is resident and is revived, as in Ristretto). *)
From StrettoModel Require Import Base Metrics Policy Ttl Store StoreProofs Cache CacheProofs CacheLocal.
Open Scope N_scope.

(* insert_if_present on a non-resident index returns false and leaves the ENTIRE cache state
   unchanged — in any state, e.g. also while a New item for the same key is still buffered. *)
Theorem C09_if_present_absent_is_noop :
  forall c st a k cf v cost,
  s_closed st = false -> aget k (st_map (s_store st)) = None ->
  start_op c st a (OInsert k cf v cost 0 true) = StepOk st (mk_out PtFinish [] (RBool false)).
Proof. exact if_present_absent_is_noop. Qed.
Print Assumptions C09_if_present_absent_is_noop.

(* On a resident index whose validator accepts, it behaves exactly as insert without TTL. *)
Theorem C09_if_present_resident_is_update :
  forall c st a k cf v cost e,
  s_closed st = false -> aget k (st_map (s_store st)) = Some e -> conflict_ok cf e = true ->
  c_validator c (e_val e) v = true ->
  start_op c st a (OInsert k cf v cost 0 true) = start_op c st a (OInsert k cf v cost 0 false).
Proof. exact if_present_resident_is_update. Qed.
Print Assumptions C09_if_present_resident_is_update.

(* For every validator predicate: a vetoed write leaves value, deadline and expiry index exactly as
   they were, whichever insert variant was used, and fires no callback ... *)
Theorem C09_veto_keeps_value_and_ttl :
  forall c st a k cf v cost ttl only e,
  s_closed st = false -> aget k (st_map (s_store st)) = Some e -> conflict_ok cf e = true ->
  c_validator c (e_val e) v = false ->
  exists st' o, start_op c st a (OInsert k cf v cost ttl only) = StepOk st' o /\ s_store st' = s_store st /\
                o_cbs o = [].
Proof. exact veto_client_segment. Qed.
Print Assumptions C09_veto_keeps_value_and_ttl.

(* ... and so does the processor when it later handles the New item a vetoed plain insert produced
   (the key is charged: the policy refuses, on_reject gets the vetoed value, the store is untouched). *)
Theorem C09_refused_item_keeps_store :
  forall c st h k cf v exp cost victims,
  s_pc st = PNewAfterAdd k cf v exp cost victims false ->
  exists st', proc_step c st h = StepOk st' (mk_out PtProcNewAfterStore [CbReject k cf v cost] RNone) /\
              s_store st' = s_store st /\ s_slfu st' = s_slfu st.
Proof. exact reject_segment_keeps_store. Qed.
Print Assumptions C09_refused_item_keeps_store.

Theorem C09_store_level_veto :
  forall vld s k v c t e,
  aget k (st_map s) = Some e -> conflict_ok c e = true -> vld (e_val e) v = false ->
  st_try_update vld s k v c t = (s, UReject) /\ st_try_insert vld s k v c t = s.
Proof. exact veto_keeps_everything. Qed.
Print Assumptions C09_store_level_veto.
