(* Property C04 — below capacity the cache is an exact map: nothing is lost.
   Only statements here; proofs are in CacheMap.v (and PolicyProofs.v, StoreProofs.v). *)
From StrettoModel Require Import Base Metrics Sketch Bloom TinyLFU Policy PolicyProofs Ttl Store StoreProofs Cache CacheProofs CacheLocal CacheInv CacheAgree CacheMap.
Open Scope N_scope.

(* (1) Retention, for every step of every actor in every state: a resident entry leaves the store
   only through a remove() of its key, a queued Delete of its key, an eviction, a sweep, or clear().
   Inserts, updates, lookups, the policy worker, the clock, ticks that find nothing due — none of
   them removes anything, whatever other keys they touch. *)
Theorem C04_entry_leaves_only_by :
  forall c st l st' o k e,
  cstep c st l = StepOk st' o -> aget k (st_map (s_store st)) = Some e -> aget k (st_map (s_store st')) = None ->
  leave_cause st l k.
Proof. exact entry_leaves_only_by. Qed.
Print Assumptions C04_entry_leaves_only_by.

(* (2) Below capacity there are no evictions and no refusals: with room for the item the policy
   neither samples nor evicts — whatever else is charged and whatever the popularity estimates ... *)
Theorem C04_room_means_no_victims :
  forall est oracle s k cost s' v a lg m,
  (0 <= sl_room_left s cost)%Z -> pol_add est oracle s k cost = AddDone s' v a lg m -> v = None /\ lg = [].
Proof. exact room_means_no_victims. Qed.
Print Assumptions C04_room_means_no_victims.

(* ... a new key is admitted ... *)
Theorem C04_below_capacity_new_key_is_admitted :
  forall c st h k cf cost v exp r,
  s_pc st = PIdle -> h_arm h = Some ArmItem -> s_buf st = INew k cf cost v exp :: r ->
  aget k (sl_kc (s_slfu st)) = None ->
  (internal_cost c cost <= sl_max (s_slfu st))%Z -> (0 <= sl_room_left (s_slfu st) (internal_cost c cost))%Z ->
  exists st', proc_step c st h = StepOk st' (mk_out PtProcNewAfterAdd [] RNone) /\
    s_pc st' = PNewAfterAdd k cf v exp (internal_cost c cost) [] true /\
    s_slfu st' = sl_increment (s_slfu st) k (internal_cost c cost) /\
    s_store st' = s_store st /\ s_buf st' = r /\ s_start st' = s_start st /\ s_clients st' = s_clients st.
Proof. exact below_capacity_new_key_is_admitted. Qed.
Print Assumptions C04_below_capacity_new_key_is_admitted.

(* ... and stored with its value and deadline, touching no other key. *)
Theorem C04_admitted_key_becomes_resident :
  forall c st h k cf v exp cost vs,
  s_pc st = PNewAfterAdd k cf v exp cost vs true -> aget k (st_map (s_store st)) = None ->
  N.of_nat (length (s_start st)) <= Consts.NUM_TO_KEEP ->
  exists st', proc_step c st h = StepOk st' (mk_out PtProcNewAfterStore [] RNone) /\
    aget k (st_map (s_store st')) = Some {| e_conflict := cf; e_val := v; e_exp := exp |} /\
    (forall k', k' <> k -> aget k' (st_map (s_store st')) = aget k' (st_map (s_store st))) /\
    s_slfu st' = s_slfu st /\ s_pc st' = PNewAfterStore vs /\ s_buf st' = s_buf st /\ s_clients st' = s_clients st.
Proof. exact admitted_key_becomes_resident. Qed.
Print Assumptions C04_admitted_key_becomes_resident.

(* (3) Nothing is swept early: the sweeper goes on to remove a key only if the entry it looked at had
   a TTL and the TTL had elapsed (and the due buckets are exactly those whose second has passed: C05). *)
Theorem C04_sweep_takes_only_expired :
  forall c st h k cf rest acc st' o cost rest' acc',
  s_pc st = PTickKey k cf rest acc -> proc_step c st h = StepOk st' o -> s_pc st' = PTickAfterPolicy k cf cost rest' acc' ->
  exists t, st_expiration (s_store st) k = Some t /\ t_is_zero t = false /\ t_is_expired (s_now st) t = true.
Proof. exact sweep_takes_only_expired. Qed.
Print Assumptions C04_sweep_takes_only_expired.

(* (4) End to end, from any quiescent state, each operation run to quiescence changes the map exactly
   as a map with TTLs would, and nothing else.  Insert of a key that is neither resident nor
   charged, with room for it: returns true; afterwards the key maps to (value, now + ttl), every
   other key is untouched, the key is charged cost (or Coster) + overhead, no callback fired. *)
Theorem C04_insert_new_key_end_to_end :
  forall c st a k cf v cost ttl,
  s_closed st = false -> quiescent st -> 0 < c_buf_cap c ->
  aget k (st_map (s_store st)) = None -> aget k (sl_kc (s_slfu st)) = None ->
  N.of_nat (length (s_start st)) <= Consts.NUM_TO_KEEP ->
  let cost' := internal_cost c (cost + (if (cost =? 0)%Z then c_coster c v else 0))%Z in
  (cost' <= sl_max (s_slfu st))%Z -> (0 <= sl_room_left (s_slfu st) cost')%Z ->
  exists st' os,
    crun c st [LOp a (OInsert k cf v cost ttl false); LClient a; LProc item_hint; LProc no_hint; LProc no_hint] = Some (st', os) /\
    map o_res os = [RNone; RBool true; RNone; RNone; RNone] /\ flat_map o_cbs os = [] /\
    s_buf st' = [] /\ s_pc st' = PIdle /\ (forall b, client_of st' b = KIdle) /\
    aget k (st_map (s_store st')) = Some {| e_conflict := cf; e_val := v; e_exp := {| t_created := s_now st; t_d := ttl |} |} /\
    (forall k', k' <> k -> aget k' (st_map (s_store st')) = aget k' (st_map (s_store st))) /\
    aget k (sl_kc (s_slfu st')) = Some cost' /\
    (forall k', k' <> k -> aget k' (sl_kc (s_slfu st')) = aget k' (sl_kc (s_slfu st))) /\
    sl_used (s_slfu st') = (sl_used (s_slfu st) + cost')%Z.
Proof. exact insert_new_key_end_to_end. Qed.
Print Assumptions C04_insert_new_key_end_to_end.

(* Re-insert of a resident key — with or without TTL, switching either way: value and deadline are
   replaced, the old value goes to on_exit, no other key changes. *)
Theorem C04_update_end_to_end :
  forall c st a k cf v cost ttl only e p,
  s_closed st = false -> quiescent st -> 0 < c_buf_cap c ->
  aget k (st_map (s_store st)) = Some e -> conflict_ok cf e = true -> c_validator c (e_val e) v = true ->
  aget k (sl_kc (s_slfu st)) = Some p ->
  let cost' := (internal_cost c cost + (if (cost =? 0)%Z then c_coster c v else 0))%Z in
  exists st' os,
    crun c st [LOp a (OInsert k cf v cost ttl only); LClient a; LProc item_hint] = Some (st', os) /\
    map o_res os = [RNone; RBool true; RNone] /\ flat_map o_cbs os = [CbExit (e_val e)] /\
    s_buf st' = [] /\ s_pc st' = PIdle /\ (forall b, client_of st' b = KIdle) /\
    aget k (st_map (s_store st')) = Some {| e_conflict := e_conflict e; e_val := v; e_exp := {| t_created := s_now st; t_d := ttl |} |} /\
    (forall k', k' <> k -> aget k' (st_map (s_store st')) = aget k' (st_map (s_store st))) /\
    aget k (sl_kc (s_slfu st')) = Some cost' /\
    (forall k', k' <> k -> aget k' (sl_kc (s_slfu st')) = aget k' (sl_kc (s_slfu st))).
Proof. exact update_end_to_end. Qed.
Print Assumptions C04_update_end_to_end.

(* Remove of a resident key: gone from the map and from the charges, on_exit gets the value, no
   other key changes. *)
Theorem C04_remove_end_to_end :
  forall c st a k cf e p,
  s_closed st = false -> quiescent st -> 0 < c_buf_cap c ->
  aget k (st_map (s_store st)) = Some e -> conflict_ok cf e = true -> aget k (sl_kc (s_slfu st)) = Some p ->
  exists st' os,
    crun c st [LOp a (ORemove k cf); LClient a; LProc item_hint; LProc no_hint] = Some (st', os) /\
    map o_res os = [RNone; RUnit true; RNone; RNone] /\ flat_map o_cbs os = [CbExit (e_val e)] /\
    s_buf st' = [] /\ s_pc st' = PIdle /\ (forall b, client_of st' b = KIdle) /\
    aget k (st_map (s_store st')) = None /\
    (forall k', k' <> k -> aget k' (st_map (s_store st')) = aget k' (st_map (s_store st))) /\
    aget k (sl_kc (s_slfu st')) = None /\
    (forall k', k' <> k -> aget k' (sl_kc (s_slfu st')) = aget k' (sl_kc (s_slfu st))) /\
    sl_used (s_slfu st') = (sl_used (s_slfu st) - p)%Z.
Proof. exact remove_end_to_end. Qed.
Print Assumptions C04_remove_end_to_end.

(* A lookup returns exactly what the map says (value and remaining TTL of a live entry, nothing
   otherwise) and changes neither the map nor the charges. *)
Theorem C04_lookup_end_to_end :
  forall c st a k cf,
  s_closed st = false -> client_of st a = KIdle ->
  (forall e, aget k (st_map (s_store st)) = Some e -> t_created (e_exp e) <= s_now st) ->
  exists st' os,
    crun c st [LOp a (OGet k cf); LClient a] = Some (st', os) /\
    s_store st' = s_store st /\ s_slfu st' = s_slfu st /\ s_buf st' = s_buf st /\ client_of st' a = KIdle /\
    map o_res os =
      [RNone;
       match st_get (s_now st) (s_store st) k cf with
       | Some e => match t_get_ttl (s_now st) (e_exp e) with Some d => RGet (Some (e_val e, d)) | None => RNone end
       | None => RGet None
       end] /\
    (forall e, st_get (s_now st) (s_store st) k cf = Some e -> exists d, t_get_ttl (s_now st) (e_exp e) = Some d).
Proof. exact lookup_end_to_end. Qed.
Print Assumptions C04_lookup_end_to_end.
