(* Property C12 — close() is final, idempotent, and leaves no worker behind.
   Only statements here; proofs are in CacheLocal.v, CacheClose.v and CacheCloseLive.v. *)
From StrettoModel Require Import Base Metrics Sketch Bloom TinyLFU Policy Ttl Store Cache CacheProofs CacheLocal CacheInv CacheClose CacheCloseLive CacheCloseAsync TinyLFUProofs CacheNoPanic CacheNoDeadlock.
Open Scope N_scope.

(* Once the closed flag is set (close() publishes it first), in ANY state: insert returns false,
   get / get_mut return nothing, remove / wait / clear / close return Ok — each in one step that
   leaves the state exactly as it was; nothing blocks, nothing panics. *)
Theorem C12_closed_is_absorbing :
  forall c st a op,
  s_closed st = true ->
  match op with
  | OInsert _ _ _ _ _ _ => start_op c st a op = StepOk st (mk_out PtFinish [] (RBool false))
  | OGet _ _ => start_op c st a op = StepOk st (mk_out PtFinish [] (RGet None))
  | OGetMutWrite _ _ _ => start_op c st a op = StepOk st (mk_out PtFinish [] (RGetMut None))
  | ORemove _ _ | OWait | OClear | OClose => start_op c st a op = StepOk st (mk_out PtFinish [] (RUnit true))
  | _ => True
  end.
Proof. exact closed_is_absorbing. Qed.
Print Assumptions C12_closed_is_absorbing.

(* Final: no step of any actor — client, processor, policy worker, clock, ticker — re-opens the cache
   or the policy, or brings a worker that has left its loop back. *)
Theorem C12_closed_is_final :
  forall c st l st' o,
  cstep c st l = StepOk st' o ->
  (s_closed st = true -> s_closed st' = true) /\ (s_pol_closed st = true -> s_pol_closed st' = true) /\
  (s_pc st = PExited -> s_pc st' = PExited) /\ (s_wpc st = WExited -> s_wpc st' = WExited).
Proof. exact closed_is_final. Qed.
Print Assumptions C12_closed_is_final.

(* No worker left behind, either flavour, every history and schedule (closers racing each other and
   other operations included): in every reachable state, a closer that is about to publish the
   policy's closed flag and return Ok — and every state in which that flag is set — has a cache
   processor that has left its loop or holds its stop message, and a policy worker likewise (async:
   the message sits in the stop channel, the stop arm stays ready until taken). *)
Theorem C12_close_leaves_no_worker_behind :
  forall c mc t now st a,
  reach c (cinit c mc t now) st -> (client_of st a = KPolCloseAfterStop \/ s_pol_closed st = true) ->
  (s_pc st = PExited \/ 0 < s_stop_msgs st) /\ (s_wpc st = WExited \/ 0 < s_pol_stop_msgs st).
Proof. exact close_leaves_no_worker_behind. Qed.
Print Assumptions C12_close_leaves_no_worker_behind.

(* Sync flavour (both handshakes are rendezvous): when close() returns Ok the processor and the
   policy worker HAVE both left their loops. *)
Theorem C12_sync_close_returns_after_workers_exit :
  forall c mc t now st a,
  c_async c = false -> reach c (cinit c mc t now) st ->
  (client_of st a = KPolCloseAfterStop \/ s_pol_closed st = true) ->
  s_pc st = PExited /\ s_wpc st = WExited.
Proof. exact sync_close_returns_after_workers_exit. Qed.
Print Assumptions C12_sync_close_returns_after_workers_exit.

(* The invariant behind both is inductive over every step. *)
Theorem C12_invariant_is_inductive :
  forall c st l st' o, CloseInv st -> cstep c st l = StepOk st' o -> CloseInv st'.
Proof. exact CloseInv_step. Qed.
Print Assumptions C12_invariant_is_inductive.

(* close() is never stranded in its handshakes (proofs in CacheCloseLive.v).  At most one client is
   ever inside close() — every other close() returns Ok at once ... *)
Theorem C12_at_most_one_closer :
  forall c mc t now st a b,
  reach c (cinit c mc t now) st -> in_close (client_of st a) = true -> in_close (client_of st b) = true -> a = b.
Proof. exact at_most_one_closer. Qed.
Print Assumptions C12_at_most_one_closer.

(* ... and in the sync flavour, in every reachable state, the closer offering the stop in the
   rendezvous has a live partner: the cache processor (resp. the policy worker) has not left its
   loop, so the handshake can complete. *)
Theorem C12_sync_close_offer_has_a_live_partner :
  forall c mc t now st a,
  c_async c = false -> reach c (cinit c mc t now) st ->
  (client_of st a = KCloseStopOffered -> s_pc st <> PExited) /\
  (client_of st a = KPolCloseStopOffered -> s_wpc st = WIdle).
Proof. exact sync_close_offer_has_a_live_partner. Qed.
Print Assumptions C12_sync_close_offer_has_a_live_partner.

(* close() is never part of a deadlock (sync flavour, every reachable state): a closer waiting in the
   rendezvous of the stop message always has a partner that can move — the cache processor takes the
   stop at its loop head or goes on with what it is doing; the policy worker takes its stop. *)
Theorem C12_blocked_close_has_a_moving_partner :
  forall c mc t now st a,
  tl_wf t -> c_async c = false ->
  reach_u64 c (cinit c mc t now) st ->
  N.of_nat (length (s_start st)) <= Consts.NUM_TO_KEEP ->
  (client_of st a = KCloseStopOffered -> exists h st' o, cstep c st (LProc h) = StepOk st' o) /\
  (client_of st a = KPolCloseStopOffered -> exists h st' o, cstep c st (LWorker h) = StepOk st' o).
Proof. exact blocked_close_has_a_moving_partner. Qed.
Print Assumptions C12_blocked_close_has_a_moving_partner.

(* ... and in the async flavour no closer ever waits in a stop handshake at all (every reachable
   state): the stop channels hold one message, at most one client is inside close(), and only that
   closer sends, so each stop message is buffered at once. *)
Theorem C12_async_close_never_waits :
  forall c mc t now st,
  c_async c = true -> reach c (cinit c mc t now) st ->
  forall a, client_of st a <> KCloseStopOffered /\ client_of st a <> KPolCloseStopOffered.
Proof. exact async_close_never_waits. Qed.
Print Assumptions C12_async_close_never_waits.
