(* Property C12 — close() is final and idempotent.
   Only statements here; proofs are in CacheLocal.v. *)
From StrettoModel Require Import Base Metrics Policy Ttl Store Cache CacheProofs CacheLocal.
Open Scope N_scope.

(* Once the closed flag is set (close() publishes it first), in ANY state: insert returns false,
   get / get_mut return nothing, remove / wait / clear / close return Ok — each in one step that
   leaves the state exactly as it was; nothing blocks, nothing panics. *)
Theorem C12_closed_is_absorbing :
  forall c st a op,
  s_closed st = true ->
  match op with
  | OInsert _ _ _ _ _ _ => start_op c st a op = StepOk st (mk_out PtFinish [] (RBool false))
  | OGet _ _ => start_op c st a op = StepOk st (mk_out PtFinish [] (RGet None))
  | OGetMutWrite _ _ _ => start_op c st a op = StepOk st (mk_out PtFinish [] (RGetMut None))
  | ORemove _ _ | OWait | OClear | OClose => start_op c st a op = StepOk st (mk_out PtFinish [] (RUnit true))
  | _ => True
  end.
Proof. exact closed_is_absorbing. Qed.
Print Assumptions C12_closed_is_absorbing.
