(* Property C13 — popularity estimates never undercount and decay by halving.
   Only statements here; proofs are in SketchProofs.v and TinyLFUProofs.v. *)
From StrettoModel Require Import Base Sketch SketchProofs Bloom BloomProofs TinyLFU TinyLFUProofs.
Open Scope N_scope.

(* One 4-bit counter: an increment adds one saturating at 15 and leaves every other counter of the
   row (its byte neighbour included) untouched; bytes stay bytes; never out of bounds inside the row. *)
Theorem C13_counter_saturates_and_is_isolated :
  forall r i, row_wf r -> (N.to_nat (i / 2) < length r)%nat ->
  exists r', row_inc r i = Some r' /\ row_wf r' /\ length r' = length r /\
    forall j, row_get r' j =
      if N.eqb j i then option_map (fun v => N.min 15 (v + 1)) (row_get r j) else row_get r j.
Proof. exact row_inc_spec. Qed.
Print Assumptions C13_counter_saturates_and_is_isolated.

(* Every counter width >= 1 (power of two or not) gives a usable sketch; width 0 is rejected. *)
Theorem C13_every_width_gives_a_sketch :
  forall ctrs seeds, 1 <= ctrs -> length seeds = SK_DEPTH ->
  exists s, sk_new ctrs seeds = Some s /\ sk_wf s /\ ctrs <= sk_mask s + 1.
Proof. exact sk_new_wf. Qed.
Print Assumptions C13_every_width_gives_a_sketch.

(* On a well-formed sketch (any seeds, any 64-bit hash) an increment never fails, counters only
   grow, and the recorded hash's estimate becomes min 15 (old + 1). *)
Theorem C13_sketch_increment :
  forall s h, sk_wf s ->
  exists s', sk_inc s h = Some s' /\ sk_wf s' /\ sk_mask s' = sk_mask s /\ sk_seeds s' = sk_seeds s /\
    forall h', exists e e', sk_est s h' = Some e /\ sk_est s' h' = Some e' /\ e <= e' /\ e' < 16 /\
                          (h' = h -> e' = N.min 15 (e + 1)).
Proof. exact sk_inc_spec. Qed.
Print Assumptions C13_sketch_increment.

(* Between two aging resets the estimate of every key is at least the number of times it was
   recorded, saturating at 16 (fifteen plus one for the doorkeeper) — for every recorded sequence,
   every seed vector, every width, robust to doorkeeper false positives and sketch collisions. *)
Theorem C13_estimate_never_undercounts :
  forall t hs t',
  tl_wf t -> Forall (fun g => g < two64) hs ->
  tl_w t + N.of_nat (length hs) < tl_samples t ->
  tl_increments t hs = Some t' ->
  forall h, h < two64 -> exists e, tl_estimate t' h = Some e /\ N.min 16 (count hs h) <= e /\ e <= 16.
Proof. exact estimate_never_undercounts. Qed.
Print Assumptions C13_estimate_never_undercounts.

(* The samples-th recorded access since the last reset, and no earlier one, halves every counter,
   empties the doorkeeper and restarts the window. *)
Theorem C13_reset_exactly_every_samples :
  forall t g, tl_wf t -> g < two64 ->
  exists t1, recorded t g t1 /\
    (tl_w t + 1 < tl_samples t ->
       tl_increment t g = Some {| tl_sk := tl_sk t1; tl_bl := tl_bl t1; tl_samples := tl_samples t; tl_w := tl_w t + 1 |}) /\
    (tl_samples t <= tl_w t + 1 ->
       exists t', tl_increment t g = Some t' /\ tl_w t' = 0 /\ tl_samples t' = tl_samples t /\
         (forall h, sk_est (tl_sk t') h = option_map (fun e => e / 2) (sk_est (tl_sk t1) h)) /\
         (forall p, bit (bl_words (tl_bl t')) p = false) /\
         (forall h, h < two64 -> 1 <= bl_locs (tl_bl t) -> bl_contains (tl_bl t') h = Some false)).
Proof. exact reset_exactly_at_samples. Qed.
Print Assumptions C13_reset_exactly_every_samples.

(* A fresh estimator has samples = num_counters exactly (not the rounded width), and estimates
   zero everywhere; clear() zeroes everything. *)
Theorem C13_fresh_estimates_zero :
  forall ctrs seeds entries locs,
  1 <= ctrs -> length seeds = SK_DEPTH ->
  N.log2_up (N.max entries 512) <= 64 -> locs * 2 ^ N.log2_up (N.max entries 512) <= two64 ->
  exists t, tl_new ctrs seeds entries locs = Some t /\ tl_wf t /\ tl_samples t = ctrs /\ tl_w t = 0 /\
    forall h, h < two64 -> 1 <= locs -> tl_estimate t h = Some 0.
Proof. exact tl_new_spec. Qed.
Print Assumptions C13_fresh_estimates_zero.

Theorem C13_clear_zeroes :
  forall t h, tl_wf t -> h < two64 -> 1 <= bl_locs (tl_bl t) ->
  tl_wf (tl_clear t) /\ tl_estimate (tl_clear t) h = Some 0 /\ tl_w (tl_clear t) = 0.
Proof. exact tl_clear_spec. Qed.
Print Assumptions C13_clear_zeroes.

(* Non-vacuity: width 40 (not a power of two): a key recorded 20 times saturates at 16, another
   recorded twice estimates 2, an unseen one 0; and the 5th access of a fresh width-5 estimator
   resets the window and halves the counter. *)
Example C13_nonvacuous :
  (match tl_new 40 [11; 22; 33; 44] 383 7 with
   | Some t =>
       match tl_increments t (repeat 7 20%nat ++ [8; 9; 8]) with
       | Some t' => (tl_estimate t' 7, tl_estimate t' 8, tl_estimate t' 10)
       | None => (None, None, None)
       end
   | None => (None, None, None)
   end = (Some 16, Some 2, Some 0)) /\
  (match tl_new 5 [11; 22; 33; 44] 47 7 with
   | Some u =>
       match tl_increments u [7; 7; 7; 7], tl_increments u [7; 7; 7; 7; 7] with
       | Some u4, Some u5 => (tl_w u4, tl_estimate u4 7, tl_w u5, tl_estimate u5 7)
       | _, _ => (0, None, 0, None)
       end
   | None => (0, None, 0, None)
   end = (4, Some 4, 0, Some 2)).
Proof. split; vm_compute; reflexivity. Qed.
