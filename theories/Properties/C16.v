(* Property C16 — charged cost = given cost (or Coster value) + internal overhead.
   Only statements here; proofs are in CacheLocal.v. *)
From StrettoModel Require Import Base Metrics Policy PolicyProofs Ttl Store Cache CacheProofs CacheLocal PolicyVictims CacheInv CacheAgree CacheVictims.
Open Scope N_scope.

(* For every explicit cost, every Coster, every value: the item a plain insert of a non-resident key
   sends carries cost + (coster v if cost = 0). *)
Theorem C16_new_item_carries_cost_or_coster :
  forall c st a k cf v cost ttl,
  s_closed st = false -> aget k (st_map (s_store st)) = None ->
  exists st', start_op c st a (OInsert k cf v cost ttl false) =
    StepOk st' (mk_out PtInsBeforeSend [] RNone) /\
    client_of st' a = KInsSend (INew k cf (cost + (if (cost =? 0)%Z then c_coster c v else 0))%Z v
                                     {| t_created := s_now st; t_d := ttl |}) k.
Proof. exact new_item_cost. Qed.
Print Assumptions C16_new_item_carries_cost_or_coster.

(* When the processor admits it, the key is charged exactly item cost + item_size (or + 0 with
   ignore_internal_cost), for every item_size; a refused item is reported with that same amount. *)
Theorem C16_admission_charges_formula :
  forall c st h k cf cost v exp r st' o,
  s_pc st = PIdle -> h_arm h = Some ArmItem -> s_buf st = INew k cf cost v exp :: r ->
  WF (s_slfu st) -> NonNeg (s_slfu st) ->
  proc_step c st h = StepOk st' o ->
  exists victims added, s_pc st' = PNewAfterAdd k cf v exp (internal_cost c cost) victims added /\
    (added = true -> aget k (sl_kc (s_slfu st')) = Some (internal_cost c cost)).
Proof. exact admission_charges_formula. Qed.
Print Assumptions C16_admission_charges_formula.

(* Updates re-charge the entry accordingly once applied. *)
Theorem C16_update_recharges :
  forall c st h k cost ext r old,
  s_pc st = PIdle -> h_arm h = Some ArmItem -> s_buf st = IUpdate k cost ext :: r ->
  aget k (sl_kc (s_slfu st)) = Some old ->
  exists st', proc_step c st h = StepOk st' (mk_out PtProcLoop [] RNone) /\
    aget k (sl_kc (s_slfu st')) = Some (internal_cost c cost + ext)%Z.
Proof. exact update_item_recharges. Qed.
Print Assumptions C16_update_recharges.

(* The cost reported to on_evict for a swept entry is the charged cost. *)
Theorem C16_sweep_reports_charged_cost :
  forall c st h k cf rest acc t charge,
  s_pc st = PTickKey k cf rest acc -> st_expiration (s_store st) k = Some t ->
  negb (t_is_zero t) && t_is_expired (s_now st) t = true ->
  aget k (sl_kc (s_slfu st)) = Some charge ->
  exists st', proc_step c st h = StepOk st' (mk_out PtProcTickAfterPolicy [] RNone) /\
    s_pc st' = PTickAfterPolicy k cf charge rest acc /\ aget k (sl_kc (s_slfu st')) = None /\
    sl_used (s_slfu st') = (sl_used (s_slfu st) - charge)%Z.
Proof. exact sweep_reports_charged_cost. Qed.
Print Assumptions C16_sweep_reports_charged_cost.

(* The cost reported to on_evict for a policy victim equals the cost the victim was charged (proofs
   in PolicyVictims.v, CacheVictims.v): every victim pair the policy returns — whatever the sample
   order, however many refills — carries the charge the key had when the add began ... *)
Theorem C16_victims_report_their_charge :
  forall est oracle s k cost s' V a lg m,
  WF s -> (forall x, (est x < I64MAX)%Z) -> pol_add est oracle s k cost = AddDone s' (Some V) a lg m ->
  forall kv c, In (kv, c) V -> aget kv (sl_kc s) = Some c.
Proof. exact victims_report_their_charge. Qed.
Print Assumptions C16_victims_report_their_charge.

(* ... the processor keeps exactly those pairs ... *)
Theorem C16_admission_victims_carry_their_charges :
  forall c st h k cf cost v exp r st' o vs added cost',
  s_pc st = PIdle -> h_arm h = Some ArmItem -> s_buf st = INew k cf cost v exp :: r -> WF (s_slfu st) ->
  proc_step c st h = StepOk st' o -> s_pc st' = PNewAfterAdd k cf v exp cost' vs added ->
  forall kv cv, In (kv, cv) vs -> aget kv (sl_kc (s_slfu st)) = Some cv.
Proof. exact admission_victims_carry_their_charges. Qed.
Print Assumptions C16_admission_victims_carry_their_charges.

(* ... and the eviction step reports the pair's cost to on_evict. *)
Theorem C16_victim_eviction_reports_that_cost :
  forall c st h vk vc rest st' o,
  s_pc st = PNewVictim (vk, vc) rest -> proc_step c st h = StepOk st' o ->
  forall k cf v cost, In (CbEvict k cf v cost) (o_cbs o) -> k = vk /\ cost = vc.
Proof. exact victim_eviction_reports_that_cost. Qed.
Print Assumptions C16_victim_eviction_reports_that_cost.
