(* Property C06 — resident entries and policy charges always agree at quiescence.
   Only statements here; proofs are in CacheAgree.v. *)
From StrettoModel Require Import Base Metrics Sketch Bloom TinyLFU Policy Ttl Store Cache CacheProofs CacheInv CacheAgree.
Open Scope N_scope.

(* For every run — any history of inserts, updates, removes, expirations, evictions, clears; any
   number of client threads; every interleaving of their segments with the processor's and the
   policy worker's; either flavour; every configuration — in which keys are told apart by their
   index hash (every conflict hash is 0, as with TransparentKeyBuilder): whenever the cache is
   quiescent, a key is resident exactly when it is charged ...  (No hypothesis about errors is left:
   since fix 7541841 a remove() waits for room instead of losing its Delete to a full buffer.) *)
Theorem C06_quiescent_agree :
  forall c mc t now st,
  reach_cf c (cinit c mc t now) st -> quiescent st ->
  forall k, inS st k = inC st k.
Proof. exact quiescent_agree. Qed.
Print Assumptions C06_quiescent_agree.

(* ... and len() equals the number of charged entries. *)
Theorem C06_quiescent_len :
  forall c mc t now st,
  reach_cf c (cinit c mc t now) st -> quiescent st ->
  st_len (s_store st) = N.of_nat (length (sl_kc (s_slfu st))).
Proof. exact quiescent_len. Qed.
Print Assumptions C06_quiescent_len.

(* The inductive invariant: a key may be resident without charge only while the processor is about
   to remove it (pending victim, second half of a Delete or of a sweep, store not yet cleared), and
   charged without being resident only while its store insert is next, a Delete for it is on its
   way, or the policy is about to be cleared.  Preserved by every step of every actor. *)
Theorem C06_invariant_is_inductive :
  forall c st l st' o,
  Agree st -> ZeroConf st -> label_cf0 l ->
  cstep c st l = StepOk st' o -> Agree st'.
Proof. exact Agree_step. Qed.
Print Assumptions C06_invariant_is_inductive.

(* KNOWN FINDING D9 (index collisions, upstream Ristretto behaviour): with two keys sharing an index
   hash but differing in conflict hash the statement is false — remove(B) queues Delete{index}, whose
   policy.remove(index) un-charges resident A while store.try_remove declines on the conflict
   mismatch.  Machine-checked witness: after insert A=(1,conflict 1); remove B=(1,conflict 2), at
   quiescence index 1 is resident but not charged. *)
Definition d9_cfg : cfg :=
  {| c_ignore_internal := true; c_item_size := 48; c_buf_cap := 8; c_buffer_items := 64; c_metrics := false;
     c_validator := fun _ _ => true; c_coster := fun _ => 0%Z; c_async := false |}.
Definition d9_hint (a : arm) : hint := {| h_arm := Some a; h_oracle := []; h_tick_key := None |}.
Definition d9_run : list label :=
  [LOp 0 (OInsert 1 1 100 1 0 false); LClient 0;
   LProc (d9_hint ArmItem); LProc no_hint; LProc no_hint;
   LOp 0 (ORemove 1 2); LClient 0;
   LProc (d9_hint ArmItem); LProc no_hint].

Lemma C06_collision_refuted :
  match tl_new 16 [1; 2; 3; 4] 153 7 with
  | Some t =>
      match crun d9_cfg (cinit d9_cfg 10 t 1000) d9_run with
      | Some (st, _) => (inS st 1, inC st 1, match s_pc st with PIdle => true | _ => false end, s_buf st)
      | None => (false, false, false, [])
      end
  | None => (false, false, false, [])
  end = (true, false, true, []).
Proof. vm_compute. reflexivity. Qed.
