(* Property C07 — admission and eviction follow the TinyLFU / sampled-LFU rule.
   Only statements here; proofs are in PolicyProofs.v. *)
From StrettoModel Require Import Base Metrics Policy PolicyProofs.
From StrettoModel Require Consts.
Open Scope Z_scope.

(* Residents are sampled five at a time (the constant is read from the source on every run). *)
Theorem C07_samples_is_five : SAMPLES = 5%nat.
Proof. reflexivity. Qed.

(* When there is room a new key is always admitted and nothing is evicted. *)
Theorem C07_room_admits_without_eviction :
  forall est oracle s k cost,
    cost <= sl_max s -> aget k (sl_kc s) = None -> 0 <= sl_room_left s cost ->
    pol_add est oracle s k cost =
      AddDone (sl_increment s k cost) None true [] [(MCostAdd, u64_of_i64 cost)].
Proof. exact room_admits_without_eviction. Qed.
Print Assumptions C07_room_admits_without_eviction.

(* The first sample holds five distinct current residents, or all of them if fewer. *)
Theorem C07_first_sample_is_five_or_all :
  forall (kc : amap Z) smp,
    legal_fill kc [] smp = true ->
    length smp = Nat.min SAMPLES (length kc) /\ NoDup (map fst smp) /\
    (forall p, In p smp -> pair_in p kc = true).
Proof. exact first_sample_is_five_or_all. Qed.
Print Assumptions C07_first_sample_is_five_or_all.

(* In every iteration of the loop the chosen victim is an element of the sample, no sampled
   candidate is less popular, and it is the first such candidate. *)
Theorem C07_victim_is_least_popular_and_first :
  forall est l mk mh mi mc,
    (forall k, est k < I64MAX) -> l <> [] ->
    find_min0 est l = (mk, mh, mi, mc) ->
    nth_error l mi = Some (mk, mc) /\ mh = est mk /\
    (forall p, In p l -> mh <= est (fst p)) /\
    (forall j p, (j < mi)%nat -> nth_error l j = Some p -> mh < est (fst p)).
Proof. exact find_min0_spec. Qed.
Print Assumptions C07_victim_is_least_popular_and_first.

(* For a new key that does not fit: every iteration ran only while room was lacking and chose the
   minimum of its sample; on admission the victims are exactly the logged minima, each no more
   popular than the newcomer, and there is room at the end; the newcomer is rejected exactly when
   it is strictly less popular than the minimum of the last sample (ties admit), and then the
   victims are the minima of the earlier iterations. *)
Theorem C07_evict_only_while_room_lacking_reject_iff_strictly_less :
  forall est oracle s k cost s' v a l m,
    WF s -> NonNeg s -> cost <= sl_max s -> aget k (sl_kc s) = None -> sl_room_left s cost < 0 ->
    pol_add est oracle s k cost = AddDone s' v a l m ->
    Forall (fun e => il_room e < 0 /\
              find_min0 est (il_sample e) = (il_min_key e, il_min_hits e, il_min_id e, il_min_cost e)) l /\
    (a = true -> v = Some (map victim_of l) /\ Forall (fun e => il_min_hits e <= est k) l /\
                 0 <= sl_room_left s' 0) /\
    (a = false -> exists e, l = removelast l ++ [e] /\ est k < il_min_hits e /\
                 v = Some (map victim_of (removelast l)) /\
                 Forall (fun e => il_min_hits e <= est k) (removelast l)).
Proof. exact pol_add_rule. Qed.
Print Assumptions C07_evict_only_while_room_lacking_reject_iff_strictly_less.

(* Non-vacuity: an over-budget state left by an update, two victims, ties in popularity. *)
Example C07_nonvacuous :
  let est := fun k : key => match k with 1%N => 2 | 2%N => 1 | 3%N => 1 | 9%N => 1 | _ => 3 end in
  let s := {| sl_max := 10; sl_used := 12; sl_kc := [(1%N, 4); (2%N, 4); (3%N, 4)] |} in
  exists s' l m,
    pol_add est [[(1%N, 4); (2%N, 4); (3%N, 4)]; [(1%N, 4); (3%N, 4); (1%N, 4); (3%N, 4)]] s 9%N 5
      = AddDone s' (Some [(2%N, 4); (3%N, 4)]) true l m /\ sl_used s' = 9.
Proof. do 3 eexists. vm_compute. split; reflexivity. Qed.
