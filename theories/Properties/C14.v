(* Property C14 — doorkeeper Bloom filter: no false negatives, sound bit addressing, reset empties.
   Only statements here; proofs are in BloomProofs.v and TinyLFUProofs.v. *)
From StrettoModel Require Import Base Bloom BloomProofs TinyLFU TinyLFUProofs.
Open Scope N_scope.

(* For every history of add / contains_or_add / reset on a well-formed filter, every hash added
   since the last reset is reported present. *)
Theorem C14_no_false_negative :
  forall ops b acc b',
  bl_wf b -> Forall bop_ok ops -> Forall (fun h => h < two64) acc ->
  (forall h, In h acc -> bl_contains b h = Some true) ->
  brun b ops = Some b' ->
  bl_wf b' /\ forall h, In h (added_since_reset ops acc) -> bl_contains b' h = Some true.
Proof. exact bloom_no_false_negative. Qed.
Print Assumptions C14_no_false_negative.

(* contains h  <=>  every one of the set_locs probe positions of h is a set bit; positions are in
   range and the probe arithmetic does not overflow. *)
Theorem C14_contains_iff_all_probes_set :
  forall b hash, bl_wf b -> hash < two64 ->
  exists v, bl_contains b hash = Some v /\
    (v = true <-> forall j, j < bl_locs b ->
                    exists p, bl_loc b hash j = Some p /\ bit (bl_words b) p = true).
Proof. exact bl_contains_spec. Qed.
Print Assumptions C14_contains_iff_all_probes_set.

(* add sets exactly the probe positions of the hash and nothing else. *)
Theorem C14_add_sets_exactly_the_probes :
  forall b hash, bl_wf b -> hash < two64 ->
  exists b', bl_add b hash = Some b' /\ bl_wf b' /\
    bl_size b' = bl_size b /\ bl_exp b' = bl_exp b /\ bl_locs b' = bl_locs b /\ bl_shift b' = bl_shift b /\
    forall p, bit (bl_words b') p = true <->
      bit (bl_words b) p = true \/ exists j, j < bl_locs b /\ bl_loc b hash j = Some p.
Proof. exact bl_add_spec. Qed.
Print Assumptions C14_add_sets_exactly_the_probes.

(* The structural fact the false-positive analysis presupposes: `set idx` changes exactly bit idx,
   and distinct positions are distinct (word, bit-in-word) pairs — no two positions alias. *)
Theorem C14_set_changes_exactly_one_bit :
  forall ws idx ws', ws_set ws idx = Some ws' ->
  length ws' = length ws /\ forall p, bit ws' p = N.eqb p idx || bit ws p.
Proof. exact ws_set_spec. Qed.
Print Assumptions C14_set_changes_exactly_one_bit.

Theorem C14_bit_addressing_injective :
  forall p q, word_of p = word_of q -> bit_in_word p = bit_in_word q -> p = q.
Proof. exact bit_addressing_injective. Qed.
Print Assumptions C14_bit_addressing_injective.

(* reset / clear empty the filter completely. *)
Theorem C14_reset_empties :
  forall b, bl_wf b ->
  bl_wf (bl_reset b) /\ (forall p, bit (bl_words (bl_reset b)) p = false) /\
  forall g, g < two64 -> 1 <= bl_locs b -> bl_contains (bl_reset b) g = Some false.
Proof. exact bl_reset_spec. Qed.
Print Assumptions C14_reset_empties.

(* Sizing: the bit array is the smallest power of two >= max entries 512, allocated in full. *)
Theorem C14_size_is_smallest_power_of_two :
  forall n, let '(sz, e) := get_size n in
  sz = 2 ^ e /\ N.max n 512 <= sz /\ 9 <= e /\ (e = 9 \/ 2 ^ (e - 1) < N.max n 512).
Proof. exact get_size_spec. Qed.
Print Assumptions C14_size_is_smallest_power_of_two.

Theorem C14_new_filter_is_well_formed_and_empty :
  forall entries locs,
  N.log2_up (N.max entries 512) <= 64 -> locs * 2 ^ N.log2_up (N.max entries 512) <= two64 ->
  bl_wf (bl_new entries locs) /\ forall p, bit (bl_words (bl_new entries locs)) p = false.
Proof. exact bl_new_wf. Qed.
Print Assumptions C14_new_filter_is_well_formed_and_empty.

(* Non-vacuity: the capacity-1000 / 1 % filter (9585 entries, 7 probes, 2^14 bits): ten hashes that
   differ only in their high bits are all present, a fresh one is absent, and the bits they set are
   spread over many words (the defect repaired by a9aab8e confined them to the first word). *)
Example C14_nonvacuous :
  let hs := map (fun i => i * 1125899906842624 + 1) [0; 700; 1400; 2100; 2800; 3500; 4200; 4900; 5600; 6300] in
  match brun (bl_new 9585 7) (map BAdd hs) with
  | Some b' =>
      (forallb (fun h => match bl_contains b' h with Some true => true | _ => false end) hs,
       bl_contains b' 12345678901234567,
       8 <=? N.of_nat (length (filter (fun w => negb (N.eqb w 0)) (bl_words b'))))
  | None => (false, None, false)
  end = (true, Some false, true).
Proof. vm_compute. reflexivity. Qed.
