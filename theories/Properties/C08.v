(* Property C08 — every value leaves the cache through exactly one callback.
   Only statements here; proofs are in CacheTokens.v. *)
From StrettoModel Require Import Base Metrics Sketch Bloom TinyLFU Policy Ttl Store Cache CacheProofs CacheLocal CacheInv CacheAgree CacheTokens.
Open Scope N_scope.

(* One step of any actor, in any state with distinct store keys in which an admitted New item finds
   its key absent (both hold in every reachable state of a collision-free run): counted with
   multiplicity, the values held before the step plus those the step accepts equal the values held
   after it plus those it hands to callbacks plus those it drops silently — and the only silent
   drops are clear() emptying the store and a get_mut write overwriting a value in place. *)
Theorem C08_step_conserves_values :
  forall c st l st' o x,
  StoreND st -> admit_absent st -> cstep c st l = StepOk st' o ->
  cnt (held st ++ incoming c st l) x = cnt (held st' ++ cb_vals (o_cbs o) ++ lost c st l) x.
Proof. exact token_step. Qed.
Print Assumptions C08_step_conserves_values.

(* Over every collision-free run — any history of inserts, updates, removes, expirations, evictions,
   clears, from any number of threads, under every interleaving with the processor: what entered =
   what is still held + what was handed to callbacks + what clear()/in-place writes dropped. *)
Theorem C08_values_are_conserved :
  forall c mc t now st ins cbs ls x,
  trace c (cinit c mc t now) st ins cbs ls -> cnt ins x = cnt (held st ++ cbs ++ ls) x.
Proof. exact values_are_conserved. Qed.
Print Assumptions C08_values_are_conserved.

(* Never both and never twice: with every written value distinct, a value is in exactly one place. *)
Theorem C08_each_value_is_in_exactly_one_place :
  forall c mc t now st ins cbs ls,
  trace c (cinit c mc t now) st ins cbs ls -> NoDup ins -> NoDup (held st ++ cbs ++ ls).
Proof. exact each_value_is_in_exactly_one_place. Qed.
Print Assumptions C08_each_value_is_in_exactly_one_place.

(* Nothing accepted vanishes. *)
Theorem C08_nothing_vanishes :
  forall c mc t now st ins cbs ls v,
  trace c (cinit c mc t now) st ins cbs ls -> In v ins -> In v (held st) \/ In v cbs \/ In v ls.
Proof. exact nothing_vanishes. Qed.
Print Assumptions C08_nothing_vanishes.

(* A value handed to a callback is no longer held, so no later lookup returns it. *)
Theorem C08_handed_back_is_gone :
  forall c mc t now st ins cbs ls v,
  trace c (cinit c mc t now) st ins cbs ls -> NoDup ins -> In v cbs -> ~ In v (held st).
Proof. exact handed_back_is_gone. Qed.
Print Assumptions C08_handed_back_is_gone.

(* KNOWN FINDING D9: with two keys sharing an index hash the statement is false.  Witness: insert
   A=(1, conflict 1) value 100; remove B=(1, conflict 2) un-charges index 1; insert B value 200 is
   admitted by the policy (index 1 is not charged) and then declined by store.try_insert on the
   conflict mismatch: 200 was accepted (insert returned true), is not held, and no callback got it. *)
Definition d9_cfg : cfg :=
  {| c_ignore_internal := true; c_item_size := 48; c_buf_cap := 8; c_buffer_items := 64; c_metrics := false;
     c_validator := fun _ _ => true; c_coster := fun _ => 0%Z; c_async := false |}.
Definition d9_item : hint := {| h_arm := Some ArmItem; h_oracle := []; h_tick_key := None |}.
Definition d9_run : list label :=
  [LOp 0 (OInsert 1 1 100 1 0 false); LClient 0; LProc d9_item; LProc no_hint; LProc no_hint;
   LOp 0 (ORemove 1 2); LClient 0; LProc d9_item; LProc no_hint;
   LOp 0 (OInsert 1 2 200 1 0 false); LClient 0; LProc d9_item; LProc no_hint; LProc no_hint].

Lemma C08_collision_refuted :
  match tl_new 16 [1; 2; 3; 4] 153 7 with
  | Some t =>
      match crun d9_cfg (cinit d9_cfg 10 t 1000) d9_run with
      | Some (st, os) => (held st, flat_map (fun o => cb_vals (o_cbs o)) os, map o_res (firstn 1 (skipn 10 os)))
      | None => ([], [], [])
      end
  | None => ([], [], [])
  end = ([100], [], [RBool true]).
Proof. vm_compute. reflexivity. Qed.
