(* Property C11 — clear() empties the cache and leaves it fully usable.
   Only statements here; proofs are in CacheInv.v, CacheFresh.v and CacheClearLive.v. *)
From StrettoModel Require Import Base Metrics Sketch Bloom TinyLFU Policy Ttl Store Cache CacheProofs CacheInv CacheMetrics CacheFresh CacheClearLive.
Open Scope N_scope.

(* clear() returns only after the processor has acknowledged it.  In every reachable state (every
   history, every interleaving, either flavour) that acknowledging step finds and leaves: no resident
   entry, no expiry listing, no charge, a charged total of zero and (metrics on) all counters zero.
   Clients may have run arbitrarily while the clear was in progress: they cannot add entries or
   charges.  (The defect repaired by b383703: clear used to run on the caller's thread.) *)
Theorem C11_clear_ack_leaves_cache_empty :
  forall c mc t now st sig h,
  reach c (cinit c mc t now) st -> s_pc st = PClearAfterStore sig ->
  exists st', proc_step c st h = StepOk st' (mk_out PtProcLoop [] RNone) /\
    mem_N sig (s_done st') = true /\
    s_store st' = st_empty /\ sl_kc (s_slfu st') = [] /\ sl_used (s_slfu st') = 0%Z /\
    (c_metrics c = true -> s_mets st' = metrics_zero) /\ s_pc st' = PIdle.
Proof. exact clear_ack_leaves_cache_empty. Qed.
Print Assumptions C11_clear_ack_leaves_cache_empty.

(* Buffered, not yet applied work at the moment of the clear: every buffered New item is handed to
   on_evict, every buffered waiter is released, nothing else fires. *)
Theorem C11_clear_drains_buffer :
  forall its done cbs done' cbs',
  drain_items its done cbs = (done', cbs') ->
  (forall k cf cost v exp, In (INew k cf cost v exp) its -> In (CbEvict k cf v cost) cbs') /\
  (forall x, In x cbs -> In x cbs') /\
  (forall id, In (IWait id) its -> mem_N id done' = true).
Proof. exact clear_drains_buffer. Qed.
Print Assumptions C11_clear_drains_buffer.

Theorem C11_invariant_is_inductive :
  forall c st l st' o, ClearEmpty st -> cstep c st l = StepOk st' o -> ClearEmpty st'.
Proof. exact ClearEmpty_step. Qed.
Print Assumptions C11_invariant_is_inductive.

(* "The cache then behaves like a fresh one" (proofs in CacheFresh.v).  The geometry and parameters
   of the popularity estimator never change — whatever lookups, aging resets and clears happen ... *)
Theorem C11_estimator_shape_is_invariant :
  forall c st l st' o, cstep c st l = StepOk st' o -> tl_shape (s_tlfu st') = tl_shape (s_tlfu st).
Proof. exact estimator_shape_is_invariant. Qed.
Print Assumptions C11_estimator_shape_is_invariant.

(* ... so clear() leaves the estimator (count-min rows, doorkeeper, window counter) EXACTLY as the
   builder made it, together with an empty policy; the acknowledging step (above) then finds the
   store, the expiry index and the counters empty too: the state a fresh cache starts from. *)
Theorem C11_clear_restores_the_fresh_estimator :
  forall c mc ctrs seeds entries locs t0 now st h sig,
  tl_new ctrs seeds entries locs = Some t0 ->
  reach c (cinit c mc t0 now) st -> s_pc st = PClearAfterDrain sig ->
  exists st', proc_step c st h = StepOk st' (mk_out PtProcClearAfterPolicy [] RNone) /\
    s_tlfu st' = t0 /\ sl_kc (s_slfu st') = [] /\ sl_used (s_slfu st') = 0%Z.
Proof. exact clear_restores_the_fresh_estimator. Qed.
Print Assumptions C11_clear_restores_the_fresh_estimator.

(* clear() — and the clear inside close() — is never stranded (proofs in CacheClearLive.v): in every
   reachable state, whatever races with it, a client blocked on its clear signal can return now, or
   its signal is still queued for a live processor, or the processor is performing that very clear;
   a processor that exits releases every pending signal. *)
Theorem C11_clear_never_stuck :
  forall c mc t now st a id closing,
  reach c (cinit c mc t now) st -> client_of st a = KClearBlock id closing ->
  (exists st' o, continue_client c st a = StepOk st' o) \/
  (In id (s_clear_sigs st) /\ s_pc st <> PExited) \/ clearing (s_pc st) id.
Proof. exact clear_never_stuck. Qed.
Print Assumptions C11_clear_never_stuck.

Theorem C11_clear_wait_invariant_is_inductive :
  forall c st l st' o, ClearWaitInv st -> cstep c st l = StepOk st' o -> ClearWaitInv st'.
Proof. exact ClearWaitInv_step. Qed.
Print Assumptions C11_clear_wait_invariant_is_inductive.
