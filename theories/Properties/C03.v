(* Property C03 — TTL visibility: nothing is served after its TTL, nothing expires without one.
   Only statements here; proofs are in StoreProofs.v. *)
From StrettoModel Require Import Base Ttl Store StoreProofs.
Open Scope N_scope.

(* Once d has elapsed since the insert, get / get_mut / get_ttl (all go through st_get) return
   nothing — for every d > 0, every instant, whatever the second boundaries. *)
Theorem C03_expired_is_invisible :
  forall now s k c e,
  aget k (st_map s) = Some e -> 0 < t_d (e_exp e) -> t_created (e_exp e) + t_d (e_exp e) <= now ->
  st_get now s k c = None.
Proof. exact expired_is_invisible. Qed.
Print Assumptions C03_expired_is_invisible.

(* Before that the entry is served ... *)
Theorem C03_live_is_visible :
  forall now s k c e,
  aget k (st_map s) = Some e -> t_created (e_exp e) <= now -> now < t_created (e_exp e) + t_d (e_exp e) ->
  conflict_ok c e = true -> st_get now s k c = Some e.
Proof. exact live_is_visible. Qed.
Print Assumptions C03_live_is_visible.

(* ... and get_ttl / ValueRef::ttl report exactly the remaining time: at most d, never increasing. *)
Theorem C03_ttl_reports_remaining :
  forall now t, 0 < t_d t -> t_created t <= now -> now < t_created t + t_d t ->
  t_get_ttl now t = Some (TtlNs (t_created t + t_d t - now)) /\ t_created t + t_d t - now <= t_d t.
Proof. exact ttl_reports_remaining. Qed.
Print Assumptions C03_ttl_reports_remaining.

Theorem C03_ttl_never_increases :
  forall now now' t, 0 < t_d t -> t_created t <= now -> now <= now' -> now' < t_created t + t_d t ->
  forall r r', t_get_ttl now t = Some (TtlNs r) -> t_get_ttl now' t = Some (TtlNs r') -> r' <= r.
Proof. exact ttl_antitone. Qed.
Print Assumptions C03_ttl_never_increases.

(* An entry inserted without TTL reports no expiry and is served at every later instant. *)
Theorem C03_no_ttl_reports_no_expiry :
  forall now t, t_d t = 0 -> t_get_ttl now t = Some TtlInf.
Proof. exact zero_ttl_reports_no_expiry. Qed.
Print Assumptions C03_no_ttl_reports_no_expiry.

Theorem C03_no_ttl_never_times_out :
  forall now s k c e,
  aget k (st_map s) = Some e -> t_d (e_exp e) = 0 -> conflict_ok c e = true -> st_get now s k c = Some e.
Proof. exact no_ttl_never_times_out. Qed.
Print Assumptions C03_no_ttl_never_times_out.

(* Re-inserting a resident key replaces value and deadline at once (ttl 0: no expiry any more),
   and touches no other key. *)
Theorem C03_reinsert_replaces_deadline :
  forall vld s k v c t s' old,
  st_try_update vld s k v c t = (s', UUpdate old) ->
  exists e, aget k (st_map s) = Some e /\ e_val e = old /\
    aget k (st_map s') = Some {| e_conflict := e_conflict e; e_val := v; e_exp := t |} /\
    forall k', k' <> k -> aget k' (st_map s') = aget k' (st_map s).
Proof. exact update_replaces_deadline. Qed.
Print Assumptions C03_reinsert_replaces_deadline.

(* Non-vacuity: a 1.5 s TTL straddling a second boundary: visible 1 ns before the deadline with
   1 ns left, invisible at the deadline; re-inserted without TTL it is visible an hour later. *)
Example C03_nonvacuous :
  let t := {| t_created := 1700000000600000000; t_d := 1500000000 |} in
  let s := {| st_map := [(7, {| e_conflict := 0; e_val := 42; e_exp := t |})]; st_em := [] |} in
  (match st_get 1700000002099999999 s 7 0 with Some e => Some (e_val e) | None => None end,
   t_get_ttl 1700000002099999999 t,
   match st_get 1700000002100000000 s 7 0 with Some e => Some (e_val e) | None => None end,
   match st_try_update (fun _ _ => true) s 7 43 0 {| t_created := 1700000001000000000; t_d := 0 |} with
   | (s', _) => match st_get 1700003600000000000 s' 7 0 with Some e => Some (e_val e) | None => None end
   end)
  = (Some 42, Some (TtlNs 1), None, Some 43).
Proof. vm_compute. reflexivity. Qed.
