(* Base.v — shared definitions: association-list maps keyed by N, machine-integer helpers.
   Executable, stdlib only.  Lemmas about these live in BaseProofs.v. *)
From Coq Require Export List NArith ZArith Bool Lia.
Export ListNotations.

Definition key := N.
Definition amap (V : Type) := list (key * V).

Fixpoint aget {V} (k : key) (m : amap V) : option V :=
  match m with
  | [] => None
  | (k', v) :: m' => if N.eqb k k' then Some v else aget k m'
  end.

Fixpoint adel {V} (k : key) (m : amap V) : amap V :=
  match m with
  | [] => []
  | (k', v) :: m' => if N.eqb k k' then adel k m' else (k', v) :: adel k m'
  end.

Definition aset {V} (k : key) (v : V) (m : amap V) : amap V := (k, v) :: adel k m.

Definition amem {V} (k : key) (m : amap V) : bool :=
  match aget k m with Some _ => true | None => false end.

Definition akeys {V} (m : amap V) : list key := map fst m.

Fixpoint asum (m : amap Z) : Z :=
  match m with [] => 0%Z | (_, v) :: m' => (v + asum m')%Z end.

(* machine integers *)
Definition two64 : N := 18446744073709551616%N.
Definition wrap64 (n : N) : N := N.modulo n two64.
Definition I64MAX : Z := 9223372036854775807%Z.
Definition I64MIN : Z := (-9223372036854775808)%Z.
Definition in_i64 (z : Z) : bool := (I64MIN <=? z)%Z && (z <=? I64MAX)%Z.
(* `x as u64` for an i64 x *)
Definition u64_of_i64 (z : Z) : N := Z.to_N (Z.modulo z (Z.of_N two64)).

(* list helpers *)
Fixpoint list_set {A} (l : list A) (i : nat) (x : A) : list A :=
  match l, i with
  | [], _ => []
  | _ :: t, O => x :: t
  | h :: t, S i' => h :: list_set t i' x
  end.

Fixpoint mem_N (k : N) (l : list N) : bool :=
  match l with [] => false | x :: t => N.eqb k x || mem_N k t end.

Fixpoint nodup_N (l : list N) : bool :=
  match l with [] => true | x :: t => negb (mem_N x t) && nodup_N t end.

(* insertion sort on keys, for canonical printing *)
Fixpoint ins_sorted {V} (p : key * V) (l : amap V) : amap V :=
  match l with
  | [] => [p]
  | q :: t => if N.leb (fst p) (fst q) then p :: l else q :: ins_sorted p t
  end.
Definition asort {V} (m : amap V) : amap V := fold_right ins_sorted [] m.

Fixpoint ins_N (x : N) (l : list N) : list N :=
  match l with [] => [x] | y :: t => if N.leb x y then x :: l else y :: ins_N x t end.
Definition sort_N (l : list N) : list N := fold_right ins_N [] l.

Arguments aset : simpl never.
