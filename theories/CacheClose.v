(* CacheClose.v — property C12: when close() returns Ok no worker is left behind.  In every reachable
   state: a closer that is past the stop handshake has a processor that has left its loop or holds
   its (buffered, async) stop message; likewise for the policy worker; and in the sync flavour, where
   both handshakes are rendezvous, both have exited before close() returns. *)
From StrettoModel Require Import Base BaseProofs Metrics Sketch Bloom TinyLFU TinyLFUProofs Policy PolicyProofs Ttl Store StoreProofs
  Cache CacheProofs CacheLocal CacheInv.
From Coq Require Import ZifyBool ZifyNat ZifyN.
Open Scope N_scope.

Definition proc_done (st : cstate) : Prop := s_pc st = PExited \/ 0 < s_stop_msgs st.
Definition work_done (st : cstate) : Prop := s_wpc st = WExited \/ 0 < s_pol_stop_msgs st.

Definition past_stop (k : ccont) : bool :=
  match k with
  | KCloseStopTaken | KCloseBeforePolicy | KPolCloseBeforeStop | KPolCloseStopOffered | KPolCloseStopTaken | KPolCloseAfterStop => true
  | _ => false
  end.
Definition past_pol_stop (k : ccont) : bool :=
  match k with KPolCloseStopTaken | KPolCloseAfterStop => true | _ => false end.

Definition CloseInv (st : cstate) : Prop :=
  (forall a, past_stop (client_of st a) = true -> proc_done st) /\
  (forall a, past_pol_stop (client_of st a) = true -> work_done st) /\
  (s_pol_closed st = true -> proc_done st /\ work_done st).

Ltac repc := repeat match goal with E : s_pc ?s = _ |- context [s_pc ?s] => rewrite E | E : s_wpc ?s = _ |- context [s_wpc ?s] => rewrite E end.
Ltac unemit_all := unfold emit in *; try match goal with |- context [c_metrics ?c] => destruct (c_metrics c) | H : context [c_metrics ?c] |- _ => destruct (c_metrics c) end; sproj.

Lemma ring_push_close_frame c st k :
  s_pc (ring_push c st k) = s_pc st /\ s_stop_msgs (ring_push c st k) = s_stop_msgs st /\
  s_wpc (ring_push c st k) = s_wpc st /\ s_pol_stop_msgs (ring_push c st k) = s_pol_stop_msgs st /\
  s_clients (ring_push c st k) = s_clients st /\ s_pol_closed (ring_push c st k) = s_pol_closed st.
Proof.
  unfold ring_push, policy_push. repeat match goal with |- context [if ?b then _ else _] => destruct b eqn:? end;
    try destruct (s_ring st ++ [k]); unemit; auto 10.
Qed.

(* once done, always done *)
Lemma proc_done_step c st l st' o : proc_done st -> cstep c st l = StepOk st' o -> proc_done st'.
Proof.
  intros D H. unfold proc_done in *. destruct l as [a op|a|h|h|dt|].
  - destruct op; crush_step H; open_shapes; unemit_all; repc; try assumption.
    all: match goal with |- context [ring_push ?c0 ?s0 ?k0] => destruct (ring_push_close_frame c0 s0 k0) as (R1 & R2 & _); rewrite R1, R2; assumption end.
  - cbn [cstep] in H. unfold continue_client in H. destruct (client_of st a) eqn:CA; crush_step H; open_shapes; unemit_all; repc;
      try assumption; try (destruct D as [D|D]; [left; congruence|right; lia]).
  - crush_step H; open_shapes; unemit_all; repc; try (left; reflexivity); try (destruct D as [D|D]; [congruence|right; exact D]).
  - crush_step H; open_shapes; unemit_all; repc; assumption.
  - crush_step H; assumption.
  - crush_step H; assumption.
Qed.

Lemma work_done_step c st l st' o : work_done st -> cstep c st l = StepOk st' o -> work_done st'.
Proof.
  intros D H. unfold work_done in *. destruct l as [a op|a|h|h|dt|].
  - destruct op; crush_step H; open_shapes; unemit_all; repc; try assumption.
    all: match goal with |- context [ring_push ?c0 ?s0 ?k0] => destruct (ring_push_close_frame c0 s0 k0) as (_ & _ & R1 & R2 & _); rewrite R1, R2; assumption end.
  - cbn [cstep] in H. unfold continue_client in H. destruct (client_of st a) eqn:CA; crush_step H; open_shapes; unemit_all; repc;
      try assumption; try (destruct D as [D|D]; [left; congruence|right; lia]).
  - crush_step H; open_shapes; unemit_all; repc; assumption.
  - crush_step H; open_shapes; unemit_all; repc; try (left; reflexivity); try (destruct D as [D|D]; [congruence|right; exact D]).
  - crush_step H; assumption.
  - crush_step H; assumption.
Qed.

Lemma client_of_clients st1 st2 b : s_clients st1 = s_clients st2 -> client_of st1 b = client_of st2 b.
Proof. unfold client_of. intros ->. reflexivity. Qed.

(* a client gets past the stop handshake only when the processor is done (exited or holding the stop) *)
Lemma past_stop_new c st l st' o b :
  cstep c st l = StepOk st' o -> past_stop (client_of st' b) = true -> past_stop (client_of st b) = true \/ proc_done st'.
Proof.
  intros H. unfold proc_done. destruct l as [a op|a|h|h|dt|].
  - destruct op; crush_step H; open_shapes; unemit_all; try (intros X; left; exact X);
      try (rewrite client_of_set; destruct (N.eqb_spec b a) as [->|Hne]; cbn [past_stop]; [discriminate|intros X; left; exact X]).
    all: rewrite client_of_set; destruct (N.eqb_spec b a) as [->|Hne]; cbn [past_stop]; [discriminate|];
      unfold client_of; match goal with |- context [ring_push ?c0 ?s0 ?k0] => destruct (ring_push_close_frame c0 s0 k0) as (_ & _ & _ & _ & R & _); rewrite R end; intros X; left; exact X.
  - cbn [cstep] in H. unfold continue_client in H. destruct (client_of st a) eqn:CA; crush_step H; open_shapes; unemit_all;
      rewrite client_of_set; (destruct (N.eqb_spec b a) as [->|Hne]; [rewrite CA|unfold client_of; sproj; intros X; left; exact X]);
      cbn [past_stop]; try discriminate; try (intros _; left; reflexivity); intros _; right; repc; first [left; reflexivity|right; sproj; lia].
  - crush_step H; open_shapes; unemit_all; try (intros X; left; exact X);
      rewrite ?client_of_set; intros X; right; left; reflexivity.
  - crush_step H; open_shapes; unemit_all; try (intros X; left; exact X).
    change (client_of (upd_wpc (set_client st n KPolCloseStopTaken) WExited) b) with (client_of (set_client st n KPolCloseStopTaken) b).
    rewrite client_of_set. destruct (N.eqb_spec b n) as [->|Hne]; [|intros X; left; exact X].
    intros _. left. match goal with E : client_of st n = _ |- _ => rewrite E end. reflexivity.
  - crush_step H. intros X; left; exact X.
  - crush_step H. intros X; left; exact X.
Qed.

Lemma past_pol_stop_new c st l st' o b :
  cstep c st l = StepOk st' o -> past_pol_stop (client_of st' b) = true -> past_pol_stop (client_of st b) = true \/ work_done st'.
Proof.
  intros H. unfold work_done. destruct l as [a op|a|h|h|dt|].
  - destruct op; crush_step H; open_shapes; unemit_all; try (intros X; left; exact X);
      try (rewrite client_of_set; destruct (N.eqb_spec b a) as [->|Hne]; cbn [past_pol_stop]; [discriminate|intros X; left; exact X]).
    all: rewrite client_of_set; destruct (N.eqb_spec b a) as [->|Hne]; cbn [past_pol_stop]; [discriminate|];
      unfold client_of; match goal with |- context [ring_push ?c0 ?s0 ?k0] => destruct (ring_push_close_frame c0 s0 k0) as (_ & _ & _ & _ & R & _); rewrite R end; intros X; left; exact X.
  - cbn [cstep] in H. unfold continue_client in H. destruct (client_of st a) eqn:CA; crush_step H; open_shapes; unemit_all;
      rewrite client_of_set; (destruct (N.eqb_spec b a) as [->|Hne]; [rewrite CA|unfold client_of; sproj; intros X; left; exact X]);
      cbn [past_pol_stop]; try discriminate; try (intros _; left; reflexivity); intros _; right; repc; first [left; reflexivity|right; sproj; lia].
  - crush_step H; open_shapes; unemit_all; try (intros X; left; exact X).
    all: unfold client_of, set_client; sproj; destruct (N.eq_dec b n) as [->|Hne];
      [rewrite aget_aset_same; cbn [past_pol_stop]; discriminate|rewrite aget_aset_other by assumption; intros X; left; exact X].
  - crush_step H; open_shapes; unemit_all; try (intros X; left; exact X).
    intros _. right. left. reflexivity.
  - crush_step H. intros X; left; exact X.
  - crush_step H. intros X; left; exact X.
Qed.

(* the policy is marked closed only by a closer that is past both handshakes *)
Lemma pol_closed_new c st l st' o :
  cstep c st l = StepOk st' o -> s_pol_closed st' = true ->
  s_pol_closed st = true \/ exists a, l = LClient a /\ client_of st a = KPolCloseAfterStop.
Proof.
  intros H. destruct l as [a op|a|h|h|dt|].
  - destruct op; crush_step H; open_shapes; unemit_all; try (intros X; left; exact X).
    all: match goal with |- context [ring_push ?c0 ?s0 ?k0] => destruct (ring_push_close_frame c0 s0 k0) as (_ & _ & _ & _ & _ & R); rewrite R end; intros X; left; exact X.
  - cbn [cstep] in H. unfold continue_client in H. destruct (client_of st a) eqn:CA; crush_step H; open_shapes; unemit_all;
      intros X; first [left; exact X | left; congruence | right; eauto].
  - crush_step H; open_shapes; unemit_all; intros X; left; exact X.
  - crush_step H; open_shapes; unemit_all; intros X; left; exact X.
  - crush_step H. intros X; left; exact X.
  - crush_step H. intros X; left; exact X.
Qed.

Theorem CloseInv_step c st l st' o : CloseInv st -> cstep c st l = StepOk st' o -> CloseInv st'.
Proof.
  intros (I1 & I2 & I3) H. split; [|split].
  - intros b Hb. destruct (past_stop_new c st l st' o b H Hb) as [X|X]; [|exact X].
    eapply proc_done_step; [exact (I1 b X)|exact H].
  - intros b Hb. destruct (past_pol_stop_new c st l st' o b H Hb) as [X|X]; [|exact X].
    eapply work_done_step; [exact (I2 b X)|exact H].
  - intros Hp. destruct (pol_closed_new c st l st' o H Hp) as [X|(a & -> & CA)].
    + destruct (I3 X) as (A & B). split; [eapply proc_done_step|eapply work_done_step]; eassumption.
    + split; [eapply proc_done_step; [apply (I1 a); rewrite CA; reflexivity|exact H]
             |eapply work_done_step; [apply (I2 a); rewrite CA; reflexivity|exact H]].
Qed.

Lemma CloseInv_init c mc t now : CloseInv (cinit c mc t now).
Proof. split; [|split]; [intros a X; discriminate X|intros a X; discriminate X|intros X; discriminate X]. Qed.

Theorem reachable_CloseInv c mc t now st : reach c (cinit c mc t now) st -> CloseInv st.
Proof.
  intros R. apply (reach_ind_inv c (cinit c mc t now) CloseInv); [apply CloseInv_init| |exact R].
  intros st0 l st1 o W S. eapply CloseInv_step; eassumption.
Qed.

(* sync flavour: both stop channels are rendezvous channels, nothing is ever buffered in them *)
Definition NoMsgs (st : cstate) : Prop := s_stop_msgs st = 0 /\ s_pol_stop_msgs st = 0.

Lemma NoMsgs_step c st l st' o : c_async c = false -> NoMsgs st -> cstep c st l = StepOk st' o -> NoMsgs st'.
Proof.
  intros SY (M1 & M2) H. unfold NoMsgs.
  assert (SC : stop_cap c = 0) by (unfold stop_cap; rewrite SY; reflexivity).
  destruct l as [a op|a|h|h|dt|].
  - destruct op; crush_step H; open_shapes; unemit_all; try (split; assumption).
    all: match goal with |- context [ring_push ?c0 ?s0 ?k0] => destruct (ring_push_close_frame c0 s0 k0) as (_ & R1 & _ & R2 & _); rewrite R1, R2 end; split; assumption.
  - cbn [cstep] in H. unfold continue_client in H. destruct (client_of st a) eqn:CA; crush_step H; open_shapes; unemit_all;
      try (split; assumption); exfalso; rewrite SC in *; lia.
  - crush_step H; open_shapes; unemit_all; try (split; assumption); exfalso; lia.
  - crush_step H; open_shapes; unemit_all; try (split; assumption); exfalso; lia.
  - crush_step H. split; assumption.
  - crush_step H. split; assumption.
Qed.

(* C12, sync flavour: when the closer is about to publish the policy's closed flag and return Ok,
   the cache processor and the policy worker have both left their loops; and once the policy is
   marked closed they stay exited *)
Theorem sync_close_returns_after_workers_exit c mc t now st a :
  c_async c = false -> reach c (cinit c mc t now) st ->
  (client_of st a = KPolCloseAfterStop \/ s_pol_closed st = true) ->
  s_pc st = PExited /\ s_wpc st = WExited.
Proof.
  intros SY R Hk.
  assert (NM : NoMsgs st).
  { apply (reach_ind_inv c (cinit c mc t now) NoMsgs); [split; reflexivity| |exact R].
    intros st0 l st1 o W S. eapply NoMsgs_step; eassumption. }
  destruct NM as (M1 & M2). destruct (reachable_CloseInv c mc t now st R) as (I1 & I2 & I3).
  assert (PD : proc_done st /\ work_done st).
  { destruct Hk as [CA|PC]; [|exact (I3 PC)]. split; [apply (I1 a)|apply (I2 a)]; rewrite CA; reflexivity. }
  destruct PD as ([A|A] & [B|B]); try lia. auto.
Qed.

(* either flavour: a closer past the handshakes has a processor / policy worker that has exited or
   holds its stop message (async: the buffered message makes the stop arm permanently ready) *)
Theorem close_leaves_no_worker_behind c mc t now st a :
  reach c (cinit c mc t now) st -> (client_of st a = KPolCloseAfterStop \/ s_pol_closed st = true) ->
  (s_pc st = PExited \/ 0 < s_stop_msgs st) /\ (s_wpc st = WExited \/ 0 < s_pol_stop_msgs st).
Proof.
  intros R Hk. destruct (reachable_CloseInv c mc t now st R) as (I1 & I2 & I3).
  destruct Hk as [CA|PC]; [|exact (I3 PC)]. split; [apply (I1 a)|apply (I2 a)]; rewrite CA; reflexivity.
Qed.

(* close() is final: no step of any actor re-opens the cache or the policy *)
Theorem closed_is_final c st l st' o :
  cstep c st l = StepOk st' o ->
  (s_closed st = true -> s_closed st' = true) /\ (s_pol_closed st = true -> s_pol_closed st' = true) /\
  (s_pc st = PExited -> s_pc st' = PExited) /\ (s_wpc st = WExited -> s_wpc st' = WExited).
Proof.
  intros H. destruct l as [a op|a|h|h|dt|].
  - destruct op; crush_step H; open_shapes; unemit_all; repeat split; intros; try assumption; try congruence;
      match goal with |- context [ring_push ?c0 ?s0 ?k0] =>
        destruct (ring_push_close_frame c0 s0 k0) as (R1 & _ & R3 & _ & _ & R6); rewrite ?R1, ?R3, ?R6; try assumption;
        unfold ring_push, policy_push; repeat match goal with |- context [if ?b then _ else _] => destruct b end; try destruct (s_ring s0 ++ [k0]); unemit; assumption end.
  - cbn [cstep] in H. unfold continue_client in H. destruct (client_of st a) eqn:CA; crush_step H; open_shapes; unemit_all;
      repeat split; intros; try assumption; try congruence; reflexivity.
  - crush_step H; open_shapes; unemit_all; repeat split; intros; try assumption; try congruence; reflexivity.
  - crush_step H; open_shapes; unemit_all; repeat split; intros; try assumption; try congruence; reflexivity.
  - crush_step H. repeat split; intros; assumption.
  - crush_step H. repeat split; intros; assumption.
Qed.
