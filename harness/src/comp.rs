//! Component-level suites: count-min row, sketch, Bloom filter, TinyLFU, policy.
//!
//! `Exec` is an interpreter of trace operation lines against the real code (through the
//! `stretto::verif` facades); the generators only choose operations.  The same interpreter
//! replays recorded cases (`harness replay`).
use crate::rng::Rng;
use crate::trace::Trace;
use std::panic::{catch_unwind, AssertUnwindSafe};
use std::sync::{Arc, Mutex};
use stretto::verif::{self, BloomSnap, PolicySnap, SketchSnap, TlfuSnap, VBloom, VPolicy, VRow, VSketch, VTinyLFU};

pub fn hex(b: &[u8]) -> String {
    b.iter().map(|x| format!("{:02x}", x)).collect()
}

pub fn str_sketch(s: &SketchSnap) -> String {
    format!(
        "mask={} rows={}",
        s.mask,
        s.rows.iter().map(|r| hex(r)).collect::<Vec<_>>().join(",")
    )
}

pub fn str_bloom(b: &BloomSnap) -> String {
    format!(
        "size={} exp={} locs={} shift={} words={}",
        b.size,
        b.size_exp,
        b.set_locs,
        b.shift,
        b.words.iter().map(|w| w.to_string()).collect::<Vec<_>>().join(",")
    )
}

pub fn str_tlfu(t: &TlfuSnap) -> String {
    format!("samples={} w={} {} {}", t.samples, t.w, str_sketch(&t.sketch), str_bloom(&t.bloom))
}

pub fn str_kc(kc: &[(u64, i64)]) -> String {
    if kc.is_empty() {
        "-".into()
    } else {
        kc.iter().map(|(k, c)| format!("{}:{}", k, c)).collect::<Vec<_>>().join(",")
    }
}

pub fn str_policy_core(p: &PolicySnap) -> String {
    format!("max={} used={} kc={}", p.max_cost, p.used, str_kc(&p.key_costs))
}

pub fn str_metrics(m: &stretto::Metrics) -> String {
    [
        m.get_hits(),
        m.get_misses(),
        m.get_keys_added(),
        m.get_keys_updated(),
        m.get_keys_evicted(),
        m.get_cost_added(),
        m.get_cost_evicted(),
        m.get_sets_dropped(),
        m.get_sets_rejected(),
        m.get_gets_dropped(),
        m.get_gets_kept(),
    ]
    .iter()
    .map(|x| x.unwrap().to_string())
    .collect::<Vec<_>>()
    .join(",")
}

/// `calc_size_by_wrong_positives` redone with the same f64 operations: the model takes the
/// resulting `(entries, locs)` as parameters (the floating-point step itself is trusted).
pub fn bloom_entries_locs(cap: usize, fp: f64) -> (u64, u64) {
    if fp < 1f64 {
        let n = cap as f64;
        let ln2 = std::f64::consts::LN_2;
        let size = -1f64 * n * fp.ln() / ln2.powf(2f64);
        let locs = (ln2 * size / n).ceil();
        (size as u64, locs as u64)
    } else {
        (cap as u64, fp as u64)
    }
}

// ------------------------------------------------------------------------------------------
// notes collected from the repository's hooks

#[derive(Default)]
pub struct NoteLog {
    pub notes: Mutex<Vec<(&'static str, Vec<u64>)>>,
}

impl verif::Hooks for NoteLog {
    fn yield_point(&self, _name: &'static str) {}
    fn note(&self, name: &'static str, args: &[u64]) {
        self.notes.lock().unwrap().push((name, args.to_vec()));
    }
}

/// One policy `add` through the facade, with the per-iteration samples the repository reported.
/// Returns the full trace op line (with the oracle), the observation, and the number of loop
/// iterations.
pub fn policy_add_traced(p: &VPolicy, log: &NoteLog, k: u64, cost: i64) -> (String, String, usize, bool) {
    log.notes.lock().unwrap().clear();
    let inc = p.estimate(k);
    let charged_before = p.snap().key_costs.len();
    let (victims, added) = p.add(k, cost);
    let notes: Vec<(&'static str, Vec<u64>)> = std::mem::take(&mut *log.notes.lock().unwrap());
    let iters: Vec<&Vec<u64>> = notes.iter().filter(|(n, _)| *n == "pol:sample").map(|(_, a)| a).collect();
    let mut op = format!("add {} {}", k, cost);
    if !iters.is_empty() {
        op.push_str(&format!(" {}", iters.len()));
        for a in &iters {
            let pairs = &a[6..];
            op.push_str(&format!(" {}", pairs.len() / 2));
            for ch in pairs.chunks(2) {
                op.push_str(&format!(" {} {}", ch[0], ch[1] as i64));
            }
        }
    }
    let iters_s = if iters.is_empty() {
        "-".to_string()
    } else {
        iters
            .iter()
            .map(|a| format!("{},{},{},{},{}", a[0], a[1] as i64, a[2], a[3] as i64, a[5] as i64))
            .collect::<Vec<_>>()
            .join(";")
    };
    check_c07(p, k, cost, inc, &iters, &victims, added, charged_before);
    let obs = format!(
        "added={} victims={} inc={} iters={}",
        if added { 1 } else { 0 },
        match &victims {
            None => "none".to_string(),
            Some(v) => str_kc(v),
        },
        inc,
        iters_s
    );
    (op, obs, iters.len(), added)
}

/// Monitor for C07 on the implementation's own report of one `add`: every iteration ran only while
/// room was lacking, sampled five candidates (or fewer only if fewer are charged), chose the first
/// least popular candidate, evicted only candidates no more popular than the newcomer, and the
/// newcomer was rejected exactly when strictly less popular than the last minimum.
pub static C07_CASE: std::sync::atomic::AtomicU64 = std::sync::atomic::AtomicU64::new(0);

fn check_c07(p: &VPolicy, k: u64, cost: i64, inc: i64, iters: &[&Vec<u64>], victims: &Option<Vec<(u64, i64)>>, added: bool, charged_before: usize) {
    let case = C07_CASE.load(std::sync::atomic::Ordering::Relaxed);
    let bad = |msg: String| println!("MONITOR property=C07 case={} msg={} key={} cost={}", case, msg, k, cost);
    let n = iters.len();
    let after = p.snap();
    for (i, a) in iters.iter().enumerate() {
        let (mk, mh, mi, _mc, room) = (a[0], a[1] as i64, a[2] as usize, a[3] as i64, a[5] as i64);
        let pairs: Vec<(u64, i64)> = a[6..].chunks(2).map(|c| (c[0], c[1] as i64)).collect();
        if room >= 0 {
            bad(format!("iteration-{}-ran-although-there-was-room room={}", i, room));
        }
        if pairs.is_empty() {
            continue;
        }
        let ests: Vec<i64> = pairs.iter().map(|(kk, _)| p.estimate(*kk)).collect();
        let least = *ests.iter().min().unwrap();
        let first = ests.iter().position(|e| *e == least).unwrap();
        if mh != least || mi != first || pairs[mi].0 != mk {
            bad(format!("iteration-{}-victim-is-not-the-first-least-popular-candidate chosen={}@{}(hits {}) least={}@{}", i, mk, mi, mh, least, first));
        }
        let last = i + 1 == n;
        if !(last && !added) && mh > inc {
            bad(format!("iteration-{}-evicted-a-candidate-more-popular-than-the-newcomer victim_hits={} newcomer_hits={}", i, mh, inc));
        }
        if last && !added && !(inc < mh) {
            bad(format!("rejected-although-not-strictly-less-popular newcomer_hits={} min_hits={}", inc, mh));
        }
        if pairs.len() > 5 {
            bad(format!("iteration-{}-sampled-more-than-five", i));
        }
        if pairs.len() < 5 && i == 0 {
            // first sample smaller than five: then it must hold every charged key
            if pairs.len() < charged_before.min(5) {
                bad(format!("first-sample-has-{}-candidates-but-{}-were-charged", pairs.len(), charged_before));
            }
        }
    }
    if n > 0 && added {
        if after.used > after.max_cost {
            bad(format!("admitted-while-room-still-lacking used={} max={}", after.used, after.max_cost));
        }
    }
    if n > 0 && !added {
        // rejected: was room still lacking and were candidates left?  (an empty last sample with
        // charged keys remaining means the sample was not refilled)
        let a = iters[n - 1];
        if a.len() == 6 && !after.key_costs.is_empty() {
            bad(format!("rejected-on-an-empty-sample-while-{}-keys-are-still-charged", after.key_costs.len()));
        }
    }
    if n == 0 && victims.as_ref().map_or(false, |v| !v.is_empty()) {
        bad("victims-without-a-sampling-iteration".to_string());
    }
}

// ------------------------------------------------------------------------------------------
// the interpreter

pub struct Exec {
    pub row: Option<VRow>,
    pub sk: Option<VSketch>,
    pub bl: Option<VBloom>,
    pub tl: Option<VTinyLFU>,
    pub pol: Option<(VPolicy, Arc<stretto::Metrics>)>,
    pub log: Arc<NoteLog>,
    /// write a state snapshot after every mutating step (else every `snap_every` steps)
    pub snap_every: u64,
    n: u64,
    pub dead: bool,
    /// iterations of the eviction loop in the last `add`, and whether it admitted
    pub last_add: (usize, bool),
}

fn u(s: &str) -> u64 {
    s.parse::<u64>().unwrap_or_else(|_| panic!("bad u64 {}", s))
}
fn i(s: &str) -> i64 {
    s.parse::<i64>().unwrap_or_else(|_| panic!("bad i64 {}", s))
}

impl Exec {
    pub fn new(log: Arc<NoteLog>) -> Self {
        Exec { row: None, sk: None, bl: None, tl: None, pol: None, log, snap_every: 1, n: 0, dead: false, last_add: (0, false) }
    }

    pub fn reset(&mut self) {
        if let Some((p, _)) = self.pol.take() {
            let _ = p.close();
        }
        self.row = None;
        self.sk = None;
        self.bl = None;
        self.tl = None;
        self.snap_every = 1;
        self.n = 0;
        self.dead = false;
    }

    fn pol_snap(&self) -> String {
        let (p, m) = self.pol.as_ref().unwrap();
        let s = p.snap();
        format!("{} met={} {}", str_policy_core(&s), str_metrics(m), str_tlfu(&s.tlfu))
    }

    /// Executes one operation line, writes its `S`/`O`/`N` lines, returns the observation.
    pub fn run(&mut self, line: &str, t: &mut Trace) -> String {
        let toks: Vec<&str> = line.split(' ').filter(|x| !x.is_empty()).collect();
        let op = toks[0];
        let a = &toks[1..];
        self.n += 1;
        let want_snap = self.n % self.snap_every == 0;
        let mut obs: Option<String> = None;
        let mut snap: Option<String> = None;
        let mut out_line = line.to_string();
        let r = catch_unwind(AssertUnwindSafe(|| match op {
            // ---- row
            "rnew" => {
                self.row = Some(VRow::new(u(a[0])));
                snap = Some(hex(&self.row.as_ref().unwrap().bytes()));
            }
            "rinc" => {
                let r = self.row.as_mut().unwrap();
                r.increment(u(a[0]));
                snap = Some(hex(&r.bytes()));
            }
            "rget" => obs = Some(self.row.as_ref().unwrap().get(u(a[0])).to_string()),
            "rreset" => {
                let r = self.row.as_mut().unwrap();
                r.reset();
                snap = Some(hex(&r.bytes()));
            }
            "rclear" => {
                let r = self.row.as_mut().unwrap();
                r.clear();
                snap = Some(hex(&r.bytes()));
            }
            "rset" => {
                let b: Vec<u8> = a.iter().map(|x| u(x) as u8).collect();
                if self.row.is_none() {
                    self.row = Some(VRow::new(b.len() as u64));
                }
                let r = self.row.as_mut().unwrap();
                r.set_bytes(&b);
                snap = Some(hex(&r.bytes()));
            }
            // ---- sketch
            "sknew" => match VSketch::new(u(a[0])) {
                Ok(mut s) => {
                    s.set_seeds([u(a[1]), u(a[2]), u(a[3]), u(a[4])]);
                    obs = Some("ok".into());
                    snap = Some(str_sketch(&s.snap()));
                    self.sk = Some(s);
                }
                Err(_) => obs = Some("err".into()),
            },
            // ---- bloom
            "blnew" => {
                // replay form: blnew <entries> <locs> <cap> <fp-bits>
                let cap = u(a[2]) as usize;
                let fp = f64::from_bits(u(a[3]));
                let b = VBloom::new(cap, fp);
                let (e, l) = bloom_entries_locs(cap, fp);
                out_line = format!("blnew {} {} {} {}", e, l, cap, fp.to_bits());
                snap = Some(str_bloom(&b.snap()));
                self.bl = Some(b);
            }
            "add" if self.bl.is_some() => {
                let b = self.bl.as_mut().unwrap();
                b.add(u(a[0]));
                if want_snap {
                    snap = Some(str_bloom(&b.snap()));
                }
            }
            "has" => obs = Some(if self.bl.as_ref().unwrap().contains(u(a[0])) { "1" } else { "0" }.into()),
            "coa" => {
                let b = self.bl.as_mut().unwrap();
                obs = Some(if b.contains_or_add(u(a[0])) { "1" } else { "0" }.into());
                if want_snap {
                    snap = Some(str_bloom(&b.snap()));
                }
            }
            // ---- tinylfu
            "tlnew" => {
                let ctrs = u(a[0]);
                match VTinyLFU::new(ctrs as usize) {
                    Ok(mut tl) => {
                        let sd = [u(a[1]), u(a[2]), u(a[3]), u(a[4])];
                        tl.set_seeds(sd);
                        let (e, l) = bloom_entries_locs(ctrs as usize, 0.01);
                        out_line = format!("tlnew {} {} {} {} {} {} {}", ctrs, sd[0], sd[1], sd[2], sd[3], e, l);
                        obs = Some("ok".into());
                        snap = Some(str_tlfu(&tl.snap()));
                        self.tl = Some(tl);
                    }
                    Err(_) => obs = Some("err".into()),
                }
            }
            "incs" => {
                let tl = self.tl.as_mut().unwrap();
                tl.increments(a.iter().map(|x| u(x)).collect());
                snap = Some(str_tlfu(&tl.snap()));
            }
            // ---- shared names, dispatched on what exists
            "inc" => {
                if let Some(s) = self.sk.as_mut() {
                    s.increment(u(a[0]));
                    obs = Some("-".into());
                    if want_snap {
                        snap = Some(str_sketch(&s.snap()));
                    }
                } else {
                    let tl = self.tl.as_mut().unwrap();
                    tl.increment(u(a[0]));
                    snap = Some(str_tlfu(&tl.snap()));
                }
            }
            "est" => {
                if let Some(s) = self.sk.as_ref() {
                    obs = Some(s.estimate(u(a[0])).to_string());
                } else {
                    obs = Some(self.tl.as_ref().unwrap().estimate(u(a[0])).to_string());
                }
            }
            "reset" => {
                if let Some(s) = self.sk.as_mut() {
                    s.reset();
                    snap = Some(str_sketch(&s.snap()));
                } else {
                    let b = self.bl.as_mut().unwrap();
                    b.reset();
                    snap = Some(str_bloom(&b.snap()));
                }
            }
            "clear" => {
                if let Some(s) = self.sk.as_mut() {
                    s.clear();
                    snap = Some(str_sketch(&s.snap()));
                } else if let Some(b) = self.bl.as_mut() {
                    b.clear();
                    snap = Some(str_bloom(&b.snap()));
                } else if let Some(tl) = self.tl.as_mut() {
                    tl.clear();
                    snap = Some(str_tlfu(&tl.snap()));
                } else {
                    self.pol.as_ref().unwrap().0.clear();
                    snap = Some(self.pol_snap());
                }
            }
            // ---- policy
            "polnew" => {
                let ctrs = u(a[0]);
                let mc = i(a[1]);
                match VPolicy::with_metrics(ctrs as usize, mc) {
                    Ok((p, m)) => {
                        let sd = [u(a[2]), u(a[3]), u(a[4]), u(a[5])];
                        p.set_seeds(sd);
                        let (e, l) = bloom_entries_locs(ctrs as usize, 0.01);
                        out_line = format!("polnew {} {} {} {} {} {} {} {}", ctrs, mc, sd[0], sd[1], sd[2], sd[3], e, l);
                        self.pol = Some((p, m));
                        obs = Some("ok".into());
                        snap = Some(self.pol_snap());
                    }
                    Err(_) => obs = Some("err".into()),
                }
            }
            "tinc" => {
                self.pol.as_ref().unwrap().0.increment(u(a[0]));
                if want_snap {
                    snap = Some(self.pol_snap());
                }
            }
            "test" => obs = Some(self.pol.as_ref().unwrap().0.estimate(u(a[0])).to_string()),
            "add" => {
                let (l, o, iters, added) = policy_add_traced(&self.pol.as_ref().unwrap().0, &self.log, u(a[0]), i(a[1]));
                out_line = l;
                obs = Some(o);
                self.last_add = (iters, added);
                snap = Some(self.pol_snap());
            }
            "upd" => {
                self.pol.as_ref().unwrap().0.update(u(a[0]), i(a[1]));
                snap = Some(self.pol_snap());
            }
            "rem" => {
                self.pol.as_ref().unwrap().0.remove(u(a[0]));
                snap = Some(self.pol_snap());
            }
            "setmax" => {
                self.pol.as_ref().unwrap().0.update_max_cost(i(a[0]));
                snap = Some(self.pol_snap());
            }
            "cost" => obs = Some(self.pol.as_ref().unwrap().0.cost(u(a[0])).to_string()),
            "cap" => obs = Some(self.pol.as_ref().unwrap().0.cap().to_string()),
            _ => panic!("unknown op {}", op),
        }));
        if r.is_err() {
            obs = Some("panic".into());
            snap = None;
            self.dead = true;
            if (op == "add" || op == "upd") && self.pol.is_some() && a.len() >= 2 {
                // finding D10: the policy adds costs without overflow checks
                let used = self.pol.as_ref().unwrap().0.snap().used;
                let cost = a[1].parse::<i64>().unwrap_or(0);
                let class = if used.checked_add(cost).is_none() { " class=i64-overflow" } else { "" };
                println!("MONITOR property=C01 case=0 msg=policy_operation_panicked:_{}_with_used={}{}", line.replace(' ', "_"), used, class);
            }
        }
        t.step(&out_line);
        if let Some(o) = &obs {
            t.obs(o);
        }
        if let Some(s) = &snap {
            t.snap(s);
        }
        obs.unwrap_or_default()
    }
}

// ------------------------------------------------------------------------------------------
// generators

fn hash_pool(rng: &mut Rng, n: usize) -> Vec<u64> {
    let mut v = Vec::new();
    let base = rng.next();
    for i in 0..n {
        v.push(match rng.below(5) {
            0 => i as u64,                  // tiny
            1 => base ^ ((i as u64) << 48), // differ in high bits only
            2 => base ^ (i as u64),         // differ in low bits only
            3 => u64::MAX - i as u64,       // near the top
            _ => rng.next(),
        });
    }
    v
}

pub fn suite_row(rng: &mut Rng, cases: u64, t: &mut Trace, ex: &mut Exec) {
    for id in 0..cases {
        t.case(id, "row");
        ex.reset();
        let w = rng.range(1, 8);
        ex.run(&format!("rnew {}", w), t);
        let steps = rng.range(10, 60);
        let mut saturated = false;
        let hot = rng.below(2 * w);
        for _ in 0..steps {
            match rng.below(20) {
                0 => {
                    ex.run("rreset", t);
                }
                1 => {
                    if rng.chance(1, 3) {
                        ex.run("rclear", t);
                    }
                }
                2 => {
                    let b: Vec<String> = (0..w).map(|_| (rng.next() as u8).to_string()).collect();
                    ex.run(&format!("rset {}", b.join(" ")), t);
                }
                3 | 4 | 5 => {
                    if ex.run(&format!("rget {}", rng.below(2 * w)), t) == "15" {
                        saturated = true;
                    }
                }
                _ => {
                    let i = if rng.chance(2, 3) { hot } else { rng.below(2 * w) };
                    ex.run(&format!("rinc {}", i), t);
                }
            }
        }
        if saturated {
            t.tag("row:saturated");
        }
        t.mark_nontrivial();
    }
}

const WIDTHS: [u64; 12] = [1, 2, 3, 5, 8, 16, 33, 64, 70, 127, 129, 1000];

pub fn suite_sketch(rng: &mut Rng, cases: u64, t: &mut Trace, ex: &mut Exec) {
    for id in 0..cases {
        t.case(id, "sketch");
        ex.reset();
        let ctrs = if rng.chance(1, 40) {
            0
        } else if rng.chance(1, 2) {
            rng.range(1, 70)
        } else {
            *rng.pick(&WIDTHS)
        };
        let mut sd = [rng.next(), rng.next(), rng.next(), rng.next()];
        if rng.chance(1, 5) {
            // the seeds the code itself would have drawn
            if let Ok(s) = VSketch::new(ctrs.max(1)) {
                sd = s.snap().seeds;
            }
        }
        ex.snap_every = if ctrs <= 130 { 1 } else { 16 };
        if ex.run(&format!("sknew {} {} {} {} {}", ctrs, sd[0], sd[1], sd[2], sd[3]), t) == "err" {
            t.tag("sketch:rejected");
            continue;
        }
        let mask = ex.sk.as_ref().unwrap().snap().mask;
        let pool = hash_pool(rng, 6);
        let steps = rng.range(10, 80);
        let mut saw_sat = false;
        'outer: for _ in 0..steps {
            let h = match rng.below(4) {
                0 => rng.next(),
                // collide with pool[0] in every row: same (h ^ seed) & mask
                1 => pool[0] ^ (rng.next() & !mask),
                _ => *rng.pick(&pool),
            };
            match rng.below(12) {
                0 => {
                    ex.run("reset", t);
                }
                1 => {
                    if rng.chance(1, 3) {
                        ex.run("clear", t);
                    }
                }
                2 | 3 | 4 => {
                    let o = ex.run(&format!("est {}", h), t);
                    if o == "15" {
                        saw_sat = true;
                    }
                }
                _ => {
                    let reps = if rng.chance(1, 6) { 17 } else { 1 };
                    for _ in 0..reps {
                        ex.run(&format!("inc {}", h), t);
                        if ex.dead {
                            break 'outer;
                        }
                    }
                }
            }
            if ex.dead {
                break;
            }
        }
        if ex.dead {
            t.tag("sketch:PANIC");
            t.mark_nontrivial();
            continue;
        }
        ex.snap_every = 1;
        ex.run("est 0", t);
        ex.run("inc 0", t);
        if saw_sat {
            t.tag("sketch:saturated");
        }
        t.tag(&format!("sketch:width<={}", if ctrs <= 2 { "2" } else if ctrs <= 70 { "70" } else { "big" }));
        t.mark_nontrivial();
    }
}

const BLOOM_CAPS: [usize; 8] = [1, 7, 10, 64, 100, 1000, 5000, 20000];
const BLOOM_FPS: [f64; 7] = [0.5, 0.1, 0.01, 0.001, 1.0, 3.0, 7.0];

pub fn suite_bloom(rng: &mut Rng, cases: u64, t: &mut Trace, ex: &mut Exec) {
    for id in 0..cases {
        t.case(id, "bloom");
        ex.reset();
        let cap = *rng.pick(&BLOOM_CAPS);
        let fp = *rng.pick(&BLOOM_FPS);
        ex.run(&format!("blnew 0 0 {} {}", cap, fp.to_bits()), t);
        let words = ex.bl.as_ref().unwrap().snap().words.len();
        ex.snap_every = if words > 64 { 8 } else { 1 };
        let pool = hash_pool(rng, 12);
        let steps = rng.range(10, 60);
        let mut added: Vec<u64> = Vec::new();
        for _ in 0..steps {
            let h = if rng.chance(1, 3) { rng.next() } else { *rng.pick(&pool) };
            match rng.below(12) {
                0 => {
                    ex.run(if rng.chance(1, 2) { "reset" } else { "clear" }, t);
                    added.clear();
                }
                1 | 2 | 3 => {
                    let v = ex.run(&format!("has {}", h), t);
                    if v == "0" && added.contains(&h) {
                        t.tag("bloom:FALSE-NEGATIVE");
                        println!("MONITOR property=C14 case={} msg=false-negative hash={}", id, h);
                    }
                }
                4 | 5 | 6 => {
                    ex.run(&format!("coa {}", h), t);
                    added.push(h);
                }
                _ => {
                    ex.run(&format!("add {}", h), t);
                    added.push(h);
                }
            }
        }
        // every hash added since the last reset must be reported present
        ex.snap_every = 1;
        for h in added.iter().take(8) {
            if ex.run(&format!("has {}", h), t) != "1" {
                t.tag("bloom:FALSE-NEGATIVE");
                println!("MONITOR property=C14 case={} msg=false-negative hash={}", id, h);
            }
        }
        ex.run("coa 0", t);
        t.tag(&format!("bloom:exp={}", ex.bl.as_ref().unwrap().snap().size_exp));
        t.mark_nontrivial();
    }
}

pub fn suite_tlfu(rng: &mut Rng, cases: u64, t: &mut Trace, ex: &mut Exec) {
    for id in 0..cases {
        t.case(id, "tlfu");
        ex.reset();
        let ctrs = if rng.chance(1, 2) { rng.range(1, 40) } else { *rng.pick(&WIDTHS[..11]) };
        let sd = [rng.next(), rng.next(), rng.next(), rng.next()];
        ex.run(&format!("tlnew {} {} {} {} {}", ctrs, sd[0], sd[1], sd[2], sd[3]), t);
        let pool = hash_pool(rng, 5);
        let steps = rng.range(10, 90);
        let mut resets = 0;
        // monitors (C13): between resets the estimate never undercounts min(count, 15); the aging
        // reset happens at exactly the num_counters-th recorded access since the last one
        let mut counts: std::collections::HashMap<u64, u64> = Default::default();
        let mut since: u64 = 0;
        let mut record = |ex: &mut Exec, t: &mut Trace, hs: &[u64], counts: &mut std::collections::HashMap<u64, u64>, since: &mut u64, resets: &mut u64| {
            if hs.len() == 1 {
                ex.run(&format!("inc {}", hs[0]), t);
            } else {
                ex.run(&format!("incs {}", hs.iter().map(|x| x.to_string()).collect::<Vec<_>>().join(" ")), t);
            }
            for h in hs {
                *since += 1;
                *counts.entry(*h).or_insert(0) += 1;
                if *since >= ctrs {
                    *since = 0;
                    *resets += 1;
                    counts.clear();
                }
            }
            let w = ex.tl.as_ref().unwrap().snap().w;
            if w != *since {
                println!("MONITOR property=C13 case={} msg=aging-reset-not-at-num_counters num_counters={} accesses_since_reset={} w={}", id, ctrs, *since, w);
            }
        };
        for _ in 0..steps {
            let h = if rng.chance(1, 5) { rng.next() } else { *rng.pick(&pool) };
            match rng.below(10) {
                0 => {
                    if rng.chance(1, 3) {
                        ex.run("clear", t);
                        counts.clear();
                        since = 0;
                    }
                }
                1 | 2 | 3 => {
                    let v: u64 = ex.run(&format!("est {}", h), t).parse().unwrap_or(0);
                    let c = *counts.get(&h).unwrap_or(&0);
                    if v < c.min(16) {
                        println!("MONITOR property=C13 case={} msg=undercount hash={} est={} recorded={}", id, h, v, c);
                    }
                    if v > 16 {
                        println!("MONITOR property=C13 case={} msg=estimate-above-saturation hash={} est={}", id, h, v);
                    }
                }
                4 => {
                    let n = rng.range(2, 6);
                    let hs: Vec<u64> = (0..n).map(|_| *rng.pick(&pool)).collect();
                    record(ex, t, &hs, &mut counts, &mut since, &mut resets);
                }
                _ => {
                    let reps = if rng.chance(1, 8) { 18 } else { 1 };
                    for _ in 0..reps {
                        record(ex, t, &[h], &mut counts, &mut since, &mut resets);
                    }
                }
            }
        }
        if resets > 0 {
            t.tag("tlfu:case-with-reset");
        }
        t.mark_nontrivial();
    }
}

pub fn suite_policy(rng: &mut Rng, cases: u64, t: &mut Trace, ex: &mut Exec) {
    for id in 0..cases {
        t.case(id, "policy");
        C07_CASE.store(id, std::sync::atomic::Ordering::Relaxed);
        ex.reset();
        let ctrs = *rng.pick(&[8u64, 16, 64, 3]);
        let mc = *rng.pick(&[10i64, 20, 37, 100]);
        let sd = [rng.next(), rng.next(), rng.next(), rng.next()];
        ex.run(&format!("polnew {} {} {} {} {} {}", ctrs, mc, sd[0], sd[1], sd[2], sd[3]), t);
        let nkeys = rng.range(4, 14);
        let steps = rng.range(20, 70);
        let mut loops = 0usize;
        let mut multi = false;
        let mut rejected = false;
        // monitor (C01): slack accounting
        let mut slack: i64 = 0;
        for _ in 0..steps {
            let k = rng.range(1, nkeys);
            let s0 = ex.pol.as_ref().unwrap().0.snap();
            match rng.below(100) {
                0..=19 => {
                    let reps = *rng.pick(&[1u64, 1, 2, 3, 16]);
                    ex.snap_every = reps;
                    for _ in 0..reps {
                        ex.run(&format!("tinc {}", k), t);
                    }
                    ex.snap_every = 1;
                }
                20..=64 => {
                    let room = s0.max_cost - s0.used;
                    let cost = match rng.below(6) {
                        0 => room.max(0),
                        1 => room.max(0) + 1,
                        2 => s0.max_cost,
                        3 => s0.max_cost + 1,
                        _ => rng.range(0, (s0.max_cost.max(1) as u64) / 2 + 1) as i64,
                    };
                    let was_charged = s0.key_costs.iter().find(|(kk, _)| *kk == k).map(|(_, c)| *c);
                    ex.run(&format!("add {} {}", k, cost), t);
                    let (iters, added) = ex.last_add;
                    let s1 = ex.pol.as_ref().unwrap().0.snap();
                    if added {
                        slack = 0;
                        if s1.used > s1.max_cost {
                            println!("MONITOR property=C01 case={} msg=admission-left-total-over-max used={} max={}", id, s1.used, s1.max_cost);
                        }
                    } else if let Some(old) = was_charged {
                        if cost <= s0.max_cost {
                            slack += (cost - old).max(0);
                        }
                    }
                    if cost > s0.max_cost && s1 != s0 {
                        println!("MONITOR property=C01 case={} msg=oversize-add-changed-policy key={} cost={}", id, k, cost);
                    }
                    if iters > 0 {
                        loops += 1;
                        multi |= iters > 1;
                        rejected |= !added;
                    }
                }
                65..=79 => {
                    let cost = rng.range(0, (s0.max_cost.max(1) as u64) + 3) as i64;
                    if let Some((_, old)) = s0.key_costs.iter().find(|(kk, _)| *kk == k) {
                        slack += (cost - old).max(0);
                    }
                    ex.run(&format!("upd {} {}", k, cost), t);
                }
                80..=87 => {
                    ex.run(&format!("rem {}", k), t);
                }
                88..=93 => {
                    let nm = match rng.below(3) {
                        0 => s0.max_cost / 2 + 1,
                        1 => s0.max_cost * 2,
                        _ => rng.range(1, 120) as i64,
                    };
                    slack += (s0.max_cost - nm).max(0);
                    ex.run(&format!("setmax {}", nm), t);
                }
                94..=95 => {
                    ex.run("clear", t);
                    slack = 0;
                }
                96..=97 => {
                    ex.run(&format!("cost {}", k), t);
                }
                _ => {
                    ex.run("cap", t);
                }
            }
            let s1 = ex.pol.as_ref().unwrap().0.snap();
            let sum: i64 = s1.key_costs.iter().map(|(_, c)| *c).sum();
            if sum != s1.used {
                println!("MONITOR property=C01 case={} msg=total-differs-from-sum used={} sum={}", id, s1.used, sum);
            }
            if s1.used > s1.max_cost + slack {
                println!("MONITOR property=C01 case={} msg=total-exceeds-max-plus-update-slack used={} max={} slack={}", id, s1.used, s1.max_cost, slack);
            }
        }
        if loops > 0 {
            t.mark_nontrivial();
            t.tag("policy:case-with-eviction-loop");
        }
        if multi {
            t.tag("policy:case-with-multi-victim");
        }
        if rejected {
            t.tag("policy:case-with-popularity-reject");
        }
    }
    ex.reset();
}

/// Re-executes the `S` lines of a recorded trace against the current code.
pub fn replay(path: &str, t: &mut Trace, ex: &mut Exec) {
    let text = std::fs::read_to_string(path).expect("replay file");
    for line in text.lines() {
        if let Some(rest) = line.strip_prefix("case ") {
            let mut it = rest.split(' ');
            let id: u64 = it.next().unwrap().parse().unwrap_or(0);
            let suite = it.next().unwrap_or("replay");
            ex.reset();
            t.case(id, suite);
        } else if let Some(op) = line.strip_prefix("S ") {
            if !ex.dead {
                ex.run(op, t);
            }
        }
    }
    t.mark_nontrivial();
    ex.reset();
}

/// C14 rate clause: a deterministic, seeded measurement on the implementation.  Raises a MONITOR
/// line when, after adding n distinct well-mixed hashes to a filter built for (n, p), the fraction
/// of never-added hashes reported present exceeds 10 p + 0.01 — an order of magnitude above the
/// design rate.  Structured families (hashes differing only in high / only in low bits) are
/// measured and reported but never alarm: double hashing on the two halves of the hash degrades
/// on them by design, exactly as in the Go original.
pub fn suite_bloomfp(rng: &mut Rng, _cases: u64, t: &mut Trace) -> String {
    let mut rows = Vec::new();
    let mut id = 0;
    for &n in &[100usize, 1000, 10000] {
        for &p in &[0.1f64, 0.01, 0.001] {
            for family in 0..5 {
                id += 1;
                t.case(id, "bloomfp");
                let mut bl = VBloom::new(n, p);
                let base = rng.next();
                let gen = |i: u64, r: &mut Rng| -> u64 {
                    match family {
                        0 => r.next(),
                        1 => base ^ (i << 44),
                        2 => base ^ i,
                        3 => r.next() & !(1u64 << 63), // probes: the same hashes with bit 63 set
                        _ => r.next() & !1u64,         // probes: the same hashes with bit 0 set
                    }
                };
                let mut added = std::collections::HashSet::new();
                let mut i = 0u64;
                while added.len() < n {
                    let h = gen(i, rng);
                    i += 1;
                    if added.insert(h) {
                        bl.add(h);
                    }
                }
                let mut missing = 0;
                for h in &added {
                    if !bl.contains(*h) {
                        missing += 1;
                    }
                }
                let mut probes = 20000u64;
                let mut fp = 0u64;
                if family >= 3 {
                    // one-bit twins of the added hashes: never added themselves
                    let bit = if family == 3 { 1u64 << 63 } else { 1u64 };
                    probes = added.len() as u64;
                    for h in &added {
                        if bl.contains(*h | bit) {
                            fp += 1;
                        }
                    }
                } else {
                    let mut tried = 0u64;
                    while tried < probes {
                        let h = rng.next();
                        if added.contains(&h) {
                            continue;
                        }
                        tried += 1;
                        if bl.contains(h) {
                            fp += 1;
                        }
                    }
                }
                let rate = fp as f64 / probes as f64;
                t.step(&format!("measure n={} p={} family={} fp_rate={:.5} false_negatives={}", n, p, family, rate, missing));
                t.mark_nontrivial();
                if missing > 0 {
                    println!("MONITOR property=C14 case={} msg=false-negative n={} p={} family={} missing={}", id, n, p, family, missing);
                }
                if (family == 0 || family >= 3) && rate > 10.0 * p + 0.01 {
                    println!("MONITOR property=C14 case={} msg=false-positive-rate-far-above-target n={} p={} measured={:.5}", id, n, p, rate);
                }
                rows.push(format!("{{\"n\":{},\"p\":{},\"family\":{},\"fp_rate\":{:.5},\"false_negatives\":{}}}", n, p, family, rate, missing));
            }
        }
    }
    format!(",\"model\":false,\"fp_measurements\":[{}]", rows.join(","))
}

/// C18: TransparentKeyBuilder on every supported integer type against the model (`tkey`), plus
/// tests of the unmodelled DefaultKeyBuilder (determinism, String / &str agreement).
/// C20: builder validation against the model (`validate`).
pub fn suite_keys(rng: &mut Rng, _cases: u64, t: &mut Trace) -> String {
    use stretto::{DefaultKeyBuilder, KeyBuilder, TransparentKeyBuilder};
    t.case(0, "keys");
    macro_rules! kind {
        ($ty:ty, $name:expr, $vals:expr) => {{
            let kb = TransparentKeyBuilder::<$ty>::default();
            let mut vals: Vec<$ty> = $vals;
            for _ in 0..200 {
                vals.push(rng.next() as $ty);
            }
            for x in vals {
                let (i, c) = kb.build_key(&x);
                t.step(&format!("tkey {} {}", $name, x as i128));
                t.obs(&format!("{} {}", i, c));
                let again = kb.build_key(&x);
                if again != (i, c) {
                    println!("MONITOR property=C18 case=0 msg=TransparentKeyBuilder-not-deterministic type={} key={}", $name, x as i128);
                }
            }
        }};
    }
    kind!(u8, "u8", vec![0, 1, 127, 128, 255]);
    kind!(u16, "u16", vec![0, 1, 255, 256, 65535]);
    kind!(u32, "u32", vec![0, 1, u32::MAX, 1 << 31]);
    kind!(u64, "u64", vec![0, 1, u64::MAX, 1 << 63, (1 << 63) - 1]);
    kind!(usize, "usize", vec![0, 1, usize::MAX]);
    kind!(i8, "i8", vec![0, 1, -1, i8::MIN, i8::MAX]);
    kind!(i16, "i16", vec![0, 1, -1, i16::MIN, i16::MAX]);
    kind!(i32, "i32", vec![0, 1, -1, i32::MIN, i32::MAX]);
    kind!(i64, "i64", vec![0, 1, -1, i64::MIN, i64::MAX]);
    kind!(isize, "isize", vec![0, 1, -1, isize::MIN, isize::MAX]);
    {
        let kb = TransparentKeyBuilder::<bool>::default();
        for x in [false, true] {
            let (i, c) = kb.build_key(&x);
            t.step(&format!("tkey bool {}", x as u8));
            t.obs(&format!("{} {}", i, c));
        }
    }
    // DefaultKeyBuilder: not modelled, tested
    let kb = DefaultKeyBuilder::<String>::default();
    let mut checked = 0u64;
    for n in 0..10000u64 {
        let len = rng.below(24) as usize;
        let s: String = (0..len).map(|_| (b'a' + rng.below(26) as u8) as char).collect();
        let a = kb.build_key(&s);
        let b = kb.build_key(&s);
        let c = kb.build_key::<str>(s.as_str());
        if a != b {
            println!("MONITOR property=C18 case=0 msg=DefaultKeyBuilder-not-deterministic key={:?}", s);
        }
        if a != c {
            println!("MONITOR property=C18 case=0 msg=String-and-str-hash-differently key={:?}", s);
        }
        checked = n + 1;
    }
    let kbi = DefaultKeyBuilder::<u64>::default();
    for _ in 0..10000 {
        let x = rng.next();
        if kbi.build_key(&x) != kbi.build_key(&x) {
            println!("MONITOR property=C18 case=0 msg=DefaultKeyBuilder-not-deterministic key={}", x);
        }
    }
    // builder validation
    t.case(1, "keys");
    for nc in [0usize, 1, 5] {
        for mc in [0i64, -3, 1, 100] {
            for bs in [0usize, 1, 64] {
                let r = stretto::Cache::<u64, u64>::builder(nc, mc).set_buffer_size(bs).finalize();
                let o = match &r {
                    Ok(_) => "ok".to_string(),
                    Err(e) => match e {
                        stretto::CacheError::InvalidNumCounters => "InvalidNumCounters".into(),
                        stretto::CacheError::InvalidMaxCost => "InvalidMaxCost".into(),
                        stretto::CacheError::InvalidBufferSize => "InvalidBufferSize".into(),
                        other => format!("other:{:?}", other),
                    },
                };
                if let Ok(c) = r {
                    let _ = c.close();
                }
                t.step(&format!("validate {} {} {}", nc, mc, bs));
                t.obs(&o);
            }
        }
    }
    t.mark_nontrivial();
    format!(",\"default_key_builder_strings_checked\":{}", checked)
}
