//! Component-level suites: count-min row, sketch, Bloom filter, TinyLFU, policy.
use crate::rng::Rng;
use crate::trace::Trace;
use std::panic::{catch_unwind, AssertUnwindSafe};
use std::sync::{Arc, Mutex};
use stretto::verif::{self, BloomSnap, PolicySnap, SketchSnap, TlfuSnap, VBloom, VPolicy, VRow, VSketch, VTinyLFU};

pub fn hex(b: &[u8]) -> String {
    b.iter().map(|x| format!("{:02x}", x)).collect()
}

pub fn str_sketch(s: &SketchSnap) -> String {
    format!(
        "mask={} rows={}",
        s.mask,
        s.rows.iter().map(|r| hex(r)).collect::<Vec<_>>().join(",")
    )
}

pub fn str_bloom(b: &BloomSnap) -> String {
    format!(
        "size={} exp={} locs={} shift={} words={}",
        b.size,
        b.size_exp,
        b.set_locs,
        b.shift,
        b.words.iter().map(|w| w.to_string()).collect::<Vec<_>>().join(",")
    )
}

pub fn str_tlfu(t: &TlfuSnap) -> String {
    format!("samples={} w={} {} {}", t.samples, t.w, str_sketch(&t.sketch), str_bloom(&t.bloom))
}

pub fn str_kc(kc: &[(u64, i64)]) -> String {
    if kc.is_empty() {
        "-".into()
    } else {
        kc.iter().map(|(k, c)| format!("{}:{}", k, c)).collect::<Vec<_>>().join(",")
    }
}

pub fn str_policy_core(p: &PolicySnap) -> String {
    format!("max={} used={} kc={}", p.max_cost, p.used, str_kc(&p.key_costs))
}

/// `calc_size_by_wrong_positives` redone with the same f64 operations: the model takes the
/// resulting `(entries, locs)` as parameters (the floating-point step itself is trusted).
pub fn bloom_entries_locs(cap: usize, fp: f64) -> (u64, u64) {
    if fp < 1f64 {
        let n = cap as f64;
        let ln2 = std::f64::consts::LN_2;
        let size = -1f64 * n * fp.ln() / ln2.powf(2f64);
        let locs = (ln2 * size / n).ceil();
        (size as u64, locs as u64)
    } else {
        (cap as u64, fp as u64)
    }
}

// ------------------------------------------------------------------------------------------
// notes collected from the repository's hooks

#[derive(Default)]
pub struct NoteLog {
    pub notes: Mutex<Vec<(&'static str, Vec<u64>)>>,
}

impl verif::Hooks for NoteLog {
    fn yield_point(&self, _name: &'static str) {}
    fn note(&self, name: &'static str, args: &[u64]) {
        self.notes.lock().unwrap().push((name, args.to_vec()));
    }
}

fn hash_pool(rng: &mut Rng, n: usize) -> Vec<u64> {
    let mut v = Vec::new();
    let base = rng.next();
    for i in 0..n {
        v.push(match rng.below(5) {
            0 => i as u64,                                  // tiny
            1 => base ^ ((i as u64) << 48),                 // differ in high bits only
            2 => base ^ (i as u64),                         // differ in low bits only
            3 => u64::MAX - i as u64,                       // near the top
            _ => rng.next(),
        });
    }
    v
}

// ------------------------------------------------------------------------------------------

pub fn suite_row(rng: &mut Rng, cases: u64, t: &mut Trace) {
    for id in 0..cases {
        t.case(id, "row");
        let w = rng.range(1, 8);
        let mut row = VRow::new(w);
        t.step(&format!("rnew {}", w));
        t.snap(&hex(&row.bytes()));
        let steps = rng.range(10, 60);
        let mut saturated = false;
        let hot = rng.below(2 * w);
        for _ in 0..steps {
            match rng.below(20) {
                0 => {
                    row.reset();
                    t.step("rreset");
                    t.snap(&hex(&row.bytes()));
                }
                1 => {
                    if rng.chance(1, 3) {
                        row.clear();
                        t.step("rclear");
                        t.snap(&hex(&row.bytes()));
                    }
                }
                2 => {
                    let b: Vec<u8> = (0..w).map(|_| rng.next() as u8).collect();
                    row.set_bytes(&b);
                    t.step(&format!(
                        "rset {}",
                        b.iter().map(|x| x.to_string()).collect::<Vec<_>>().join(" ")
                    ));
                    t.snap(&hex(&row.bytes()));
                }
                3 | 4 | 5 => {
                    let i = rng.below(2 * w);
                    let v = row.get(i);
                    t.step(&format!("rget {}", i));
                    t.obs(&v.to_string());
                    if v == 15 {
                        saturated = true;
                    }
                }
                _ => {
                    let i = if rng.chance(2, 3) { hot } else { rng.below(2 * w) };
                    row.increment(i);
                    t.step(&format!("rinc {}", i));
                    t.snap(&hex(&row.bytes()));
                }
            }
        }
        if saturated {
            t.tag("row:saturated");
        }
        t.mark_nontrivial();
    }
}

const WIDTHS: [u64; 12] = [1, 2, 3, 5, 8, 16, 33, 64, 70, 127, 129, 1000];

pub fn suite_sketch(rng: &mut Rng, cases: u64, t: &mut Trace) {
    for id in 0..cases {
        t.case(id, "sketch");
        let ctrs = if rng.chance(1, 40) {
            0
        } else if rng.chance(1, 2) {
            rng.range(1, 70)
        } else {
            *rng.pick(&WIDTHS)
        };
        let seeds = [rng.next(), rng.next(), rng.next(), rng.next()];
        let sk = VSketch::new(ctrs);
        let mut sk = match sk {
            Ok(mut s) => {
                let real = s.snap().seeds;
                let use_real = rng.chance(1, 5);
                let sd = if use_real { real } else { seeds };
                s.set_seeds(sd);
                t.step(&format!("sknew {} {} {} {} {}", ctrs, sd[0], sd[1], sd[2], sd[3]));
                t.obs("ok");
                t.snap(&str_sketch(&s.snap()));
                s
            }
            Err(_) => {
                t.step(&format!("sknew {} 0 0 0 0", ctrs));
                t.obs("err");
                t.tag("sketch:rejected");
                continue;
            }
        };
        let mask = sk.snap().mask;
        let pool = hash_pool(rng, 6);
        let steps = rng.range(10, 80);
        let snap_every = if ctrs <= 130 { 1 } else { 16 };
        let mut n = 0u64;
        let mut saw_sat = false;
        for _ in 0..steps {
            n += 1;
            let h = match rng.below(4) {
                0 => rng.next(),
                // collide with pool[0] in row 0: same (h ^ seed) & mask
                1 => pool[0] ^ (rng.next() & !mask),
                _ => *rng.pick(&pool),
            };
            match rng.below(12) {
                0 => {
                    sk.reset();
                    t.step("reset");
                    t.snap(&str_sketch(&sk.snap()));
                }
                1 => {
                    if rng.chance(1, 3) {
                        sk.clear();
                        t.step("clear");
                        t.snap(&str_sketch(&sk.snap()));
                    }
                }
                2 | 3 | 4 => {
                    let r = catch_unwind(AssertUnwindSafe(|| sk.estimate(h)));
                    t.step(&format!("est {}", h));
                    match r {
                        Ok(v) => {
                            if v == 15 {
                                saw_sat = true;
                            }
                            t.obs(&v.to_string())
                        }
                        Err(_) => {
                            t.obs("panic");
                            t.tag("sketch:panic");
                            break;
                        }
                    }
                }
                _ => {
                    let reps = if rng.chance(1, 6) { 17 } else { 1 };
                    let mut dead = false;
                    for _ in 0..reps {
                        let r = catch_unwind(AssertUnwindSafe(|| sk.increment(h)));
                        t.step(&format!("inc {}", h));
                        if r.is_err() {
                            t.obs("panic");
                            t.tag("sketch:panic");
                            dead = true;
                            break;
                        } else {
                            t.obs("-");
                        }
                        if n % snap_every == 0 {
                            t.snap(&str_sketch(&sk.snap()));
                        }
                    }
                    if dead {
                        break;
                    }
                }
            }
        }
        t.step("est 0");
        t.obs(&sk.estimate(0).to_string());
        t.snap(&str_sketch(&sk.snap()));
        if saw_sat {
            t.tag("sketch:saturated");
        }
        t.tag(&format!("sketch:width<= {}", if ctrs <= 2 { "2" } else if ctrs <= 70 { "70" } else { "big" }));
        t.mark_nontrivial();
    }
}

const BLOOM_CAPS: [usize; 8] = [1, 7, 10, 64, 100, 1000, 5000, 20000];
const BLOOM_FPS: [f64; 7] = [0.5, 0.1, 0.01, 0.001, 1.0, 3.0, 7.0];

pub fn suite_bloom(rng: &mut Rng, cases: u64, t: &mut Trace) {
    for id in 0..cases {
        t.case(id, "bloom");
        let cap = *rng.pick(&BLOOM_CAPS);
        let fp = *rng.pick(&BLOOM_FPS);
        let mut bl = VBloom::new(cap, fp);
        let (entries, locs) = bloom_entries_locs(cap, fp);
        t.step(&format!("blnew {} {}", entries, locs));
        t.snap(&str_bloom(&bl.snap()));
        let pool = hash_pool(rng, 12);
        let steps = rng.range(10, 60);
        let big = bl.snap().words.len() > 64;
        let mut added: Vec<u64> = Vec::new();
        let mut i = 0;
        for _ in 0..steps {
            i += 1;
            let h = if rng.chance(1, 3) { rng.next() } else { *rng.pick(&pool) };
            match rng.below(12) {
                0 => {
                    if rng.chance(1, 2) {
                        bl.reset();
                        t.step("reset");
                    } else {
                        bl.clear();
                        t.step("clear");
                    }
                    added.clear();
                    t.snap(&str_bloom(&bl.snap()));
                }
                1 | 2 | 3 => {
                    let v = bl.contains(h);
                    t.step(&format!("has {}", h));
                    t.obs(if v { "1" } else { "0" });
                    if !v && added.contains(&h) {
                        t.tag("bloom:FALSE-NEGATIVE");
                    }
                }
                4 | 5 | 6 => {
                    let v = bl.contains_or_add(h);
                    added.push(h);
                    t.step(&format!("coa {}", h));
                    t.obs(if v { "1" } else { "0" });
                    if !big || i % 8 == 0 {
                        t.snap(&str_bloom(&bl.snap()));
                    }
                }
                _ => {
                    bl.add(h);
                    added.push(h);
                    t.step(&format!("add {}", h));
                    if !big || i % 8 == 0 {
                        t.snap(&str_bloom(&bl.snap()));
                    }
                }
            }
        }
        // every hash added since the last reset must be reported present
        for h in added.iter().take(8) {
            let v = bl.contains(*h);
            t.step(&format!("has {}", h));
            t.obs(if v { "1" } else { "0" });
            if !v {
                t.tag("bloom:FALSE-NEGATIVE");
            }
        }
        t.snap(&str_bloom(&bl.snap()));
        t.tag(&format!("bloom:exp={}", bl.snap().size_exp));
        t.mark_nontrivial();
    }
}

pub fn suite_tlfu(rng: &mut Rng, cases: u64, t: &mut Trace) {
    for id in 0..cases {
        t.case(id, "tlfu");
        let ctrs = if rng.chance(1, 2) { rng.range(1, 40) } else { *rng.pick(&WIDTHS[..11]) };
        let mut tl = VTinyLFU::new(ctrs as usize).unwrap();
        let sd = [rng.next(), rng.next(), rng.next(), rng.next()];
        tl.set_seeds(sd);
        let (entries, locs) = bloom_entries_locs(ctrs as usize, 0.01);
        t.step(&format!("tlnew {} {} {} {} {} {} {}", ctrs, sd[0], sd[1], sd[2], sd[3], entries, locs));
        t.obs("ok");
        t.snap(&str_tlfu(&tl.snap()));
        let pool = hash_pool(rng, 5);
        let steps = rng.range(10, 90);
        let mut resets = 0;
        for _ in 0..steps {
            let h = if rng.chance(1, 5) { rng.next() } else { *rng.pick(&pool) };
            match rng.below(10) {
                0 => {
                    if rng.chance(1, 3) {
                        tl.clear();
                        t.step("clear");
                        t.snap(&str_tlfu(&tl.snap()));
                    }
                }
                1 | 2 | 3 => {
                    let v = tl.estimate(h);
                    t.step(&format!("est {}", h));
                    t.obs(&v.to_string());
                }
                4 => {
                    let n = rng.range(0, 6);
                    let hs: Vec<u64> = (0..n).map(|_| *rng.pick(&pool)).collect();
                    let w0 = tl.snap().w;
                    tl.increments(hs.clone());
                    if tl.snap().w < w0 + n {
                        resets += 1;
                    }
                    t.step(&format!(
                        "incs {}",
                        hs.iter().map(|x| x.to_string()).collect::<Vec<_>>().join(" ")
                    ));
                    t.snap(&str_tlfu(&tl.snap()));
                }
                _ => {
                    let w0 = tl.snap().w;
                    tl.increment(h);
                    if tl.snap().w <= w0 {
                        resets += 1;
                    }
                    t.step(&format!("inc {}", h));
                    t.snap(&str_tlfu(&tl.snap()));
                }
            }
        }
        if resets > 0 {
            t.tag("tlfu:case-with-reset");
        }
        t.mark_nontrivial();
    }
}

fn str_metrics(m: &stretto::Metrics) -> String {
    [
        m.get_hits(),
        m.get_misses(),
        m.get_keys_added(),
        m.get_keys_updated(),
        m.get_keys_evicted(),
        m.get_cost_added(),
        m.get_cost_evicted(),
        m.get_sets_dropped(),
        m.get_sets_rejected(),
        m.get_gets_dropped(),
        m.get_gets_kept(),
    ]
    .iter()
    .map(|x| x.unwrap().to_string())
    .collect::<Vec<_>>()
    .join(",")
}

/// One policy `add` through the facade, with the per-iteration samples the repository reported.
/// Returns the trace op line and the observation line.
pub fn policy_add_traced(p: &VPolicy, log: &NoteLog, k: u64, cost: i64) -> (String, String, usize, bool) {
    log.notes.lock().unwrap().clear();
    let inc = p.estimate(k);
    let (victims, added) = p.add(k, cost);
    let notes: Vec<(&'static str, Vec<u64>)> = std::mem::take(&mut *log.notes.lock().unwrap());
    let iters: Vec<&Vec<u64>> = notes.iter().filter(|(n, _)| *n == "pol:sample").map(|(_, a)| a).collect();
    let mut op = format!("add {} {}", k, cost);
    if !iters.is_empty() {
        op.push_str(&format!(" {}", iters.len()));
        for a in &iters {
            let pairs = &a[6..];
            op.push_str(&format!(" {}", pairs.len() / 2));
            for ch in pairs.chunks(2) {
                op.push_str(&format!(" {} {}", ch[0], ch[1] as i64));
            }
        }
    }
    let iters_s = if iters.is_empty() {
        "-".to_string()
    } else {
        iters
            .iter()
            .map(|a| format!("{},{},{},{},{}", a[0], a[1] as i64, a[2], a[3] as i64, a[5] as i64))
            .collect::<Vec<_>>()
            .join(";")
    };
    let obs = format!(
        "added={} victims={} inc={} iters={}",
        if added { 1 } else { 0 },
        match &victims {
            None => "none".to_string(),
            Some(v) => str_kc(v),
        },
        inc,
        iters_s
    );
    (op, obs, iters.len(), added)
}

pub fn suite_policy(rng: &mut Rng, cases: u64, t: &mut Trace) {
    let log = Arc::new(NoteLog::default());
    verif::install(Some(log.clone()));
    for id in 0..cases {
        t.case(id, "policy");
        let ctrs = *rng.pick(&[8u64, 16, 64, 3]);
        let mc = *rng.pick(&[10i64, 20, 37, 100]);
        let (p, m) = VPolicy::with_metrics(ctrs as usize, mc).unwrap();
        let sd = [rng.next(), rng.next(), rng.next(), rng.next()];
        p.set_seeds(sd);
        let (entries, locs) = bloom_entries_locs(ctrs as usize, 0.01);
        t.step(&format!("polnew {} {} {} {} {} {} {} {}", ctrs, mc, sd[0], sd[1], sd[2], sd[3], entries, locs));
        t.obs("ok");
        let snap = |p: &VPolicy, m: &stretto::Metrics| {
            let s = p.snap();
            format!("{} met={} {}", str_policy_core(&s), str_metrics(m), str_tlfu(&s.tlfu))
        };
        t.snap(&snap(&p, &m));
        let nkeys = rng.range(4, 14);
        let steps = rng.range(20, 70);
        let mut loops = 0usize;
        let mut multi = false;
        let mut rejected = false;
        for _ in 0..steps {
            let k = rng.range(1, nkeys);
            match rng.below(100) {
                0..=19 => {
                    // plant popularity
                    let reps = *rng.pick(&[1u64, 1, 2, 3, 16]);
                    for _ in 0..reps {
                        p.increment(k);
                        t.step(&format!("tinc {}", k));
                    }
                    t.snap(&snap(&p, &m));
                }
                20..=64 => {
                    let s = p.snap();
                    let room = s.max_cost - s.used;
                    let cost = match rng.below(6) {
                        0 => room.max(0),
                        1 => room.max(0) + 1,
                        2 => s.max_cost,
                        3 => s.max_cost + 1,
                        _ => rng.range(0, (s.max_cost.max(1) as u64) / 2 + 1) as i64,
                    };
                    let (op, obs, iters, added) = policy_add_traced(&p, &log, k, cost);
                    t.step(&op);
                    t.obs(&obs);
                    t.snap(&snap(&p, &m));
                    if iters > 0 {
                        loops += 1;
                        if iters > 1 {
                            multi = true;
                        }
                        if !added {
                            rejected = true;
                        }
                    }
                }
                65..=79 => {
                    let s = p.snap();
                    let cost = rng.range(0, (s.max_cost.max(1) as u64) + 3) as i64;
                    p.update(k, cost);
                    t.step(&format!("upd {} {}", k, cost));
                    t.snap(&snap(&p, &m));
                }
                80..=87 => {
                    p.remove(k);
                    t.step(&format!("rem {}", k));
                    t.snap(&snap(&p, &m));
                }
                88..=93 => {
                    let s = p.snap();
                    let nm = match rng.below(3) {
                        0 => s.max_cost / 2 + 1,
                        1 => s.max_cost * 2,
                        _ => rng.range(1, 120) as i64,
                    };
                    p.update_max_cost(nm);
                    t.step(&format!("setmax {}", nm));
                    t.snap(&snap(&p, &m));
                }
                94..=95 => {
                    p.clear();
                    t.step("clear");
                    t.snap(&snap(&p, &m));
                }
                96..=97 => {
                    t.step(&format!("cost {}", k));
                    t.obs(&p.cost(k).to_string());
                }
                _ => {
                    t.step("cap");
                    t.obs(&p.cap().to_string());
                }
            }
        }
        let _ = p.close();
        if loops > 0 {
            t.mark_nontrivial();
            t.tag("policy:case-with-eviction-loop");
        }
        if multi {
            t.tag("policy:case-with-multi-victim");
        }
        if rejected {
            t.tag("policy:case-with-popularity-reject");
        }
    }
    verif::install(None);
}
