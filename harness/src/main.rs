//! Correspondence harness: drives the real stretto code (built with
//! `--cfg transparencies_stretto_verif`) through generated operation sequences and writes a trace
//! that the extracted Coq model replays (`/verif/model/driver.ml`).
mod cachegen;
mod cachesuite;
mod comp;
mod monitors;
mod rng;
mod sched;
mod trace;

use rng::Rng;
use trace::Trace;

fn arg<'a>(args: &'a [String], name: &str) -> Option<&'a str> {
    args.iter().position(|a| a == name).and_then(|i| args.get(i + 1)).map(|s| s.as_str())
}

fn main() {
    let args: Vec<String> = std::env::args().collect();
    if args.len() < 2 {
        eprintln!("usage: harness <suite> --seed N --cases N --out FILE");
        std::process::exit(2);
    }
    let suite = args[1].clone();
    let seed: u64 = arg(&args, "--seed").map(|s| s.parse().unwrap()).unwrap_or(1);
    let cases: u64 = arg(&args, "--cases").map(|s| s.parse().unwrap()).unwrap_or(100);
    let out = arg(&args, "--out").unwrap_or("trace.txt").to_string();
    // panics inside the code under test are expected observations, not noise
    std::panic::set_hook(Box::new(|info| {
        let th = std::thread::current();
        let msg = format!("thread '{}': {}", th.name().unwrap_or("?"), info).replace('\n', " ");
        if th.name() == Some("main") {
            // a panic of the harness itself is a harness failure, not an observation
            eprintln!("HARNESS PANIC: {}", msg);
        }
        if let Ok(mut g) = sched::LAST_PANIC.lock() {
            *g = msg;
        }
        sched::PANICS.fetch_add(1, std::sync::atomic::Ordering::SeqCst);
    }));
    let mut rng = Rng::new(seed.wrapping_mul(0x2545F4914F6CDD1D) ^ fnv(&suite));
    let mut t = Trace::create(&out);
    let mut extra = String::new();
    let log = std::sync::Arc::new(comp::NoteLog::default());
    stretto::verif::install(Some(log.clone()));
    let mut ex = comp::Exec::new(log);
    match suite.as_str() {
        "row" => comp::suite_row(&mut rng, cases, &mut t, &mut ex),
        "sketch" => comp::suite_sketch(&mut rng, cases, &mut t, &mut ex),
        "bloom" => comp::suite_bloom(&mut rng, cases, &mut t, &mut ex),
        "tlfu" => comp::suite_tlfu(&mut rng, cases, &mut t, &mut ex),
        "policy" => comp::suite_policy(&mut rng, cases, &mut t, &mut ex),
        "bloomfp" => extra = comp::suite_bloomfp(&mut rng, cases, &mut t),
        "keys" => extra = comp::suite_keys(&mut rng, cases, &mut t),
        "ticker" => extra = cachesuite::suite_ticker(&mut t),
        "defaults" => extra = cachesuite::suite_defaults(&mut t),
        "stress" => extra = cachesuite::suite_stress(&mut t, seed, cases),
        "replay" => {
            let f = arg(&args, "--in").expect("--in FILE");
            let txt = std::fs::read_to_string(f).unwrap_or_default();
            if txt.contains("\nS cnew ") {
                cachegen::replay_cache(f, &mut t)
            } else {
                comp::replay(f, &mut t, &mut ex)
            }
        }
        s if s.starts_with("cache") => cachegen::suite_cache(&mut rng, cases, &mut t, s),
        _ => {
            eprintln!("unknown suite {}", suite);
            std::process::exit(2);
        }
    }
    let stats = t.finish();
    let np = sched::PANICS.load(std::sync::atomic::Ordering::SeqCst);
    if np > 0 {
        let last = sched::LAST_PANIC.lock().map(|g| g.clone()).unwrap_or_default();
        eprintln!("note: {} panics were caught during the run; last: {}", np, last);
    }
    println!("{}", stats.to_json(&suite, seed, &extra));
}

fn fnv(s: &str) -> u64 {
    let mut h = 0xcbf29ce484222325u64;
    for b in s.bytes() {
        h ^= b as u64;
        h = h.wrapping_mul(0x100000001b3);
    }
    h
}
