//! Cache-level correspondence: the real `Cache` / `AsyncCache` driven one scheduling segment at a
//! time by the baton scheduler (`sched.rs`), with a virtual clock, a controllable cleanup ticker,
//! recorded callbacks and a full state snapshot after every step.
use crate::comp::{str_kc, str_tlfu};
use crate::monitors::{Flags, Mon};
use crate::rng::Rng;
use crate::sched::{Actor, Arrival, Sched, Status, ACTOR, POL, PROC};
use crate::trace::Trace;
use std::collections::HashMap;
use std::hash::{Hash, Hasher};
use std::sync::mpsc;
use std::sync::{Arc, Mutex};
use std::time::{Duration, Instant};
use stretto::verif::{self, CacheSnap};
use stretto::{AsyncCache, AsyncCacheBuilder, Cache, CacheBuilder, CacheCallback, Coster, Item, KeyBuilder, TransparentHasher, UpdateValidator};

// ------------------------------------------------------------------------------------------
// pluggable pieces with a mode number the model knows

/// key (conflict << 32 | index)  ->  (index, conflict): lets a history force index collisions
#[derive(Clone, Default)]
pub struct TableKB;

fn raw_of<Q: Hash + ?Sized>(key: &Q) -> u64 {
    let mut h = TransparentHasher::default();
    key.hash(&mut h);
    h.finish()
}

impl KeyBuilder for TableKB {
    type Key = u64;
    fn hash_index<Q>(&self, key: &Q) -> u64
    where
        Self::Key: core::borrow::Borrow<Q>,
        Q: Hash + Eq + ?Sized,
    {
        raw_of(key) & 0xFFFF_FFFF
    }
    // hash_conflict is left at the trait's default (0): like a one-pass (Ristretto KeyToHash style)
    // builder, build_key is the authoritative mapping; a code path that hashes index and conflict
    // separately instead of calling build_key sees the wildcard conflict 0 and shows up at once
    fn build_key<Q>(&self, key: &Q) -> (u64, u64)
    where
        Self::Key: core::borrow::Borrow<Q>,
        Q: Hash + Eq + ?Sized,
    {
        let r = raw_of(key);
        (r & 0xFFFF_FFFF, r >> 32)
    }
}

pub fn mkkey(index: u64, conflict: u64) -> u64 {
    (conflict << 32) | (index & 0xFFFF_FFFF)
}

pub struct Co(pub u8);
impl Coster for Co {
    type Value = u64;
    fn cost(&self, v: &u64) -> i64 {
        match self.0 {
            0 => 0,
            1 => (*v % 5 + 1) as i64,
            _ => 7,
        }
    }
}

pub struct Va(pub u8);
impl Va {
    pub fn allows(&self, prev: u64, curr: u64) -> bool {
        match self.0 {
            0 => true,
            1 => false,
            2 => curr > prev,
            // 4: "only newer", and slow (the parallel suite uses it: a verdict that takes a while
            // shows whether it is still about the value that is actually replaced)
            4 => {
                for _ in 0..300 {
                    std::hint::spin_loop();
                }
                curr > prev
            }
            _ => curr % 3 != prev % 3,
        }
    }
}

thread_local! {
    /// values handed to on_exit on this thread since it was last drained (the parallel suite pairs
    /// them with the write that replaced them: on_exit runs inside the writer's own call)
    pub static EXITS: std::cell::RefCell<Vec<u64>> = std::cell::RefCell::new(Vec::new());
}
impl UpdateValidator for Va {
    type Value = u64;
    fn should_update(&self, prev: &u64, curr: &u64) -> bool {
        self.allows(*prev, *curr)
    }
}

#[derive(Clone, Default)]
pub struct Cb(pub Arc<Mutex<Vec<String>>>);
impl CacheCallback for Cb {
    type Value = u64;
    fn on_exit(&self, v: Option<u64>) {
        if let Some(x) = v {
            EXITS.with(|e| e.borrow_mut().push(x));
        }
        self.0.lock().unwrap().push(format!("exit:{}", v.map_or("none".to_string(), |x| x.to_string())));
    }
    fn on_evict(&self, item: Item<u64>) {
        self.0.lock().unwrap().push(format!("evict:{}:{}:{}:{}", item.index, item.conflict, item.val.unwrap_or(0), item.cost));
    }
    fn on_reject(&self, item: Item<u64>) {
        self.0.lock().unwrap().push(format!("reject:{}:{}:{}:{}", item.index, item.conflict, item.val.unwrap_or(0), item.cost));
    }
}

pub type SCache = Cache<u64, u64, TableKB, Co, Va, Cb, SeedBH>;
pub type ACache = AsyncCache<u64, u64, TableKB, Co, Va, Cb, SeedBH>;

/// A seeded, deterministic BuildHasher for the cache's internal hash maps: with it the iteration
/// order of the policy's charge map (the eviction sample) and of the expiry buckets is a function of
/// the seed and of the history, so replays repeat exactly and the two flavours can be compared
/// victim by victim; the seed varies from case to case.
#[derive(Clone, Copy, Debug, Default)]
pub struct SeedBH(pub u64);
pub struct SeedH(u64);
impl std::hash::BuildHasher for SeedBH {
    type Hasher = SeedH;
    fn build_hasher(&self) -> SeedH {
        SeedH(self.0 ^ 0x9E37_79B9_7F4A_7C15)
    }
}
impl std::hash::Hasher for SeedH {
    fn finish(&self) -> u64 {
        let mut z = self.0;
        z = (z ^ (z >> 30)).wrapping_mul(0xBF58_476D_1CE4_E5B9);
        z = (z ^ (z >> 27)).wrapping_mul(0x94D0_49BB_1331_11EB);
        z ^ (z >> 31)
    }
    fn write(&mut self, bytes: &[u8]) {
        for b in bytes {
            self.0 = (self.0.rotate_left(5) ^ (*b as u64)).wrapping_mul(0x0000_0100_0000_01B3);
        }
    }
    fn write_u64(&mut self, x: u64) {
        self.0 = (self.0.rotate_left(23) ^ x).wrapping_mul(0x9E37_79B9_7F4A_7C15).wrapping_add(0x632B_E59B_D9B4_E019);
    }
}

pub enum CK {
    S(SCache),
    A(ACache),
}

impl CK {
    /// another handle of the same cache (`Cache::clone`), not another reference to this handle
    pub fn clone_handle(&self) -> CK {
        match self {
            CK::S(c) => CK::S(c.clone()),
            CK::A(c) => CK::A(c.clone()),
        }
    }
}

#[derive(Clone, Debug)]
pub struct Config {
    pub is_async: bool,
    pub ctrs: usize,
    pub max_cost: i64,
    pub buf_cap: usize,
    pub buffer_items: usize,
    pub metrics: bool,
    pub ignore_internal: bool,
    pub validator: u8,
    pub coster: u8,
    pub now_ns: u64,
    pub seeds: [u64; 4],
}

#[derive(Clone, Debug)]
pub enum Op {
    Insert { idx: u64, conf: u64, val: u64, cost: i64, ttl_ns: u64, only: bool },
    Get { idx: u64, conf: u64 },
    GetMutWrite { idx: u64, conf: u64, val: u64 },
    GetTtl { idx: u64, conf: u64 },
    Remove { idx: u64, conf: u64 },
    Wait,
    Clear,
    Close,
    MaxCost,
    UpdateMaxCost(i64),
    Len,
}

impl Op {
    pub fn line(&self) -> String {
        match self {
            Op::Insert { idx, conf, val, cost, ttl_ns, only } => format!("insert {} {} {} {} {} {}", idx, conf, val, cost, ttl_ns, *only as u8),
            Op::Get { idx, conf } => format!("get {} {}", idx, conf),
            Op::GetMutWrite { idx, conf, val } => format!("getmut {} {} {}", idx, conf, val),
            Op::GetTtl { idx, conf } => format!("getttl {} {}", idx, conf),
            Op::Remove { idx, conf } => format!("remove {} {}", idx, conf),
            Op::Wait => "wait".into(),
            Op::Clear => "clear".into(),
            Op::Close => "close".into(),
            Op::MaxCost => "maxcost".into(),
            Op::UpdateMaxCost(mc) => format!("setmax {}", mc),
            Op::Len => "len".into(),
        }
    }
    pub fn parse(toks: &[&str]) -> Op {
        let u = |s: &str| s.parse::<u64>().unwrap();
        match toks[0] {
            "insert" => Op::Insert { idx: u(toks[1]), conf: u(toks[2]), val: u(toks[3]), cost: toks[4].parse().unwrap(), ttl_ns: u(toks[5]), only: toks[6] == "1" },
            "get" => Op::Get { idx: u(toks[1]), conf: u(toks[2]) },
            "getmut" => Op::GetMutWrite { idx: u(toks[1]), conf: u(toks[2]), val: u(toks[3]) },
            "getttl" => Op::GetTtl { idx: u(toks[1]), conf: u(toks[2]) },
            "remove" => Op::Remove { idx: u(toks[1]), conf: u(toks[2]) },
            "wait" => Op::Wait,
            "clear" => Op::Clear,
            "close" => Op::Close,
            "maxcost" => Op::MaxCost,
            "setmax" => Op::UpdateMaxCost(toks[1].parse().unwrap()),
            "len" => Op::Len,
            x => panic!("unknown op {}", x),
        }
    }
}

fn ttl_str(d: Duration) -> String {
    if d == Duration::MAX {
        "inf".into()
    } else {
        (d.as_nanos() as u64).to_string()
    }
}

fn ok_err<E>(r: Result<(), E>) -> String {
    if r.is_ok() { "ok".into() } else { "err".into() }
}

/// runs one client operation to completion on the calling thread (which may stop at yield points)
pub fn do_op(ck: &CK, op: &Op) -> String {
    use futures::executor::block_on;
    match (ck, op) {
        // every public spelling of insert is exercised: which one is a function of the (unique) value
        (CK::S(c), Op::Insert { idx, conf, val, cost, ttl_ns, only }) => {
            let k = mkkey(*idx, *conf);
            let ttl = Duration::from_nanos(*ttl_ns);
            let r = if *only {
                if val % 2 == 0 { c.try_insert_if_present(k, *val, *cost) } else { Ok(c.insert_if_present(k, *val, *cost)) }
            } else if *ttl_ns == 0 {
                match val % 4 {
                    0 => c.try_insert_with_ttl(k, *val, *cost, ttl),
                    1 => c.try_insert(k, *val, *cost),
                    2 => Ok(c.insert(k, *val, *cost)),
                    _ => Ok(c.insert_with_ttl(k, *val, *cost, ttl)),
                }
            } else if val % 2 == 0 {
                c.try_insert_with_ttl(k, *val, *cost, ttl)
            } else {
                Ok(c.insert_with_ttl(k, *val, *cost, ttl))
            };
            match r { Ok(b) => b.to_string(), Err(_) => "err".into() }
        }
        (CK::A(c), Op::Insert { idx, conf, val, cost, ttl_ns, only }) => {
            let k = mkkey(*idx, *conf);
            let ttl = Duration::from_nanos(*ttl_ns);
            let r = if *only {
                if val % 2 == 0 { block_on(c.try_insert_if_present(k, *val, *cost)) } else { Ok(block_on(c.insert_if_present(k, *val, *cost))) }
            } else if *ttl_ns == 0 {
                match val % 4 {
                    0 => block_on(c.try_insert_with_ttl(k, *val, *cost, ttl)),
                    1 => block_on(c.try_insert(k, *val, *cost)),
                    2 => Ok(block_on(c.insert(k, *val, *cost))),
                    _ => Ok(block_on(c.insert_with_ttl(k, *val, *cost, ttl))),
                }
            } else if val % 2 == 0 {
                block_on(c.try_insert_with_ttl(k, *val, *cost, ttl))
            } else {
                Ok(block_on(c.insert_with_ttl(k, *val, *cost, ttl)))
            };
            match r { Ok(b) => b.to_string(), Err(_) => "err".into() }
        }
        // both ways of reading a ValueRef (value() + release(), read()) and all ways of writing through a
        // ValueRefMut (write, value_mut, write_once; value() / clone_inner() for the old value)
        (CK::S(c), Op::Get { idx, conf }) => match c.get(&mkkey(*idx, *conf)) {
            None => "get:none".into(),
            Some(v) => {
                let ttl = ttl_str(v.ttl());
                if (*idx + *conf) % 2 == 0 { let s = format!("get:{}:{}", v.value(), ttl); v.release(); s } else { format!("get:{}:{}", v.read(), ttl) }
            }
        },
        (CK::A(c), Op::Get { idx, conf }) => match block_on(c.get(&mkkey(*idx, *conf))) {
            None => "get:none".into(),
            Some(v) => {
                let ttl = ttl_str(v.ttl());
                if (*idx + *conf) % 2 == 0 { let s = format!("get:{}:{}", v.value(), ttl); v.release(); s } else { format!("get:{}:{}", v.read(), ttl) }
            }
        },
        (CK::S(c), Op::GetMutWrite { idx, conf, val }) => match c.get_mut(&mkkey(*idx, *conf)) {
            None => "getmut:none".into(),
            Some(mut v) => {
                let s = if val % 2 == 0 { format!("getmut:{}", v.value()) } else { format!("getmut:{}", v.clone_inner()) };
                match val % 3 { 0 => { v.write(*val); drop(v); } 1 => { *v.value_mut() = *val; v.release(); } _ => v.write_once(*val) }
                s
            }
        },
        (CK::A(c), Op::GetMutWrite { idx, conf, val }) => match block_on(c.get_mut(&mkkey(*idx, *conf))) {
            None => "getmut:none".into(),
            Some(mut v) => {
                let s = if val % 2 == 0 { format!("getmut:{}", v.value()) } else { format!("getmut:{}", v.clone_inner()) };
                match val % 3 { 0 => { v.write(*val); drop(v); } 1 => { *v.value_mut() = *val; v.release(); } _ => v.write_once(*val) }
                s
            }
        },
        (CK::S(c), Op::GetTtl { idx, conf }) => c.get_ttl(&mkkey(*idx, *conf)).map_or("ttl:none".into(), |d| format!("ttl:{}", ttl_str(d))),
        (CK::A(c), Op::GetTtl { idx, conf }) => c.get_ttl(&mkkey(*idx, *conf)).map_or("ttl:none".into(), |d| format!("ttl:{}", ttl_str(d))),
        // remove() and try_remove() by turns (remove() returns nothing: a panic is the only way it can fail)
        (CK::S(c), Op::Remove { idx, conf }) => if (*idx + *conf) % 2 == 0 { c.remove(&mkkey(*idx, *conf)); "ok".into() } else { ok_err(c.try_remove(&mkkey(*idx, *conf))) },
        (CK::A(c), Op::Remove { idx, conf }) => if (*idx + *conf) % 2 == 0 { block_on(c.remove(&mkkey(*idx, *conf))); "ok".into() } else { ok_err(block_on(c.try_remove(&mkkey(*idx, *conf)))) },
        (CK::S(c), Op::Wait) => ok_err(c.wait()),
        (CK::A(c), Op::Wait) => ok_err(block_on(c.wait())),
        (CK::S(c), Op::Clear) => ok_err(c.clear()),
        (CK::A(c), Op::Clear) => ok_err(block_on(c.clear())),
        (CK::S(c), Op::Close) => ok_err(c.close()),
        (CK::A(c), Op::Close) => ok_err(block_on(c.close())),
        (CK::S(c), Op::MaxCost) => format!("z:{}", c.max_cost()),
        (CK::A(c), Op::MaxCost) => format!("z:{}", c.max_cost()),
        (CK::S(c), Op::UpdateMaxCost(mc)) => { c.update_max_cost(*mc); "ok".into() }
        (CK::A(c), Op::UpdateMaxCost(mc)) => { c.update_max_cost(*mc); "ok".into() }
        (CK::S(c), Op::Len) => if c.is_empty() == (c.len() == 0) { format!("n:{}", c.len()) } else { "n:is_empty-disagrees-with-len".into() },
        (CK::A(c), Op::Len) => if c.is_empty() == (c.len() == 0) { format!("n:{}", c.len()) } else { "n:is_empty-disagrees-with-len".into() },
    }
}

pub fn snapshot(ck: &CK) -> CacheSnap<u64> {
    match ck {
        CK::S(c) => verif::snapshot(c),
        CK::A(c) => verif::snapshot_async(c),
    }
}

pub fn str_snap(s: &CacheSnap<u64>) -> String {
    let store = if s.store.is_empty() {
        "-".to_string()
    } else {
        s.store.iter().map(|e| format!("{}:{}:{}:{}:{}", e.index, e.conflict, e.value, e.created_ns, e.ttl_ns)).collect::<Vec<_>>().join(";")
    };
    let em = if s.buckets.is_empty() {
        "-".to_string()
    } else {
        s.buckets
            .iter()
            .map(|(b, ks)| format!("{}[{}]", b, ks.iter().map(|(k, c)| format!("{}:{}", k, c)).collect::<Vec<_>>().join(",")))
            .collect::<Vec<_>>()
            .join(";")
    };
    let met = match &s.metrics {
        None => "off".to_string(),
        Some(m) => m.iter().map(|x| x.to_string()).collect::<Vec<_>>().join(","),
    };
    let hist = match &s.hist {
        None => "off".to_string(),
        Some((c, sum, min, max, b)) => format!("{},{},{},{},{}", c, sum, min, max, b.iter().map(|x| x.to_string()).collect::<Vec<_>>().join("/")),
    };
    format!(
        "now={} closed={} polclosed={} buf={} pq={} ring={} store={} em={} max={} used={} kc={} met={} hist={} {}",
        verif::clock::now_ns(),
        s.closed as u8,
        s.pol_closed as u8,
        s.buf_len,
        s.pol_queue_len,
        if s.ring.is_empty() { "-".to_string() } else { s.ring.iter().map(|x| x.to_string()).collect::<Vec<_>>().join(",") },
        store,
        em,
        s.policy.max_cost,
        s.policy.used,
        str_kc(&s.policy.key_costs),
        met,
        hist,
        str_tlfu(&s.policy.tlfu)
    )
}

// ------------------------------------------------------------------------------------------
// a running case

type Job = Box<dyn FnOnce() -> String + Send>;

#[derive(Clone, Debug, PartialEq)]
pub enum CState {
    Idle,
    At(&'static str),
    /// inside a blocking call; logged again when it arrives somewhere
    Blocked(&'static str),
}

pub struct Case {
    pub cfg: Config,
    pub sched: Arc<Sched>,
    pub ck: Arc<CK>,
    handles: Vec<Arc<CK>>,
    pub cb: Cb,
    jobs: Vec<mpsc::Sender<Job>>,
    pub cstate: Vec<CState>,
    sync_tick: Option<crossbeam_channel::Sender<Instant>>,
    async_tick: Option<async_channel::Sender<Instant>>,
    pub clear_pending: i64,
    pub ticks_pending: i64,
    pub stop_offered: bool,
    pub pol_stop_offered: bool,
    pub proc_exited: bool,
    pub pol_exited: bool,
    pub item_size: usize,
    pub hung: bool,
    pub mon: Mon,
    last_snap: CacheSnap<u64>,
    proc_prev_at: &'static str,
    /// the client being stepped is a remove() facing a full insert buffer
    rem_full: bool,
    tick_since_quiescent: bool,
    /// C19: results, callbacks (as a sorted multiset per quiescent interval) and quiescent snapshots
    pub pair_log: Arc<std::sync::Mutex<Vec<String>>>,
    recent: std::collections::VecDeque<String>,
    pub case_id: u64,
    pair_cbs: Vec<String>,
}

const LONG_DEFAULT_MS: u64 = 12_000;
/// how long an actor may take to reach its next scheduling point (VERIF_LONG_MS overrides, for tests of the harness itself)
fn long() -> Duration {
    Duration::from_millis(std::env::var("VERIF_LONG_MS").ok().and_then(|s| s.parse().ok()).unwrap_or(LONG_DEFAULT_MS))
}
const WAITLIKE: Duration = Duration::from_millis(3);
const OFFER: Duration = Duration::from_millis(25);

fn is_waitlike(p: &str, _is_async: bool) -> bool {
    p == "wait:before_block" || p == "clear:before_block"
}
fn is_offer(p: &str, is_async: bool) -> bool {
    !is_async && (p == "close:before_stop" || p == "polclose:before_stop")
}

fn spawner(fut: futures::future::BoxFuture<'static, ()>) {
    std::thread::spawn(move || futures::executor::block_on(fut));
}

impl Case {
    pub fn new(sched: Arc<Sched>, cfg: Config, nclients: usize, case_id: u64, flags: Flags) -> Result<Case, String> {
        sched.reset();
        sched.set_controlled(true);
        verif::clock::set_ns(cfg.now_ns);
        let cb = Cb::default();
        let (mut sync_tick, mut async_tick) = (None, None);
        let ck = if cfg.is_async {
            let (tx, rx) = async_channel::unbounded();
            verif::set_async_ticker(Some(rx));
            async_tick = Some(tx);
            // the builder's setters in two orders (the type-changing ones rebuild the builder field by
            // field: whatever was set before them must survive)
            let c = if cfg.seeds[1] % 2 == 0 {
                AsyncCacheBuilder::new_with_key_builder(cfg.ctrs, cfg.max_cost, TableKB)
                    .set_coster(Co(cfg.coster))
                    .set_update_validator(Va(cfg.validator))
                    .set_callback(cb.clone())
                    .set_buffer_size(cfg.buf_cap)
                    .set_buffer_items(cfg.buffer_items)
                    .set_metrics(cfg.metrics)
                    .set_ignore_internal_cost(cfg.ignore_internal)
                    .set_cleanup_duration(Duration::from_secs(3600))
                    .set_hasher(SeedBH(cfg.seeds[0]))
                    .finalize(spawner)
            } else {
                AsyncCache::<u64, u64>::builder(7, 7)
                    .set_num_counters(cfg.ctrs)
                    .set_max_cost(cfg.max_cost)
                    .set_buffer_size(cfg.buf_cap)
                    .set_buffer_items(cfg.buffer_items)
                    .set_metrics(cfg.metrics)
                    .set_ignore_internal_cost(cfg.ignore_internal)
                    .set_cleanup_duration(Duration::from_secs(3600))
                    .set_key_builder(TableKB)
                    .set_hasher(SeedBH(cfg.seeds[0]))
                    .set_callback(cb.clone())
                    .set_update_validator(Va(cfg.validator))
                    .set_coster(Co(cfg.coster))
                    .finalize(spawner)
            }
            .map_err(|e| format!("{:?}", e))?;
            verif::set_seeds_async(&c, cfg.seeds);
            CK::A(c)
        } else {
            let (tx, rx) = crossbeam_channel::unbounded();
            verif::set_sync_ticker(Some(rx));
            sync_tick = Some(tx);
            let c = if cfg.seeds[1] % 2 == 0 {
                CacheBuilder::new_with_key_builder(cfg.ctrs, cfg.max_cost, TableKB)
                    .set_coster(Co(cfg.coster))
                    .set_update_validator(Va(cfg.validator))
                    .set_callback(cb.clone())
                    .set_buffer_size(cfg.buf_cap)
                    .set_buffer_items(cfg.buffer_items)
                    .set_metrics(cfg.metrics)
                    .set_ignore_internal_cost(cfg.ignore_internal)
                    .set_cleanup_duration(Duration::from_secs(3600))
                    .set_hasher(SeedBH(cfg.seeds[0]))
                    .finalize()
            } else {
                Cache::<u64, u64>::builder(7, 7)
                    .set_num_counters(cfg.ctrs)
                    .set_max_cost(cfg.max_cost)
                    .set_buffer_size(cfg.buf_cap)
                    .set_buffer_items(cfg.buffer_items)
                    .set_metrics(cfg.metrics)
                    .set_ignore_internal_cost(cfg.ignore_internal)
                    .set_cleanup_duration(Duration::from_secs(3600))
                    .set_key_builder(TableKB)
                    .set_hasher(SeedBH(cfg.seeds[0]))
                    .set_callback(cb.clone())
                    .set_update_validator(Va(cfg.validator))
                    .set_coster(Co(cfg.coster))
                    .finalize()
            }
            .map_err(|e| format!("{:?}", e))?;
            verif::set_seeds(&c, cfg.seeds);
            CK::S(c)
        };
        let ck = Arc::new(ck);
        // both workers park at their loop heads
        if sched.wait_arrival(PROC, 0, long()) == Arrival::Blocked || sched.wait_arrival(POL, 0, long()) == Arrival::Blocked {
            return Err("workers did not reach their loop heads".into());
        }
        let mut jobs = Vec::new();
        for a in 0..nclients {
            let (tx, rx) = mpsc::channel::<Job>();
            let s2 = sched.clone();
            // the generation is read here, by the thread that owns the case: a client thread that
            // starts late must not adopt the generation of a later case
            let my_gen = sched.gen();
            std::thread::spawn(move || {
                ACTOR.with(|c| c.set(Some(a as Actor)));
                crate::sched::GEN.with(|c| c.set(Some(my_gen)));
                while let Ok(job) = rx.recv() {
                    let r = std::panic::catch_unwind(std::panic::AssertUnwindSafe(job)).unwrap_or_else(|_| "panic".to_string());
                    s2.finished(a as Actor, r);
                }
            });
            jobs.push(tx);
        }
        let first = snapshot(&ck);
        let item_size = first.item_size;
        Ok(Case {
            mon: Mon::new(case_id, cfg.clone(), flags, item_size),
            last_snap: first,
            proc_prev_at: "proc:loop",
            rem_full: false,
            tick_since_quiescent: false,
            pair_log: Arc::new(std::sync::Mutex::new(Vec::new())),
            pair_cbs: Vec::new(),
            recent: std::collections::VecDeque::new(),
            case_id,
            cfg,
            sched,
            handles: (0..nclients).map(|_| Arc::new(ck.clone_handle())).collect(),
            ck,
            cb,
            jobs,
            cstate: vec![CState::Idle; nclients],
            sync_tick,
            async_tick,
            clear_pending: 0,
            ticks_pending: 0,
            stop_offered: false,
            pol_stop_offered: false,
            proc_exited: false,
            pol_exited: false,
            item_size,
            hung: false,
        })
    }

    fn is_quiescent(&self, s: &CacheSnap<u64>) -> bool {
        self.cstate.iter().all(|c| *c == CState::Idle)
            && s.buf_len == 0
            && s.pol_queue_len == 0
            && self.clear_pending <= 0
            && self.ticks_pending <= 0
            && !self.stop_offered
            && !self.pol_stop_offered
            && (self.proc_exited || self.sched.status(PROC) == Status::At("proc:loop"))
            && (self.pol_exited || self.sched.status(POL) == Status::At("pol:loop"))
    }

    fn log_step(&mut self, t: &mut Trace, line: &str, at: &str, res: &str) {
        self.recent.push_back(format!("{} -> {}", line, at));
        if self.recent.len() > 8 {
            self.recent.pop_front();
        }
        if at == "HUNG" {
            eprintln!(
                "STALL case={} async={} step=[{}] proc={:?} pol={:?} clients={:?} recent={:?}",
                self.case_id, self.cfg.is_async, line, self.sched.status(PROC), self.sched.status(POL),
                (0..self.cstate.len()).map(|a| format!("{:?}/{:?}", self.cstate[a], self.sched.status(a as Actor))).collect::<Vec<_>>(),
                self.recent
            );
        }
        t.step(line);
        let cbv: Vec<String> = std::mem::take(&mut *self.cb.0.lock().unwrap());
        let cbs = if cbv.is_empty() { "-".to_string() } else { cbv.join(",") };
        t.obs(&format!("at={} cb={} res={}", at, cbs, res));
        let after = snapshot(&self.ck);
        let after_s = str_snap(&after);
        t.snap(&after_s);
        // ---- C19: what a client of either flavour can observe
        self.pair_cbs.extend(cbv.iter().cloned());
        if at == "finish" && (line.starts_with("op ") || line.starts_with("cl ")) {
            self.pair_log.lock().unwrap().push(format!("R {}", res));
        }
        // ---- monitors on the implementation's own observations
        let now = verif::clock::now_ns();
        let before = std::mem::replace(&mut self.last_snap, after.clone());
        if line.starts_with("pr tick") {
            self.mon.tick_started(now);
            self.tick_since_quiescent = true;
        }
        self.mon.callbacks(&cbv, &before, now, line);
        if line.starts_with("pr ") {
            self.mon.processor_rewrite(&before, &after);
        }
        if line.starts_with("pr") && self.proc_prev_at == "proc:tick:key" && at == "proc:tick:after_policy" {
            self.mon.sweep_decision(&before, &after, now);
        }
        if line.starts_with("pr") {
            if self.proc_prev_at == "proc:clear:after_store" && at == "proc:loop" {
                self.mon.clear_performed(&after);
            }
        }
        if at == "finish" && (line.starts_with("op ") || line.starts_with("cl ")) {
            let a: usize = line.split(' ').nth(1).unwrap().parse().unwrap();
            let unchanged = str_snap(&before) == after_s;
            self.mon.op_finished(a, res, now, &before, &after, unchanged);
        }
        if at == "HUNG" {
            self.mon.hung(line);
        }
        if self.is_quiescent(&after) {
            let tick_done = std::mem::replace(&mut self.tick_since_quiescent, false);
            self.mon.quiescent(&after, now, tick_done);
            let mut cbs = std::mem::take(&mut self.pair_cbs);
            cbs.sort();
            let mut pl = self.pair_log.lock().unwrap();
            pl.push(format!("C {}", cbs.join(",")));
            pl.push(format!("Q {}", after_s));
            drop(pl);
            // C17: ratio() is hits / (hits + misses) (0 when there were no lookups)
            let ratio = match &*self.ck { CK::S(c) => c.metrics.ratio(), CK::A(c) => c.metrics.ratio() };
            self.mon.ratio(&after, ratio);
            // the public getters of Metrics against the counters of the same snapshot
            let m = match &*self.ck { CK::S(c) => c.metrics.clone(), CK::A(c) => c.metrics.clone() };
            let getters = [m.get_hits(), m.get_misses(), m.get_keys_added(), m.get_keys_updated(), m.get_keys_evicted(),
                           m.get_cost_added(), m.get_cost_evicted(), m.get_sets_dropped(), m.get_sets_rejected(),
                           m.get_gets_dropped(), m.get_gets_kept()];
            self.mon.getters(&after, &getters);
        }
    }

    fn note_client_arrival(&mut self, a: usize, arr: &Arrival, from: Option<&'static str>) {
        match arr {
            Arrival::At(p) => {
                self.cstate[a] = CState::At(p);
                if *p == "clear:before_block" {
                    self.clear_pending += 1;
                }
            }
            Arrival::Finished(_) => self.cstate[a] = CState::Idle,
            Arrival::Blocked => {
                if let Some(f) = from {
                    self.cstate[a] = CState::Blocked(f);
                }
            }
        }
    }

    /// clients that were inside a blocking call and have come out
    pub fn poll_blocked(&mut self, t: &mut Trace, grace: Duration) {
        let deadline = Instant::now() + grace;
        loop {
            let mut any_blocked = false;
            for a in 0..self.cstate.len() {
                if let CState::Blocked(from) = self.cstate[a].clone() {
                    any_blocked = true;
                    match self.sched.status(a as Actor) {
                        Status::At(p) => {
                            if from == "close:before_stop" {
                                self.stop_offered = false;
                            }
                            if from == "polclose:before_stop" {
                                self.pol_stop_offered = false;
                            }
                            self.note_client_arrival(a, &Arrival::At(p), None);
                            self.log_step(t, &format!("cl {}", a), p, "-");
                        }
                        Status::Finished(r) => {
                            if from == "close:before_stop" {
                                self.stop_offered = false;
                            }
                            if from == "polclose:before_stop" {
                                self.pol_stop_offered = false;
                            }
                            self.cstate[a] = CState::Idle;
                            self.log_step(t, &format!("cl {}", a), "finish", &r);
                        }
                        _ => {}
                    }
                }
            }
            if !any_blocked || Instant::now() >= deadline {
                break;
            }
            std::thread::sleep(Duration::from_micros(40));
        }
    }

    fn after_client_segment(&mut self, t: &mut Trace, a: usize, line: &str, from: Option<&'static str>, seen: u64) {
        let (timeout, kind) = match from {
            Some(p) if is_waitlike(p, self.cfg.is_async) => (WAITLIKE, 1),
            Some("rem:before_send") if self.rem_full => (OFFER, 1),
            Some(p) if is_offer(p, self.cfg.is_async) => (OFFER, 2),
            _ => (long(), 0),
        };
        let arr = self.sched.wait_arrival(a as Actor, seen, timeout);
        match (&arr, kind) {
            (Arrival::Blocked, 1) => {
                // entering a blocking call is not an event; its return will be logged
                self.note_client_arrival(a, &arr, from);
                if from == Some("rem:before_send") {
                    // the sender is parked inside the send: nobody but the processor moves until it has
                    // made room, so that who gets the free slot is not a race (see step_proc)
                    for _ in 0..200 {
                        if self.hung || self.cstate[a] != CState::Blocked("rem:before_send") {
                            break;
                        }
                        if !self.proc_enabled() {
                            self.hung = true;
                            self.cstate[a] = CState::Blocked("HUNG");
                            self.log_step(t, line, "HUNG", "-");
                            break;
                        }
                        self.step_proc(t);
                    }
                }
            }
            (Arrival::Blocked, 2) => {
                self.note_client_arrival(a, &arr, from);
                if from == Some("close:before_stop") {
                    self.stop_offered = true;
                } else {
                    self.pol_stop_offered = true;
                }
                // give the sender time to register in the rendezvous channel
                std::thread::sleep(Duration::from_millis(2));
                self.log_step(t, line, "blocked", "-");
            }
            (Arrival::Blocked, _) => {
                self.hung = true;
                self.cstate[a] = CState::Blocked("HUNG");
                self.log_step(t, line, "HUNG", "-");
            }
            (Arrival::At(p), _) => {
                if self.cfg.is_async && from == Some("close:before_stop") {
                    self.stop_offered = true; // a stop message is buffered
                }
                if self.cfg.is_async && from == Some("polclose:before_stop") && *p == "polclose:after_stop" {
                    self.pol_stop_offered = true;
                }
                self.note_client_arrival(a, &arr, None);
                self.log_step(t, line, p, "-");
            }
            (Arrival::Finished(r), _) => {
                self.note_client_arrival(a, &arr, None);
                let r = r.clone();
                self.log_step(t, line, "finish", &r);
            }
        }
        self.poll_blocked(t, Duration::from_micros(300));
    }

    pub fn start_op(&mut self, t: &mut Trace, a: usize, op: Op) {
        if self.cstate[a] != CState::Idle {
            // the previous operation of this client has not come back (see settle): nothing can be
            // started on it; the case ends here and the stuck client is reported by finish()
            self.hung = true;
            return;
        }
        let seen = self.sched.arrivals(a as Actor);
        self.sched.mark_running(a as Actor);
        self.mon.op_started(a, &op, verif::clock::now_ns(), self.last_snap.closed);
        // every client works through its own clone()d handle of the cache
        let ck = self.handles[a].clone();
        let op2 = op.clone();
        self.jobs[a].send(Box::new(move || do_op(&ck, &op2))).unwrap();
        self.after_client_segment(t, a, &format!("op {} {}", a, op.line()), None, seen);
    }

    pub fn step_client(&mut self, t: &mut Trace, a: usize) {
        let from = match self.cstate[a] {
            CState::At(p) => p,
            _ => panic!("client {} is not at a yield point", a),
        };
        self.rem_full = from == "rem:before_send" && self.rem_would_block();
        let seen = self.sched.grant(a as Actor);
        self.after_client_segment(t, a, &format!("cl {}", a), Some(from), seen);
        self.rem_full = false;
    }

    /// a remove() about to send its Delete marker would have to wait: the buffer is full and the
    /// processor (the receiver) is still there
    fn rem_would_block(&self) -> bool {
        !self.proc_exited && snapshot(&self.ck).buf_len >= self.cfg.buf_cap
    }

    /// the yield point the processor reached by its last step
    pub fn proc_at(&self) -> &'static str {
        self.proc_prev_at
    }

    pub fn proc_enabled(&self) -> bool {
        if self.proc_exited {
            return false;
        }
        match self.sched.status(PROC) {
            Status::At("proc:loop") => {
                let s = snapshot(&self.ck);
                s.buf_len > 0 || self.clear_pending > 0 || self.ticks_pending > 0 || self.stop_offered
            }
            Status::At(_) => true,
            _ => false,
        }
    }

    pub fn pol_enabled(&self) -> bool {
        if self.pol_exited {
            return false;
        }
        match self.sched.status(POL) {
            Status::At("pol:loop") => snapshot(&self.ck).pol_queue_len > 0 || self.pol_stop_offered,
            _ => false,
        }
    }

    pub fn step_proc(&mut self, t: &mut Trace) {
        let seen = self.sched.grant(PROC);
        let mut arr = self.sched.wait_arrival(PROC, seen, long());
        let notes = self.sched.take_notes();
        let mut arm = "-";
        let mut tick_key = "-".to_string();
        let mut oracle = String::new();
        let mut n_or = 0;
        let mut exited = false;
        for (_, name, args) in &notes {
            match *name {
                "proc:arm:item" => arm = "item",
                "proc:arm:clear" => {
                    arm = "clear";
                    self.clear_pending -= 1;
                }
                "proc:arm:tick" => {
                    arm = "tick";
                    self.ticks_pending -= 1;
                }
                "proc:arm:stop" => {
                    arm = "stop";
                    self.stop_offered = false;
                }
                "proc:exit" => exited = true,
                "tick:key" => tick_key = args[0].to_string(),
                "pol:sample" => {
                    n_or += 1;
                    let pairs = &args[6..];
                    oracle.push_str(&format!(" {}", pairs.len() / 2));
                    for ch in pairs.chunks(2) {
                        oracle.push_str(&format!(" {} {}", ch[0], ch[1] as i64));
                    }
                }
                _ => {}
            }
        }
        if exited {
            self.proc_exited = true;
            self.clear_pending = 0;
            arr = Arrival::At("proc:exit");
        }
        let at = match &arr {
            Arrival::At(p) => *p,
            _ => {
                self.hung = true;
                "HUNG"
            }
        };
        // a remove() parked inside its send comes back by itself as soon as this step has made room
        // (or the processor has exited and dropped the receiver): the two are observed together
        let waiting = self.cstate.iter().position(|c| *c == CState::Blocked("rem:before_send"));
        let mut joined = false;
        if let (Some(a), true) = (waiting, at != "HUNG") {
            if self.proc_exited || arm == "item" || arm == "clear" || arm == "stop" {
                let deadline = Instant::now() + long();
                loop {
                    if let Status::Finished(r) = self.sched.status(a as Actor) {
                        self.cstate[a] = CState::Idle;
                        self.log_step(t, &format!("prcl {} {} {} {}{}", a, arm, tick_key, n_or, oracle), at, &r);
                        // the client's result is an operation result too
                        let now = verif::clock::now_ns();
                        let snap = self.last_snap.clone();
                        self.mon.op_finished(a, &r, now, &snap, &snap, false);
                        joined = true;
                        break;
                    }
                    if Instant::now() >= deadline {
                        self.hung = true;
                        self.cstate[a] = CState::Blocked("HUNG");
                        break;
                    }
                    std::thread::sleep(Duration::from_micros(50));
                }
            }
        }
        if !joined {
            self.log_step(t, &format!("pr {} {} {}{}", arm, tick_key, n_or, oracle), at, "-");
        }
        self.proc_prev_at = match &arr {
            Arrival::At(p) => *p,
            _ => "HUNG",
        };
        self.poll_blocked(t, Duration::from_micros(400));
    }

    pub fn step_worker(&mut self, t: &mut Trace) {
        let seen = self.sched.grant(POL);
        let mut arr = self.sched.wait_arrival(POL, seen, long());
        let notes = self.sched.take_notes();
        let mut arm = "-";
        for (_, name, _) in &notes {
            match *name {
                "pol:arm:items" => arm = "item",
                "pol:exit" => {
                    arm = "stop";
                    self.pol_exited = true;
                    self.pol_stop_offered = false;
                    arr = Arrival::At("pol:exit");
                }
                _ => {}
            }
        }
        let at = match &arr {
            Arrival::At(p) => *p,
            _ => {
                self.hung = true;
                "HUNG"
            }
        };
        self.log_step(t, &format!("wk {}", arm), at, "-");
        self.poll_blocked(t, Duration::from_micros(400));
    }

    pub fn advance(&mut self, t: &mut Trace, dt: u64) {
        verif::clock::advance_ns(dt);
        self.log_step(t, &format!("adv {}", dt), "finish", "-");
    }

    pub fn tick(&mut self, t: &mut Trace) {
        if let Some(tx) = &self.sync_tick {
            let _ = tx.send(Instant::now());
        }
        if let Some(tx) = &self.async_tick {
            let _ = tx.try_send(Instant::now());
        }
        self.ticks_pending += 1;
        self.log_step(t, "tick", "finish", "-");
    }

    /// any actor that can move
    pub fn enabled(&self) -> Vec<Actor> {
        let mut v = Vec::new();
        for (a, s) in self.cstate.iter().enumerate() {
            if let CState::At(p) = s {
                // remove() waits for room in the insert buffer: stepping it with a full buffer parks it
                // inside the send (see after_client_segment / step_proc); one such sender at a time,
                // so that who gets the next free slot is never a race
                if *p == "rem:before_send" && self.rem_would_block()
                    && (self.clear_pending > 0 || self.stop_offered || self.cstate.iter().any(|c| *c == CState::Blocked("rem:before_send")))
                {
                    // (a drain for clear / stop would race with the parked sender)
                    continue;
                }
                v.push(a as Actor);
            }
        }
        if self.proc_enabled() {
            v.push(PROC);
        }
        if self.pol_enabled() {
            v.push(POL);
        }
        v
    }

    pub fn step_actor(&mut self, t: &mut Trace, a: Actor) {
        if a == PROC {
            self.step_proc(t)
        } else if a == POL {
            self.step_worker(t)
        } else {
            self.step_client(t, a as usize)
        }
    }

    /// run everything that can move until nothing can (quiescence); bounded
    pub fn settle(&mut self, t: &mut Trace, rng: &mut Rng) {
        for _ in 0..20000 {
            let en = self.enabled();
            if en.is_empty() {
                self.poll_blocked(t, Duration::from_millis(2));
                if self.enabled().is_empty() {
                    // nobody can move: a client that is still inside a blocking call has either been
                    // released already and not woken up yet (a loaded machine takes its time), or is
                    // stuck for good; give it time before concluding
                    if self.cstate.iter().any(|c| matches!(c, CState::Blocked(_))) {
                        self.poll_blocked(t, Duration::from_millis(400));
                        if !self.enabled().is_empty() || !self.cstate.iter().any(|c| matches!(c, CState::Blocked(_))) {
                            continue;
                        }
                    }
                    break;
                }
                continue;
            }
            let a = *rng.pick(&en);
            self.step_actor(t, a);
            if self.hung {
                break;
            }
        }
    }

    /// gives up on this attempt of the case: every thread runs free, nothing more is recorded
    pub fn abandon(mut self) {
        self.mon.discard();
        self.sched.set_controlled(false);
        let ck = self.ck.clone();
        std::thread::spawn(move || {
            let _ = do_op(&ck, &Op::Close);
        });
        std::thread::sleep(Duration::from_millis(20));
        drop(self.jobs);
    }

    /// finish the case: quiesce, report clients that never came back, stop the workers
    pub fn finish(mut self, t: &mut Trace, rng: &mut Rng) {
        self.settle(t, rng);
        self.poll_blocked(t, Duration::from_millis(300));
        for a in 0..self.cstate.len() {
            if let CState::Blocked(p) = self.cstate[a] {
                t.step(&format!("stuck {} {}", a, p));
                self.mon.stuck(a, p);
            }
        }
        if self.mon.closed_ok() && !self.hung {
            // a closer may still be on its way through the handshakes (another close() returned Ok at
            // once because the flag was already set): let everybody run on before looking
            for _ in 0..40 {
                if self.proc_exited && self.pol_exited {
                    break;
                }
                std::thread::sleep(Duration::from_millis(25));
                self.settle(t, rng);
                self.poll_blocked(t, Duration::from_millis(25));
            }
            if !self.proc_exited {
                self.mon.worker_alive_after_close("the cache processor");
            }
            if !self.pol_exited {
                self.mon.worker_alive_after_close("the policy worker");
            }
        }
        // tear down: let everything run free, close if still open
        self.sched.set_controlled(false);
        let ck = self.ck.clone();
        let closed = snapshot(&ck).closed;
        if !closed && !self.hung {
            let h = std::thread::spawn(move || {
                let _ = do_op(&ck, &Op::Close);
            });
            let t0 = Instant::now();
            while !h.is_finished() && t0.elapsed() < Duration::from_secs(2) {
                std::thread::sleep(Duration::from_millis(1));
            }
        }
        drop(self.jobs);
    }
}

/// Real parallelism (no scheduler): the model treats the code between two scheduling points as one
/// atomic step; that is an assumption about the locks in /repo, and the interleaved suites run one
/// actor at a time, so they cannot see it fail.  Here free-running client threads hammer caches of
/// both flavours and, once everybody has returned and a wait() marker has gone through, the
/// conservation laws the theorems give for *every* interleaving of atomic steps are checked on the
/// quiescent cache: every lookup is in exactly one place (kept, dropped, or still in the ring; C15 /
/// C17), hits + misses = lookups (C17), resident = charged (C06), counters = charges (C17), every
/// accepted value is resident or was handed back exactly once (C08).  Not compared with the model.
pub fn suite_stress(t: &mut Trace, seed: u64, rounds: u64) -> String {
    use std::sync::atomic::{AtomicU64, Ordering as AO};
    stretto::verif::install(Some(Arc::new(crate::sched::Chaos(std::sync::atomic::AtomicU64::new(seed)))));
    verif::set_sync_ticker(None);
    verif::set_async_ticker(None);
    let mut fails: Vec<(&str, u64, String)> = Vec::new();
    let mut rng = Rng::new(seed ^ 0x5712_e55);
    let mut total_ops = 0u64;
    let mut ttl_polled = 0u64;
    for round in 0..rounds {
        if fails.len() > 24 {
            break;
        }
        let is_async = round % 2 == 1;
        let buffer_items = *rng.pick(&[1usize, 3, 4, 16, 64]);
        let buf_cap = *rng.pick(&[2usize, 8, 64]);
        let max_cost = *rng.pick(&[6i64, 20, 1000]);
        let nthreads = rng.range(2, 6) as usize;
        // one round in four hammers a single key: everything meets on one shard lock
        let nkeys = if round % 4 == 3 { 2 } else { rng.range(4, 14) };
        let per_thread = 1500u64;
        let va = *rng.pick(&[0u8, 4, 4]);
        verif::clock::set_ns(1_700_000_000_000_000_000);
        let cb = Cb::default();
        let ck = Arc::new(if is_async {
            CK::A(AsyncCacheBuilder::new_with_key_builder(64, max_cost, TableKB)
                .set_coster(Co(0)).set_update_validator(Va(va)).set_callback(cb.clone())
                .set_metrics(true).set_ignore_internal_cost(true)
                .set_buffer_size(buf_cap).set_buffer_items(buffer_items)
                .set_hasher(SeedBH(seed ^ round))
                .finalize(spawner).expect("async cache"))
        } else {
            CK::S(CacheBuilder::new_with_key_builder(64, max_cost, TableKB)
                .set_coster(Co(0)).set_update_validator(Va(va)).set_callback(cb.clone())
                .set_metrics(true).set_ignore_internal_cost(true)
                .set_buffer_size(buf_cap).set_buffer_items(buffer_items)
                .set_hasher(SeedBH(seed ^ round))
                .finalize().expect("sync cache"))
        });
        t.case(round, "stress");
        let lookups = Arc::new(AtomicU64::new(0));
        let accepted: Arc<Mutex<Vec<u64>>> = Arc::new(Mutex::new(Vec::new()));
        let vetoes: Arc<Mutex<Vec<(u64, u64)>>> = Arc::new(Mutex::new(Vec::new()));
        let overwritten: Arc<Mutex<Vec<u64>>> = Arc::new(Mutex::new(Vec::new()));
        let progress = Arc::new(AtomicU64::new(0));
        let current: Arc<Vec<AtomicU64>> = Arc::new((0..nthreads).map(|_| AtomicU64::new(0)).collect());
        let mut hs = Vec::new();
        for th in 0..nthreads {
            let ck = Arc::new(ck.clone_handle());
            let lookups = lookups.clone();
            let accepted = accepted.clone();
            let mut r = Rng::new(seed.wrapping_mul(31).wrapping_add(round * 97 + th as u64));
            let vetoed: Arc<Mutex<Vec<(u64, u64)>>> = vetoes.clone();
            let progress = progress.clone();
            let current = current.clone();
            let overwritten = overwritten.clone();
            hs.push(std::thread::spawn(move || {
                let mut mine = Vec::new();
                EXITS.with(|e| e.borrow_mut().clear());
                for i in 0..per_thread {
                    let idx = r.range(1, nkeys);
                    progress.fetch_add(1, AO::Relaxed);
                    let k = r.below(14);
                    current[th].store(match k { 0..=5 => 0, 6..=8 => 1, 9 => 2, 10 | 11 => 3, _ => 4 }, AO::Relaxed);
                    match k {
                        12 => {
                            // write through get_mut: the old value is overwritten in place (no callback)
                            let val = 3_000_000 + ((i << 4) | th as u64);
                            let res = do_op(&ck, &Op::GetMutWrite { idx, conf: 0, val });
                            lookups.fetch_add(1, AO::SeqCst);
                            if let Some(old) = res.strip_prefix("getmut:").and_then(|x| x.parse::<u64>().ok()) {
                                overwritten.lock().unwrap().push(old);
                                mine.push(val);
                            }
                        }
                        13 => {
                            if i % 16 == 0 {
                                let _ = do_op(&ck, &Op::UpdateMaxCost(r.range(4, 40) as i64));
                            } else {
                                let _ = do_op(&ck, &Op::Len);
                            }
                        }
                        0..=5 => {
                            let _ = do_op(&ck, &Op::Get { idx, conf: 0 });
                            lookups.fetch_add(1, AO::SeqCst);
                        }
                        10 | 11 => {
                            // (get_ttl reads the store without feeding the estimator: not a lookup)
                            let _ = do_op(&ck, &Op::GetTtl { idx, conf: 0 });
                        }
                        6..=8 => {
                            // unique, and interleaved between the threads (who holds the newer value varies)
                            let val = 1_000_000 + ((i << 4) | th as u64);
                            let cost = r.range(1, 4) as i64;
                            let ttl_ns = if val % 3 == 0 { 3_600_000_000_000 } else { 0 };
                            if do_op(&ck, &Op::Insert { idx, conf: 0, val, cost, ttl_ns, only: false }) == "true" {
                                mine.push(val);
                            }
                            // what this write replaced in the store was handed to on_exit inside the call
                            for old in EXITS.with(|e| std::mem::take(&mut *e.borrow_mut())) {
                                if !Va(va).allows(old, val) {
                                    vetoed.lock().unwrap().push((old, val));
                                }
                            }
                        }
                        _ => {
                            let _ = do_op(&ck, &Op::Remove { idx, conf: 0 });
                            EXITS.with(|e| e.borrow_mut().clear());
                        }
                    }
                }
                accepted.lock().unwrap().extend(mine);
            }));
        }
        // everybody must come back: a thread that is still inside a call after 30 s without anybody
        // making progress is blocked for good (threads cannot be killed: the round is given up)
        let fl = if is_async { "async" } else { "sync" };
        let t0 = Instant::now();
        let mut last = (progress.load(AO::SeqCst), Instant::now());
        while hs.iter().any(|h| !h.is_finished()) {
            std::thread::sleep(Duration::from_millis(2));
            let p = progress.load(AO::SeqCst);
            if p != last.0 {
                last = (p, Instant::now());
            }
            if last.1.elapsed() > Duration::from_secs(10) || t0.elapsed() > Duration::from_secs(120) {
                break;
            }
        }
        if hs.iter().any(|h| !h.is_finished()) {
            let what = ["get()", "insert()", "remove()", "get_ttl()", "get_mut()"];
            let inside: Vec<&str> = current.iter().map(|c| what[(c.load(AO::SeqCst) as usize).min(4)]).collect();
            let msg = format!("{} threads={} keys={}: no operation has completed for 10 s, the threads are inside {:?}: deadlock", fl, nthreads, nkeys, inside);
            fails.push(("C20", round, msg.clone()));
            fails.push(("C03", round, msg));
            t.step("stress deadlocked");
            t.mark_nontrivial();
            break;
        }
        let mut panicked = false;
        for h in hs {
            panicked |= h.join().is_err();
        }
        total_ops += nthreads as u64 * per_thread;
        if panicked {
            fails.push(("C20", round, format!("{}: a client thread panicked under parallel load", fl)));
        }
        // quiesce: two markers through the buffer, then let the policy worker drain its queue
        // (a wait() that finds the buffer full reports an error and is no barrier: ask again)
        let mut barriers = 0;
        let t0 = Instant::now();
        while barriers < 2 && t0.elapsed() < Duration::from_secs(20) {
            if do_op(&ck, &Op::Wait) == "ok" {
                barriers += 1;
            } else {
                std::thread::sleep(Duration::from_millis(1));
            }
        }
        if barriers < 2 {
            fails.push(("C10", round, format!("{}: wait() did not return Ok within 20 s on an idle cache", fl)));
        }
        let mut s = snapshot(&ck);
        for _ in 0..200 {
            if s.pol_queue_len == 0 && s.buf_len == 0 {
                break;
            }
            std::thread::sleep(Duration::from_millis(5));
            s = snapshot(&ck);
        }
        let m = s.metrics.unwrap_or([0; 11]);
        let l = lookups.load(AO::SeqCst);
        let cfgs = format!("{} buffer_items={} buffer={} max_cost={} threads={} keys={} validator={}", fl, buffer_items, buf_cap, max_cost, nthreads, nkeys, va);
        if let Some((old, new)) = vetoes.lock().unwrap().first().copied() {
            fails.push(("C09", round, format!("{}: an insert replaced the resident value {} by {} although the UpdateValidator (only newer values) vetoes that replacement", cfgs, old, new)));
        }
        if m[0] + m[1] != l {
            fails.push(("C17", round, format!("{}: hits {} + misses {} != {} lookups made by free-running threads", cfgs, m[0], m[1], l)));
        }
        if m[9] + m[10] + s.ring.len() as u64 != l {
            let msg = format!("{}: gets_kept {} + gets_dropped {} + {} still in the ring != {} lookups: a batch was accounted twice or lost", cfgs, m[10], m[9], s.ring.len(), l);
            fails.push(("C15", round, msg.clone()));
            fails.push(("C17", round, msg));
        }
        let mut res: Vec<u64> = s.store.iter().map(|e| e.index).collect();
        let mut chg: Vec<u64> = s.policy.key_costs.iter().map(|(k, _)| *k).collect();
        res.sort();
        chg.sort();
        if res != chg {
            fails.push(("C06", round, format!("{}: at quiescence after parallel load resident keys {:?} differ from charged keys {:?}", cfgs, res, chg)));
        }
        let used: i64 = s.policy.key_costs.iter().map(|(_, c)| *c).sum();
        if used != s.policy.used {
            fails.push(("C01", round, format!("{}: charged total {} is not the sum of the charges {}", cfgs, s.policy.used, used)));
        }
        if m[2].wrapping_sub(m[4]) != chg.len() as u64 || m[5].wrapping_sub(m[6]) != s.policy.used as u64 {
            fails.push(("C17", round, format!("{}: keys_added {} - keys_evicted {} vs {} charged entries, cost_added {} - cost_evicted {} vs charged total {}", cfgs, m[2], m[4], chg.len(), m[5], m[6], s.policy.used)));
        }
        // C08: one place per accepted value
        let mut handed: HashMap<u64, u32> = HashMap::new();
        for c in cb.0.lock().unwrap().iter() {
            let parts: Vec<&str> = c.split(':').collect();
            let v = match parts[0] { "exit" => parts[1].parse::<u64>().ok(), _ => parts[3].parse::<u64>().ok() };
            if let Some(v) = v {
                *handed.entry(v).or_default() += 1;
            }
        }
        let resident: std::collections::HashSet<u64> = s.store.iter().map(|e| e.value).collect();
        let over: std::collections::HashSet<u64> = overwritten.lock().unwrap().iter().copied().collect();
        for v in accepted.lock().unwrap().iter() {
            let n = handed.get(v).copied().unwrap_or(0) + if resident.contains(v) { 1 } else { 0 } + if over.contains(v) { 1 } else { 0 };
            if n != 1 {
                fails.push(("C08", round, format!("{}: value {} accepted by an insert is in {} places at quiescence (resident: {}, callbacks: {}, overwritten through get_mut: {})", cfgs, v, n, resident.contains(v), handed.get(v).copied().unwrap_or(0), over.contains(v))));
                break;
            }
        }
        t.step(&format!("stress {}", cfgs));
        t.mark_nontrivial();
        let _ = do_op(&ck, &Op::Close);
    }
    // ---- colliding keys under real parallelism (C18, C02): two keys per index, told apart by the
    // conflict hash only; every value carries the conflict hash of the key it was written under, and
    // no lookup of a key may ever return a value written under its twin, whatever the threads do.
    let base = fails.len();
    for cround in 0..rounds / 2 {
        if fails.len() > base + 8 {
            break;
        }
        let is_async = cround % 2 == 1;
        let round = 200_000 + cround;
        verif::clock::set_ns(1_700_000_000_000_000_000);
        let cb = Cb::default();
        let ck = Arc::new(if is_async {
            CK::A(AsyncCacheBuilder::new_with_key_builder(64, 1000, TableKB)
                .set_coster(Co(0)).set_update_validator(Va(0)).set_callback(cb.clone())
                .set_metrics(true).set_ignore_internal_cost(true).set_buffer_size(64)
                .set_hasher(SeedBH(seed ^ round))
                .finalize(spawner).expect("async cache"))
        } else {
            CK::S(CacheBuilder::new_with_key_builder(64, 1000, TableKB)
                .set_coster(Co(0)).set_update_validator(Va(0)).set_callback(cb.clone())
                .set_metrics(true).set_ignore_internal_cost(true).set_buffer_size(64)
                .set_hasher(SeedBH(seed ^ round))
                .finalize().expect("sync cache"))
        });
        t.case(round, "stress");
        let bad: Arc<Mutex<Vec<String>>> = Arc::new(Mutex::new(Vec::new()));
        // more threads than cores: a few churn the owner of each index (remove one twin, insert the
        // other), the rest update in place and look up, and get descheduled at every possible point
        let nthreads = 24u64;
        let mut hs = Vec::new();
        for th in 0..nthreads {
            let ck = ck.clone();
            let bad = bad.clone();
            let mut r = Rng::new(seed.wrapping_mul(17).wrapping_add(round * 71 + th));
            hs.push(std::thread::spawn(move || {
                for i in 0..1200u64 {
                    let idx = r.range(1, 2);
                    let conf = r.range(1, 2);
                    // a value says which key it was written under: low two bits = the conflict hash
                    let val = ((10_000 * (th + 1) + i) << 2) | conf;
                    let k = if th < 4 { r.below(6) } else { 2 + r.below(8) };
                    let res = match k {
                        0 | 1 => { let _ = do_op(&ck, &Op::Remove { idx, conf: 3 - conf }); do_op(&ck, &Op::Insert { idx, conf, val, cost: 1, ttl_ns: 0, only: false }) }
                        2..=5 => do_op(&ck, &Op::Insert { idx, conf, val, cost: 1, ttl_ns: 0, only: true }),
                        6 => do_op(&ck, &Op::GetMutWrite { idx, conf, val }),
                        _ => do_op(&ck, &Op::Get { idx, conf }),
                    };
                    // get:<value>:<ttl> / getmut:<old value>
                    let got = res.strip_prefix("get:").or_else(|| res.strip_prefix("getmut:")).and_then(|x| x.split(':').next()).and_then(|x| x.parse::<u64>().ok());
                    if let Some(v) = got {
                        if v & 3 != conf {
                            bad.lock().unwrap().push(format!("a lookup of key (index {}, conflict {}) returned {}, a value written under its twin (conflict {})", idx, conf, v, v & 3));
                            return;
                        }
                    }
                }
            }));
        }
        let t0 = Instant::now();
        while hs.iter().any(|h| !h.is_finished()) && t0.elapsed() < Duration::from_secs(60) {
            std::thread::sleep(Duration::from_millis(2));
        }
        let fl = if is_async { "async" } else { "sync" };
        if hs.iter().any(|h| !h.is_finished()) {
            fails.push(("C20", round, format!("{}: colliding keys under parallel load: a thread has not come back after 60 s", fl)));
            break;
        }
        for msg in bad.lock().unwrap().iter() {
            fails.push(("C18", round, format!("{}: {}", fl, msg)));
            fails.push(("C02", round, format!("{}: {}", fl, msg)));
        }
        total_ops += nthreads * 1200;
        t.step(&format!("stress collisions {}", fl));
        t.mark_nontrivial();
        let _ = do_op(&ck, &Op::Close);
    }
    // ---- TTLs read while the clock moves: a thread drives the virtual clock forward without pause
    // (so it also moves *inside* a call that reads it twice) while clients insert entries with a short
    // TTL and poll get_ttl() and ValueRef::ttl() until the entry is gone.  Nothing may panic (C20), and
    // the remaining TTL never exceeds d and never grows (C03).
    let base = fails.len();
    for eround in 0..rounds.min(100) {
        if fails.len() > base + 8 {
            break;
        }
        let is_async = eround % 2 == 1;
        let round = 100_000 + eround;
        let t_base = 1_700_000_000_000_000_000u64;
        verif::clock::set_ns(t_base);
        let cb = Cb::default();
        let ck = Arc::new(if is_async {
            CK::A(AsyncCacheBuilder::new_with_key_builder(64, 1000, TableKB)
                .set_coster(Co(0)).set_update_validator(Va(0)).set_callback(cb.clone())
                .set_metrics(true).set_ignore_internal_cost(true)
                .set_hasher(SeedBH(seed ^ round))
                .finalize(spawner).expect("async cache"))
        } else {
            CK::S(CacheBuilder::new_with_key_builder(64, 1000, TableKB)
                .set_coster(Co(0)).set_update_validator(Va(0)).set_callback(cb.clone())
                .set_metrics(true).set_ignore_internal_cost(true)
                .set_hasher(SeedBH(seed ^ round))
                .finalize().expect("sync cache"))
        });
        t.case(round, "stress");
        let stop = Arc::new(AtomicU64::new(0));
        let clock = {
            let stop = stop.clone();
            std::thread::spawn(move || {
                while stop.load(AO::Relaxed) == 0 {
                    verif::clock::advance_ns(157);
                    for _ in 0..8 {
                        std::hint::spin_loop();
                    }
                }
            })
        };
        let bad: Arc<Mutex<Vec<String>>> = Arc::new(Mutex::new(Vec::new()));
        let polled = Arc::new(AtomicU64::new(0));
        let mut hs = Vec::new();
        for th in 0..3u64 {
            let ck = ck.clone();
            let bad = bad.clone();
            let polled = polled.clone();
            hs.push(std::thread::spawn(move || {
                for i in 0..60u64 {
                    let idx = 1 + th * 1000 + i;
                    let ttl_ns = 3_000_000u64;
                    let r = std::panic::catch_unwind(std::panic::AssertUnwindSafe(|| {
                        let _ = do_op(&ck, &Op::Insert { idx, conf: 0, val: 9_000_000 + idx, cost: 1, ttl_ns, only: false });
                        let mut prev = u64::MAX;
                        let mut seen = false;
                        let deadline = verif::clock::now_ns() + 2 * ttl_ns;
                        for n in 0..400_000u64 {
                            if !seen && verif::clock::now_ns() > deadline {
                                // expired before the processor admitted it: nothing to poll
                                break;
                            }
                            let d = if n % 2 == 0 {
                                match &*ck { CK::S(c) => c.get_ttl(&mkkey(idx, 0)), CK::A(c) => c.get_ttl(&mkkey(idx, 0)) }
                            } else {
                                match &*ck {
                                    CK::S(c) => c.get(&mkkey(idx, 0)).map(|v| { let d = v.ttl(); v.release(); d }),
                                    CK::A(c) => futures::executor::block_on(c.get(&mkkey(idx, 0))).map(|v| { let d = v.ttl(); v.release(); d }),
                                }
                            };
                            match d {
                                Some(d) => {
                                    seen = true;
                                    let ns = d.as_nanos() as u64;
                                    if ns > ttl_ns {
                                        return Some(format!("key {} inserted with a TTL of {} ns reports {} ns remaining", idx, ttl_ns, ns));
                                    }
                                    if ns > prev {
                                        return Some(format!("the remaining TTL of key {} grew from {} to {} ns while the clock only moved forward", idx, prev, ns));
                                    }
                                    prev = ns;
                                }
                                None if seen => break,
                                None => {}
                            }
                        }
                        if seen {
                            polled.fetch_add(1, AO::Relaxed);
                        }
                        None
                    }));
                    match r {
                        Ok(None) => {}
                        Ok(Some(msg)) => { bad.lock().unwrap().push(msg); return; }
                        Err(e) => {
                            let msg = e.downcast_ref::<String>().cloned().or_else(|| e.downcast_ref::<&str>().map(|s| s.to_string())).unwrap_or_default();
                            bad.lock().unwrap().push(format!("PANIC reading the TTL of key {} at its deadline: {}", idx, msg));
                            return;
                        }
                    }
                }
            }));
        }
        let t0 = Instant::now();
        while hs.iter().any(|h| !h.is_finished()) && t0.elapsed() < Duration::from_secs(60) {
            std::thread::sleep(Duration::from_millis(2));
        }
        let hung = hs.iter().any(|h| !h.is_finished());
        stop.store(1, AO::SeqCst);
        let _ = clock.join();
        let fl = if is_async { "async" } else { "sync" };
        if hung {
            fails.push(("C20", round, format!("{}: polling TTLs while the clock moves: a thread has not come back after 60 s", fl)));
        }
        for msg in bad.lock().unwrap().iter() {
            if msg.starts_with("PANIC") {
                fails.push(("C20", round, format!("{}: {}", fl, msg)));
            }
            fails.push(("C03", round, format!("{}: {}", fl, msg)));
        }
        ttl_polled += polled.load(AO::SeqCst);
        t.step(&format!("stress ttl polling {}", fl));
        t.mark_nontrivial();
        if !hung {
            let _ = do_op(&ck, &Op::Close);
        }
        verif::clock::set_ns(t_base);
    }
    // ---- lifecycle under real parallelism: clear / wait / insert / remove from several threads while
    // another thread closes the cache.  Everybody must come back (C10, C11, C12: nothing blocks for
    // ever, whatever the race between an operation's is_closed check and its send), and once close()
    // has returned the cache is inert.
    let base = fails.len();
    for lround in 0..rounds * 24 {
        let is_async = lround % 2 == 0;
        // one round in six: long random loops; the others: a burst — every thread makes one call,
        // released at the same instant as close(), so that some of them are between their is_closed
        // check and their send when the flag is published
        if fails.len() > base + 8 {
            // enough evidence; every blocked round costs its whole timeout
            break;
        }
        let burst = lround % 6 != 0;
        // half of the bursts are clear() only, from six threads: signals pile up around the closer's own
        let storm = burst && lround % 3 == 1;
        let round = rounds + lround;
        let buf_cap = *rng.pick(&[1usize, 2, 8]);
        let nthreads = if storm { 6 } else { rng.range(3, 6) as usize };
        let cb = Cb::default();
        let ck = Arc::new(if is_async {
            CK::A(AsyncCacheBuilder::new_with_key_builder(64, 20, TableKB)
                .set_coster(Co(0)).set_update_validator(Va(0)).set_callback(cb.clone())
                .set_metrics(true).set_ignore_internal_cost(true).set_buffer_size(buf_cap)
                .set_hasher(SeedBH(seed ^ round))
                .finalize(spawner).expect("async cache"))
        } else {
            CK::S(CacheBuilder::new_with_key_builder(64, 20, TableKB)
                .set_coster(Co(0)).set_update_validator(Va(0)).set_callback(cb.clone())
                .set_metrics(true).set_ignore_internal_cost(true).set_buffer_size(buf_cap)
                .set_hasher(SeedBH(seed ^ round))
                .finalize().expect("sync cache"))
        });
        t.case(round, "stress");
        // per thread: 0 = finished, otherwise the code of the operation it is inside
        let state: Arc<Vec<AtomicU64>> = Arc::new((0..nthreads + 1).map(|_| AtomicU64::new(9)).collect());
        let go = Arc::new(AtomicU64::new(0));
        for th in 0..nthreads {
            let ck = ck.clone();
            let state = state.clone();
            let go = go.clone();
            let mut r = Rng::new(seed.wrapping_mul(131).wrapping_add(round * 89 + th as u64));
            std::thread::spawn(move || {
                while go.load(AO::SeqCst) == 0 {
                    std::hint::spin_loop();
                }
                for i in 0..(if burst { 1u64 } else { 300 }) {
                    let (code, op) = match if storm { 0 } else if burst { r.below(6) } else { r.below(10) } {
                        0..=2 => (1, Op::Clear),
                        3..=5 => (2, Op::Wait),
                        6..=7 => (3, Op::Insert { idx: r.range(1, 5), conf: 0, val: 5_000_000 + th as u64 * 1000 + i, cost: 1, ttl_ns: 0, only: false }),
                        8 => (4, Op::Remove { idx: r.range(1, 5), conf: 0 }),
                        _ => (5, Op::Get { idx: r.range(1, 5), conf: 0 }),
                    };
                    state[th].store(code, AO::SeqCst);
                    let _ = std::panic::catch_unwind(std::panic::AssertUnwindSafe(|| do_op(&ck, &op))).map_err(|_| state[th].store(100 + code, AO::SeqCst));
                    if state[th].load(AO::SeqCst) >= 100 {
                        return;
                    }
                }
                state[th].store(0, AO::SeqCst);
            });
        }
        {
            let ck = ck.clone();
            let state = state.clone();
            let go = go.clone();
            let spins = if burst { rng.below(200) } else { rng.below(20_000) };
            std::thread::spawn(move || {
                while go.load(AO::SeqCst) == 0 {
                    std::hint::spin_loop();
                }
                for _ in 0..spins {
                    std::hint::spin_loop();
                }
                state[nthreads].store(6, AO::SeqCst);
                let r1 = do_op(&ck, &Op::Close);
                let r2 = do_op(&ck, &Op::Close);
                state[nthreads].store(if r1 == "ok" && r2 == "ok" { 0 } else { 106 }, AO::SeqCst);
            });
        }
        go.store(1, AO::SeqCst);
        let t0 = Instant::now();
        while state.iter().any(|x| { let v = x.load(AO::SeqCst); v != 0 && v < 100 }) && t0.elapsed() < Duration::from_secs(10) {
            std::thread::sleep(Duration::from_millis(1));
        }
        let fl = if is_async { "async" } else { "sync" };
        let names = ["", "clear()", "wait()", "insert()", "remove()", "get()", "close()"];
        for (th, x) in state.iter().enumerate() {
            let v = x.load(AO::SeqCst);
            if v == 9 || v == 0 {
                continue;
            }
            let (what, code) = if v >= 100 { ("panicked or failed", (v - 100) as usize) } else { ("has not returned after 10 s", v as usize) };
            let prop = match (v >= 100, code) { (true, 6) => "C12", (true, _) => "C20", (_, 1) => "C11", (_, 2) => "C10", _ => "C12" };
            let msg = format!("{} buffer={} threads={}: {} of thread {} racing close() {}", fl, buf_cap, nthreads, names[code.min(6)], th, what);
            fails.push((prop, round, msg.clone()));
            if prop != "C12" {
                fails.push(("C12", round, msg));
            }
        }
        if state.iter().all(|x| x.load(AO::SeqCst) == 0) {
            // closed: everything is inert and returns at once
            let inert = do_op(&ck, &Op::Insert { idx: 1, conf: 0, val: 7_000_000, cost: 1, ttl_ns: 0, only: false }) == "false"
                && do_op(&ck, &Op::Get { idx: 1, conf: 0 }) == "get:none"
                && do_op(&ck, &Op::Wait) == "ok" && do_op(&ck, &Op::Clear) == "ok" && do_op(&ck, &Op::Remove { idx: 1, conf: 0 }) == "ok" && do_op(&ck, &Op::Close) == "ok";
            if !inert {
                fails.push(("C12", round, format!("{}: after close() returned Ok the cache is not inert", fl)));
            }
        }
        total_ops += nthreads as u64 * 300;
        t.step(&format!("stress lifecycle {} buffer={} threads={}", fl, buf_cap, nthreads));
        t.mark_nontrivial();
    }
    let mut seen = std::collections::HashSet::new();
    for (prop, round, msg) in &fails {
        if seen.insert((*prop, msg.clone())) {
            println!("MONITOR property={} case={} msg={}", prop, round, msg.replace(' ', "_"));
            // C19: AsyncCache satisfies every property above
            if msg.starts_with("async") && *prop != "C19" && seen.insert(("C19", msg.clone())) {
                println!("MONITOR property=C19 case={} msg={}_(property_{}_on_AsyncCache)", round, msg.replace(' ', "_"), prop);
            }
        }
    }
    stretto::verif::install(None);
    format!(",\"model\":false,\"parallel_ops\":{},\"ttl_entries_polled_to_expiry\":{},\"conservation_checks_failed\":{}", total_ops, ttl_polled, fails.len())
}

/// C05 / C20: the real cleanup ticker (crossbeam `tick`, async-io `Timer::interval`), which every other
/// suite replaces by a controllable channel.  Free-running caches of both flavours with a 100 ms and
/// a 250 ms cleanup interval: the processor must take its tick arm at about that rate (bounds are
/// loose: a third to twice the nominal count) and an entry whose TTL has elapsed (virtual clock) must
/// be reclaimed and handed to on_evict by it.  Not compared with the model (ticks are labels there).
pub fn suite_ticker(t: &mut Trace) -> String {
    let sched = Sched::new();
    stretto::verif::install(Some(sched.clone()));
    let mut rows = Vec::new();
    let mut id = 0u64;
    for is_async in [false, true] {
        for ms in [100u64, 250] {
            sched.reset();
            sched.set_controlled(false);
            verif::set_sync_ticker(None);
            verif::set_async_ticker(None);
            let t0 = 1_700_000_000_000_000_000u64;
            verif::clock::set_ns(t0);
            let cb = Cb::default();
            let ck = if is_async {
                CK::A(AsyncCacheBuilder::new_with_key_builder(64, 1000, TableKB)
                    .set_coster(Co(0)).set_update_validator(Va(0)).set_callback(cb.clone())
                    .set_metrics(true).set_ignore_internal_cost(true)
                    .set_cleanup_duration(Duration::from_millis(ms))
                    .set_hasher(SeedBH(7))
                    .finalize(spawner).expect("async cache"))
            } else {
                CK::S(CacheBuilder::new_with_key_builder(64, 1000, TableKB)
                    .set_coster(Co(0)).set_update_validator(Va(0)).set_callback(cb.clone())
                    .set_metrics(true).set_ignore_internal_cost(true)
                    .set_cleanup_duration(Duration::from_millis(ms))
                    .set_hasher(SeedBH(7))
                    .finalize().expect("sync cache"))
            };
            t.case(id, "ticker");
            let r1 = do_op(&ck, &Op::Insert { idx: 1, conf: 0, val: 1001, cost: 1, ttl_ns: 1_000_000_000, only: false });
            let r2 = do_op(&ck, &Op::Insert { idx: 2, conf: 0, val: 1002, cost: 1, ttl_ns: 0, only: false });
            let _ = do_op(&ck, &Op::Wait);
            let len_before = snapshot(&ck).store.len();
            verif::clock::set_ns(t0 + 10_000_000_000);
            let _ = sched.take_notes();
            let window = Duration::from_millis(1200);
            std::thread::sleep(window);
            let ticks = sched.take_notes().iter().filter(|(_, n, _)| *n == "proc:arm:tick").count() as u64;
            let s = snapshot(&ck);
            let evicted: Vec<String> = cb.0.lock().unwrap().clone();
            let nominal = 1200 / ms;
            let (lo, hi) = ((nominal / 3).max(1), nominal * 2 + 3);
            t.step(&format!("ticker async={} interval_ms={} inserted={},{} len_before={} ticks={} len_after={} callbacks={}",
                            is_async as u8, ms, r1, r2, len_before, ticks, s.store.len(), evicted.join("+")));
            t.mark_nontrivial();
            if ticks < lo || ticks > hi {
                println!("MONITOR property=C05 case={} msg=the_cleanup_ticker_fired_{}_times_in_1200_ms_with_a_{}_ms_interval_(expected_between_{}_and_{})_async={}", id, ticks, ms, lo, hi, is_async);
                println!("MONITOR property=C20 case={} msg=the_cleanup_ticker_fired_{}_times_in_1200_ms_with_a_{}_ms_interval_(expected_between_{}_and_{})_async={}", id, ticks, ms, lo, hi, is_async);
            }
            let ttl_gone = !s.store.iter().any(|e| e.index == 1);
            let keep = s.store.iter().any(|e| e.index == 2);
            if len_before != 2 || !ttl_gone || !keep || !evicted.iter().any(|c| c.starts_with("evict:1:")) {
                println!("MONITOR property=C05 case={} msg=with_the_real_ticker_({}_ms)_the_expired_entry_was_not_reclaimed_or_the_live_one_was:_len_before={}_store_after={:?}_callbacks={:?}_async={}",
                         id, ms, len_before, s.store.iter().map(|e| e.index).collect::<Vec<_>>(), evicted, is_async);
            }
            rows.push(format!("{{\"async\":{},\"interval_ms\":{},\"ticks_in_1200ms\":{}}}", is_async, ms, ticks));
            let _ = do_op(&ck, &Op::Close);
            id += 1;
        }
    }
    stretto::verif::install(None);
    format!(",\"model\":false,\"ticker_measurements\":[{}]", rows.join(","))
}

/// A spawner that runs every background task of an AsyncCache on ONE executor thread (a
/// `LocalPool`): the cache processor and the policy worker then share a thread, so any place where
/// one of them blocks the thread instead of awaiting (a blocking wait, a lock held across an await)
/// while it needs the other to move shows up as a hang.  C19: "on any executor supplied as spawner".
/// (The builder wants a `Copy` spawner, hence a plain fn and a global sender.)
static ONE_THREAD_TX: Mutex<Option<futures::channel::mpsc::UnboundedSender<futures::future::BoxFuture<'static, ()>>>> = Mutex::new(None);

pub fn start_one_thread_executor() {
    use futures::channel::mpsc::unbounded;
    use futures::executor::LocalPool;
    use futures::task::LocalSpawnExt;
    use futures::StreamExt;
    let (tx, mut rx) = unbounded::<futures::future::BoxFuture<'static, ()>>();
    std::thread::spawn(move || {
        let mut pool = LocalPool::new();
        let sp = pool.spawner();
        let sp2 = sp.clone();
        sp.spawn_local(async move {
            while let Some(f) = rx.next().await {
                let _ = sp2.spawn_local(f);
            }
        })
        .unwrap();
        pool.run();
    });
    *ONE_THREAD_TX.lock().unwrap() = Some(tx);
}

pub fn one_thread_spawner(f: futures::future::BoxFuture<'static, ()>) {
    if let Some(tx) = ONE_THREAD_TX.lock().unwrap().as_ref() {
        let _ = tx.unbounded_send(f);
    }
}

/// The all-default cache (`Cache::new` / `AsyncCache::new`: DefaultKeyBuilder, DefaultCoster,
/// DefaultUpdateValidator, DefaultCacheCallback, RandomState), which the other suites never build:
/// constructor arguments arrive, the default validator accepts, the default coster adds nothing,
/// the default key builder finds a key again (also through its borrowed form).  Free-running, not
/// compared with the model; every expectation below is a direct reading of the property texts.
pub fn suite_defaults(t: &mut Trace) -> String {
    use futures::executor::block_on;
    stretto::verif::install(None);
    let mut id = 0u64;
    let mut fails: Vec<(&str, String)> = Vec::new();
    macro_rules! check { ($prop:expr, $cond:expr, $($msg:tt)*) => { if !($cond) { fails.push(($prop, format!($($msg)*))); } } }
    // ---- sync
    {
        t.case(id, "defaults");
        let c: Cache<u64, u64> = Cache::new(100, 5000).expect("Cache::new");
        check!("C20", c.max_cost() == 5000, "Cache::new(100, 5000).max_cost() is {}", c.max_cost());
        check!("C09", c.insert(1, 11, 5), "insert of a new key returned false on the default cache");
        let _ = c.wait();
        check!("C02", c.get(&1).map(|v| { let x = *v.value(); v.release(); x }) == Some(11), "get(1) after insert(1, 11) and wait() is not 11");
        check!("C09", c.insert(1, 12, 0), "re-insert of a resident key returned false with the default validator");
        check!("C09", c.get(&1).map(|v| { let x = *v.value(); v.release(); x }) == Some(12), "the default validator did not let insert(1, 12) replace 11 at once");
        let _ = c.wait();
        let s = verif::snapshot(&c);
        check!("C16", s.policy.key_costs.len() == 1 && s.policy.key_costs[0].1 == s.item_size as i64,
               "cost 0 with the default coster must charge the overhead only ({}), charges are {:?}", s.item_size, s.policy.key_costs);
        check!("C09", !c.insert_if_present(2, 21, 1) && c.len() == 1, "insert_if_present on an absent key returned true or added an entry (len {})", c.len());
        c.remove(&1);
        let _ = c.wait();
        check!("C02", c.get(&1).is_none() && c.len() == 0, "get(1) after remove(1) and wait() still finds something");
        let b: Cache<u64, u64, stretto::TransparentKeyBuilder<u64>> = Cache::<u64, u64>::builder(1, 1)
            .set_num_counters(200).set_max_cost(77).set_buffer_size(8).set_buffer_items(4)
            .set_key_builder(stretto::TransparentKeyBuilder::<u64>::default()).finalize().expect("builder");
        check!("C20", b.max_cost() == 77, "builder.set_max_cost(77) gives max_cost() = {}", b.max_cost());
        let sb = verif::snapshot(&b);
        check!("C20", sb.policy.tlfu.samples == 200, "builder.set_num_counters(200) gives an aging window of {}", sb.policy.tlfu.samples);
        check!("C18", b.insert(9, 90, 1) && b.wait().is_ok() && verif::snapshot(&b).store.iter().any(|e| e.index == 9 && e.conflict == 0),
               "set_key_builder(TransparentKeyBuilder) does not store key 9 under index 9 / conflict 0");
        let _ = b.close();
        let sc: Cache<String, u64> = Cache::new(100, 5000).expect("Cache::new");
        check!("C18", sc.insert("alpha".to_string(), 7, 1), "insert(String) returned false");
        let _ = sc.wait();
        check!("C18", sc.get(&"alpha".to_string()).map(|v| { let x = *v.value(); v.release(); x }) == Some(7), "DefaultKeyBuilder does not find a String key again");
        check!("C18", sc.get("alpha").map(|v| { let x = *v.value(); v.release(); x }) == Some(7), "DefaultKeyBuilder does not find a String key through its borrowed &str form");
        check!("C18", sc.get("alphb").is_none(), "DefaultKeyBuilder confuses two different keys");
        check!("C11", c.clear().is_ok() && sc.clear().is_ok(), "clear() failed on the default cache");
        check!("C12", c.close().is_ok() && sc.close().is_ok() && c.close().is_ok(), "close() (twice) failed on the default cache");
        check!("C12", !c.insert(3, 3, 1) && c.get(&3).is_none(), "a closed default cache accepted an insert");
        t.step("defaults sync");
        t.mark_nontrivial();
        id += 1;
    }
    // ---- async
    {
        t.case(id, "defaults");
        let c: AsyncCache<u64, u64> = AsyncCache::new(100, 5000, spawner).expect("AsyncCache::new");
        check!("C20", c.max_cost() == 5000, "AsyncCache::new(100, 5000).max_cost() is {}", c.max_cost());
        check!("C09", block_on(c.insert(1, 11, 5)), "async: insert of a new key returned false on the default cache");
        let _ = block_on(c.wait());
        check!("C02", block_on(c.get(&1)).map(|v| { let x = *v.value(); v.release(); x }) == Some(11), "async: get(1) after insert(1, 11) and wait() is not 11");
        check!("C09", block_on(c.insert(1, 12, 0)), "async: re-insert of a resident key returned false with the default validator");
        check!("C09", block_on(c.get(&1)).map(|v| { let x = *v.value(); v.release(); x }) == Some(12), "async: the default validator did not let insert(1, 12) replace 11 at once");
        let _ = block_on(c.wait());
        let s = verif::snapshot_async(&c);
        check!("C16", s.policy.key_costs.len() == 1 && s.policy.key_costs[0].1 == s.item_size as i64,
               "async: cost 0 with the default coster must charge the overhead only ({}), charges are {:?}", s.item_size, s.policy.key_costs);
        check!("C09", !block_on(c.insert_if_present(2, 21, 1)) && c.len() == 1, "async: insert_if_present on an absent key returned true or added an entry");
        block_on(c.remove(&1));
        let _ = block_on(c.wait());
        check!("C02", block_on(c.get(&1)).is_none() && c.len() == 0, "async: get(1) after remove(1) and wait() still finds something");
        check!("C11", block_on(c.clear()).is_ok(), "async: clear() failed on the default cache");
        check!("C12", block_on(c.close()).is_ok() && block_on(c.close()).is_ok(), "async: close() (twice) failed on the default cache");
        check!("C12", !block_on(c.insert(3, 3, 1)), "async: a closed default cache accepted an insert");
        t.step("defaults async");
        t.mark_nontrivial();
    }
    // ---- C12: every handle dropped without close(): both workers of both flavours must exit
    {
        let sched = Sched::new();
        stretto::verif::install(Some(sched.clone()));
        sched.reset();
        sched.set_controlled(false);
        for is_async in [false, true] {
            id += 1;
            t.case(id, "defaults");
            let _ = sched.take_notes();
            if is_async {
                let c: AsyncCache<u64, u64> = AsyncCache::new(100, 5000, spawner).expect("AsyncCache::new");
                let c2 = c.clone();
                let _ = block_on(c.insert(1, 11, 5));
                let _ = block_on(c2.wait());
                let _ = block_on(c2.get(&1)).map(|v| v.release());
                drop(c);
                drop(c2);
            } else {
                let c: Cache<u64, u64> = Cache::new(100, 5000).expect("Cache::new");
                let c2 = c.clone();
                let _ = c.insert(1, 11, 5);
                let _ = c2.wait();
                let _ = c2.get(&1).map(|v| v.release());
                drop(c);
                drop(c2);
            }
            let (mut pe, mut we) = (false, false);
            let t0 = Instant::now();
            while !(pe && we) && t0.elapsed() < Duration::from_secs(5) {
                std::thread::sleep(Duration::from_millis(10));
                for (_, n, _) in sched.take_notes() {
                    pe |= n == "proc:exit";
                    we |= n == "pol:exit";
                }
            }
            let fl = if is_async { "async" } else { "sync" };
            check!("C12", pe, "{}: the cache processor did not exit within 5 s after every handle was dropped without close()", fl);
            check!("C12", we, "{}: the policy worker did not exit within 5 s after every handle was dropped without close()", fl);
            t.step(&format!("defaults drop {}", fl));
            t.mark_nontrivial();
        }
        stretto::verif::install(None);
    }
    // ---- C19: every background task of an AsyncCache on ONE executor thread
    {
        id += 1;
        t.case(id, "defaults");
        start_one_thread_executor();
        let done = Arc::new(Mutex::new(Vec::<String>::new()));
        let d2 = done.clone();
        let h = std::thread::spawn(move || {
            let log = |s: &str| d2.lock().unwrap().push(s.to_string());
            let c: AsyncCache<u64, u64> = match AsyncCache::builder(100, 20).set_ignore_internal_cost(true).set_buffer_items(2).set_metrics(true).finalize(one_thread_spawner) {
                Ok(c) => c,
                Err(_) => { log("BAD builder"); return; }
            };
            log("built");
            let mut ok = true;
            for k in 0..30u64 {
                ok &= block_on(c.insert(k, k + 100, 1));
                let _ = block_on(c.get(&k)).map(|v| v.release());
                let _ = block_on(c.get(&k)).map(|v| v.release());
            }
            log(if ok { "inserted" } else { "BAD an insert was refused" });
            log(if block_on(c.wait()).is_ok() { "waited" } else { "BAD wait() failed" });
            let n = (0..30u64).filter(|k| block_on(c.get(k)).map(|v| { let x = *v.value(); v.release(); x }) == Some(k + 100)).count();
            log(&format!("{} {} of 30 keys retrievable, len {}", if n == c.len() && n >= 15 { "found" } else { "BAD" }, n, c.len()));
            block_on(c.remove(&1));
            log(if block_on(c.wait()).is_ok() && block_on(c.get(&1)).is_none() { "removed" } else { "BAD remove" });
            log(if block_on(c.clear()).is_ok() && c.len() == 0 { "cleared" } else { "BAD clear" });
            log(if block_on(c.insert(7, 7, 1)) && block_on(c.wait()).is_ok() { "reused" } else { "BAD insert after clear" });
            log(if block_on(c.close()).is_ok() && block_on(c.close()).is_ok() { "closed" } else { "BAD close" });
            log(if !block_on(c.insert(8, 8, 1)) && block_on(c.wait()).is_ok() && block_on(c.clear()).is_ok() { "inert" } else { "BAD not inert after close" });
            log("end");
        });
        let t0 = Instant::now();
        while !h.is_finished() && t0.elapsed() < Duration::from_secs(20) {
            std::thread::sleep(Duration::from_millis(5));
        }
        let steps = done.lock().unwrap().clone();
        let last = steps.last().cloned().unwrap_or_default();
        check!("C19", h.is_finished() && last == "end", "AsyncCache with every background task on one executor thread: the client did not get past '{}' within 20 s", last);
        for s in steps.iter().filter(|s| s.starts_with("BAD")) {
            check!("C19", false, "AsyncCache with every background task on one executor thread: {}", s);
        }
        t.step("defaults one-thread executor");
        t.mark_nontrivial();
    }
    for (prop, msg) in &fails {
        println!("MONITOR property={} case=0 msg={}", prop, msg.replace(' ', "_"));
    }
    format!(",\"model\":false,\"default_cache_expectations_failed\":{}", fails.len())
}
